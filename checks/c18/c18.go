// Package c18 decides C18: generic and simple forms convert losslessly and
// copy deeply. Bounded-exhaustive over value trees: every conversion chain is
// compared kind-exactly with the pristine tree, writer text of the gen form
// with the text of the simple form, gen.Parser with Generify(oj.Parser), and
// every copying operation goes through a mutate-after-copy experiment for
// every container position and mutation on either side.
package c18

import (
	"encoding/json"
	"fmt"
	"math"
	"sort"
	"strconv"
	"strings"
	"testing/iotest"
	"time"

	"github.com/ohler55/ojg"
	"github.com/ohler55/ojg/alt"
	"github.com/ohler55/ojg/gen"
	"github.com/ohler55/ojg/oj"
	"github.com/ohler55/ojg/pretty"
	"github.com/ohler55/ojg/sen"

	"verif/internal/core"
	"verif/internal/gens"
)

func init() {
	core.Register(&core.Check{
		ID:     "C18",
		Level:  "exploration",
		Shards: func(tier string) int { return 64 },
		Run:    run,
		Replay: replay,
		Rule: "trees from gens.Trees over two leaf alphabets (full: nil, bools, int64 boundaries, floats incl. integral/denormal/max, strings incl. empty/escapes/multi-byte, time.Time UTC and zoned, big number text; reduced: nil, int64, string, time, big) with []any and map[string]any containers (empty and nested empty included); " +
			"per tree: 14 conversion chains under null-keeping options compared kind-exactly with the pristine tree (a composite is judged only when its first stage is right), oj.JSON and sen.String of the hand-built gen form against the simple form under 3 option vectors (Sort on), " +
			"gen.Parser.Parse against alt.Generify(oj.Parser.Parse) on the rendered tree, and for each of the 5 copying operations one mutate-after-copy experiment per (side, container position, mutation in {replace leaf, overwrite element, append element, add key, delete key}) with a canonical kind-exact snapshot of the other side. " +
			"distinct_nontrivial = conversion/writer/parser comparisons on trees that are not a bare scalar, plus aliasing experiments; evaluations = executions of ojg conversion, writer and parser entry points",
		Assumptions: []string{
			"options that keep nulls = &ojg.Options{} (OmitNil false), plus TimeFormat \"time\" for Decompose/Dup on trees holding a time.Time (the documented way to leave times unchanged)",
			"big number text: json.Number coming back as json.Number or as a string with the same text both count as preserved (gen.Big documents Simplify to string); nil or other text is a loss",
			"time.Time must come back as time.Time for the same instant; the location pointer is not compared",
			"the gen form used for Dup/Simplify/Alter and the writers is built by hand (not by alt.Generify)",
			"the in-place variants (alt.Alter, alt.GenAlter, Node.Alter) are only required to preserve the value",
		},
		Bound: func(tier string) string {
			if tier == "thorough" {
				return "full alphabet (30 leaves) trees <= 4 nodes, reduced alphabet (5 leaves) trees <= 7 nodes, keys a,b,c; all container positions x 5 mutations x 2 sides x 5 copying operations"
			}
			return "full alphabet (30 leaves) trees <= 3 nodes, reduced alphabet (5 leaves) trees <= 6 nodes, keys a,b; all container positions x 5 mutations x 2 sides x 5 copying operations"
		},
	})
}

// ---------------------------------------------------------------- alphabets

var (
	t0    = time.Unix(1700000000, 123456789).UTC()
	tZone = time.Unix(1600000000, 5).In(time.FixedZone("fixed3600", 3600))
	big1  = json.Number("12345678901234567890")
)

func fullLeaves() []any {
	return []any{
		nil, true, false,
		int64(0), int64(1), int64(-1), int64(1 << 31), int64(1<<53 + 1), int64(math.MinInt64), int64(math.MaxInt64),
		float64(1), float64(1.5), float64(-2.25), float64(1e21), float64(1e-7), float64(5e-324), float64(math.MaxFloat64), float64(123456789.125), float64(0.1), float64(2.2250738585072014e-308), float64(0.1234567890123456),
		float64(203.18687664732286), // 17 digits: more than 2^53 as an integer of digits
		"", "s", "q\"\\\n\t", "é 😀",
		t0, tZone,
		big1, json.Number("-1.5e999"), json.Number("0.12345678901234567890123"), json.Number("0.123456789012345678"), // 23 and 18 fraction digits
	}
}

func reducedLeaves() []any { return []any{nil, int64(1), "s", t0, big1} }

// ---------------------------------------------------------------- own conversions and dumps

func toGen(v any) gen.Node {
	switch t := v.(type) {
	case nil:
		return nil
	case bool:
		return gen.Bool(t)
	case int64:
		return gen.Int(t)
	case float64:
		return gen.Float(t)
	case string:
		return gen.String(t)
	case time.Time:
		return gen.Time(t)
	case json.Number:
		return gen.Big(t)
	case []any:
		a := make(gen.Array, len(t))
		for i, e := range t {
			a[i] = toGen(e)
		}
		return a
	case map[string]any:
		o := make(gen.Object, len(t))
		for k, e := range t {
			o[k] = toGen(e)
		}
		return o
	}
	panic(fmt.Sprintf("c18: toGen %T", v))
}

type foreign struct{ desc string }

// fromGen views a gen tree as a simple tree (Big as json.Number); nil-ness of
// containers is kept, unknown node types become a marker.
func fromGen(n any) any {
	switch t := n.(type) {
	case nil:
		return nil
	case gen.Bool:
		return bool(t)
	case gen.Int:
		return int64(t)
	case gen.Float:
		return float64(t)
	case gen.String:
		return string(t)
	case gen.Time:
		return time.Time(t)
	case gen.Big:
		return json.Number(t)
	case gen.Array:
		if t == nil {
			return []any(nil)
		}
		a := make([]any, len(t))
		for i, e := range t {
			a[i] = fromGen(nodeAny(e))
		}
		return a
	case gen.Object:
		if t == nil {
			return map[string]any(nil)
		}
		o := make(map[string]any, len(t))
		for k, e := range t {
			o[k] = fromGen(nodeAny(e))
		}
		return o
	}
	return foreign{fmt.Sprintf("%T", n)}
}

func nodeAny(n gen.Node) any {
	if n == nil {
		return nil
	}
	return n
}

// dump is a canonical kind-exact rendering of a simple or gen tree.
func dump(v any) string {
	var b strings.Builder
	dumpTo(&b, v)
	return b.String()
}

func dumpTo(b *strings.Builder, v any) {
	switch t := v.(type) {
	case nil:
		b.WriteString("nil")
	case bool:
		b.WriteString("b:" + strconv.FormatBool(t))
	case int64:
		b.WriteString("i:" + strconv.FormatInt(t, 10))
	case float64:
		b.WriteString("f:" + strconv.FormatUint(math.Float64bits(t), 16))
	case string:
		b.WriteString("s:" + strconv.Quote(t))
	case time.Time:
		b.WriteString("t:" + strconv.FormatInt(t.UnixNano(), 10))
	case json.Number:
		b.WriteString("n:" + string(t))
	case []any:
		if t == nil {
			b.WriteString("nil[]")
			return
		}
		b.WriteByte('[')
		for i, e := range t {
			if i > 0 {
				b.WriteByte(' ')
			}
			dumpTo(b, e)
		}
		b.WriteByte(']')
	case map[string]any:
		if t == nil {
			b.WriteString("nil{}")
			return
		}
		ks := make([]string, 0, len(t))
		for k := range t {
			ks = append(ks, k)
		}
		sort.Strings(ks)
		b.WriteByte('{')
		for i, k := range ks {
			if i > 0 {
				b.WriteByte(' ')
			}
			b.WriteString(strconv.Quote(k) + ":")
			dumpTo(b, t[k])
		}
		b.WriteByte('}')
	case gen.Bool:
		b.WriteString("gb:" + strconv.FormatBool(bool(t)))
	case gen.Int:
		b.WriteString("gi:" + strconv.FormatInt(int64(t), 10))
	case gen.Float:
		b.WriteString("gf:" + strconv.FormatUint(math.Float64bits(float64(t)), 16))
	case gen.String:
		b.WriteString("gs:" + strconv.Quote(string(t)))
	case gen.Time:
		b.WriteString("gt:" + strconv.FormatInt(time.Time(t).UnixNano(), 10))
	case gen.Big:
		b.WriteString("gn:" + string(t))
	case gen.Array:
		if t == nil {
			b.WriteString("gnil[]")
			return
		}
		b.WriteString("g[")
		for i, e := range t {
			if i > 0 {
				b.WriteByte(' ')
			}
			dumpTo(b, nodeAny(e))
		}
		b.WriteByte(']')
	case gen.Object:
		if t == nil {
			b.WriteString("gnil{}")
			return
		}
		ks := make([]string, 0, len(t))
		for k := range t {
			ks = append(ks, k)
		}
		sort.Strings(ks)
		b.WriteString("g{")
		for i, k := range ks {
			if i > 0 {
				b.WriteByte(' ')
			}
			b.WriteString(strconv.Quote(k) + ":")
			dumpTo(b, nodeAny(t[k]))
		}
		b.WriteByte('}')
	default:
		fmt.Fprintf(b, "?%T(%v)", v, v)
	}
}

func kindOf(v any) string {
	switch t := v.(type) {
	case nil:
		return "nil"
	case bool:
		return "bool"
	case int64:
		return "int"
	case float64:
		return "float"
	case string:
		return "string"
	case time.Time:
		return "time"
	case json.Number:
		return "big"
	case []any:
		if len(t) == 0 {
			return "empty-array"
		}
		return "array"
	case map[string]any:
		if len(t) == 0 {
			return "empty-object"
		}
		return "object"
	}
	return fmt.Sprintf("%T", v)
}

func hasTime(v any) bool {
	switch t := v.(type) {
	case time.Time:
		return true
	case []any:
		for _, e := range t {
			if hasTime(e) {
				return true
			}
		}
	case map[string]any:
		for _, e := range t {
			if hasTime(e) {
				return true
			}
		}
	}
	return false
}

func nodes(v any) int {
	n := 1
	switch t := v.(type) {
	case []any:
		for _, e := range t {
			n += nodes(e)
		}
	case map[string]any:
		for _, e := range t {
			n += nodes(e)
		}
	}
	return n
}

func depthClass(d int) string {
	if d >= 2 {
		return "2+"
	}
	return strconv.Itoa(d)
}

// ---------------------------------------------------------------- value comparison

type mismatch struct {
	kind  string // node kind of the expected value at the divergence
	depth int
	class string // lost | changed-kind | changed-value | extra
	exp   string
	got   string
}

// compare walks the expected simple tree and the result in parallel and
// returns the first divergence (nil = value preserved exactly).
func compare(exp, got any, depth int) *mismatch {
	mk := func(class string) *mismatch {
		return &mismatch{kind: kindOf(exp), depth: depth, class: class, exp: gens.Show(exp), got: showAny(got)}
	}
	switch e := exp.(type) {
	case nil:
		if got != nil {
			return mk("changed-kind")
		}
		return nil
	case []any:
		g, ok := got.([]any)
		switch {
		case got == nil:
			return mk("lost")
		case !ok, g == nil:
			return mk("changed-kind") // other type, or an empty array turned into a nil slice
		}
		for i := range e {
			if i >= len(g) {
				return &mismatch{kind: kindOf(e[i]), depth: depth + 1, class: "lost", exp: gens.Show(exp), got: showAny(got)}
			}
			if m := compare(e[i], g[i], depth+1); m != nil {
				return m
			}
		}
		if len(g) > len(e) {
			return mk("extra")
		}
		return nil
	case map[string]any:
		g, ok := got.(map[string]any)
		switch {
		case got == nil:
			return mk("lost")
		case !ok, g == nil:
			return mk("changed-kind")
		}
		ks := make([]string, 0, len(e))
		for k := range e {
			ks = append(ks, k)
		}
		sort.Strings(ks)
		for _, k := range ks {
			gv, has := g[k]
			if !has {
				return &mismatch{kind: kindOf(e[k]), depth: depth + 1, class: "lost", exp: gens.Show(exp), got: showAny(got)}
			}
			if m := compare(e[k], gv, depth+1); m != nil {
				return m
			}
		}
		if len(g) > len(e) {
			return mk("extra")
		}
		return nil
	case bool:
		g, ok := got.(bool)
		return leafVerdict(mk, got, ok, ok && g == e)
	case int64:
		g, ok := got.(int64)
		return leafVerdict(mk, got, ok, ok && g == e)
	case float64:
		g, ok := got.(float64)
		return leafVerdict(mk, got, ok, ok && math.Float64bits(g) == math.Float64bits(e))
	case string:
		g, ok := got.(string)
		return leafVerdict(mk, got, ok, ok && g == e)
	case time.Time:
		g, ok := got.(time.Time)
		return leafVerdict(mk, got, ok, ok && g.Equal(e) && g.UnixNano() == e.UnixNano())
	case json.Number:
		switch g := got.(type) {
		case json.Number:
			return leafVerdict(mk, got, true, g == e)
		case string: // gen.Big documents Simplify/Alter to string: the text must survive
			return leafVerdict(mk, got, true, g == string(e))
		}
		return leafVerdict(mk, got, false, false)
	}
	panic(fmt.Sprintf("c18: compare %T", exp))
}

func leafVerdict(mk func(string) *mismatch, got any, sameKind, same bool) *mismatch {
	switch {
	case same:
		return nil
	case got == nil:
		return mk("lost")
	case !sameKind:
		return mk("changed-kind")
	}
	return mk("changed-value")
}

func showAny(v any) string {
	switch v.(type) {
	case foreign:
		return fmt.Sprintf("%v", v)
	}
	s := gens.Show(v)
	return s
}

// ---------------------------------------------------------------- operations

var (
	keep     = &ojg.Options{}
	keepTime = &ojg.Options{TimeFormat: "time"}
)

type convOp struct {
	name  string
	stage string // name of the first stage when this is a composite
	run   func(t any) any
	// skip: not applicable to this tree
	skip func(t any) bool
}

func simplifyNode(n gen.Node) any {
	if n == nil {
		return nil
	}
	return n.Simplify()
}

func alterNode(n gen.Node) any {
	if n == nil {
		return nil
	}
	return n.Alter()
}

func convOps() []convOp {
	noTimeless := func(t any) bool { return hasTime(t) }
	return []convOp{
		{name: "Generify", run: func(t any) any { return fromGen(nodeAny(alt.Generify(t, keep))) }},
		{name: "Generify>Simplify", stage: "Generify", run: func(t any) any { return simplifyNode(alt.Generify(t, keep)) }},
		{name: "Generify>Alter", stage: "Generify", run: func(t any) any { return alterNode(alt.Generify(t, keep)) }},
		{name: "GenAlter", run: func(t any) any { return fromGen(nodeAny(alt.GenAlter(t, keep))) }},
		{name: "GenAlter>Simplify", stage: "GenAlter", run: func(t any) any { return simplifyNode(alt.GenAlter(t, keep)) }},
		{name: "GenAlter>Alter", stage: "GenAlter", run: func(t any) any { return alterNode(alt.GenAlter(t, keep)) }},
		{name: "GenAlter>alt.Alter", stage: "GenAlter", run: func(t any) any { return alt.Alter(nodeAny(alt.GenAlter(t, keep)), keep) }},
		{name: "Node.Dup", run: func(t any) any {
			g := toGen(t)
			if g == nil {
				return nil
			}
			return fromGen(nodeAny(g.Dup()))
		}},
		{name: "Node.Simplify", run: func(t any) any { return simplifyNode(toGen(t)) }},
		{name: "Node.Alter", run: func(t any) any { return alterNode(toGen(t)) }},
		{name: "alt.Dup", run: func(t any) any { return alt.Dup(t, keepTime) }},
		{name: "alt.Decompose", run: func(t any) any { return alt.Decompose(t, keepTime) }},
		{name: "alt.Decompose/timeformat-default", run: func(t any) any { return alt.Decompose(t, keep) }, skip: noTimeless},
		{name: "alt.Alter", run: func(t any) any { return alt.Alter(t, keep) }},
	}
}

func guard(f func() any) (out any, pan any) {
	defer func() {
		if r := recover(); r != nil {
			pan = r
		}
	}()
	return f(), nil
}

func panicKind(r any) string {
	s := fmt.Sprint(r)
	for _, k := range []string{"index out of range", "nil pointer", "slice bounds", "interface conversion", "nil map", "uncomparable", "divide by zero"} {
		if strings.Contains(s, k) {
			return strings.ReplaceAll(k, " ", "-")
		}
	}
	return "other"
}

// ---------------------------------------------------------------- cases

type caseT struct {
	Fam  string `json:"fam"` // conv | write | parse | alias
	Op   string `json:"op"`
	Tree any    `json:"tree"`
	Side string `json:"side,omitempty"`
	Mut  *mut   `json:"mut,omitempty"`
	Opt  int    `json:"opt,omitempty"`
	Show string `json:"show"`
}

type finding struct {
	op, kind, class string
	depth           int
	exp, obs        string
}

type checker struct {
	c *core.Ctx
	// anyDepth: (op|kind|class) fails at depth 0, 1 and 2 alike on the leaf
	// family: the depth coordinate is then written as "any".
	anyDepth map[string]bool
}

func (k *checker) sig(f finding) string {
	d := depthClass(f.depth)
	if k.anyDepth[f.op+"|"+f.kind+"|"+f.class] {
		d = "any"
	}
	return core.Sig("op="+f.op, "node="+f.kind, "depth="+d, f.class)
}

// convFindings judges every conversion chain on tree t.
func convFindings(c *core.Ctx, t any) []finding {
	var out []finding
	failed := map[string]bool{}
	for _, op := range convOps() {
		if op.skip != nil && op.skip(t) {
			continue
		}
		if op.stage != "" && failed[op.stage] {
			continue // judged at its first stage
		}
		in := gens.Clone(t)
		got, pan := guard(func() any { return op.run(in) })
		if c != nil {
			c.Eval()
		}
		if pan != nil {
			failed[op.name] = true
			out = append(out, finding{op: op.name, kind: kindOf(t), class: "panic:" + panicKind(pan), exp: gens.Show(t), obs: fmt.Sprint(pan)})
			continue
		}
		if m := compare(t, got, 0); m != nil {
			failed[op.name] = true
			out = append(out, finding{op: op.name, kind: m.kind, depth: m.depth, class: m.class, exp: "value preserved: " + gens.Show(t), obs: showAny(got)})
		}
	}
	return out
}

// ---------------------------------------------------------------- writers

func writeOpts(i int) *ojg.Options {
	switch i {
	case 1:
		return &ojg.Options{Sort: true, Indent: 2}
	case 2:
		return &ojg.Options{Sort: true, TimeFormat: time.RFC3339Nano}
	}
	return &ojg.Options{Sort: true}
}

const nWriteOpts = 3

func writeBoth(writer string, t any, opt int) (sText, gText string, pan any) {
	defer func() {
		if r := recover(); r != nil {
			pan = r
		}
	}()
	g := nodeAny(toGen(t))
	if writer == "oj.JSON" {
		return oj.JSON(t, writeOpts(opt)), oj.JSON(g, writeOpts(opt)), nil
	}
	return sen.String(t, writeOpts(opt)), sen.String(g, writeOpts(opt)), nil
}

// locateWrite finds the smallest subtree whose two texts differ.
func locateWrite(writer string, t any, opt, depth int) (kind string, d int) {
	var kids []any
	switch tt := t.(type) {
	case []any:
		kids = tt
	case map[string]any:
		ks := make([]string, 0, len(tt))
		for k := range tt {
			ks = append(ks, k)
		}
		sort.Strings(ks)
		for _, k := range ks {
			kids = append(kids, tt[k])
		}
	}
	for _, kid := range kids {
		if s, g, pan := writeBoth(writer, kid, opt); pan != nil || s != g {
			return locateWrite(writer, kid, opt, depth+1)
		}
	}
	return kindOf(t), depth
}

// prettyBoth writes the simple and the gen form with the pretty writer.
func prettyBoth(senForm, color bool, t any, width, maxDepth int) (sText, gText string, pan any) {
	defer func() {
		if r := recover(); r != nil {
			pan = r
		}
	}()
	g := nodeAny(toGen(t))
	opt := ojg.DefaultOptions // the colour strings of the defaults
	opt.Sort, opt.OmitNil, opt.Color = true, false, color
	w := pretty.Writer{Options: opt, Width: width, MaxDepth: maxDepth, SEN: senForm}
	sText = string(w.Encode(t))
	gText = string(w.Encode(g))
	return
}

// prettyFindings: the pretty writer decides line breaks from the widths it
// computes for the nodes, separately for simple and gen nodes. Every width
// within 8 columns of the flat width of the tree (where a miscounted node
// tips the decision) and three depths are tried.
func prettyFindings(c *core.Ctx, t any) []finding {
	var out []finding
	if k := kindOf(t); k != "array" && k != "object" {
		return nil
	}
	flat := len(oj.JSON(t, &ojg.Options{Sort: true}))
	for fi := 0; fi < 4; fi++ {
		senForm, color := fi&1 == 1, fi&2 == 2
		name := "pretty.JSON"
		if senForm {
			name = "pretty.SEN"
		}
		if color {
			name += "+Color" // the colour escapes must not count as width
		}
	sweep:
		for width := flat - 8; width <= flat+8; width++ {
			if width < 1 {
				continue
			}
			for _, md := range []int{1, 2, 3} {
				s, g, pan := prettyBoth(senForm, color, t, width, md)
				if c != nil {
					c.Add("evaluations", 2)
				}
				switch {
				case pan != nil:
					out = append(out, finding{op: "write:" + name, kind: kindOf(t), class: "panic:" + panicKind(pan), exp: "no panic", obs: fmt.Sprint(pan)})
				case s != g:
					out = append(out, finding{op: "write:" + name, kind: kindOf(t), class: "text-differs", exp: fmt.Sprintf("simple form (Width %d MaxDepth %d): %s", width, md, s), obs: "gen form: " + g})
				default:
					continue
				}
				break sweep
			}
		}
	}
	return out
}

func writeFindings(c *core.Ctx, t any) []finding {
	out := prettyFindings(c, t)
	for _, w := range []string{"oj.JSON", "sen.String"} {
		for o := 0; o < nWriteOpts; o++ {
			s, g, pan := writeBoth(w, t, o)
			if c != nil {
				c.Add("evaluations", 2)
			}
			switch {
			case pan != nil:
				out = append(out, finding{op: "write:" + w, kind: kindOf(t), class: "panic:" + panicKind(pan), exp: "no panic", obs: fmt.Sprint(pan)})
			case s != g:
				kind, d := locateWrite(w, t, o, 0)
				out = append(out, finding{op: "write:" + w, kind: kind, depth: d, class: "text-differs", exp: "simple form: " + s, obs: "gen form: " + g})
			default:
				continue
			}
			break
		}
	}
	return out
}

// ---------------------------------------------------------------- parser equality

func render(b *strings.Builder, v any) bool {
	switch t := v.(type) {
	case nil:
		b.WriteString("null")
	case bool:
		b.WriteString(strconv.FormatBool(t))
	case int64:
		b.WriteString(strconv.FormatInt(t, 10))
	case float64:
		s := strconv.FormatFloat(t, 'g', -1, 64)
		s = strings.Replace(s, "e+", "e", 1)
		if !strings.ContainsAny(s, ".e") {
			s += ".0"
		}
		b.WriteString(s)
	case string:
		j, _ := json.Marshal(t)
		b.Write(j)
	case json.Number:
		b.WriteString(string(t))
	case time.Time:
		return false
	case []any:
		b.WriteByte('[')
		for i, e := range t {
			if i > 0 {
				b.WriteByte(',')
			}
			if !render(b, e) {
				return false
			}
		}
		b.WriteByte(']')
	case map[string]any:
		ks := make([]string, 0, len(t))
		for k := range t {
			ks = append(ks, k)
		}
		sort.Strings(ks)
		b.WriteByte('{')
		for i, k := range ks {
			if i > 0 {
				b.WriteByte(',')
			}
			b.WriteString(strconv.Quote(k) + ":")
			if !render(b, t[k]) {
				return false
			}
		}
		b.WriteByte('}')
	}
	return true
}

// compareGen walks two gen results; the node kind is taken from the
// gen.Parser side (or the other side when that is nil).
func compareGen(p, q any, depth int) *mismatch {
	mk := func(class string) *mismatch {
		k := kindOf(fromGen(p))
		if p == nil {
			k = kindOf(fromGen(q))
		}
		return &mismatch{kind: k, depth: depth, class: class, exp: dump(q), got: dump(p)}
	}
	if p == nil || q == nil {
		if p == nil && q == nil {
			return nil
		}
		if k := kindOf(fromGen(p)); p != nil && k != "nil" && q == nil {
			return mk("lost")
		}
		return mk("changed-kind")
	}
	switch tp := p.(type) {
	case gen.Array:
		tq, ok := q.(gen.Array)
		if !ok || len(tp) != len(tq) {
			return mk("changed-kind")
		}
		for i := range tp {
			if m := compareGen(nodeAny(tp[i]), nodeAny(tq[i]), depth+1); m != nil {
				return m
			}
		}
		return nil
	case gen.Object:
		tq, ok := q.(gen.Object)
		if !ok || len(tp) != len(tq) {
			return mk("changed-kind")
		}
		ks := make([]string, 0, len(tp))
		for k := range tp {
			ks = append(ks, k)
		}
		sort.Strings(ks)
		for _, k := range ks {
			qv, has := tq[k]
			if !has {
				return mk("changed-kind")
			}
			if m := compareGen(nodeAny(tp[k]), nodeAny(qv), depth+1); m != nil {
				return m
			}
		}
		return nil
	}
	if fmt.Sprintf("%T", p) != fmt.Sprintf("%T", q) {
		return mk("changed-kind")
	}
	if dump(p) != dump(q) {
		return mk("changed-value")
	}
	return nil
}

func parseBoth(text string) (g, want any, gErr, oErr error, pan any) {
	defer func() {
		if r := recover(); r != nil {
			pan = r
		}
	}()
	var gp gen.Parser
	n, e1 := gp.Parse([]byte(text))
	var op oj.Parser
	v, e2 := op.Parse([]byte(text))
	if e2 == nil {
		want = nodeAny(alt.Generify(v, keep))
	}
	return nodeAny(n), want, e1, e2, nil
}

func parseFindings(c *core.Ctx, t any) []finding {
	var b strings.Builder
	if !render(&b, t) {
		return nil
	}
	text := b.String()
	g, want, gErr, oErr, pan := parseBoth(text)
	if c != nil {
		c.Add("evaluations", 3)
	}
	switch {
	case pan != nil:
		return []finding{{op: "parse-eq", kind: kindOf(t), class: "panic:" + panicKind(pan), exp: "no panic on " + text, obs: fmt.Sprint(pan)}}
	case gErr != nil && oErr != nil:
		return nil // both reject: C01's business
	case gErr != nil || oErr != nil:
		return []finding{{op: "parse-eq", kind: kindOf(t), class: "error-mismatch", exp: fmt.Sprintf("oj.Parser on %s: %v", text, oErr), obs: fmt.Sprintf("gen.Parser: %v", gErr)}}
	}
	if m := compareGen(g, want, 0); m != nil {
		return []finding{{op: "parse-eq", kind: m.kind, depth: m.depth, class: m.class,
			exp: "Generify(oj.Parser.Parse(" + text + ")) = " + dump(want), obs: "gen.Parser.Parse = " + dump(g)}}
	}
	// the reader entry point, one byte per read (every token meets a buffer end)
	var rn any
	var rErr error
	rp := func() (p any) {
		defer func() { p = recover() }()
		var gp gen.Parser
		n, e := gp.ParseReader(iotest.OneByteReader(strings.NewReader(text)))
		rn, rErr = nodeAny(n), e
		// the same entry point on the oj side (whole-buffer and reader parsing of
		// oj disagree on a few int64 literals: a C02 / C03 finding, not this property's)
		var op oj.Parser
		if v, e2 := op.ParseReader(iotest.OneByteReader(strings.NewReader(text))); e2 == nil {
			want = nodeAny(alt.Generify(v, keep))
		}
		return nil
	}()
	if c != nil {
		c.Add("evaluations", 1)
	}
	switch {
	case rp != nil:
		return []finding{{op: "parse-eq", kind: kindOf(t), class: "panic:" + panicKind(rp), exp: "no panic on " + text + " read byte by byte", obs: fmt.Sprint(rp)}}
	case rErr != nil:
		return []finding{{op: "parse-eq", kind: kindOf(t), class: "error-mismatch", exp: "oj.Parser on " + text + ": <nil>", obs: fmt.Sprintf("gen.Parser.ParseReader (1-byte reads): %v", rErr)}}
	}
	if m := compareGen(rn, want, 0); m != nil {
		return []finding{{op: "parse-eq", kind: m.kind, depth: m.depth, class: m.class + ":reader",
			exp: "Generify(oj.Parser.ParseReader(" + text + ")) = " + dump(want), obs: "gen.Parser.ParseReader (1-byte reads) = " + dump(rn)}}
	}
	return nil
}

// ---------------------------------------------------------------- aliasing

type mut struct {
	Path []any  `json:"path"` // location of the container that is mutated
	Kind string `json:"kind"` // replace-leaf | overwrite-element | append-element | add-key | delete-key
	Idx  int    `json:"idx"`
	Key  string `json:"key,omitempty"`
}

func isContainer(v any) bool {
	switch v.(type) {
	case []any, map[string]any, gen.Array, gen.Object:
		return true
	}
	return false
}

// mutations enumerates every mutation of every container of v (simple or gen).
func mutations(v any) []mut {
	var out []mut
	var walk func(v any, path []any)
	walk = func(v any, path []any) {
		p := append([]any{}, path...)
		each := func(n int, keys []string, child func(i int, k string) any) {
			if keys == nil {
				for i := 0; i < n; i++ {
					ch := child(i, "")
					kind := "replace-leaf"
					if isContainer(ch) {
						kind = "overwrite-element"
					}
					out = append(out, mut{Path: p, Kind: kind, Idx: i})
				}
				out = append(out, mut{Path: p, Kind: "append-element"})
				for i := 0; i < n; i++ {
					walk(child(i, ""), append(p, i))
				}
				return
			}
			sort.Strings(keys)
			for _, k := range keys {
				kind := "replace-leaf"
				if isContainer(child(0, k)) {
					kind = "overwrite-element"
				}
				out = append(out, mut{Path: p, Kind: kind, Key: k, Idx: -1})
				out = append(out, mut{Path: p, Kind: "delete-key", Key: k, Idx: -1})
			}
			out = append(out, mut{Path: p, Kind: "add-key", Key: "zz", Idx: -1})
			for _, k := range keys {
				walk(child(0, k), append(p, k))
			}
		}
		switch t := v.(type) {
		case []any:
			each(len(t), nil, func(i int, _ string) any { return t[i] })
		case gen.Array:
			each(len(t), nil, func(i int, _ string) any { return nodeAny(t[i]) })
		case map[string]any:
			ks := make([]string, 0, len(t))
			for k := range t {
				ks = append(ks, k)
			}
			each(0, append(ks, []string{}...), func(_ int, k string) any { return t[k] })
		case gen.Object:
			ks := make([]string, 0, len(t))
			for k := range t {
				ks = append(ks, k)
			}
			each(0, append(ks, []string{}...), func(_ int, k string) any { return nodeAny(t[k]) })
		}
	}
	walk(v, nil)
	return out
}

func child(v any, e any) (any, bool) {
	switch t := v.(type) {
	case []any:
		if i, ok := e.(int); ok && i >= 0 && i < len(t) {
			return t[i], true
		}
	case gen.Array:
		if i, ok := e.(int); ok && i >= 0 && i < len(t) {
			return nodeAny(t[i]), true
		}
	case map[string]any:
		if k, ok := e.(string); ok {
			c, has := t[k]
			return c, has
		}
	case gen.Object:
		if k, ok := e.(string); ok {
			c, has := t[k]
			return nodeAny(c), has
		}
	}
	return nil, false
}

func setChild(v any, e any, nv any) {
	switch t := v.(type) {
	case []any:
		t[e.(int)] = nv
	case gen.Array:
		n, _ := nv.(gen.Node)
		t[e.(int)] = n
	case map[string]any:
		t[e.(string)] = nv
	case gen.Object:
		n, _ := nv.(gen.Node)
		t[e.(string)] = n
	}
}

// apply performs m on the tree held in *root; false = the path does not
// exist in this tree (nothing done).
func apply(root *any, m mut) bool {
	var parent any
	var last any
	cur := *root
	for _, e := range m.Path {
		c, ok := child(cur, e)
		if !ok {
			return false
		}
		parent, last, cur = cur, e, c
	}
	switch t := cur.(type) {
	case []any:
		switch m.Kind {
		case "replace-leaf", "overwrite-element":
			if m.Idx >= len(t) {
				return false
			}
			t[m.Idx] = "MUT"
		case "append-element":
			nt := append(t, "MUT")
			if parent == nil {
				*root = nt
			} else {
				setChild(parent, last, nt)
			}
		default:
			return false
		}
	case gen.Array:
		switch m.Kind {
		case "replace-leaf", "overwrite-element":
			if m.Idx >= len(t) {
				return false
			}
			t[m.Idx] = gen.String("MUT")
		case "append-element":
			nt := append(t, gen.String("MUT"))
			if parent == nil {
				*root = nt
			} else {
				setChild(parent, last, nt)
			}
		default:
			return false
		}
	case map[string]any:
		if t == nil {
			return false
		}
		switch m.Kind {
		case "replace-leaf", "overwrite-element", "add-key":
			t[m.Key] = "MUT"
		case "delete-key":
			delete(t, m.Key)
		default:
			return false
		}
	case gen.Object:
		if t == nil {
			return false
		}
		switch m.Kind {
		case "replace-leaf", "overwrite-element", "add-key":
			t[m.Key] = gen.String("MUT")
		case "delete-key":
			delete(t, m.Key)
		default:
			return false
		}
	default:
		return false
	}
	return true
}

type copyOp struct {
	name  string
	input func(t any) any // builds the (fresh) input from a fresh clone of the tree
	run   func(x any) any
}

func copyOps() []copyOp {
	id := func(t any) any { return t }
	genIn := func(t any) any { return nodeAny(toGen(t)) }
	return []copyOp{
		{"Generify", id, func(x any) any { return nodeAny(alt.Generify(x, keep)) }},
		{"Node.Simplify", genIn, func(x any) any { return simplifyNode(asNode(x)) }},
		{"Node.Dup", genIn, func(x any) any {
			if n := asNode(x); n != nil {
				return nodeAny(n.Dup())
			}
			return nil
		}},
		{"alt.Dup", id, func(x any) any { return alt.Dup(x, keepTime) }},
		{"alt.Decompose", id, func(x any) any { return alt.Decompose(x, keepTime) }},
	}
}

func asNode(x any) gen.Node {
	n, _ := x.(gen.Node)
	return n
}

func copyOpByName(name string) *copyOp {
	for _, o := range copyOps() {
		if o.name == name {
			o := o
			return &o
		}
	}
	return nil
}

// aliasOne runs one mutate-after-copy experiment; ok=false: not applicable.
func aliasOne(op *copyOp, t any, side string, m mut) (f *finding, ok bool) {
	var pan any
	func() {
		defer func() {
			if r := recover(); r != nil {
				pan = r
			}
		}()
		x := op.input(gens.Clone(t))
		y := op.run(x)
		mutated, other := &y, &x
		if side == "original" {
			mutated, other = &x, &y
		}
		before := dump(*other)
		if !apply(mutated, m) {
			return
		}
		ok = true
		if after := dump(*other); after != before {
			dir := "aliased(copy>original)"
			if side == "original" {
				dir = "aliased(original>copy)"
			}
			node := "array"
			if m.Idx < 0 {
				node = "object"
			}
			f = &finding{op: op.name, kind: node, depth: len(m.Path), class: dir,
				exp: "other side unchanged: " + before, obs: fmt.Sprintf("after %s at %v of the %s: %s", m.Kind, m.Path, side, after)}
		}
	}()
	if pan != nil {
		return &finding{op: op.name, kind: kindOf(t), class: "panic:" + panicKind(pan), exp: "no panic", obs: fmt.Sprint(pan)}, true
	}
	return f, ok
}

// ---------------------------------------------------------------- run / replay

// leafFamily runs every full-alphabet leaf at depth 0, 1 and 2 through the
// conversion, writer and parser checks and records which (op, kind, class)
// fail at all three depths alike (their signature then says depth=any).
// Every shard computes the same table, so signatures do not depend on the
// sharding.
func (k *checker) leafFamily() {
	seen := map[string]map[int]bool{}
	note := func(fs []finding, d int) {
		for _, f := range fs {
			if f.depth != d {
				continue
			}
			key := f.op + "|" + f.kind + "|" + f.class
			if seen[key] == nil {
				seen[key] = map[int]bool{}
			}
			seen[key][d] = true
		}
	}
	for _, l := range fullLeaves() {
		for d, t := range []any{l, []any{l}, []any{[]any{l}}} {
			note(convFindings(nil, t), d)
			note(writeFindings(nil, t), d)
			note(parseFindings(nil, t), d)
		}
	}
	for key, ds := range seen {
		if len(ds) == 3 {
			k.anyDepth[key] = true
		}
	}
}

func (k *checker) tree(t any, alpha string) {
	c := k.c
	nontrivial := nodes(t) > 1
	show := gens.Show(t)
	report := func(fam string, f finding, cs caseT) {
		cs.Fam, cs.Op, cs.Tree, cs.Show = fam, f.op, gens.EncodeTree(t), f.op+" on "+show
		c.Fail(k.sig(f), cs, nodes(t)*4+f.depth, f.exp, f.obs)
	}
	for _, f := range convFindings(c, t) {
		report("conv", f, caseT{})
	}
	for _, f := range writeFindings(c, t) {
		report("write", f, caseT{})
	}
	for _, f := range parseFindings(c, t) {
		report("parse", f, caseT{})
	}
	if nontrivial {
		c.Add("distinct_nontrivial", 3)
	}
	for _, op := range copyOps() {
		op := op
		for _, side := range []string{"copy", "original"} {
			// the mutations of either side have the shape of the tree
			var tmpl any = t
			for _, m := range mutations(tmpl) {
				f, ok := aliasOne(&op, t, side, m)
				c.Eval()
				if !ok {
					c.Add("alias_not_applicable", 1)
					continue
				}
				c.Nontrivial()
				c.Add("alias_experiments", 1)
				if f != nil {
					m := m
					report("alias", *f, caseT{Side: side, Mut: &m})
				}
			}
		}
	}
}

func run(c *core.Ctx) {
	k := &checker{c: c, anyDepth: map[string]bool{}}
	k.leafFamily()
	keys := []string{"a", "b"}
	if !c.Quick() {
		keys = []string{"a", "b", "c"}
	}
	idx := 0
	sampled := 0
	each := func(alpha string, n int, leaves []any) {
		gens.Trees(n, leaves, keys, func(t any) bool {
			idx++
			if !c.Mine(idx) {
				return true
			}
			if c.Expired("C18 tree loop") {
				return false
			}
			c.Add("trees_"+alpha, 1)
			c.Case(func() string { return "C18 tree " + gens.Show(t) })
			if sampled < 3 && nodes(t) == n {
				sampled++
				c.Sample(map[string]any{"alphabet": alpha, "tree": gens.Show(t), "mutations_per_side": len(mutations(t))})
			}
			k.tree(t, alpha)
			return true
		})
	}
	each("full", c.Pick(3, 4), fullLeaves())
	each("reduced", c.Pick(6, 7), reducedLeaves())
	// the scale family: counts, depths and string lengths on both sides of every fixed capacity
	for _, d := range gens.ScaleDocs(c.Quick()) {
		idx++
		if !c.Mine(idx) {
			continue
		}
		if c.Expired("C18 scale family") {
			return
		}
		c.Add("trees_scale", 1)
		c.Case(func() string { return "C18 scale document " + d.Name })
		k.tree(d.Tree, "scale")
	}
}

func replay(c *core.Ctx, raw json.RawMessage) {
	var cs caseT
	if err := json.Unmarshal(raw, &cs); err != nil {
		c.HarnessError("bad case: %v", err)
		return
	}
	t, err := gens.DecodeTree(cs.Tree)
	if err != nil {
		c.HarnessError("bad tree: %v", err)
		return
	}
	k := &checker{c: c, anyDepth: map[string]bool{}}
	emit := func(fs []finding) {
		for _, f := range fs {
			if f.op == cs.Op {
				c.Fail("replay|"+k.sig(f), cs, 1, f.exp, f.obs)
			}
		}
	}
	switch cs.Fam {
	case "conv":
		emit(convFindings(c, t))
	case "write":
		emit(writeFindings(c, t))
	case "parse":
		emit(parseFindings(c, t))
	case "alias":
		op := copyOpByName(cs.Op)
		if op == nil || cs.Mut == nil {
			c.HarnessError("bad alias case")
			return
		}
		m := *cs.Mut
		for i, e := range m.Path { // JSON numbers come back as float64
			if f, ok := e.(float64); ok {
				m.Path[i] = int(f)
			}
		}
		if f, ok := aliasOne(op, t, cs.Side, m); ok && f != nil {
			c.Fail("replay|"+k.sig(*f), cs, 1, f.exp, f.obs)
		}
	}
}
