package c10

import (
	"fmt"
	"regexp"
	"sort"
	"strings"
	"unicode/utf8"

	"github.com/ohler55/ojg"
	"github.com/ohler55/ojg/sen"
)

// writerBehaviour describes what the SEN string writer does with byte b in a
// given position, observed on the implementation itself (the writer's table
// is private): bare or quoted, and the form the byte takes.
func writerBehaviour(b byte) string {
	var parts []string
	for _, s := range []string{string([]byte{b, 'a'}), string([]byte{'a', b}), string([]byte{'a', b, 'a'})} {
		for _, htmlSafe := range []bool{false, true} {
			out := string(ojg.AppendSENString(nil, s, htmlSafe))
			q := "bare"
			body := out
			if len(out) >= 2 && out[0] == '"' && out[len(out)-1] == '"' {
				q, body = "quoted", out[1:len(out)-1]
			}
			form := "other"
			switch {
			case body == s:
				form = "raw"
			case strings.Contains(body, fmt.Sprintf(`\u00%02x`, b)):
				form = "u00"
			case strings.Contains(body, "\\ufffd"):
				form = "fffd"
			case strings.Contains(body, `\`) && len(body) == len(s)+1:
				form = "esc"
			}
			parts = append(parts, q+"-"+form)
		}
	}
	return strings.Join(parts, ",")
}

// alphabet holds the byte classes recomputed from the current tables.
type alphabet struct {
	fineOf   [256]int // byte -> fine class (all sen parser tables + writer behaviour)
	fineReps []byte   // one representative per fine class
	coarse   [256]string
	symbols  []string // class representatives plus multi-byte units
}

func pickRep(members []byte) byte {
	for _, want := range []byte{'a', 'g', '0', '1'} {
		for _, m := range members {
			if m == want {
				return m
			}
		}
	}
	for _, m := range members {
		if m > 0x20 && m < 0x7f {
			return m
		}
	}
	return members[0]
}

func byteName(b byte) string {
	if b > 0x20 && b < 0x7f && b != '|' && b != '\\' && b != '"' {
		return string(b)
	}
	switch b {
	case '|':
		return "bar"
	case '\\':
		return "backslash"
	case '"':
		return "dquote"
	case ' ':
		return "space"
	}
	return fmt.Sprintf("0x%02x", b)
}

func newAlphabet() *alphabet {
	a := &alphabet{}
	tables := sen.VerifTables()
	names := make([]string, 0, len(tables))
	for n := range tables {
		names = append(names, n)
	}
	sort.Strings(names)
	fineKey := func(b byte) string {
		var sb strings.Builder
		for _, n := range names {
			if int(b) < len(tables[n]) { // escByteMap (a value table) is 255 long
				sb.WriteByte(tables[n][b])
			}
		}
		sb.WriteString(writerBehaviour(b))
		return sb.String()
	}
	coarseKey := func(b byte) string {
		return string([]byte{tables["valueMap"][b], tables["tokenMap"][b], tables["stringMap"][b]}) + writerBehaviour(b)
	}
	fine := map[string][]byte{}
	coarse := map[string][]byte{}
	var fineOrder []string
	for i := 0; i < 256; i++ {
		b := byte(i)
		k := fineKey(b)
		if _, ok := fine[k]; !ok {
			fineOrder = append(fineOrder, k)
		}
		fine[k] = append(fine[k], b)
		ck := coarseKey(b)
		coarse[ck] = append(coarse[ck], b)
	}
	for ci, k := range fineOrder {
		for _, b := range fine[k] {
			a.fineOf[b] = ci
		}
		a.fineReps = append(a.fineReps, pickRep(fine[k]))
	}
	for _, members := range coarse {
		name := byteName(pickRep(members))
		for _, b := range members {
			a.coarse[b] = name
		}
	}
	for _, r := range a.fineReps {
		a.symbols = append(a.symbols, string([]byte{r}))
	}
	// (U+FEFF and U+FF01 start with the byte 0xEF, which the parsers take for the start of a byte-order mark at the start of a document)
	a.symbols = append(a.symbols, "é", "€", "😀", "\u2028", "\u2029", "\uFFFD", "\xe2\x82", "\xff", "\uFEFF", "\uFF01")
	return a
}

// units splits a string into valid runes and single offending bytes.
func units(s string) []string {
	var out []string
	for i := 0; i < len(s); {
		_, n := utf8.DecodeRuneInString(s[i:])
		out = append(out, s[i:i+n])
		i += n
	}
	return out
}

// unitName names a unit for signatures (coarse class).
func (a *alphabet) unitName(u string) string {
	if len(u) == 1 {
		if u[0] >= 0x80 {
			return "invalid-utf8"
		}
		return a.coarse[u[0]]
	}
	switch u {
	case "\u2028", "\u2029":
		return "u2028"
	case "\uFFFD":
		return "ufffd"
	case "\uFEFF":
		return "ufeff"
	case "\uFF01":
		return "0xEF-rune"
	}
	return fmt.Sprintf("%dbyte-rune", len(u))
}

var numberRE = regexp.MustCompile(`^-?(0|[1-9][0-9]*)(\.[0-9]+)?([eE][+-]?[0-9]+)?$`)

// category classifies a (minimised) string for the signature.
func (a *alphabet) category(s string) string {
	switch {
	case s == "":
		return "str=empty"
	case s == "true" || s == "false" || s == "null":
		return "str=reserved-word"
	case numberRE.MatchString(s):
		return "str=number-like"
	case s == "+" || s == "-":
		return "str=sign"
	}
	us := units(s)
	first := a.unitName(us[0])
	set := map[string]bool{}
	for _, u := range us[1:] {
		set[a.unitName(u)] = true
	}
	body := make([]string, 0, len(set))
	for n := range set {
		body = append(body, n)
	}
	sort.Strings(body)
	b := strings.Join(body, ",")
	if b == "" {
		b = "-"
	}
	l := ""
	if len(s) > 64 {
		l = "|length>64"
	} else if len(s) == 64 {
		l = "|length=64"
	}
	if (us[0] == "+" || us[0] == "-") && len(us) > 1 {
		return "str=sign-first|body=" + b + l
	}
	return "str=first=" + first + "|body=" + b + l
}

// sequences enumerates every string of 1..n symbols.
func sequences(symbols []string, n int, fn func(s string) bool) {
	// shortest first
	for l := 1; l <= n; l++ {
		var gen func(prefix string, left int) bool
		gen = func(prefix string, left int) bool {
			if left == 0 {
				return fn(prefix)
			}
			for _, s := range symbols {
				if !gen(prefix+s, left-1) {
					return false
				}
			}
			return true
		}
		if !gen("", l) {
			return
		}
	}
}

// reserved is the family of spellings that mean something else in SEN.
func reserved(symbols []string, numLen int, fn func(s string) bool) {
	seen := map[string]bool{}
	emit := func(s string) bool {
		if seen[s] {
			return true
		}
		seen[s] = true
		return fn(s)
	}
	words := []string{"true", "false", "null"}
	fixed := []string{
		"", "true", "false", "null", "True", "TRUE", "False", "Null", "NULL", "nul", "tru", "fals", "nil", "NaN", "Infinity", "-Infinity", "undefined",
		"+", "-", "+1", "-a", "-1", "+a", "--1", "-+1", ".5", "-.5", "1.", "1e", "1e+", "0x1", "0x", "1a", "a1", "12a", "1_000", "\uFF11", "123456", "-12.5e3", "1e+10", "1E-10", "01", "-01", "00",
		"9223372036854775807", "9223372036854775808", "-9223372036854775808", "1.7976931348623157e+308", "1e400", "0.1", "-0", "-0.0",
		"//", "/*", "/**/", "a//b", "a/*b", "a/*b*/", "/", "*", "*/", "a/b", "#", "a#b",
		"a:b", ":", "a:", ":a", "a b", " a", "a ", " ", "\t", "\n", "a\nb", ",", "a,b", ",a", "a,",
		"[", "]", "{", "}", "(", ")", "[]", "{}", "()", "a(b)", "a(", "a)", "a[0]", "a{b}", "[a", "a]",
		"'", "\"", "a'b", "a\"b", "'a'", "\"a\"", "''", "\"\"", "`", "a`b", "|", "a|b", "&", "a&b", "<", ">", "a<b", "=", "a=b", "!", "?", "@", "$", "%", "^", "~", "_", ";", "\\", "a\\b", "\\n",
		"\x00", "\x7f", "a\x7f", "\x1b[0m",
	}
	for _, s := range fixed {
		if !emit(s) {
			return
		}
	}
	// token length threshold
	for _, n := range []int{63, 64, 65, 66, 128} {
		for _, s := range []string{strings.Repeat("a", n), "-" + strings.Repeat("a", n-1), strings.Repeat("a", n-1) + "<", strings.Repeat("é", n/2), strings.Repeat("é", n/2) + "a", strings.Repeat("a", n-1) + " "} {
			if !emit(s) {
				return
			}
		}
	}
	// each reserved word with every one-symbol prefix and suffix
	for _, w := range words {
		for _, sym := range symbols {
			if !emit(sym+w) || !emit(w+sym) {
				return
			}
		}
	}
	// every spelling over the characters of number literals
	sequences([]string{"0", "1", "-", "+", ".", "e", "E"}, numLen, emit)
}
