// Package c10 decides C10: the SEN writers and sen.Parse round-trip every
// value. Bounded-exhaustive enumeration of strings (one representative per
// byte class of the SEN tables, the reserved spellings) in every context,
// numbers and small trees x writer entry points x option vectors; the oracle
// is parse-back equality.
package c10

import (
	"encoding/json"
	"fmt"
	"math"
	"sort"
	"strconv"
	"strings"

	"verif/internal/core"
	"verif/internal/gens"
	"verif/internal/ref/wref"
)

func init() {
	core.Register(&core.Check{
		ID:     "C10",
		Level:  "exploration",
		Shards: func(tier string) int { return 16 },
		Run:    run,
		Replay: replay,
		Rule: "cases = (value, context): strings = every sequence of up to N symbols (one representative byte per class of the common refinement of all sen parser tables and the observed " +
			"behaviour of the SEN string writer for that byte, plus 2/3/4-byte runes, U+2028/9, U+FFFD, a truncated rune, 0xff), the reserved family (true/false/null and near misses, every spelling over " +
			"0 1 - + . e E up to M characters, signs, delimiters, quotes, comment markers, 63..128 byte tokens, each reserved word with every one-symbol prefix and suffix), each placed at top level, as " +
			"array element (only/first/later/between numbers), as object value (alone/two members) and as object key; numbers from the int and float alphabets; trees, chains and tables over a small " +
			"leaf alphabet; every case x every writer entry point x option vector (layout x Sort x HTMLUnsafe; pretty: Width x MaxDepth x Align x HTMLUnsafe) x WriteLimit for the streaming entry points; " +
			"unsorted writers run twice on values with a multi-member object. distinct_nontrivial = cases whose value holds a non-empty string or a number; evaluations = writer calls (each followed by a parse)",
		Assumptions: []string{
			"the text is read back with a fresh sen.Parser per case (sen.Parse minus the parser pool; state kept by a pooled parser after a failed parse belongs to C07)",
			"internal/ref/wref (deep equality with U+FFFD replacement and numbers by value) is the specification; unit-tested on its own",
			"a number that comes back as json.Number with the same value is accepted (numbers keep their value; the Go type is not fixed by the statement)",
			"keys that are not valid UTF-8 are compared after U+FFFD replacement like string values; valid keys must come back byte-identical",
			"bytes are represented by class, recomputed on every run from the current parser tables and from probing ojg.AppendSENString per byte",
			"Go map iteration order is repeated, not enumerated",
		},
		Bound: func(tier string) string {
			if tier == "thorough" {
				return "strings: sequences of <=3 symbols, number-character spellings <=5, reserved family; 9 contexts; numbers: 9 ints, 12 floats; trees <=5 nodes over 7 leaves, chains to depth 130, tables 2-3 rows x 1-3 columns (plain and nested); " +
					"sen: 5 layouts x Sort x HTMLUnsafe; pretty: Width {1,8,20,40,80,200} x MaxDepth {1,2,3} x Align x HTMLUnsafe on trees/chains/tables, 3 (Width,MaxDepth) pairs on strings; WriteLimit {1,2,3,7,64,1024}"
			}
			return "strings: sequences of <=2 symbols, number-character spellings <=4, reserved family; 9 contexts; numbers: 9 ints, 12 floats; trees <=4 nodes over 7 leaves, chains to depth 130, tables 2-3 rows x 1-3 columns (3x3 excluded); " +
				"sen: 3 layouts x Sort x HTMLUnsafe; pretty: (Width,MaxDepth) in {(80,3),(8,1),(20,2)} x Align x HTMLUnsafe (tables, chains: full grid); WriteLimit {1,1024}"
		},
	})
}

// ---------------------------------------------------------------- contexts

type contextT struct {
	name  string
	class string // signature coordinate
	build func(s any) any
}

var contexts = []contextT{
	{"top", "top", func(s any) any { return s }},
	{"arr-only", "array", func(s any) any { return []any{s} }},
	{"arr-first", "array", func(s any) any { return []any{s, "z"} }},
	{"arr-later", "array", func(s any) any { return []any{"z", s} }},
	{"arr-mid", "array", func(s any) any { return []any{int64(1), s, 2.5} }},
	{"obj-value", "value", func(s any) any { return map[string]any{"k": s} }},
	{"obj-two", "value", func(s any) any { return map[string]any{"k": s, "l": s} }},
	{"obj-key", "key", func(s any) any { return map[string]any{s.(string): int64(1)} }},
	{"obj-key-str", "key", func(s any) any { return map[string]any{s.(string): "v"} }},
}

func contextByName(n string) *contextT {
	for i := range contexts {
		if contexts[i].name == n {
			return &contexts[i]
		}
	}
	return nil
}

// ---------------------------------------------------------------- plan

type plan struct {
	senVecs    []optVec
	indentVecs []optVec // indent-chains family
	prettySm   []optVec
	prettyFull []optVec
	wls        []int
}

func newPlan(quick bool) *plan {
	p := &plan{}
	type layout struct {
		indent int
		tab    bool
	}
	layouts := []layout{{0, false}, {2, false}, {0, true}}
	if !quick {
		layouts = []layout{{0, false}, {1, false}, {2, false}, {4, false}, {0, true}}
	}
	for _, sorted := range []bool{false, true} {
		for _, in := range gens.IndentValues {
			p.indentVecs = append(p.indentVecs, optVec{Indent: in, Sort: sorted})
		}
		p.indentVecs = append(p.indentVecs, optVec{Tab: true, Sort: sorted})
	}
	for _, l := range layouts {
		for m := 0; m < 4; m++ {
			p.senVecs = append(p.senVecs, optVec{Indent: l.indent, Tab: l.tab, Sort: m&1 == 1, HTMLUnsafe: m&2 == 2})
		}
	}
	type wd struct{ w, d int }
	mk := func(set []wd) (out []optVec) {
		for _, x := range set {
			for m := 0; m < 4; m++ {
				out = append(out, optVec{Width: x.w, MaxDepth: x.d, Align: m&1 == 1, HTMLUnsafe: m&2 == 2})
			}
		}
		return
	}
	var full []wd
	for _, w := range []int{1, 8, 20, 40, 80, 200} {
		for _, d := range []int{1, 2, 3} {
			full = append(full, wd{w, d})
		}
	}
	// a depth limit beyond the depth of every table (what lies four and five levels down is laid out too)
	full = append(full, wd{80, 6}, wd{200, 6})
	p.prettySm, p.prettyFull = mk([]wd{{80, 3}, {8, 1}, {20, 2}}), mk(full)
	// every vector again with the float verb set explicitly
	withVerb := func(vs []optVec) []optVec {
		out := append([]optVec{}, vs...)
		for _, v := range vs {
			v.FloatFormat = "%g"
			out = append(out, v)
		}
		return out
	}
	p.senVecs, p.prettySm, p.prettyFull = withVerb(p.senVecs), withVerb(p.prettySm), withVerb(p.prettyFull)
	p.wls = []int{1, 1024}
	if !quick {
		p.wls = []int{1, 2, 3, 7, 64, 1024}
	}
	return p
}

func (p *plan) wlsFor(n int) []int {
	var out []int
	for _, w := range p.wls {
		out = append(out, w)
		if w >= n {
			break
		}
	}
	return out
}

// ---------------------------------------------------------------- judge

type verdict struct {
	core string
	exp  string
	obs  string
	node string // kind of the input node at the difference
}

func judge(text []byte, want any) verdict {
	exp := wref.GoLit(want)
	if len(text) == 0 {
		return verdict{core: "empty-output", exp: exp, obs: "no bytes", node: wref.Kind(want)}
	}
	got, err, pk := parse(text)
	if pk != "" {
		return verdict{core: "parse-panic:" + pk, exp: exp, obs: fmt.Sprintf("%v on %q", err, text), node: wref.Kind(want)}
	}
	if err != nil {
		return verdict{core: "parse-error", exp: exp, obs: fmt.Sprintf("%v on %q", err, text), node: wref.Kind(want)}
	}
	d := wref.Match(want, wref.FromGo(got), wref.Opts{})
	if d == nil {
		return verdict{}
	}
	core := d.Kind
	gk := d.GotKind
	if gk == "int" || gk == "float" || gk == "number" {
		gk = "number"
	}
	switch {
	case d.Kind == "wrong-kind" && d.WantKind == "string":
		core = "became-" + gk
	case d.Kind == "wrong-kind" && (d.WantKind == "int" || d.WantKind == "float"):
		core = "number-became-" + gk
	case d.Kind == "wrong-kind":
		core = "kind-changed"
	case d.Kind == "wrong-value" && d.WantKind == "string":
		core = "different-string"
	case d.Kind == "wrong-value" && (d.WantKind == "int" || d.WantKind == "float"):
		core = "different-number"
	case d.Kind == "missing":
		core = "key-lost"
		if o, ok := parentObj(wref.FromGo(got), d.Path); ok && len(o.Keys) > 0 {
			core = "different-key"
		}
	case d.Kind == "extra" || d.Kind == "duplicate":
		core = "extra-member"
	case d.Kind == "wrong-length":
		// which way: every element gone, some gone, or more than there were
		w, _ := d.Want.([]any)
		g, _ := d.Got.([]any)
		switch {
		case len(g) == 0:
			core = "elements-lost:all"
		case len(g) < len(w):
			core = "elements-lost:some"
		default:
			core = "elements-added"
		}
	}
	return verdict{core: core, exp: exp, obs: fmt.Sprintf("%s; parsed %s from %q", d, wref.GoLit(got), text), node: d.WantKind}
}

// parentObj walks path (minus its last element) in a decoded value.
func parentObj(v any, path []string) (*wref.Obj, bool) {
	for _, p := range path[:len(path)-1] {
		switch t := v.(type) {
		case []any:
			i, err := strconv.Atoi(p)
			if err != nil || i >= len(t) {
				return nil, false
			}
			v = t[i]
		case *wref.Obj:
			found := false
			for i, k := range t.Keys {
				if wref.SameString(p, k) {
					v, found = t.Vals[i], true
					break
				}
			}
			if !found {
				return nil, false
			}
		default:
			return nil, false
		}
	}
	o, ok := v.(*wref.Obj)
	return o, ok
}

// ---------------------------------------------------------------- run

type caseT struct {
	Family  string `json:"family"`
	Context string `json:"context,omitempty"`
	Str     string `json:"string_go_quoted,omitempty"` // string-family cases: the string under test
	Value   any    `json:"value"`
	Go      string `json:"go"`
	Entry   string `json:"entry"`
	Opts    optVec `json:"opts"`
	Core    string `json:"discrepancy"`
}

type failure struct {
	entry string
	ov    optVec
	fixed bool
	v     verdict
}

type runner struct {
	c       *core.Ctx
	plan    *plan
	alpha   *alphabet
	samples int
}

func run(c *core.Ctx) {
	r := &runner{c: c, plan: newPlan(c.Quick()), alpha: newAlphabet()}
	c.Add("byte_classes", 0)
	if c.Shard == 0 {
		c.Add("byte_classes", int64(len(r.alpha.fineReps)))
		c.Add("symbols", int64(len(r.alpha.symbols)))
		reps := make([]string, len(r.alpha.fineReps))
		for i, b := range r.alpha.fineReps {
			reps[i] = byteName(b)
		}
		c.Note("byte class representatives: %s", strings.Join(reps, " "))
	}
	idx := 0
	stop := false
	mine := func(what string) bool {
		if stop {
			return false
		}
		m := c.Mine(idx)
		idx++
		if m && c.Expired("C10 "+what) {
			stop = true
			return false
		}
		return m
	}
	str := func(fam string) func(s string) bool {
		return func(s string) bool {
			if mine(fam) {
				var fs []finding
				for i := range contexts {
					fs = append(fs, r.value(fam, &contexts[i], s, contexts[i].build(s), false)...)
				}
				r.report(fs)
			}
			return !stop
		}
	}
	tree := func(fam string, full bool) func(t any) bool {
		return func(t any) bool {
			if mine(fam) {
				r.report(r.value(fam, nil, "", t, full))
			}
			return !stop
		}
	}
	sequences(r.alpha.symbols, c.Pick(2, 3), str("strings"))
	reserved(r.alpha.symbols, c.Pick(4, 5), str("reserved"))
	// numbers
	nums := []any{int64(0), int64(1), int64(-1), int64(1) << 31, -(int64(1) << 31), int64(1)<<53 + 1, -(int64(1) << 53) - 1, int64(math.MaxInt64), int64(math.MinInt64),
		0.0, math.Copysign(0, -1), 0.1, 1.5, -1.5, 1e-7, 1e20, 1e21, 123456789.125, 5e-324, math.MaxFloat64, -math.MaxFloat64,
		// 17 significant digits at every small magnitude: the written text has up to 22 fraction digits
		// with leading zeros, which is where the parsers' digit accumulators hand over to text form
		0.12345678901234567, 0.012345678901234567, 0.0012345678901234567, 0.00012345678901234567, 0.000012345678901234567,
		1.2345678901234567, 12345.678901234567, 9007199254740993.0, 0.1 + 0.2, 1.0 / 3.0, 2.0 / 3.0 / 1000.0}
	for _, n := range nums {
		for i := range contexts {
			if contexts[i].class == "key" {
				continue
			}
			if mine("numbers") {
				r.report(r.value("numbers", &contexts[i], "", contexts[i].build(n), false))
			}
		}
	}
	leaves := []any{nil, false, int64(-7), 1.5, "", "ab", "a b"}
	gens.Trees(c.Pick(4, 5), leaves, []string{"k", "b b", "c"}, tree("trees", !c.Quick()))
	gens.Chains([]any{nil, "", int64(1), "x"}, tree("chains", true))
	gens.IndentChains(tree("indent-chains", false))
	gens.Tables(c.Quick(), !c.Quick(), tree("tables", true))
	// the scale family: counts, depths and string lengths on both sides of every fixed capacity
	sc := tree("scale", false)
	for _, d := range gens.ScaleDocs(c.Quick()) {
		if !sc(d.Tree) {
			break
		}
	}
}

func nontrivial(t any) bool {
	switch x := t.(type) {
	case string:
		return x != ""
	case int64, float64:
		return true
	case []any:
		for _, e := range x {
			if nontrivial(e) {
				return true
			}
		}
	case map[string]any:
		for k, e := range x {
			if k != "" || nontrivial(e) {
				return true
			}
		}
	}
	return false
}

// finding is one failure family of one value, before the context coordinate
// is merged over the contexts of the same string.
type finding struct {
	head []string // signature coordinates before the context
	ctx  string   // context class ("" = not a string case)
	tail []string // coordinates after it
	cs   caseT
	size int
	exp  string
	obs  string
}

// report merges findings that differ only in the context class and files them.
func (r *runner) report(fs []finding) {
	type merged struct {
		f   finding
		ctx map[string]bool
	}
	ms := map[string]*merged{}
	var order []string
	for _, f := range fs {
		k := strings.Join(f.head, "|") + "||" + strings.Join(f.tail, "|")
		if f.ctx == "" {
			k += "||" + strconv.Itoa(len(order))
		}
		m := ms[k]
		if m == nil {
			m = &merged{f: f, ctx: map[string]bool{}}
			ms[k] = m
			order = append(order, k)
		} else if f.size < m.f.size {
			m.f = f
		}
		m.ctx[f.ctx] = true
	}
	for _, k := range order {
		m := ms[k]
		parts := append([]string{}, m.f.head...)
		if m.f.ctx != "" {
			var cl []string
			for _, c := range []string{"top", "array", "value", "key"} {
				if m.ctx[c] {
					cl = append(cl, c)
				}
			}
			ctx := strings.Join(cl, "+")
			if len(cl) == 4 {
				ctx = "any"
			}
			parts = append(parts, "ctx="+ctx)
		}
		parts = append(parts, m.f.tail...)
		r.c.Fail(core.Sig(parts...), m.f.cs, m.f.size, m.f.exp, m.f.obs)
	}
}

// value runs one value through every writer and returns the failure families.
func (r *runner) value(fam string, ctx *contextT, s string, t any, fullPretty bool) (out []finding) {
	c := r.c
	if nontrivial(t) {
		c.Nontrivial()
	}
	multi := wref.MaxMembers(t) >= 2
	fails := r.evalAll(fam, t, multi, fullPretty)
	if len(fails) == 0 {
		if wref.Size(t) > 3 {
			r.samples++
		}
		if wref.Size(t) > 3 && (r.samples == 11+97*c.Shard || r.samples == 5000+1300*c.Shard) {
			ov := r.plan.senVecs[(c.Shard*5+1)%len(r.plan.senVecs)]
			cn := ""
			if ctx != nil {
				cn = ctx.name
			}
			c.Sample(map[string]any{"family": fam, "context": cn, "go": wref.GoLit(t), "entry": "sen.String", "opts": ov, "text": string(invoke(entries[0], t, &ov).text)})
		}
		return nil
	}
	type group struct {
		first   failure
		writers map[string]bool
	}
	groups := map[string]*group{}
	var order []string
	for _, f := range fails {
		g := groups[f.v.core]
		if g == nil {
			g = &group{first: f, writers: map[string]bool{}}
			groups[f.v.core] = g
			order = append(order, f.v.core)
		}
		g.writers[f.entry] = true
	}
	sort.Strings(order)
	for _, k := range order {
		g := groups[k]
		e := entryByName(g.first.entry)
		ov := g.first.ov
		labels := "default-args"
		if !g.first.fixed {
			ov = r.minimise(e, t, ov, k, multi)
			labels = optLabels(e, &ov)
		}
		cs := caseT{Family: fam, Entry: e.name, Opts: ov, Core: k}
		var fd finding
		wit := t
		if ctx != nil && fam != "numbers" {
			ovp := &ov
			if g.first.fixed {
				ovp = nil
			}
			smin := r.minString(e, ctx, s, ovp, k)
			wit = ctx.build(smin)
			cs.Context, cs.Str = ctx.name, strconv.QuoteToASCII(smin)
			fd = finding{head: []string{r.alpha.category(smin), k}, ctx: ctx.class, tail: []string{"w=" + writerClass(g.writers), "opts=" + labels}}
		} else {
			if ctx != nil {
				cs.Context = ctx.name
			}
			fd = finding{head: []string{"fam=" + fam, "node=" + g.first.v.node, k, "w=" + writerClass(g.writers), "opts=" + labels}}
		}
		cs.Value, cs.Go = wref.Enc(wit), wref.GoLit(wit)
		exp, obs := g.first.v.exp, g.first.v.obs
		if wref.GoLit(wit) != wref.GoLit(t) { // report the minimised witness
			ovp := &ov
			if g.first.fixed {
				ovp = nil
			}
			for _, f := range r.evalVariant(e, wit, ovp, wref.MaxMembers(wit) >= 2, nil) {
				if f.v.core == k {
					exp, obs = f.v.exp, f.v.obs
					break
				}
			}
		}
		fd.cs, fd.size, fd.exp, fd.obs = cs, wref.Size(wit)+1+strings.Count(labels, "+"), exp, obs
		out = append(out, fd)
	}
	return
}

func (r *runner) evalAll(fam string, t any, multi, fullPretty bool) (fails []failure) {
	jcache := map[string]verdict{}
	pv := r.plan.prettySm
	if fullPretty {
		pv = r.plan.prettyFull
	}
	for _, e := range entries {
		switch {
		case e.fixed:
			for _, f := range r.evalVariant(e, t, nil, multi, jcache) {
				f.fixed = true
				fails = append(fails, f)
			}
		case e.pretty:
			for i := range pv {
				fails = append(fails, r.evalVariant(e, t, &pv[i], multi, jcache)...)
			}
		default:
			sv := r.plan.senVecs
			if fam == "indent-chains" {
				sv = r.plan.indentVecs
			}
			for i := range sv {
				fails = append(fails, r.evalVariant(e, t, &sv[i], multi, jcache)...)
			}
		}
	}
	return
}

// evalVariant runs one entry point under one option vector (streaming entries
// under every applicable WriteLimit unless ov fixes one).
func (r *runner) evalVariant(e *entry, t any, ov *optVec, multi bool, jcache map[string]verdict) (fails []failure) {
	c := r.c
	jd := func(text []byte) verdict {
		if jcache == nil {
			return judge(text, t)
		}
		vd, ok := jcache[string(text)]
		if !ok {
			vd = judge(text, t)
			jcache[string(text)] = vd
		}
		return vd
	}
	one := func(o *optVec) int {
		runs := 1
		if multi && (o == nil || !o.Sort) && !e.pretty {
			runs = 2 // map order is not controlled: must pass every time
		}
		n := 0
		for k := 0; k < runs; k++ {
			res := invoke(e, t, o)
			c.Eval()
			n = len(res.text)
			var vd verdict
			switch {
			case res.panic != "":
				vd = verdict{core: "write-panic:" + res.panic, exp: wref.GoLit(t), obs: "panic: " + res.pmsg, node: wref.Kind(t)}
			case res.err != nil:
				vd = verdict{core: "write-error", exp: wref.GoLit(t), obs: "error: " + res.err.Error(), node: wref.Kind(t)}
			default:
				vd = jd(res.text)
			}
			if vd.core != "" {
				f := failure{entry: e.name, v: vd, ov: optVec{HTMLUnsafe: true}}
				if o != nil {
					f.ov = *o
				}
				fails = append(fails, f)
				break
			}
		}
		return n
	}
	switch {
	case !e.stream || ov == nil || ov.WriteLimit != 0:
		one(ov)
	default:
		// first with the largest limit to learn the length, then the others
		o := *ov
		o.WriteLimit = r.plan.wls[len(r.plan.wls)-1]
		n := one(&o)
		for _, wl := range r.plan.wlsFor(n) {
			if wl == o.WriteLimit {
				continue
			}
			o2 := *ov
			o2.WriteLimit = wl
			one(&o2)
		}
	}
	return
}

func (r *runner) stillFails(e *entry, t any, ov *optVec, core string) bool {
	multi := wref.MaxMembers(t) >= 2
	tries := 1
	if multi {
		tries = 3
	}
	for i := 0; i < tries; i++ {
		for _, f := range r.evalVariant(e, t, ov, multi, nil) {
			if f.v.core == core {
				return true
			}
		}
	}
	return false
}

// minimise turns options back to neutral while the discrepancy persists.
func (r *runner) minimise(e *entry, t any, ov optVec, core string, multi bool) optVec {
	try := func(mod func(o *optVec)) {
		o := ov
		mod(&o)
		if o != ov && r.stillFails(e, t, &o, core) {
			ov = o
		}
	}
	if e.stream {
		try(func(o *optVec) { o.WriteLimit = 1024 })
	}
	try(func(o *optVec) { o.Tab = false })
	try(func(o *optVec) { o.Indent = 0 })
	try(func(o *optVec) { o.Sort = false })
	try(func(o *optVec) { o.HTMLUnsafe = true })
	try(func(o *optVec) { o.FloatFormat = "" })
	if e.pretty {
		try(func(o *optVec) { o.Align = false })
		try(func(o *optVec) { o.Width = 80 })
		try(func(o *optVec) { o.MaxDepth = 3 })
	}
	return ov
}

// minString removes units from the string while the same discrepancy shows
// in the same context, so that the signature names the classes that matter.
func (r *runner) minString(e *entry, ctx *contextT, s string, ov *optVec, core string) string {
	us := units(s)
	if len(us) > 12 { // long tokens: try the 1-unit strings of its distinct units first, then keep
		seen := map[string]bool{}
		for _, u := range us {
			if !seen[u] {
				seen[u] = true
				if r.stillFails(e, ctx.build(u), ov, core) {
					return u
				}
			}
		}
		return s
	}
	for changed := true; changed && len(us) > 1; {
		changed = false
		for i := 0; i < len(us) && len(us) > 1; i++ {
			cand := append(append([]string{}, us[:i]...), us[i+1:]...)
			if r.stillFails(e, ctx.build(strings.Join(cand, "")), ov, core) {
				us = cand
				changed = true
				i--
			}
		}
	}
	return strings.Join(us, "")
}

func optLabels(e *entry, o *optVec) string {
	var l []string
	add := func(c bool, s string) {
		if c {
			l = append(l, s)
		}
	}
	add(o.Tab, "tab")
	add(o.Indent > 0, "indent")
	add(o.Sort, "sort")
	add(!o.HTMLUnsafe, "htmlsafe")
	add(o.FloatFormat != "", "floatformat")
	if e.pretty {
		add(o.Align, "align")
		add(o.Width != 0 && o.Width < 80, "width<80")
		add(o.Width > 80, "width>80")
		add(o.MaxDepth != 0 && o.MaxDepth < 3, "depth<3")
	}
	if e.stream {
		add(o.WriteLimit != 0 && o.WriteLimit < 1024, "writelimit<1024")
	}
	if len(l) == 0 {
		return "none"
	}
	return strings.Join(l, "+")
}

// writerClass folds the set of failing entry points into one coordinate.
func writerClass(set map[string]bool) string {
	var names []string
	nonFixed := false
	for n := range set {
		if !entryByName(n).fixed {
			nonFixed = true
		}
	}
	for n := range set {
		if nonFixed && entryByName(n).fixed {
			continue
		}
		names = append(names, n)
	}
	sort.Strings(names)
	in := func(n string) bool {
		for _, x := range names {
			if x == n {
				return true
			}
		}
		return false
	}
	senAll := in("sen.String") && in("sen.Bytes") && in("Writer.SEN") && in("Writer.MustSEN") && in("sen.Write") && in("Writer.Write")
	senMem := in("sen.String") && in("sen.Bytes") && in("Writer.SEN") && in("Writer.MustSEN")
	prettyAll := in("pretty.SEN") && in("pretty.WriteSEN")
	anyPretty, anySen := false, false
	for _, n := range names {
		if strings.HasPrefix(n, "pretty.") {
			anyPretty = true
		} else {
			anySen = true
		}
	}
	switch {
	case !nonFixed:
		return "default-args:" + strings.Join(names, "+")
	case senAll && prettyAll:
		return "all"
	case senAll && !anyPretty:
		return "sen.*"
	case prettyAll && !anySen:
		return "pretty.*"
	case senMem && !anyPretty && !in("sen.Write") && !in("Writer.Write"):
		return "sen.mem"
	case !anyPretty && !senMem && (in("sen.Write") || in("Writer.Write")) && !in("sen.String") && !in("sen.Bytes") && !in("Writer.SEN") && !in("Writer.MustSEN"):
		return "sen.stream"
	}
	return strings.Join(names, "+")
}

// ---------------------------------------------------------------- replay

func replay(c *core.Ctx, raw json.RawMessage) {
	var cs caseT
	if err := json.Unmarshal(raw, &cs); err != nil {
		c.HarnessError("bad case: %v", err)
		return
	}
	t, err := wref.Dec(cs.Value)
	if err != nil {
		c.HarnessError("bad value: %v", err)
		return
	}
	e := entryByName(cs.Entry)
	if e == nil {
		c.HarnessError("unknown entry %q", cs.Entry)
		return
	}
	r := &runner{c: c, plan: newPlan(false)}
	ov := &cs.Opts
	if e.fixed {
		ov = nil
	}
	multi := wref.MaxMembers(t) >= 2
	tries := 1
	if multi {
		tries = 3
	}
	for i := 0; i < tries; i++ {
		for _, f := range r.evalVariant(e, t, ov, multi, nil) {
			c.Fail(core.Sig("replay", "w="+e.name, f.v.core), cs, wref.Size(t), f.v.exp, f.v.obs)
		}
	}
}
