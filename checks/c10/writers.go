package c10

import (
	"fmt"
	"runtime"
	"strings"

	"github.com/ohler55/ojg"
	"github.com/ohler55/ojg/pretty"
	"github.com/ohler55/ojg/sen"
)

// optVec is one option vector (OmitNil/OmitEmpty stay false: C10 is about the
// whole tree coming back).
type optVec struct {
	Indent     int  `json:"indent,omitempty"`
	Tab        bool `json:"tab,omitempty"`
	Sort       bool `json:"sort,omitempty"`
	HTMLUnsafe bool `json:"html_unsafe"`
	Width      int  `json:"width,omitempty"`
	MaxDepth   int  `json:"max_depth,omitempty"`
	Align      bool `json:"align,omitempty"`
	WriteLimit int  `json:"write_limit,omitempty"`
	// FloatFormat "%g" is the documented default verb spelled out: it prints the
	// shortest text that reads back as the same float64, so the round trip holds
	FloatFormat string `json:"float_format,omitempty"`
}

func (o *optVec) options() *ojg.Options {
	op := ojg.DefaultOptions
	op.Indent, op.Tab, op.Sort, op.HTMLUnsafe = o.Indent, o.Tab, o.Sort, o.HTMLUnsafe
	op.FloatFormat = o.FloatFormat
	if o.WriteLimit > 0 {
		op.WriteLimit = o.WriteLimit
	}
	return &op
}

func (o *optVec) prettyArgs() []any {
	w, d := o.Width, o.MaxDepth
	if w == 0 {
		w = 80
	}
	if d == 0 {
		d = 3
	}
	return []any{o.options(), float64(w) + float64(d)/10.0, o.Align}
}

type sink struct {
	buf   []byte
	calls int
}

func (s *sink) Write(p []byte) (int, error) {
	s.calls++
	s.buf = append(s.buf, p...)
	return len(p), nil
}

type entry struct {
	name   string
	pretty bool
	stream bool
	fixed  bool // default-argument flavour: no option vector
	call   func(v any, o *optVec, w *sink) ([]byte, error)
}

var entries = []*entry{
	{name: "sen.String", call: func(v any, o *optVec, _ *sink) ([]byte, error) {
		return []byte(sen.String(v, o.options())), nil
	}},
	{name: "sen.Bytes", call: func(v any, o *optVec, _ *sink) ([]byte, error) {
		return append([]byte{}, sen.Bytes(v, o.options())...), nil
	}},
	{name: "Writer.SEN", call: func(v any, o *optVec, _ *sink) ([]byte, error) {
		wr := sen.Writer{Options: *o.options()}
		return []byte(wr.SEN(v)), nil
	}},
	{name: "Writer.MustSEN", call: func(v any, o *optVec, _ *sink) ([]byte, error) {
		wr := sen.Writer{Options: *o.options()}
		return append([]byte{}, wr.MustSEN(v)...), nil
	}},
	{name: "sen.Write", stream: true, call: func(v any, o *optVec, w *sink) ([]byte, error) {
		err := sen.Write(w, v, o.options())
		return w.buf, err
	}},
	{name: "Writer.Write", stream: true, call: func(v any, o *optVec, w *sink) ([]byte, error) {
		wr := sen.Writer{Options: *o.options()}
		err := wr.Write(w, v)
		return w.buf, err
	}},
	{name: "pretty.SEN", pretty: true, call: func(v any, o *optVec, _ *sink) ([]byte, error) {
		return []byte(pretty.SEN(v, o.prettyArgs()...)), nil
	}},
	{name: "pretty.WriteSEN", pretty: true, stream: true, call: func(v any, o *optVec, w *sink) ([]byte, error) {
		err := pretty.WriteSEN(w, v, o.prettyArgs()...)
		return w.buf, err
	}},
	// default-argument flavours
	{name: "sen.String()", fixed: true, call: func(v any, _ *optVec, _ *sink) ([]byte, error) {
		return []byte(sen.String(v)), nil
	}},
	{name: "sen.String(int)", fixed: true, call: func(v any, _ *optVec, _ *sink) ([]byte, error) {
		return []byte(sen.String(v, 2)), nil
	}},
	{name: "sen.String(*Writer)", fixed: true, call: func(v any, _ *optVec, _ *sink) ([]byte, error) {
		return []byte(sen.String(v, &sen.Writer{Options: ojg.DefaultOptions})), nil
	}},
	{name: "sen.Bytes()", fixed: true, call: func(v any, _ *optVec, _ *sink) ([]byte, error) {
		return append([]byte{}, sen.Bytes(v)...), nil
	}},
	{name: "sen.Write()", fixed: true, stream: true, call: func(v any, _ *optVec, w *sink) ([]byte, error) {
		err := sen.Write(w, v)
		return w.buf, err
	}},
	{name: "pretty.SEN()", fixed: true, pretty: true, call: func(v any, _ *optVec, _ *sink) ([]byte, error) {
		return []byte(pretty.SEN(v)), nil
	}},
	{name: "pretty.WriteSEN()", fixed: true, pretty: true, stream: true, call: func(v any, _ *optVec, w *sink) ([]byte, error) {
		err := pretty.WriteSEN(w, v)
		return w.buf, err
	}},
	// the remaining exported functions and methods, with default options
	{name: "sen.MustWrite()", fixed: true, stream: true, call: func(v any, _ *optVec, w *sink) ([]byte, error) {
		sen.MustWrite(w, v)
		return w.buf, nil
	}},
	{name: "Writer.MustWrite()", fixed: true, stream: true, call: func(v any, _ *optVec, w *sink) ([]byte, error) {
		wr := sen.Writer{Options: ojg.DefaultOptions}
		wr.MustWrite(w, v)
		return w.buf, nil
	}},
	{name: "pretty.Writer{SEN}.Encode()", fixed: true, pretty: true, call: func(v any, _ *optVec, _ *sink) ([]byte, error) {
		pw := pretty.Writer{Options: ojg.DefaultOptions, Width: 80, MaxDepth: 3, SEN: true}
		return append([]byte{}, pw.Encode(v)...), nil
	}},
	{name: "pretty.Writer{SEN}.Marshal()", fixed: true, pretty: true, call: func(v any, _ *optVec, _ *sink) ([]byte, error) {
		pw := pretty.Writer{Options: ojg.DefaultOptions, Width: 80, MaxDepth: 3, SEN: true}
		b, err := pw.Marshal(v)
		return append([]byte{}, b...), err
	}},
	{name: "pretty.Writer{SEN}.Write()", fixed: true, pretty: true, stream: true, call: func(v any, _ *optVec, w *sink) ([]byte, error) {
		pw := pretty.Writer{Options: ojg.DefaultOptions, Width: 80, MaxDepth: 3, SEN: true}
		err := pw.Write(w, v)
		return w.buf, err
	}},
}

func entryByName(n string) *entry {
	for _, e := range entries {
		if e.name == n {
			return e
		}
	}
	return nil
}

type outcome struct {
	text  []byte
	err   error
	panic string
	pmsg  string
}

func invoke(e *entry, v any, o *optVec) (res outcome) {
	var w *sink
	if e.stream {
		w = &sink{}
	}
	defer func() {
		if r := recover(); r != nil {
			res.panic, res.pmsg = panicKind(r), fmt.Sprint(r)
		}
	}()
	if o == nil {
		o = &optVec{HTMLUnsafe: true}
	}
	res.text, res.err = e.call(v, o, w)
	return
}

func panicKind(r any) string {
	if re, ok := r.(runtime.Error); ok {
		msg := re.Error()
		for _, k := range []string{"index out of range", "slice bounds out of range", "nil pointer dereference", "nil map", "interface conversion", "divide by zero"} {
			if strings.Contains(msg, k) {
				return strings.ReplaceAll(k, " ", "-")
			}
		}
		return "runtime-error"
	}
	if _, ok := r.(error); ok {
		return "error-value"
	}
	return "other"
}

// parse reads a SEN text back with a fresh parser (sen.Parse minus the
// parser pool: state a pooled parser keeps after a failed parse is C07's
// subject and must not leak from one case into the next).
func parse(text []byte) (v any, err error, pk string) {
	defer func() {
		if r := recover(); r != nil {
			pk = panicKind(r)
			err = fmt.Errorf("panic: %v", r)
		}
	}()
	p := sen.Parser{}
	v, err = p.Parse(text)
	return
}
