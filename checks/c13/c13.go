// Package c13 decides C13: path mutations touch exactly the selected
// locations.
//
// For every path of the shared fragment alphabet and every document of the
// corpus, on the simple form and on the gen form, the check applies Set,
// SetOne, Del, DelOne, Remove, RemoveOne, Modify and ModifyOne (and their Must
// variants on the short paths) with several replacement values and modifier
// functions to a fresh copy and compares the after-state with a reference
// mutation applied at the locations L that the reference evaluator pathref
// selects on the before-state: the two must be deep-equal, which is the frame
// condition. Where Get itself disagrees with pathref the case is C05's
// subject: it is counted and skipped.
package c13

import (
	"encoding/json"
	"fmt"
	"reflect"
	"runtime"
	"runtime/debug"
	"sort"
	"strings"

	"github.com/ohler55/ojg/gen"
	"github.com/ohler55/ojg/jp"

	"verif/internal/core"
	"verif/internal/gens"
	"verif/internal/ref/pathref"
	"verif/internal/ref/scriptref"
)

const nShards = 16

func init() {
	core.Register(&core.Check{
		ID:     "C13",
		Level:  "exploration",
		Shards: func(string) int { return nShards },
		Run:    run,
		Replay: replay,
		Rule: "one case = (path, document): every sequence of <= k fragments after $ over the shared fragment alphabet x every document of the corpus, executed on the simple and on the gen form through every operation; " +
			"when the reference selects nothing and Set cannot create anything each operation is executed once (it must change nothing), otherwise with every replacement value and modifier. " +
			"distinct_nontrivial = (path, document) pairs for which the reference selects at least one location or Set has something to create; evaluations = calls of a mutating operation",
		Assumptions: []string{
			"pathref (unit-tested reference evaluator) gives the selected locations L; a case in which Get disagrees with every reading of pathref is a selection defect (C05) and is skipped and counted",
			"the reference mutation (internal to this check: a recursive copy that replaces / drops the locations of L) is the specification of the after-state",
			"Set is split per DESIGN 2.5: when every child / index step finds its target the exact frame oracle applies; when a key is missing or an index is out of range on the way (creation) only: no panic, nothing that existed before and is not selected changes (objects may gain keys named in the path, arrays may grow), and on success Get(path) yields the value for pure child/index chains",
			"Del on an array element may set it to nil or remove it with a shift; the *One forms may change any one member of L (picking another member than the first is counted, not reported); an error return is accepted when the state is the before-state, the expected state or, for Set/Modify, a partial application to members of L",
			"a modifier that replaces but reports unchanged may or may not take effect",
			"a failing case is shrunk (rest of the path on each element the first fragment selects) before it is classified",
		},
		Bound: func(tier string) string {
			wide, thin := len(gens.Paths(true).Frags), len(gens.Paths(false).Frags)
			d3, d4 := len(gens.PathData(3)), len(gens.PathData(4))
			if tier == "thorough" {
				return fmt.Sprintf("wide alphabet (%d fragments) k<=2 on the %d documents of PathData(4) (all trees <=4 nodes + hand-made larger ones); thinned alphabet (%d fragments) k=3 on the %d documents of PathData(3) that are nested at least 2 deep (on flatter ones a third fragment has nothing to apply to; they are covered with k<=2); ", wide, d4, thin, len(gens.DeepDocs(gens.PathData(3), 2))) + opBound
			}
			return fmt.Sprintf("wide alphabet (%d fragments) k<=2 on the %d documents of PathData(3) (all trees <=3 nodes + hand-made larger ones); ", wide, d3) + opBound
		},
	})
}

const opBound = "operations Set SetOne Del DelOne Remove RemoveOne Modify ModifyOne on simple and gen data, Must variants for k=1; values nil, 7, \"v\", [], {z:1}; " +
	"modifiers identity-unchanged, replace-changed, replace-reported-unchanged, shorter-slice"

// ------------------------------------------------------------------ operations

type opT struct {
	Name string `json:"op"`       // Set SetOne Del DelOne Remove RemoveOne Modify ModifyOne
	Must bool   `json:"must"`     // the Must variant
	Val  int    `json:"value"`    // index into values (Set, Modify replace modifiers)
	Mod  string `json:"modifier"` // identity replace replace-unchanged tail
}

func (o opT) one() bool     { return strings.HasSuffix(o.Name, "One") }
func (o opT) base() string  { return strings.TrimSuffix(o.Name, "One") }
func (o opT) label() string { return o.Name }
func (o opT) String() string {
	s := o.Name
	if o.Must {
		s = "Must" + s
	}
	switch o.base() {
	case "Set":
		s += "(" + gens.Show(values()[o.Val]) + ")"
	case "Modify":
		s += "(" + o.Mod
		if o.Mod == "replace" || o.Mod == "replace-unchanged" {
			s += " " + gens.Show(values()[o.Val])
		}
		s += ")"
	}
	return s
}

func values() []any {
	return []any{int64(7), nil, "v", []any{}, map[string]any{"z": int64(1)}}
}

// modifier is the pure function a Modify call applies to one element (simple form).
func (o opT) modify(old any) (any, bool) {
	switch o.Mod {
	case "identity":
		return old, false
	case "replace":
		return gens.Clone(values()[o.Val]), true
	case "replace-unchanged":
		return gens.Clone(values()[o.Val]), false
	case "tail":
		if a, ok := old.([]any); ok && len(a) > 0 {
			return a[1:], true
		}
		return old, false
	}
	panic("unknown modifier " + o.Mod)
}

// ------------------------------------------------------------------ tree equality

// tooDeep reports nesting beyond 40 levels (the corpus is at most 5 deep and
// replacement values 1): the tree has been linked into itself.
func tooDeep(v any, d int) bool {
	if d > 40 {
		return true
	}
	switch t := v.(type) {
	case []any:
		for _, e := range t {
			if tooDeep(e, d+1) {
				return true
			}
		}
	case map[string]any:
		for _, e := range t {
			if tooDeep(e, d+1) {
				return true
			}
		}
	case gen.Array:
		for _, e := range t {
			if tooDeep(e, d+1) {
				return true
			}
		}
	case gen.Object:
		for _, e := range t {
			if tooDeep(e, d+1) {
				return true
			}
		}
	}
	return false
}

// eqTree is deep equality of two value trees in the simple or the gen form
// (kind-exact: an int64 equals neither a gen.Int nor a float64; a nil and an
// empty container are equal).
func eqTree(a, b any) bool {
	switch ta := a.(type) {
	case nil:
		return b == nil
	case int64:
		tb, ok := b.(int64)
		return ok && ta == tb
	case string:
		tb, ok := b.(string)
		return ok && ta == tb
	case []any:
		tb, ok := b.([]any)
		if !ok || len(ta) != len(tb) {
			return false
		}
		for i := range ta {
			if !eqTree(ta[i], tb[i]) {
				return false
			}
		}
		return true
	case map[string]any:
		tb, ok := b.(map[string]any)
		if !ok || len(ta) != len(tb) {
			return false
		}
		for k, e := range ta {
			be, has := tb[k]
			if !has || !eqTree(e, be) {
				return false
			}
		}
		return true
	case gen.Int:
		tb, ok := b.(gen.Int)
		return ok && ta == tb
	case gen.String:
		tb, ok := b.(gen.String)
		return ok && ta == tb
	case gen.Array:
		tb, ok := b.(gen.Array)
		if !ok || len(ta) != len(tb) {
			return false
		}
		for i := range ta {
			if !eqTree(ta[i], tb[i]) {
				return false
			}
		}
		return true
	case gen.Object:
		tb, ok := b.(gen.Object)
		if !ok || len(ta) != len(tb) {
			return false
		}
		for k, e := range ta {
			be, has := tb[k]
			if !has || !eqTree(e, be) {
				return false
			}
		}
		return true
	}
	return reflect.DeepEqual(a, b)
}

// ------------------------------------------------------------------ reference mutation

type action struct {
	kind string // set remove nil
	val  any
}

// rebuild copies node applying the actions keyed by location.
func rebuild(node any, key string, acts map[string]action) any {
	switch t := node.(type) {
	case []any:
		out := make([]any, 0, len(t))
		for i, e := range t {
			k := key + "/" + itoa(i)
			if a, ok := acts[k]; ok {
				switch a.kind {
				case "set":
					out = append(out, gens.Clone(a.val))
				case "nil":
					out = append(out, nil)
				}
				continue
			}
			out = append(out, rebuild(e, k, acts))
		}
		return out
	case map[string]any:
		out := make(map[string]any, len(t))
		for k0, e := range t {
			k := key + "/" + k0
			if a, ok := acts[k]; ok {
				switch a.kind {
				case "set":
					out[k0] = gens.Clone(a.val)
				case "nil":
					out[k0] = nil
				}
				continue
			}
			out[k0] = rebuild(e, k, acts)
		}
		return out
	}
	return node
}

func itoa(i int) string {
	if 0 <= i && i < 10 {
		return string(rune('0' + i))
	}
	return fmt.Sprint(i)
}

type hit = pathref.Hit

// outermost drops the hits that lie beneath another hit.
func outermost(hs []hit) []hit {
	keys := make(map[string]bool, len(hs))
	for _, h := range hs {
		keys[gens.LocKey(h.Loc)] = true
	}
	var out []hit
	for _, h := range hs {
		nested := false
		for n := 0; n < len(h.Loc); n++ {
			if keys[gens.LocKey(h.Loc[:n])] {
				nested = true
				break
			}
		}
		if !nested {
			out = append(out, h)
		}
	}
	return out
}

func isNested(hs []hit) bool { return len(outermost(hs)) != len(dedupe(hs)) }

func dedupe(hs []hit) []hit {
	seen := map[string]bool{}
	var out []hit
	for _, h := range hs {
		k := gens.LocKey(h.Loc)
		if !seen[k] {
			seen[k] = true
			out = append(out, h)
		}
	}
	return out
}

func parentIsArray(root any, loc pathref.Loc) bool {
	cur := root
	for _, p := range loc[:len(loc)-1] {
		switch t := cur.(type) {
		case []any:
			cur = t[p.(int)]
		case map[string]any:
			cur = t[p.(string)]
		}
	}
	_, ok := cur.([]any)
	return ok
}

// expected returns the acceptable after-states of op applied at hits.
func expected(before any, hs []hit, o opT) []any {
	hs = dedupe(hs)
	if len(hs) == 0 {
		return []any{before}
	}
	mk := func(sel []hit, arrKind string) any {
		acts := map[string]action{}
		for _, h := range sel {
			k := gens.LocKey(h.Loc)
			switch o.base() {
			case "Set":
				acts[k] = action{"set", values()[o.Val]}
			case "Del", "Remove":
				if len(h.Loc) > 0 && parentIsArray(before, h.Loc) {
					acts[k] = action{arrKind, nil}
				} else {
					acts[k] = action{"remove", nil}
				}
			case "Modify":
				if nv, changed := o.modify(h.Value); changed || o.Mod == "replace-unchanged" {
					acts[k] = action{"set", nv}
				}
			}
		}
		return rebuild(before, "", acts)
	}
	arrKinds := []string{"remove"}
	if o.base() == "Del" {
		arrKinds = []string{"nil", "remove"}
	}
	var out []any
	if o.one() {
		for _, ak := range arrKinds {
			for _, h := range hs {
				out = append(out, mk([]hit{h}, ak))
			}
		}
	} else {
		for _, ak := range arrKinds {
			out = append(out, mk(outermost(hs), ak))
		}
	}
	if o.base() == "Modify" && (o.Mod == "replace-unchanged" || o.Mod == "identity") {
		out = append(out, before) // reported unchanged: need not take effect
	}
	if o.one() {
		out = append(out, before) // "at most one location": changing none is within the statement (counted)
	}
	return out
}

// ------------------------------------------------------------------ creation analysis (Set)

// creation reports whether Set may have to create something: on the way a
// child (or union key) meets an object without that key, or an index (or
// union index) lies outside an array.
func creation(spec gens.JPExpr, data any) bool { return creationV(spec, data, pathref.Variants[0]) }

func creationV(spec gens.JPExpr, data any, v pathref.Variant) bool {
	for i := 1; i < len(spec); i++ {
		f := spec[i]
		if f.K != "child" && f.K != "nth" && f.K != "union" {
			continue
		}
		var nodes []hit
		if i == 1 {
			nodes = []hit{{Value: data}}
		} else {
			nodes = pathref.SelectSpec(spec[:i], data, v).Hits
		}
		for _, n := range nodes {
			switch t := n.Value.(type) {
			case map[string]any:
				if f.K == "child" {
					if _, has := t[string(f.Key)]; !has {
						return true
					}
				}
				for _, m := range f.U {
					if m.S != nil {
						if _, has := t[string(*m.S)]; !has {
							return true
						}
					}
				}
			case []any:
				oob := func(i int) bool { return i < -len(t) || len(t) <= i }
				if f.K == "nth" && oob(f.N) {
					return true
				}
				for _, m := range f.U {
					if m.I != nil && oob(int(*m.I)) {
						return true
					}
				}
			}
		}
	}
	return false
}

func pathKeys(spec gens.JPExpr) map[string]bool {
	out := map[string]bool{}
	for _, f := range spec {
		if f.K == "child" {
			out[string(f.Key)] = true
		}
		for _, m := range f.U {
			if m.S != nil {
				out[string(*m.S)] = true
			}
		}
	}
	return out
}

// preserved is the weak frame condition of the creation cases: everything
// that existed before and is not selected is still there and equal; objects
// may have gained keys that the path names, arrays may have grown.
func preserved(before, after any, key string, sel map[string]bool, keys map[string]bool) string {
	if sel[key] {
		return ""
	}
	switch b := before.(type) {
	case []any:
		a, ok := after.([]any)
		if !ok || len(a) < len(b) {
			return key
		}
		for i, e := range b {
			if bad := preserved(e, a[i], key+"/"+itoa(i), sel, keys); bad != "" {
				return bad
			}
		}
		return ""
	case map[string]any:
		a, ok := after.(map[string]any)
		if !ok {
			return key
		}
		for k, e := range b {
			ae, has := a[k]
			if !has {
				return key + "/" + k
			}
			if bad := preserved(e, ae, key+"/"+k, sel, keys); bad != "" {
				return bad
			}
		}
		for k := range a {
			if _, old := b[k]; !old && !keys[k] {
				return key + "/" + k
			}
		}
		return ""
	}
	if !eqTree(before, after) {
		return key
	}
	return ""
}

// ------------------------------------------------------------------ executing one operation

type outcome struct {
	root  any   // the root after the call (returned root for Modify / Remove)
	err   error // returned error, or the error / string a Must variant panicked with
	pv    any   // a panic that is a fault: any panic of a non-Must form, a runtime.Error of a Must form
	calls []any // elements handed to the modifier
}

func toRepr(v any, repr string) any {
	if repr == "gen" {
		if v == nil {
			return nil
		}
		return gens.ToGen(v)
	}
	return v
}

func execute(c *core.Ctx, x jp.Expr, data any, repr string, o opT) (out outcome) {
	out.root = data
	defer func() {
		if p := recover(); p != nil {
			if _, rt := p.(runtime.Error); o.Must && !rt {
				if e, ok := p.(error); ok {
					out.err = e
				} else {
					out.err = fmt.Errorf("%v", p)
				}
				return
			}
			out.pv = p
		}
	}()
	c.Eval()
	val := func() any { return gens.Clone(values()[o.Val]) }
	modifier := func(el any) (any, bool) {
		out.calls = append(out.calls, el)
		if o.Mod == "identity" {
			return el, false
		}
		if o.Mod == "tail" {
			switch t := el.(type) {
			case []any:
				if len(t) > 0 {
					return t[1:], true
				}
			case gen.Array:
				if len(t) > 0 {
					return t[1:], true
				}
			}
			return el, false
		}
		nv, changed := o.modify(nil)
		return toRepr(nv, repr), changed
	}
	switch {
	case o.Name == "Set" && !o.Must:
		out.err = x.Set(data, val())
	case o.Name == "Set":
		x.MustSet(data, val())
	case o.Name == "SetOne" && !o.Must:
		out.err = x.SetOne(data, val())
	case o.Name == "SetOne":
		x.MustSetOne(data, val())
	case o.Name == "Del" && !o.Must:
		out.err = x.Del(data)
	case o.Name == "Del":
		x.MustDel(data)
	case o.Name == "DelOne" && !o.Must:
		out.err = x.DelOne(data)
	case o.Name == "DelOne":
		x.MustDelOne(data)
	case o.Name == "Remove" && !o.Must:
		r, err := x.Remove(data)
		if out.err = err; err == nil {
			out.root = r
		}
	case o.Name == "Remove":
		out.root = x.MustRemove(data)
	case o.Name == "RemoveOne" && !o.Must:
		r, err := x.RemoveOne(data)
		if out.err = err; err == nil {
			out.root = r
		}
	case o.Name == "RemoveOne":
		out.root = x.MustRemoveOne(data)
	case o.Name == "Modify" && !o.Must:
		r, err := x.Modify(data, modifier)
		if out.err = err; err == nil {
			out.root = r
		}
	case o.Name == "Modify":
		out.root = x.MustModify(data, modifier)
	case o.Name == "ModifyOne" && !o.Must:
		r, err := x.ModifyOne(data, modifier)
		if out.err = err; err == nil {
			out.root = r
		}
	case o.Name == "ModifyOne":
		out.root = x.MustModifyOne(data, modifier)
	}
	return
}

// ------------------------------------------------------------------ judging one operation

type finding struct {
	kind     string
	exp, obs string
}

type selection struct {
	cands   [][]hit // the readings of pathref that agree with Get (distinct location lists)
	ordered bool
	empty   bool // every reading selects nothing
}

func cmpVals(got []any, want []hit, ordered bool) bool {
	if len(got) != len(want) {
		return false
	}
	seq := true
	for i := range got {
		if !eqTree(got[i], want[i].Value) {
			seq = false
			break
		}
	}
	if seq {
		return true
	}
	if ordered {
		return false
	}
	used := make([]bool, len(want))
outer:
	for _, g := range got {
		for j, w := range want {
			if !used[j] && eqTree(g, w.Value) {
				used[j] = true
				continue outer
			}
		}
		return false
	}
	return true
}

func locKeys(hs []hit) string {
	ks := make([]string, len(hs))
	for i, h := range hs {
		ks[i] = gens.LocKey(h.Loc)
	}
	sort.Strings(ks)
	return strings.Join(ks, " ")
}

// selectRef returns the readings of pathref that agree with what Get returns
// on the before-state; ok=false: Get disagrees with all of them (or a filter
// verdict is open, or Get panics).
func selectRef(c *core.Ctx, spec gens.JPExpr, x jp.Expr, data any, multi bool) (sel selection, ok bool) {
	var gs []any
	panicked := func() (p bool) {
		defer func() { p = recover() != nil }()
		gs = x.Get(data)
		return
	}()
	if panicked {
		return sel, false
	}
	sel.ordered = !multi && !spec.HasFrag("desc")
	vs := pathref.Variants[:1]
	for _, f := range spec {
		if f.K == "slice" {
			if _, _, sp := gens.SliceParts(f); sp != 1 {
				vs = pathref.Variants
			}
		}
	}
	seen := map[string]bool{}
	sel.empty = true
	for _, v := range vs {
		r := pathref.SelectSpec(spec, data, v)
		if r.Open {
			return sel, false
		}
		if !cmpVals(gs, r.Hits, sel.ordered) {
			continue
		}
		k := locKeys(r.Hits)
		if seen[k] {
			continue
		}
		seen[k] = true
		sel.cands = append(sel.cands, r.Hits)
		if len(r.Hits) > 0 {
			sel.empty = false
		}
	}
	return sel, len(sel.cands) > 0
}

func getAt(root any, loc pathref.Loc) (any, bool) {
	cur := root
	for _, p := range loc {
		switch t := cur.(type) {
		case []any:
			i, ok := p.(int)
			if !ok || i < 0 || len(t) <= i {
				return nil, false
			}
			cur = t[i]
		case map[string]any:
			k, ok := p.(string)
			if !ok {
				return nil, false
			}
			v, has := t[k]
			if !has {
				return nil, false
			}
			cur = v
		default:
			return nil, false
		}
	}
	return cur, true
}

func size(v any) int {
	switch t := v.(type) {
	case []any:
		return len(t)
	case map[string]any:
		return len(t)
	}
	return -1
}

// classify names the way the after-state departs from the expected one.
func classify(o opT, before, after any, hs []hit, exp any) string {
	hs = dedupe(hs)
	lk := map[string]bool{}
	parents := map[string]pathref.Loc{}
	for _, h := range hs {
		lk[gens.LocKey(h.Loc)] = true
		if len(h.Loc) > 0 {
			parents[gens.LocKey(h.Loc[:len(h.Loc)-1])] = h.Loc[:len(h.Loc)-1]
		}
	}
	if o.base() == "Del" || o.base() == "Remove" {
		// per container that holds selected members: how many members are gone
		// (removed, or for Del set to nil) against how many were selected there
		pk := map[string]bool{}
		for k := range parents {
			pk[k] = true
		}
		if firstDiffOutside(before, after, "", pk) != "" {
			return "touched-extra" // something changed outside the containers that hold the selected members
		}
		gone, sawParent := 0, false
		verdict := ""
		for pk, p := range parents {
			bp, ok1 := getAt(before, p)
			ap, ok2 := getAt(after, p)
			if !ok1 || !ok2 || size(bp) < 0 || size(ap) < 0 {
				continue
			}
			sawParent = true
			want := 0
			for k := range lk {
				if i := strings.LastIndexByte(k, '/'); i >= 0 && k[:i] == pk {
					want++
				}
			}
			if o.one() {
				want = 1
			}
			g := size(bp) - size(ap)
			if a, ok := ap.([]any); ok && o.base() == "Del" {
				if b, ok := bp.([]any); ok {
					for i := range a {
						if i < len(b) && a[i] == nil && b[i] != nil {
							g++
						}
					}
				}
			}
			gone += g
			ep, _ := getAt(exp, p)
			switch {
			case verdict != "":
			case g > want:
				verdict = "touched-extra"
			case g < want && !o.one():
				verdict = "missed"
			case g == want && !o.one() && !eqTree(ap, ep):
				verdict = "sibling-changed" // the right number of members but not the selected ones
			}
		}
		switch {
		case o.one() && gone > 1:
			return "wrong-count"
		case verdict != "":
			return verdict
		case o.one() && gone == 0 && len(hs) > 0, !sawParent && len(hs) > 0:
			return "missed"
		case o.one() && gone == 1:
			return "sibling-changed" // one member gone, but not a selected one
		}
		return "touched-extra"
	}
	// Set / Modify: the structure outside L is kept
	changedL, missedL := 0, 0
	for _, h := range outermost(hs) {
		av, ok := getAt(after, h.Loc)
		ev, _ := getAt(exp, h.Loc)
		bv, _ := getAt(before, h.Loc)
		if !ok || !eqTree(av, bv) {
			changedL++
		}
		if !ok || !eqTree(av, ev) {
			missedL++
		}
	}
	outside := firstDiffOutside(before, after, "", lk)
	switch {
	case outside != "":
		if i := strings.LastIndexByte(outside, '/'); i >= 0 {
			if _, sib := parents[outside[:i]]; sib {
				return "sibling-changed"
			}
		}
		return "touched-extra"
	case o.one() && changedL > 1:
		return "wrong-count"
	case missedL > 0 && changedL == 0:
		return "missed"
	case missedL > 0:
		return "missed"
	}
	return "wrong-state"
}

// firstDiffOutside returns the first location outside sel at which the two
// trees differ ("" when none).
func firstDiffOutside(a, b any, key string, sel map[string]bool) string {
	if sel[key] {
		return ""
	}
	switch ta := a.(type) {
	case []any:
		tb, ok := b.([]any)
		if !ok || len(ta) != len(tb) {
			return key + "/"
		}
		for i := range ta {
			if d := firstDiffOutside(ta[i], tb[i], key+"/"+itoa(i), sel); d != "" {
				return d
			}
		}
		return ""
	case map[string]any:
		tb, ok := b.(map[string]any)
		if !ok {
			return key + "/"
		}
		for k, e := range ta {
			be, has := tb[k]
			if !has {
				if sel[key+"/"+k] {
					continue
				}
				return key + "/" + k
			}
			if d := firstDiffOutside(e, be, key+"/"+k, sel); d != "" {
				return d
			}
		}
		for k := range tb {
			if _, has := ta[k]; !has {
				return key + "/" + k
			}
		}
		return ""
	}
	if !eqTree(a, b) {
		return key
	}
	return ""
}

// locExpr builds the normalised path of a location.
func locExpr(loc pathref.Loc) jp.Expr {
	x := jp.R()
	for _, p := range loc {
		switch t := p.(type) {
		case string:
			x = x.Child(t)
		case int:
			x = x.Nth(t)
		}
	}
	return x
}

var notedErr = map[string]bool{}

// judgeOp checks one executed operation. after is the canonical (simple)
// after-state, afterRepr the root in the representation it was run on.
func judgeOp(c *core.Ctx, spec gens.JPExpr, x jp.Expr, before any, sel selection, o opT, creating bool, out outcome, repr string) *finding {
	if out.pv != nil {
		return &finding{"panic:" + gens.JPPanicKind(out.pv), "an error or a result", fmt.Sprintf("panic: %v", out.pv)}
	}
	if tooDeep(out.root, 0) {
		// the operation linked the document (or the replacement value) into itself
		return &finding{"cyclic-result", "a finite document", "the result is nested more than 40 deep: the replacement value was made a member of itself"}
	}
	after := out.root
	if repr != "simple" {
		after = gens.Canon(out.root)
	}
	errText := "no error"
	if out.err != nil {
		errText = "error: " + out.err.Error()
	}
	if creating && o.base() == "Set" {
		c.Add("set_creation_cases_weak_oracle", 1)
		selKeys := map[string]bool{}
		for _, cand := range sel.cands {
			for _, h := range cand {
				selKeys[gens.LocKey(h.Loc)] = true
			}
		}
		if bad := preserved(before, after, "", selKeys, pathKeys(spec)); bad != "" {
			kind := "touched-extra"
			if i := strings.LastIndexByte(bad, '/'); i >= 0 {
				for k := range selKeys {
					if j := strings.LastIndexByte(k, '/'); j >= 0 && k[:j] == bad[:i] {
						kind = "sibling-changed"
					}
				}
			}
			return &finding{"creation:" + kind, "everything that existed before and is not selected unchanged (" + gens.Show(before) + ")",
				"location " + bad + " differs: " + gens.Show(after) + " (" + errText + ")"}
		}
		if out.err == nil && !o.one() {
			chain := true
			for _, f := range spec[1:] {
				if f.K != "child" && f.K != "nth" {
					chain = false
				}
			}
			if chain {
				g := safeGet(x, out.root)
				if len(g) != 1 || !eqTree(gens.Canon(g[0]), values()[o.Val]) {
					return &finding{"creation:missed", "Get(path) yields the value after a successful Set", showList(g) + " in " + gens.Show(after)}
				}
			}
		}
		return nil
	}
	// exact oracle
	var exps []any
	for _, cand := range sel.cands {
		exps = append(exps, expected(before, cand, o)...)
	}
	for _, e := range exps {
		if eqTree(after, e) {
			if o.one() && !sel.empty && !eqTree(after, before) {
				lastOne = "one"
			}
			if out.err != nil && !sel.empty {
				c.Add("error_returned_although_the_expected_state_was_reached", 1)
			}
			if out.err == nil {
				if f := postChecks(c, x, before, after, sel, o, out, repr); f != nil {
					return f
				}
			}
			if o.one() && !sel.empty && eqTree(after, before) && !(o.base() == "Modify" && o.Mod != "replace") && !eqTree(exps[0], before) {
				c.Add("one_form_changed_nothing_although_locations_are_selected", 1)
				lastOne = "nothing"
			} else if o.one() && sel.ordered && len(sel.cands[0]) > 1 && !eqTree(after, exps[0]) {
				c.Add("one_form_changed_a_member_other_than_the_first", 1)
			}
			return nil
		}
	}
	if out.err != nil {
		if eqTree(after, before) {
			if !sel.empty {
				key := "error_and_no_change_although_locations_are_selected:" + o.Name + ":last=" + lastKind(spec)
				c.Add(key, 1)
				if !notedErr[key] {
					notedErr[key] = true
					c.Note("%s: %s %s on %s form of %s: %v", key, o, x, repr, gens.Show(before), out.err)
				}
			}
			return nil
		}
		// partial application: the operation was applied to some of the selected
		// locations before it gave up
		for _, cand := range sel.cands {
			// any subset, nested hits included: an inner location may have been
			// changed before the operation gave up at an outer one
			hs := dedupe(cand)
			if len(hs) > 10 {
				hs = outermost(hs)
			}
			if len(hs) > 10 {
				continue
			}
			all := opT{Name: o.base(), Val: o.Val, Mod: o.Mod}
			for mask := 1; mask < 1<<uint(len(hs)); mask++ {
				var part []hit
				for i, h := range hs {
					if mask>>uint(i)&1 == 1 {
						part = append(part, h)
					}
				}
				for _, e := range expected(before, part, all) {
					if eqTree(after, e) {
						c.Add("error_returned_after_a_partial_application", 1)
						return nil
					}
				}
			}
		}
	}
	kind := classify(o, before, after, sel.cands[0], exps[0])
	return &finding{kind, gens.Show(exps[0]) + "  (locations " + locKeys(dedupe(sel.cands[0])) + ")", gens.Show(after) + "  (" + errText + ")"}
}

func safeGet(x jp.Expr, data any) (res []any) {
	defer func() {
		if recover() != nil {
			res = nil
		}
	}()
	return x.Get(data)
}

func showList(vs []any) string {
	parts := make([]string, len(vs))
	for i, v := range vs {
		parts[i] = gens.Show(gens.Canon(v))
	}
	return "[" + strings.Join(parts, " ") + "]"
}

// postChecks: Get at each selected location returns the new value / nothing,
// and the modifier saw the selected elements.
func postChecks(c *core.Ctx, x jp.Expr, before, after any, sel selection, o opT, out outcome, repr string) *finding {
	hs := dedupe(sel.cands[0])
	if len(sel.cands) > 1 || len(hs) == 0 {
		return nil
	}
	nested := isNested(hs)
	if !o.one() && !nested {
		for _, h := range hs {
			if len(h.Loc) == 0 {
				continue
			}
			g := safeGet(locExpr(h.Loc), out.root)
			switch o.base() {
			case "Set":
				if len(g) != 1 || !eqTree(gens.Canon(g[0]), values()[o.Val]) {
					return &finding{"missed", "Get at " + gens.LocKey(h.Loc) + " returns the new value", showList(g)}
				}
			case "Del", "Remove":
				if !parentIsArray(before, h.Loc) && len(g) != 0 {
					return &finding{"missed", "Get at " + gens.LocKey(h.Loc) + " returns nothing", showList(g)}
				}
			}
		}
	}
	if o.base() == "Modify" && !nested {
		// the modifier is called with selected elements only: all of them
		// (Modify, and ModifyOne when nothing is reported changed)
		want := make([]any, len(hs))
		for i, h := range hs {
			want[i] = h.Value
		}
		got := make([]any, len(out.calls))
		for i, e := range out.calls {
			got[i] = gens.Canon(e)
		}
		all := !o.one() || o.Mod == "identity" || o.Mod == "replace-unchanged"
		if !subMultiset(got, want) || all && len(got) != len(want) {
			kind := "missed"
			if len(got) > len(want) || !subMultiset(got, want) {
				kind = "touched-extra"
			}
			return &finding{"modifier-calls:" + kind, "the modifier is called with the selected elements " + showList(want), showList(got)}
		}
	}
	return nil
}

func subMultiset(got, want []any) bool {
	used := make([]bool, len(want))
outer:
	for _, g := range got {
		for j, w := range want {
			if !used[j] && eqTree(g, w) {
				used[j] = true
				continue outer
			}
		}
		return false
	}
	return true
}

// ------------------------------------------------------------------ which operations for a case

func lastKind(spec gens.JPExpr) string { return spec[len(spec)-1].K }

// opsFor lists the operations executed for a case. trivial = nothing selected
// and nothing to create: each operation once.
func opsFor(spec gens.JPExpr, trivial bool, must bool) []opT {
	var out []opT
	add := func(o opT) {
		out = append(out, o)
		if must {
			o.Must = true
			out = append(out, o)
		}
	}
	vals := []int{0, 1, 2, 3, 4}
	mods := []string{"replace", "identity", "replace-unchanged", "tail"}
	if trivial {
		vals, mods = []int{0}, []string{"replace"}
	}
	switch lastKind(spec) {
	case "slice", "filter", "desc":
		// not documented for Set / Del: one call each, it must come back as an error
		add(opT{Name: "Set"})
		add(opT{Name: "Del"})
	default:
		for _, v := range vals {
			add(opT{Name: "Set", Val: v})
			add(opT{Name: "SetOne", Val: v})
		}
		add(opT{Name: "Del"})
		add(opT{Name: "DelOne"})
	}
	add(opT{Name: "Remove"})
	add(opT{Name: "RemoveOne"})
	for _, m := range mods {
		vs := []int{0}
		if m == "replace" && !trivial {
			vs = []int{0, 1, 3}
		}
		for _, v := range vs {
			add(opT{Name: "Modify", Mod: m, Val: v})
			add(opT{Name: "ModifyOne", Mod: m, Val: v})
		}
	}
	return out
}

// ------------------------------------------------------------------ documents

type tree struct {
	simple any
	gen    any
	multi  bool
	raw    any
	text   string
}

func newTree(v any) *tree {
	return &tree{simple: v, gen: gens.ToGen(v), multi: gens.HasMultiKeyMap(v)}
}

func (t *tree) encoded() any {
	if t.raw == nil {
		t.raw = gens.EncodeTree(t.simple)
	}
	return t.raw
}

func (t *tree) show() string {
	if t.text == "" {
		t.text = gens.Show(t.simple)
	}
	return t.text
}

var subtrees = map[string]*tree{}

func subtree(v any) *tree {
	k := gens.Show(v)
	if t, ok := subtrees[k]; ok {
		return t
	}
	t := newTree(v)
	if len(subtrees) < 4096 {
		subtrees[k] = t
	}
	return t
}

// ------------------------------------------------------------------ one (path, document, representation, operation)

// runOp executes op on a fresh copy and judges it.
// lastOne is what the last judged *One operation did when it was accepted:
// "one" (a selected location changed), "nothing" (locations are selected but
// the document is unchanged, which "at most one" allows) or "" (anything else).
var lastOne string

func runOp(c *core.Ctx, spec gens.JPExpr, x jp.Expr, t *tree, sel selection, creating bool, repr string, o opT) *finding {
	lastOne = ""
	if repr == "gen" && o.base() == "Modify" && (o.Mod == "replace" || o.Mod == "replace-unchanged") && values()[o.Val] == nil {
		return nil // a nil replacement is not a gen.Node: not expressible
	}
	if o.Mod == "tail" {
		for _, cand := range sel.cands {
			if isNested(cand) {
				c.Add("shorter_slice_modifier_skipped_on_nested_selections", 1)
				return nil // the result depends on the order in which nested elements are visited
			}
		}
	}
	var data any = gens.Clone(t.simple)
	if repr == "gen" {
		data = gens.ToGen(t.simple)
	}
	out := execute(c, x, data, repr, o)
	return judgeOp(c, spec, x, t.simple, sel, o, creating, out, repr)
}

type caseT struct {
	Path gens.JPExpr `json:"path"`
	Text string      `json:"path_text"`
	Data any         `json:"data"`
	Repr string      `json:"repr"`
	Op   opT         `json:"operation"`
	Kind string      `json:"kind"`
}

// fails re-runs one operation on another (path, document) and reports whether
// it fails with the same discrepancy kind.
func fails(c *core.Ctx, spec gens.JPExpr, t *tree, repr string, o opT, kind string) *finding {
	x := spec.Build()
	sel, ok := selectRef(c, spec, x, t.simple, t.multi)
	if !ok {
		return nil
	}
	creating := o.base() == "Set" && creation(spec, t.simple)
	rounds := 1
	if t.multi {
		rounds = 3
	}
	if kind == oneDiffers {
		if t.multi || !o.one() {
			return nil
		}
		if runOp(c, spec, x, t, sel, creating, "simple", o) != nil || lastOne == "" {
			return nil
		}
		was := lastOne
		if runOp(c, spec, x, t, sel, creating, "gen", o) != nil || lastOne == "" || lastOne == was {
			return nil
		}
		return &finding{oneDiffers, "on simple data the operation changed " + was, "on gen data it changed " + lastOne}
	}
	for i := 0; i < rounds; i++ {
		if f := runOp(c, spec, x, t, sel, creating, repr, o); f != nil && f.kind == kind {
			return f
		}
	}
	return nil
}

const oneDiffers = "one-form-differs-simple-gen"

// children lists the container nodes below the root that the first fragment
// could hand to the rest of the path: the direct members (every descendant
// for a descent).
func children(v any, deep bool, out []any) []any {
	each := func(e any) {
		if kind, _ := gens.NodeKind(e); kind != "scalar" {
			out = append(out, e)
			if deep {
				out = children(e, deep, out)
			}
		}
	}
	switch t := v.(type) {
	case []any:
		for _, e := range t {
			each(e)
		}
	case map[string]any:
		for _, k := range sortedKeys(t) {
			each(t[k])
		}
	}
	return out
}

func sortedKeys(m map[string]any) []string {
	ks := make([]string, 0, len(m))
	for k := range m {
		ks = append(ks, k)
	}
	sort.Strings(ks)
	return ks
}

// shrink looks for a smaller failing case with the same operation and
// discrepancy: the rest of the path applied to a member of the document.
// Every case it returns has been executed and fails by itself.
func shrink(c *core.Ctx, spec gens.JPExpr, t *tree, repr string, o opT, f *finding, depth int) (gens.JPExpr, *tree, *finding) {
	if len(spec) > 2 && depth < 4 {
		rest := append(gens.JPExpr{gens.JPSimple("root")}, spec[2:]...)
		seen := map[string]bool{}
		for _, e := range children(t.simple, spec[1].K == "desc", nil) {
			st := subtree(e)
			if seen[st.show()] {
				continue
			}
			seen[st.show()] = true
			if g := fails(c, rest, st, repr, o, f.kind); g != nil {
				return shrink(c, rest, st, repr, o, g, depth+1)
			}
		}
	}
	return spec, t, f
}

// filterBlamed: see C11; the case with a wildcard in place of the trailing
// $-rooted filter fails in the same way = the filter is not at fault.
func filterBlamed(c *core.Ctx, spec gens.JPExpr, t *tree, repr string, o opT, f *finding) bool {
	if len(spec) <= 2 || !spec[len(spec)-1].RootFilter() {
		return false
	}
	alt := append(append(gens.JPExpr{}, spec[:len(spec)-1]...), gens.JPSimple("wild"))
	return fails(c, alt, t, repr, o, f.kind) == nil
}

func signature(spec gens.JPExpr, t *tree, repr string, o opT, f *finding, filterBlamed bool) string {
	name := o.label()
	if o.Must {
		name = "Must" + name
	}
	nDesc := 0
	for _, fr := range spec {
		if fr.K == "desc" {
			nDesc++
		}
	}
	if f.kind != oneDiffers && f.kind != "cyclic-result" && !strings.HasPrefix(f.kind, "panic") {
		switch {
		case nDesc >= 2:
			// known finding: two descents select a location several times and the
			// operation is applied to it again on the already changed document
			return core.Sig(name, "two-descents", "locations-selected-twice", f.kind)
		case nDesc == 1 && spec.HasFrag("filter"):
			// known finding: under a descent the containers overlap and a filter is
			// decided on the partly changed document, not on the before-state
			return core.Sig(name, "desc+filter", "selection-on-changed-document", f.kind)
		}
	}
	if last := spec[len(spec)-1]; len(spec) > 2 && last.RootFilter() && filterBlamed {
		return core.Sig(name, "filter-with-$", "pos=last", repr, "-", f.kind)
	}
	f1 := spec[1]
	if len(spec) == 2 {
		return core.Sig(name, f1.K, "pos=last", repr, gens.FragBound(f1, t.simple), f.kind)
	}
	return core.Sig(name, f1.K, "pos=inner", repr, gens.FragBound(f1, t.simple), "then="+spec[2].K, f.kind)
}

func report(c *core.Ctx, spec gens.JPExpr, t *tree, repr string, o opT, f *finding) {
	s, st, g := shrink(c, spec, t, repr, o, f, 0)
	if repr != "simple" && g.kind != oneDiffers {
		// the shrunk case may fail on the simple form as well: key it there
		if gs := fails(c, s, st, "simple", o, g.kind); gs != nil {
			repr, g = "simple", gs
		}
	}
	if o.one() && g.kind != oneDiffers {
		all := o
		all.Name = o.base()
		if ga := fails(c, s, st, repr, all, g.kind); ga != nil {
			o, g = all, ga // the all form fails the same way on the shrunk case
		}
	}
	x := s.Build()
	if g.kind != oneDiffers && inclusiveReading(c, s, x, st, repr, o) {
		// known finding: the mutating operations read a slice inclusively. Only
		// cases whose whole outcome is what that reading prescribes are keyed here.
		name := o.label()
		if o.Must {
			name = "Must" + name
		}
		cs := caseT{Path: s, Text: x.String(), Data: st.encoded(), Repr: repr, Op: o, Kind: "slice-inclusive-reading"}
		c.Fail(core.Sig(name, "slice-inclusive-reading"), cs, len(s)*1000+len(st.show()), g.exp, g.obs+"   ["+o.String()+" "+x.String()+" on "+repr+" form of "+st.show()+"]")
		return
	}
	if g.kind != oneDiffers && sequentialReading(c, s, x, st, repr, o) {
		// known finding: Set, Del and Modify change the document in place while a
		// trailing filter that reads it through $ is still being decided for the
		// later members. Only cases whose whole outcome is what that reading
		// prescribes are keyed here.
		name := o.label()
		if o.Must {
			name = "Must" + name
		}
		cs := caseT{Path: s, Text: x.String(), Data: st.encoded(), Repr: repr, Op: o, Kind: "filter-decided-on-changing-document"}
		c.Fail(core.Sig(name, "filter-reads-the-document-being-changed", "selection-on-changed-document"), cs, len(s)*1000+len(st.show()), g.exp, g.obs+"   ["+o.String()+" "+x.String()+" on "+repr+" form of "+st.show()+"]")
		return
	}
	cs := caseT{Path: s, Text: x.String(), Data: st.encoded(), Repr: repr, Op: o, Kind: g.kind}
	size := len(s)*1000 + len(st.show())
	if repr == "gen" {
		size++
	}
	if o.Must {
		size += 2
	}
	c.Fail(signature(s, st, repr, o, g, filterBlamed(c, s, st, repr, o, g)), cs, size, g.exp, g.obs+"   ["+o.String()+" "+x.String()+" on "+repr+" form of "+st.show()+"]")
}

// inclusiveReading reports whether the operation, which fails against Get's
// selection, does exactly what the property asks for the locations that the
// inclusive reading of slices selects (pathref.Variant.Inclusive).
func inclusiveReading(c *core.Ctx, spec gens.JPExpr, x jp.Expr, t *tree, repr string, o opT) bool {
	if !spec.HasFrag("slice") {
		return false
	}
	r := pathref.SelectSpec(spec, t.simple, pathref.Variant{Inclusive: true})
	if r.Open {
		return false
	}
	sel := selection{cands: [][]hit{r.Hits}, ordered: !t.multi && !spec.HasFrag("desc"), empty: len(r.Hits) == 0}
	rounds := 1
	if t.multi {
		rounds = 3
	}
	for i := 0; i < rounds; i++ {
		if runOp(c, spec, x, t, sel, o.base() == "Set" && creationV(spec, t.simple, pathref.Variant{Inclusive: true}), repr, o) != nil {
			return false
		}
	}
	c.Add("failures_explained_by_the_inclusive_slice_reading", 1)
	return true
}

// sequentialReading reports whether the operation, which fails against Get's
// selection, does exactly what comes out when the trailing filter - one that
// reads the document through $ - is decided member by member on the document
// as the operation has changed it so far, instead of on the before-state (Set,
// Del and Modify work in place; Remove builds a new list and is not concerned).
func sequentialReading(c *core.Ctx, spec gens.JPExpr, x jp.Expr, t *tree, repr string, o opT) bool {
	last := spec[len(spec)-1]
	if len(spec) < 2 || !last.RootFilter() || o.one() || o.base() == "Remove" || spec.HasFrag("desc") {
		return false
	}
	r := pathref.SelectSpec(spec[:len(spec)-1], t.simple, pathref.Variants[0])
	if r.Open {
		return false
	}
	cur := gens.Clone(t.simple)
	single := o
	changedAny := false
	for _, parent := range r.Hits {
		pv, ok := getAt(cur, parent.Loc)
		if !ok {
			return false
		}
		var keys []any
		switch tp := pv.(type) {
		case []any:
			for i := range tp {
				keys = append(keys, i)
			}
		case map[string]any:
			if len(tp) > 1 {
				return false // the order in which the members are visited is Go's map order
			}
			for k := range tp {
				keys = append(keys, k)
			}
		}
		for _, k := range keys {
			loc := append(append(pathref.Loc{}, parent.Loc...), k)
			v, ok := getAt(cur, loc)
			if !ok {
				return false
			}
			switch scriptref.Eval(last.F, v, cur) {
			case scriptref.T:
				cur = expected(cur, []hit{{Loc: loc, Value: v}}, single)[0]
				changedAny = true
			case scriptref.F:
			default:
				return false
			}
		}
	}
	if !changedAny {
		return false
	}
	var data any = gens.Clone(t.simple)
	if repr == "gen" {
		data = gens.ToGen(t.simple)
	}
	out := execute(c, x, data, repr, o)
	if out.pv != nil || out.err != nil || !eqTree(gens.Canon(out.root), cur) {
		return false
	}
	c.Add("failures_explained_by_filter_decided_on_the_changing_document", 1)
	return true
}

// setCyclesUnderDescents is set by cycleProbe: Set through two descents with a
// container value links the value into itself, and on slightly larger
// documents the call never returns (memory grows until the worker is killed).
// While that is so, such calls cannot be made in-process: they are skipped and
// counted, and the defect is reported once by the probe.
var setCyclesUnderDescents bool

func cycleProbe(c *core.Ctx, reportIt bool) {
	spec := gens.JPExpr{gens.JPSimple("root"), gens.JPSimple("desc"), gens.JPSimple("desc"), gens.JPChild("x")}
	data := []any{map[string]any{}}
	doc := gens.Clone(data)
	var err error
	pv := func() (p any) {
		defer func() { p = recover() }()
		err = spec.Build().Set(doc, map[string]any{"z": int64(1)})
		return nil
	}()
	if pv == nil && !tooDeep(doc, 0) {
		return
	}
	setCyclesUnderDescents = true
	if reportIt {
		t := newTree(data)
		o := opT{Name: "Set", Val: 4}
		cs := caseT{Path: spec, Text: spec.Build().String(), Data: t.encoded(), Repr: "simple", Op: o, Kind: "cyclic-result"}
		c.Fail(core.Sig("Set", "desc-desc", "container-value", "cyclic-result-or-does-not-terminate"), cs, 4000,
			"[{x:{z:1}}] or an error",
			fmt.Sprintf("a document linked into itself (error %v, panic %v); on [{} {}] the call never returns", err, pv))
	}
}

func skipSetUnderDescents(spec gens.JPExpr, o opT) bool {
	if !setCyclesUnderDescents || o.base() != "Set" {
		return false
	}
	n := 0
	for _, f := range spec {
		if f.K == "desc" {
			n++
		}
	}
	if n < 2 {
		return false
	}
	kind, _ := gens.NodeKind(values()[o.Val])
	return kind != "scalar"
}

// ------------------------------------------------------------------ driver

type fkey struct{ op, kind string }

func judge(c *core.Ctx, spec gens.JPExpr, x jp.Expr, t *tree, must bool) {
	sel, ok := selectRef(c, spec, x, t.simple, t.multi)
	if !ok {
		c.Add("selection_cases_left_to_C05_get_disagrees_with_pathref_or_open_filter", 1)
		return
	}
	creating := creation(spec, t.simple)
	trivial := sel.empty && !creating
	if !trivial {
		c.Nontrivial()
	}
	rounds := 1
	if t.multi && !trivial {
		rounds = 2
	}
	ops := opsFor(spec, trivial, must)
	var onSimple map[fkey]bool
	oneOnSimple := map[string]string{}
	for _, repr := range []string{"simple", "gen"} {
		seen := map[fkey]bool{}
		pristine := t.simple
		if repr == "gen" {
			pristine = t.gen
		}
		var work any // a copy no operation has changed yet (nothing-selected cases reuse it)
		for _, o := range ops {
			if skipSetUnderDescents(spec, o) {
				c.Add("set_calls_skipped_two_descents_and_container_value_do_not_terminate", 1)
				continue
			}
			for i := 0; i < rounds; i++ {
				var f *finding
				if sel.empty && !(creating && o.base() == "Set") {
					// nothing is selected: the operation must leave the document as it is
					if work == nil {
						work = toRepr(gens.Clone(t.simple), repr)
					}
					out := execute(c, x, work, repr, o)
					if out.pv == nil && !tooDeep(out.root, 0) && !tooDeep(work, 0) && eqTree(out.root, pristine) && eqTree(work, pristine) {
						continue
					}
					work = nil
					f = judgeOp(c, spec, x, t.simple, sel, o, false, out, repr)
				} else {
					f = runOp(c, spec, x, t, sel, creating && o.base() == "Set", repr, o)
					if f == nil && o.one() && !t.multi && lastOne != "" {
						// "behave the same on simple and gen data": a *One form that
						// changes a location on one form and nothing on the other
						if repr == "simple" {
							oneOnSimple[o.String()] = lastOne
						} else if was := oneOnSimple[o.String()]; was != "" && was != lastOne {
							f = &finding{oneDiffers, "on simple data the operation changed " + was, "on gen data it changed " + lastOne}
						}
					}
				}
				if f == nil {
					continue
				}
				k := fkey{o.Name, strings.TrimPrefix(f.kind, "modifier-calls:")}
				switch {
				case seen[k]: // other values, modifiers and the Must variant repeat it
				case o.one() && seen[fkey{o.base(), k.kind}]:
					seen[k] = true
					c.Add("failures_of_a_one_form_that_the_all_form_shows_too", 1)
				case repr == "gen" && onSimple[k]:
					seen[k] = true
					c.Add("failures_on_gen_data_that_the_simple_form_shows_too", 1)
				default:
					seen[k] = true
					report(c, spec, t, repr, o, f)
				}
				break
			}
		}
		if repr == "simple" {
			onSimple = seen
		}
	}
}

func run(c *core.Ctx) {
	defer debug.SetGCPercent(debug.SetGCPercent(3200))
	cycleProbe(c, c.Shard == 0)
	type pass struct {
		alpha *gens.PathAlphabet
		k     int
		minK  int
		data  []any
	}
	var passes []pass
	if c.Quick() {
		passes = []pass{{gens.Paths(true), 2, 1, gens.PathData(3)}, {gens.WidePaths(), 3, 1, gens.WideDocs()}}
	} else {
		passes = []pass{{gens.Paths(true), 2, 1, gens.PathData(4)}, {gens.Paths(false), 3, 3, gens.DeepDocs(gens.PathData(3), 2)}, {gens.WidePaths(), 3, 1, gens.WideDocs()}}
	}
	n := 0
	for pi, p := range passes {
		trees := make([]*tree, len(p.data))
		for i, d := range p.data {
			trees[i] = newTree(d)
		}
		c.Add(fmt.Sprintf("pass%d_documents", pi+1), int64(len(trees)))
		stop := false
		p.alpha.EachPath(p.k, func(idx []int) bool {
			if len(idx) < p.minK {
				return true
			}
			n++
			if !c.Mine(n) {
				return true
			}
			if n%512 == c.Shard && c.Expired("C13 paths") {
				stop = true
				return false
			}
			spec := p.alpha.Expr(idx)
			x := spec.Build()
			c.Add("paths", 1)
			c.Case(func() string { return x.String() })
			for _, t := range trees {
				judge(c, spec, x, t, len(idx) == 1)
			}
			if n%9973 == 0 {
				c.Sample(map[string]any{"path": x.String(), "documents": len(trees), "operations": len(opsFor(spec, false, len(idx) == 1))})
			}
			return true
		})
		if stop {
			return
		}
	}
}

func replay(c *core.Ctx, raw json.RawMessage) {
	var cs caseT
	if err := json.Unmarshal(raw, &cs); err != nil {
		c.HarnessError("bad case: %v", err)
		return
	}
	data, err := gens.DecodeTree(cs.Data)
	if err != nil {
		c.HarnessError("bad data: %v", err)
		return
	}
	t := newTree(data)
	x := cs.Path.Build()
	sel, ok := selectRef(c, cs.Path, x, t.simple, t.multi)
	if !ok {
		return
	}
	creating := cs.Op.base() == "Set" && creation(cs.Path, t.simple)
	cycleProbe(c, false)
	if cs.Kind == "cyclic-result" && len(cs.Path) == 4 && cs.Path[1].K == "desc" && cs.Path[2].K == "desc" {
		cycleProbe(c, true)
		return
	}
	if skipSetUnderDescents(cs.Path, cs.Op) {
		return
	}
	if cs.Kind == oneDiffers {
		if f := fails(c, cs.Path, t, cs.Repr, cs.Op, oneDiffers); f != nil {
			c.Fail(signature(cs.Path, t, cs.Repr, cs.Op, f, false), cs, len(cs.Path), f.exp, f.obs)
		}
		return
	}
	if cs.Kind == "slice-inclusive-reading" {
		if f := runOp(c, cs.Path, x, t, sel, creating, cs.Repr, cs.Op); f != nil && inclusiveReading(c, cs.Path, x, t, cs.Repr, cs.Op) {
			name := cs.Op.label()
			if cs.Op.Must {
				name = "Must" + name
			}
			c.Fail(core.Sig(name, "slice-inclusive-reading"), cs, len(cs.Path), f.exp, f.obs)
		}
		return
	}
	for i := 0; i < 3; i++ {
		if f := runOp(c, cs.Path, x, t, sel, creating, cs.Repr, cs.Op); f != nil && (cs.Kind == "" || f.kind == cs.Kind) {
			c.Fail(signature(cs.Path, t, cs.Repr, cs.Op, f, filterBlamed(c, cs.Path, t, cs.Repr, cs.Op, f)), cs, len(cs.Path), f.exp, f.obs)
			return
		}
	}
}
