package c13

import (
	"os"
	"sort"
	"strconv"
	"testing"
	"time"

	"verif/internal/core"
)

// TestSlice runs one narrow shard of the quick tier in-process (development
// aid: profile with go test -cpuprofile).
func TestSlice(t *testing.T) {
	s := os.Getenv("C13_SLICE")
	if s == "" {
		t.Skip("development aid: set C13_SLICE=<n> to run shard 1 of n of the quick tier in-process")
	}
	n, _ := strconv.Atoi(s)
	c := core.NewCtx("quick", 1, n, 0, 100*time.Second)
	t0 := time.Now()
	run(c)
	r := c.Report()
	t.Logf("%.1fs counters=%v fails=%d", time.Since(t0).Seconds(), r.Counters, len(r.Fails))
	for _, n := range r.Notes {
		t.Log(n)
	}
	var sigs []string
	for s := range r.Fails {
		sigs = append(sigs, s)
	}
	sort.Strings(sigs)
	for _, s := range sigs {
		f := r.Fails[s]
		t.Logf("%6d %s\n      exp: %s\n      obs: %s", f.Count, s, f.Exp, f.Obs)
	}
}
