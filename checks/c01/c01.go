// Package c01 decides C01: the strict JSON front-ends accept exactly RFC 8259.
// Explicit-state search over (real machine state x jsonref PDA), all 256 bytes
// from every state, plus the end-of-input answer in every state and the
// []byte entry point on every explored input.
package c01

import (
	"bytes"
	"encoding/json"
	"fmt"
	"sort"
	"strings"

	"verif/internal/bytemc"
	"verif/internal/core"
	"verif/internal/gens"
	"verif/internal/mach"
	"verif/internal/ref/jsonref"
)

func init() {
	core.Register(&core.Check{
		ID:     "C01",
		Level:  "model_checking",
		Shards: func(tier string) int { return len(mach.Strict()) * subShards },
		Run:    run,
		Replay: replay,
		Rule: "BFS over product states (implementation abstract key x RFC 8259 PDA state), every one of the 256 byte values plus 3 macro inputs from every state; " +
			"plus the whitespace-placement family (every witness x one whitespace insertion x {as is, completed} x {[]byte, one chunk, every 2-split}); " +
			"every reader run also under the reader's other lawful answers (io.EOF with the last chunk, one empty read before the last chunk or before io.EOF), " +
			"every []byte run also with the reference's shortest completion stored behind the input in the slice's spare capacity and with no spare capacity (the answer must not change); distinct_nontrivial = product states; evaluations = executions of the real front-end",
		Assumptions: []string{"nesting bounded by D (control flow reads only the top two stack slots and emptiness)",
			"jsonref is the specification; it is cross-checked against encoding/json.Valid on every explored input",
			"abstract key merges states that differ only in data (digits, string bytes, element counts above 2)"},
		Bound: func(tier string) string {
			if tier == "thorough" {
				return "nesting D=5, all 256 bytes, BFS to fix-point; scale family: 231 documents of 7..129 elements / members / levels and strings of 7..4097 bytes, valid and damaged at one place"
			}
			return "nesting D=3, all 256 bytes, BFS to fix-point; scale family: 168 documents of 7..65 elements / members / levels and strings of 7..257 bytes, valid and damaged at one place"
		},
	})
}

type caseT struct {
	Machine string `json:"machine"`
	Entry   string `json:"entry"` // reader | whole
	Input   []byte `json:"input"`
	Quoted  string `json:"quoted"`
	Kind    string `json:"kind"`
	GoTest  string `json:"go_test,omitempty"`
	// Chunks: the reads of a reader run that is not byte-wise (byte-order-mark family)
	Chunks      [][]byte `json:"chunks,omitempty"`
	EOFWithLast bool     `json:"eof_with_last,omitempty"`
	ZeroAt      int      `json:"zero_read_before_chunk,omitempty"`
}

func ctxOf(p *jsonref.PDA) string {
	if len(p.Stack) == 0 {
		return "top"
	}
	return string(p.Stack[len(p.Stack)-1:])
}

// stdValid is encoding/json's verdict with the BOM convention of the property.
func stdValid(in []byte) bool {
	if len(in) >= 3 && in[0] == 0xEF && in[1] == 0xBB && in[2] == 0xBF {
		in = in[3:]
	}
	return json.Valid(in)
}

type group struct {
	kind  string
	entry string
	bytes []byte
	wit   []byte
	exp   string
	obs   string
}

const subShards = 4

func run(c *core.Ctx) {
	ms := mach.Strict()
	m := ms[c.Shard%len(ms)]
	sub := c.Shard / len(ms)
	D := c.Pick(3, 5)
	e := &bytemc.Explorer{M: m, D: D, Alt: 3}
	probeMemo := map[string]*probeEntry{}
	perState := map[int]map[string]*group{} // state id -> group key -> group
	addGroup := func(s *bytemc.State, entry, kind, target string, b []byte, wit []byte, exp, obs string) {
		gm := perState[s.ID]
		if gm == nil {
			gm = map[string]*group{}
			perState[s.ID] = gm
		}
		k := entry + "|" + kind + "|" + target
		g := gm[k]
		if g == nil {
			g = &group{kind: kind, entry: entry, wit: wit, exp: exp, obs: obs}
			gm[k] = g
		}
		g.bytes = append(g.bytes, b...)
	}
	refChecks := int64(0)
	e.Stop = func() bool { return c.Expired("C01 BFS " + m.Name) }
	e.OnState = func(s *bytemc.State) {
		if sub != 0 {
			return
		}
		// end-of-input answer in this state
		o := s.EOFOut
		implAccept := !o.Failed()
		refAccept := s.Ref.Accepting() || s.Ref.NoDocument()
		if s.Ref.NoDocument() && s.Ref.SawBOM {
			return // BOM followed by nothing: not fixed by the statement
		}
		if s.Ref.M == jsonref.Bom1 || s.Ref.M == jsonref.Bom2 {
			return
		}
		if implAccept != refAccept {
			kind := "eof-rejects"
			if implAccept {
				kind = "eof-accepts"
			}
			addGroup(s, "reader", kind, "", nil, s.Witness, fmt.Sprintf("accept=%v", refAccept), fmt.Sprintf("accept=%v err=%v", implAccept, o.Err))
		}
		// the reader's other lawful ways of ending: io.EOF together with the last
		// byte, and a read of no bytes before the last byte or before io.EOF
		for _, cf := range envAnswers(e.Cfg, len(s.Witness)) {
			o2 := m.Feed(mach.Bytewise(s.Witness), cf, false, false)
			c.Eval()
			c.Add("reader_answer_variants", 1)
			if o2.Failed() != o.Failed() {
				addGroup(s, "reader", "verdict-depends-on-"+envName(cf), "", nil, s.Witness, fmt.Sprintf("accept=%v err=%v", implAccept, o.Err), fmt.Sprintf("accept=%v err=%v panic=%v", !o2.Failed(), o2.Err, o2.Panic))
			}
		}
	}
	e.OnTrans = func(t *bytemc.Trans) {
		if sub != 0 {
			return
		}
		c.Eval()
		s := t.From
		if t.Sym.Macro != "" {
			return // macros only create states; single bytes are judged
		}
		b := t.Sym.Bytes
		// cross-check the reference against encoding/json on every explored input
		refChecks++
		if jsonref.Valid(t.Input) != stdValid(t.Input) && t.Ref.M != jsonref.Bom1 && t.Ref.M != jsonref.Bom2 {
			c.HarnessError("jsonref and encoding/json disagree on %q", t.Input)
		}
		refAlive := t.Ref.Alive()
		switch {
		case t.Out.Panic != nil:
			// a panic is C06's business; for C01 it counts as a rejection
			if refAlive {
				comp, _ := bytemc.Complete(t.Ref)
				addGroup(s, "reader", "rejects-valid", "panic", b, append(append([]byte{}, t.Input...), comp...), "accept", fmt.Sprintf("panic: %v", t.Out.Panic))
			}
		case t.ImplDead && refAlive:
			comp, ok := bytemc.Complete(t.Ref)
			wit := append(append([]byte{}, t.Input...), comp...)
			if !ok || !stdValid(wit) {
				c.HarnessError("completion of %q is not valid: %q", t.Input, wit)
				return
			}
			addGroup(s, "reader", "rejects-valid", "", b, wit, "accept", fmt.Sprintf("error on byte %d: %v", len(t.Input)-1, t.Out.Err))
		case !t.ImplDead && !refAlive:
			pe := probeMemo[t.Key]
			if pe == nil {
				pe = &probeEntry{prefix: t.Input, res: bytemc.Probe(m, e.Cfg, t.Input, 5, 4000)}
				probeMemo[t.Key] = pe
				c.Add("evaluations", int64(pe.res.Runs))
				c.Add("probe_runs", int64(pe.res.Runs))
			}
			if pe.res.Accepted != nil {
				tail := pe.res.Accepted[len(pe.prefix):]
				wit := append(append([]byte{}, t.Input...), tail...)
				o := m.Feed(mach.Bytewise(wit), e.Cfg, false, false)
				c.Eval()
				if !o.Failed() && !jsonref.Valid(wit) {
					addGroup(s, "reader", "accepts-invalid", bytemc.ModeOfKey(t.Key), b, wit, "reject", "accepted")
				}
			}
		}
		// the []byte entry point on the same input
		w := m.Whole(t.Input, e.Cfg)
		c.Eval()
		c.Add("whole_runs", 1)
		if t.Ref.M == jsonref.Bom1 || t.Ref.M == jsonref.Bom2 || (t.Ref.NoDocument() && t.Ref.SawBOM) {
			return
		}
		refAccept := t.Ref.Accepting() || t.Ref.NoDocument()
		implAccept := !w.Failed()
		if implAccept != refAccept {
			kind := "rejects-valid"
			if implAccept {
				kind = "accepts-invalid"
			}
			addGroup(s, "whole", kind, "", b, t.Input, fmt.Sprintf("accept=%v", refAccept), fmt.Sprintf("accept=%v err=%v panic=%v", implAccept, w.Err, w.Panic))
		}
		beyondInput(c, m, e.Cfg, t.Ref, t.Input, w, func(kind, exp, obs string) { addGroup(s, "whole", kind, "", b, t.Input, exp, obs) })
	}
	e.Run()
	for _, h := range e.Harness {
		c.HarnessError("%s", h)
	}
	placement(c, m, e, sub, addGroup)
	if sub == 0 {
		bomFamily(c, m, e.Cfg)
		scaleFamily(c, m, e.Cfg)
	}
	// emit groups as failures
	ids := make([]int, 0, len(perState))
	for id := range perState {
		ids = append(ids, id)
	}
	sort.Ints(ids)
	for _, id := range ids {
		s := e.States[id]
		for _, g := range perState[id] {
			bs := "EOF"
			if len(g.bytes) > 0 {
				bs = bytemc.ByteSet(g.bytes)
			}
			sig := core.Sig("fe="+m.Name+"."+g.entry, "mode="+bytemc.ModeOfKey(s.Key), "bytes="+bs, "ref="+s.Ref.Short(), "ctx="+ctxOf(s.Ref), g.kind)
			cs := caseT{Machine: m.Name, Entry: g.entry, Input: g.wit, Quoted: fmt.Sprintf("%q", g.wit), Kind: g.kind}
			if g.entry == "whole" {
				cs.GoTest = mach.GoTest(m.Name, "whole", [][]byte{g.wit}, false)
			} else {
				cs.GoTest = mach.GoTest(m.Name, "reader", mach.Bytewise(g.wit), false)
			}
			c.Fail(sig, cs, len(g.wit), g.exp, g.obs)
		}
	}
	if sub == 0 {
		c.Add("states", int64(len(e.States)))
		c.Add("transitions", e.NTrans)
		c.Add("traces_validated_against_impl", e.NTrans)
		c.Add("reference_cross_checks", refChecks)
		c.Add("cut_at_depth_bound", e.CutDepth)
		c.Add("merge_audit_runs", e.Audits)
		c.Add("merge_audit_mismatches", e.AuditMismatches)
		c.Add("distinct_nontrivial", int64(len(e.States)))
	}
	for i := 1; sub == 0 && i < len(e.States) && i < 4000; i += 997 {
		c.Sample(map[string]string{"machine": m.Name, "witness": fmt.Sprintf("%q", e.States[i].Witness), "impl": e.States[i].Key, "ref": e.States[i].Ref.Key()})
	}
}

// placement is the whitespace-placement family: the accept set must not depend
// on where blanks and newlines sit between tokens, nor on where a read
// boundary falls. For every reachable state's witness and every variant with
// one whitespace string inserted at one inter-token position, the variant
// itself (end of input here) and its shortest valid completion are submitted
// to the []byte entry point, to the reader in one chunk and in every 2-split;
// the verdict must equal the reference's.
func placement(c *core.Ctx, m *mach.M, e *bytemc.Explorer, sub int, addGroup func(s *bytemc.State, entry, kind, target string, b []byte, wit []byte, exp, obs string)) {
	for _, s := range e.States {
		if s.ID%subShards != sub || len(s.Witness) > 24 || s.Ref.SawBOM || s.Ref.M == jsonref.Bom1 || s.Ref.M == jsonref.Bom2 {
			continue
		}
		if c.Expired("C01 placement family") {
			return
		}
		for vi, v := range bytemc.OneInsertion(s.Witness) {
			if vi == 0 {
				continue // the plain witness is judged by the search itself
			}
			r := jsonref.Run(v)
			if !r.Alive() {
				continue
			}
			inputs := [][]byte{v}
			if comp, ok := bytemc.Complete(r); ok && len(comp) > 0 {
				inputs = append(inputs, append(append([]byte{}, v...), comp...))
			}
			for _, in := range inputs {
				p := jsonref.Run(in)
				want := p.Accepting() || p.NoDocument()
				judge := func(entry string, o *mach.Out) {
					c.Eval()
					c.Add("placement_runs", 1)
					if got := !o.Failed(); got != want {
						kind := "placement-rejects-valid"
						if got {
							kind = "placement-accepts-invalid"
						}
						addGroup(s, entry, kind, "", nil, in, fmt.Sprintf("accept=%v", want), fmt.Sprintf("accept=%v err=%v", got, o.Err))
					}
				}
				w := m.Whole(in, e.Cfg)
				judge("whole", w)
				beyondInput(c, m, e.Cfg, p, in, w, func(kind, exp, obs string) { addGroup(s, "whole", kind, "", nil, in, exp, obs) })
				judge("reader", m.Feed([][]byte{in}, e.Cfg, false, false))
				for _, cf := range envAnswers(e.Cfg, 1) {
					judge("reader", m.Feed([][]byte{in}, cf, false, false))
				}
				for i := 1; i < len(in); i++ {
					judge("reader", m.Feed([][]byte{in[:i], in[i:]}, e.Cfg, false, false))
					for _, cf := range envAnswers(e.Cfg, 2) {
						judge("reader", m.Feed([][]byte{in[:i], in[i:]}, cf, false, false))
					}
				}
			}
		}
	}
}

// bomFamily: the reader entry points look for a byte-order mark in local
// variables before the machine starts, which no state key shows; so the mark,
// its prefixes and near misses (one byte of the mark replaced) are put in
// front of short texts and submitted to the []byte entry point and to the
// reader under every split of the first six bytes into reads. The verdict must
// be the reference's (the mark followed by nothing is left open, as in the search).
func bomFamily(c *core.Ctx, m *mach.M, cfg mach.Config) {
	pres := [][]byte{{0xEF}, {0xEF, 0xBB}, {0xEF, 0xBB, 0xBF}}
	for i := 0; i < 3; i++ {
		for _, b := range []byte{0x00, 0x20, 0x7F, 0x80, 0xBA, 0xBB, 0xBC, 0xBE, 0xBF, 0xC0, 0xEE, 0xEF, 0xF0, 0xFF} {
			p := []byte{0xEF, 0xBB, 0xBF}
			if p[i] != b {
				p[i] = b
				pres = append(pres, p)
			}
		}
	}
	for _, pre := range pres {
		for _, suf := range []string{"", "1", " 1", "[]", "[1]", "\"x\"", "{\"a\":1}", "\xef\xbb\xbf1"} {
			in := append(append([]byte{}, pre...), suf...)
			r := jsonref.Run(in)
			if r.NoDocument() && r.SawBOM {
				continue
			}
			want := r.Accepting() || r.NoDocument()
			judge := func(entry string, chunks [][]byte, cf mach.Config, o *mach.Out) {
				c.Eval()
				c.Add("bom_family_runs", 1)
				if got := !o.Failed(); got != want {
					kind := "rejects-valid"
					if got {
						kind = "accepts-invalid"
					}
					cl := "mark"
					if len(pre) < 3 {
						cl = "prefix-of-mark"
					} else if !bytes.Equal(pre, []byte{0xEF, 0xBB, 0xBF}) {
						cl = "near-miss"
					}
					cs := caseT{Machine: m.Name, Entry: entry, Input: in, Quoted: fmt.Sprintf("%q", in), Kind: kind, Chunks: chunks, EOFWithLast: cf.EOFWithLast, ZeroAt: cf.ZeroAt}
					cs.GoTest = mach.GoTestEnv(m.Name, entry, chunks, false, cf, nil, false)
					c.Fail(core.Sig("fe="+m.Name+"."+entry, "byte-order-mark", cl, kind), cs, len(in)*10+len(chunks), fmt.Sprintf("accept=%v", want), fmt.Sprintf("accept=%v err=%v panic=%v", got, o.Err, o.Panic))
				}
			}
			judge("whole", [][]byte{in}, cfg, m.Whole(in, cfg))
			for mask := 0; mask < 1<<uint(len(in)-1) && mask < 64; mask++ {
				// bit i of mask set = a read boundary after byte i (the first six bytes)
				var chunks [][]byte
				start := 0
				for i := 0; i < len(in)-1; i++ {
					if i < 6 && mask>>uint(i)&1 == 1 {
						chunks = append(chunks, in[start:i+1])
						start = i + 1
					}
				}
				chunks = append(chunks, in[start:])
				judge("reader", chunks, cfg, m.Feed(chunks, cfg, false, false))
				if len(chunks) <= 2 {
					for _, cf := range append(envAnswers(cfg, len(chunks)), mach.Config{Multi: cfg.Multi, ZeroAt: 1}) {
						judge("reader", chunks, cf, m.Feed(chunks, cf, false, false))
					}
				}
			}
		}
	}
}

// scaleFamily: the search is bounded by nesting depth D and merges "one more
// element" into the same state, so it never has 17 open containers or 65
// elements on a stack. The scale family (gens.ScaleDocs) puts 7..129 elements,
// members and nesting levels and strings of 7..4097 bytes through every
// front-end, as they are (valid) and damaged at one place (last byte missing, a
// closer too many, the first / middle / last closer of the other kind, the
// middle closer missing): []byte entry point, one read, one-byte reads, reads of
// 16 bytes. The verdict must be the reference's.
func scaleFamily(c *core.Ctx, m *mach.M, cfg mach.Config) {
	for _, d := range gens.ScaleDocs(c.Quick()) {
		if c.Expired("C01 scale family") {
			return
		}
		t := gens.ScaleJSON(d.Tree)
		shape := d.Name[:strings.IndexByte(d.Name, ':')]
		var closers []int
		for i, b := range t {
			if b == ']' || b == '}' {
				closers = append(closers, i)
			}
		}
		type variant struct {
			name string
			in   []byte
		}
		vs := []variant{{"as-it-is", t}, {"last-byte-missing", t[:len(t)-1]}, {"closer-too-many", append(append([]byte{}, t...), t[len(t)-1])}}
		for k, ci := range []int{closers[0], closers[len(closers)/2], closers[len(closers)-1]} {
			w := append([]byte{}, t...)
			w[ci] ^= ']' ^ '}'
			vs = append(vs, variant{[]string{"first", "middle", "last"}[k] + "-closer-of-the-other-kind", w})
		}
		if len(closers) > 1 {
			ci := closers[len(closers)/2]
			vs = append(vs, variant{"middle-closer-missing", append(append([]byte{}, t[:ci]...), t[ci+1:]...)})
		}
		for _, v := range vs {
			in := v.in
			r := jsonref.Run(in)
			want := r.Accepting() || r.NoDocument()
			if want != stdValid(in) || want != (v.name == "as-it-is") {
				c.HarnessError("scale family: reference %v, encoding/json %v on %s %s", want, stdValid(in), d.Name, v.name)
				continue
			}
			judge := func(entry, class string, chunks [][]byte, o *mach.Out) {
				c.Eval()
				c.Add("scale_family_runs", 1)
				if got := !o.Failed(); got != want {
					kind := "rejects-valid"
					if got {
						kind = "accepts-invalid"
					}
					cs := caseT{Machine: m.Name, Entry: entry, Input: in, Quoted: d.Name + " " + v.name, Kind: kind, Chunks: chunks}
					if len(in) <= 400 {
						cs.GoTest = mach.GoTestEnv(m.Name, entry, chunks, false, cfg, nil, false)
					}
					c.Fail(core.Sig("fe="+m.Name+"."+entry, "scale-"+shape, v.name, class, kind), cs, len(in)*10+len(chunks), fmt.Sprintf("accept=%v", want), fmt.Sprintf("accept=%v err=%v panic=%v", got, o.Err, o.Panic))
				}
			}
			judge("whole", "whole", [][]byte{in}, m.Whole(in, cfg))
			judge("reader", "one-read", [][]byte{in}, m.Feed([][]byte{in}, cfg, false, false))
			judge("reader", "one-byte-reads", mach.Bytewise(in), m.Feed(mach.Bytewise(in), cfg, false, false))
			var ch [][]byte
			for i := 0; i < len(in); i += 16 {
				e := i + 16
				if e > len(in) {
					e = len(in)
				}
				ch = append(ch, in[i:e])
			}
			judge("reader", "reads-of-16", ch, m.Feed(ch, cfg, false, false))
		}
	}
}

// envAnswers lists the reader's lawful answers other than the default (data,
// nil)* (0, io.EOF): io.EOF delivered with the last of n chunks, and one read
// of no bytes (0, nil) before the last chunk or before io.EOF.
func envAnswers(base mach.Config, n int) []mach.Config {
	a, b, d := base, base, base
	a.EOFWithLast = true
	b.ZeroAt = n + 1
	d.ZeroAt = n
	return []mach.Config{a, b, d}
}

func envName(cf mach.Config) string {
	if cf.EOFWithLast {
		return "eof-with-last-byte"
	}
	return "empty-read"
}

// beyondInput runs the []byte entry point on the same input twice more: with
// the most plausible continuation (the shortest valid completion, closers, an
// 'e' run) stored right behind it in the slice's spare capacity, and with no
// spare capacity at all. The answer must be the one for the plain slice.
func beyondInput(c *core.Ctx, m *mach.M, cfg mach.Config, ref *jsonref.PDA, in []byte, plain *mach.Out, report func(kind, exp, obs string)) {
	show := func(o *mach.Out) string {
		return fmt.Sprintf("accept=%v err=%v panic=%v", !o.Failed(), o.Err, o.Panic)
	}
	comp, _ := bytemc.Complete(ref)
	for i, o := range []*mach.Out{m.WholeSpare(in, mach.SpareFor(comp), cfg), m.WholeSpare(in, nil, cfg)} {
		c.Eval()
		c.Add("spare_capacity_runs", 1)
		if show(o) != show(plain) {
			report([]string{"reads-beyond-input:continuation-in-spare-capacity", "reads-beyond-input:no-spare-capacity"}[i], show(plain), show(o))
		}
	}
}

type probeEntry struct {
	prefix []byte
	res    *bytemc.ProbeResult
}

func replay(c *core.Ctx, raw json.RawMessage) {
	var cs caseT
	if err := json.Unmarshal(raw, &cs); err != nil {
		c.HarnessError("bad case: %v", err)
		return
	}
	m := mach.ByName(cs.Machine)
	if m == nil {
		c.HarnessError("unknown machine %q", cs.Machine)
		return
	}
	var o *mach.Out
	if cs.Entry == "whole" {
		o = m.Whole(cs.Input, mach.Config{})
	} else if len(cs.Chunks) > 0 {
		o = m.Feed(cs.Chunks, mach.Config{EOFWithLast: cs.EOFWithLast, ZeroAt: cs.ZeroAt}, false, false)
	} else {
		o = m.Feed(mach.Bytewise(cs.Input), mach.Config{}, false, false)
	}
	p := jsonref.Run(cs.Input)
	refAccept := p.Accepting() || p.NoDocument()
	if refAccept != !o.Failed() {
		c.Fail("replay|"+cs.Kind, cs, len(cs.Input), fmt.Sprintf("accept=%v", refAccept), fmt.Sprintf("accept=%v err=%v panic=%v", !o.Failed(), o.Err, o.Panic))
	}
}
