package c04

import (
	"bytes"
	"encoding/json"
	"fmt"
	"sort"
	"strings"
	"unicode/utf8"

	"verif/internal/ref/wref"
)

// verdict is the judgement of one output text; core == "" means it passed.
type verdict struct {
	core string // categorical discrepancy (no writer, no options)
	exp  string
	obs  string
	diff *wref.Diff
}

// byteClass names a byte for signatures.
func byteClass(text []byte, i int) string {
	if i < 0 {
		return "start"
	}
	if i >= len(text) {
		return "eof"
	}
	b := text[i]
	switch {
	case strings.IndexByte("{}[],:\"", b) >= 0:
		return string(b)
	case b == ' ' || b == '\n' || b == '\t' || b == '\r':
		return "ws"
	case b >= '0' && b <= '9' || b == '-':
		return "digit"
	case b >= 'a' && b <= 'z' || b >= 'A' && b <= 'Z':
		return "alpha"
	case b < 0x20:
		return "ctl"
	case b >= 0x80:
		return "high"
	}
	return "other"
}

// firstBad locates the first byte at which text stops being a JSON value.
func firstBad(text []byte) int {
	var x any
	err := json.Unmarshal(text, &x)
	if se, ok := err.(*json.SyntaxError); ok {
		off := int(se.Offset) - 1
		if strings.Contains(se.Error(), "unexpected end") {
			off = len(text)
		}
		if off < 0 {
			off = 0
		}
		return off
	}
	return len(text)
}

// strClass names the kind of character at which two strings part.
func strClass(want, got string) string {
	// walk want (raw) and got (replaced form) in step
	i, j := 0, 0
	for i < len(want) && j < len(got) {
		r, n := utf8.DecodeRuneInString(want[i:])
		enc := want[i : i+n]
		if r == utf8.RuneError && n == 1 {
			enc = "\uFFFD"
		}
		if !strings.HasPrefix(got[j:], enc) {
			break
		}
		i += n
		j += len(enc)
	}
	if i >= len(want) {
		return "tail"
	}
	r, n := utf8.DecodeRuneInString(want[i:])
	switch {
	case r == utf8.RuneError && n == 1:
		return "invalid-utf8"
	case r == 0x2028 || r == 0x2029:
		return "u2028"
	case r == 0xFFFD:
		return "ufffd"
	case r < 0x20:
		return "ctl"
	case r == 0x7f:
		return "del"
	case r == '"':
		return "quote"
	case r == '\\':
		return "backslash"
	case r == '<' || r == '>' || r == '&':
		return "html"
	case r >= 0x80:
		return "multibyte"
	}
	return "ascii"
}

// judge applies oracles (1), (2) and the ordering half of (4) to a text.
func judge(text []byte, want any, o wref.Opts, mustSort bool) verdict {
	if len(text) == 0 {
		return verdict{core: "empty-output", exp: "a JSON text", obs: "no bytes"}
	}
	if !json.Valid(text) {
		at := firstBad(text)
		prev := at - 1
		for prev >= 0 && byteClass(text, prev) == "ws" {
			prev--
		}
		return verdict{core: "invalid-json|at=" + byteClass(text, at) + "|after=" + byteClass(text, prev),
			exp: "encoding/json.Valid", obs: fmt.Sprintf("invalid at byte %d: %q", at, text)}
	}
	got, err := wref.DecodeJSON(text)
	if err != nil {
		return verdict{core: "invalid-json|decoder", exp: "decodable", obs: fmt.Sprintf("%v: %q", err, text)}
	}
	if d := wref.Match(want, got, o); d != nil {
		core := "wrong-tree:" + d.Kind + "|node=" + d.WantKind + "|got=" + d.GotKind
		if ws, ok := d.Want.(string); ok {
			if gs, ok := d.Got.(string); ok {
				core += "|char=" + strClass(ws, gs)
			}
		}
		return verdict{core: core, exp: fmt.Sprintf("%s (omit-nil=%v omit-empty=%v)", wref.GoLit(want), o.OmitNil, o.OmitEmpty),
			obs: fmt.Sprintf("%s; text %q", d, text), diff: d}
	}
	if mustSort {
		if p := wref.Unsorted(want, got); p != nil {
			return verdict{core: "unsorted", exp: "member keys ascending at /" + strings.Join(p, "/"), obs: fmt.Sprintf("%q", text)}
		}
	}
	return verdict{}
}

// streamCore compares the bytes the io.Writer received with the in-memory text.
func streamCore(mem, got []byte) (string, string) {
	if bytes.Equal(mem, got) {
		return "", ""
	}
	n := 0
	for n < len(mem) && n < len(got) && mem[n] == got[n] {
		n++
	}
	how := "bytes"
	switch {
	case len(got) < len(mem) && n == len(got):
		how = "truncated"
	case len(got) > len(mem) && n == len(mem):
		how = "extra-tail"
	case len(got) < len(mem):
		how = "shorter"
	case len(got) > len(mem):
		how = "longer"
	}
	return "stream-differs:" + how, fmt.Sprintf("first difference at byte %d: streamed %q", n, got)
}

// sameBytesAnyOrder: equal length and equal byte multiset (used when member
// order is not fixed, so the two texts may order members differently).
func sameBytesAnyOrder(a, b []byte) bool {
	if len(a) != len(b) {
		return false
	}
	var ca, cb [256]int
	for i := range a {
		ca[a[i]]++
		cb[b[i]]++
	}
	return ca == cb
}

// writerClass folds the set of failing entry points into one coordinate.
func writerClass(set map[string]bool) string {
	names := make([]string, 0, len(set))
	for n := range set {
		names = append(names, n)
	}
	sort.Strings(names)
	has := func(ns ...string) bool {
		for _, n := range ns {
			if !set[n] {
				return false
			}
		}
		return true
	}
	ojMem := has("oj.JSON", "oj.Marshal", "Writer.JSON", "Writer.MustJSON")
	anyPretty, anyOj := false, false
	for _, n := range names {
		if strings.HasPrefix(n, "pretty.") {
			anyPretty = true
		} else {
			anyOj = true
		}
	}
	switch {
	case ojMem && set["pretty.JSON"]:
		return "all"
	case ojMem && !anyPretty:
		return "oj.*"
	case anyPretty && !anyOj:
		if set["pretty.JSON"] || set["pretty.JSON()"] {
			return "pretty.*"
		}
		return "pretty.WriteJSON"
	case !anyPretty && !set["oj.JSON"] && !set["oj.Marshal"] && !set["Writer.JSON"] && !set["Writer.MustJSON"] && (set["oj.Write"] || set["Writer.Write"]):
		return "oj.stream"
	}
	return strings.Join(names, "+")
}
