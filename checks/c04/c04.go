// Package c04 decides C04: the JSON writers emit valid JSON that denotes the
// data written. Bounded-exhaustive enumeration of value trees (simple and gen
// form) x writer entry points x option vectors x WriteLimit, judged against
// encoding/json and the small omission reference in internal/ref/wref.
package c04

import (
	"encoding/json"
	"fmt"
	"math"
	"sort"
	"strings"

	"verif/internal/core"
	"verif/internal/gens"
	"verif/internal/ref/wref"
)

func init() {
	core.Register(&core.Check{
		ID:     "C04",
		Level:  "exploration",
		Shards: func(tier string) int { return 16 },
		Run:    run,
		Replay: replay,
		Rule: "cases = (value tree, representation simple|gen); trees from gens.Trees over the full leaf alphabet (small sizes) and a reduced alphabet (larger sizes), " +
			"object keys over the string alphabet, single-child chains, aligned-table shapes, texts longer than WriteLimit; every case is run through every writer entry point x option vector " +
			"(layout x Sort x OmitNil x OmitEmpty x HTMLUnsafe; pretty: Width x MaxDepth x Align x the three booleans that reach it) and, for the streaming entry points, every WriteLimit of the set " +
			"below the text length plus the smallest one not below it (larger limits never flush early: same path); unsorted writers are run twice on trees with a multi-member object. " +
			"distinct_nontrivial = cases whose tree holds a string, a number or a non-empty container; evaluations = writer calls",
		Assumptions: []string{
			"encoding/json (Valid, Decoder token stream, UseNumber) and strconv are the trusted reading of a JSON text",
			"internal/ref/wref (omission accept-set, U+FFFD string equality, number equality) is the specification; unit-tested on its own",
			"Go map iteration order is repeated, not enumerated; for unsorted multi-member objects the streamed text is compared with the in-memory text as byte multiset plus its own validity and tree",
			"values outside the leaf alphabet are represented by class (one string per escaping class of the JSON string table, ints and floats at the boundaries)",
			"nil slices/maps, time.Time, structs and other reflected types are outside the statement (trees of simple or gen values)",
		},
		Bound: func(tier string) string {
			if tier == "thorough" {
				return fmt.Sprintf("trees <=3 nodes over %d leaves, <=4 nodes over %d leaves, <=6 nodes over %d leaves, each as simple and gen values; keys over %d strings; chains of depth 1-5,29-33,62-67,130; tables 2-3 rows x 1-3 columns, all presence patterns x 8 cell kinds (plain and nested); texts > 1024 bytes; "+
					"oj: 7 layouts (tight, indent 1/2/4/130, tab, tab+indent) x Sort x OmitNil x OmitEmpty x HTMLUnsafe (the 4-node trees of the 20-leaf set and the 6-node trees of the 5-leaf set: layouts tight, indent 2, tab; the 6-node trees with HTMLUnsafe at its default only); "+
					"pretty: Width {1,8,20,40,80,200} x MaxDepth {1,2,3} x Align x OmitNil x OmitEmpty x HTMLUnsafe on the <=3-node trees, keys, chains and tables, (Width,MaxDepth) in {(80,3),(8,1),(20,2)} on the larger tree sets; WriteLimit {1,2,3,7,64,1024} + byte-wise sink",
					len(fullLeaves()), len(mediumLeaves()), len(reducedLeaves()), len(keyStrings()))
			}
			return fmt.Sprintf("trees <=3 nodes over %d leaves, <=4 nodes over %d leaves, each as simple and gen values; keys over %d strings; chains of depth 1-5,29-33,62-67,130; tables 2-3 rows x 1-3 columns (3x3 excluded), all presence patterns x 8 cell kinds; texts > 1024 bytes; "+
				"oj: 3 layouts (tight, indent 2, tab) x Sort x OmitNil x OmitEmpty x HTMLUnsafe; pretty: (Width,MaxDepth) in {(80,3),(8,1),(20,2)} x Align x OmitNil x OmitEmpty x HTMLUnsafe (tables and chains: Width {1,8,20,40,80,200} x MaxDepth {1,2,3}); WriteLimit {1,3,1024} + byte-wise sink",
				len(fullLeaves()), len(reducedLeaves()), len(keyStrings()))
		},
	})
}

// ---------------------------------------------------------------- alphabets

func stringLeaves() []string {
	return []string{
		"", "a", "\x00", "\x1f", "\b\f\n\r\t", "\"", "\\", "/", "<", ">", "&", "<a>&",
		"\u2028", "\u2029", "\x7f", "é", "€", "😀", "\uFFFD",
		"\x80", "\xe2\x82", "\xf0\x9f\x98", "\xff", "\xc0\xaf", "\xed\xa0\x80",
		"a\x80b", "é\u2028<\"\\\x01\xe2", "key with space",
		allBytes(0x01, 0x1f), allBytes(0x20, 0x7f), // every cell of the ASCII half of the escape table
	}
}

// allBytes is the string of all byte values lo..hi: one leaf that exercises
// every cell of the writer's escape table in that range (the table is private
// to package ojg, so classes cannot be recomputed from it).
func allBytes(lo, hi int) string {
	b := make([]byte, 0, hi-lo+1)
	for i := lo; i <= hi; i++ {
		b = append(b, byte(i))
	}
	return string(b)
}

func fullLeaves() []any {
	out := []any{nil, true, false,
		int64(0), int64(1), int64(-1), int64(1) << 31, -(int64(1) << 31), int64(1)<<53 + 1, -(int64(1) << 53) - 1, int64(math.MaxInt64), int64(math.MinInt64),
		0.0, math.Copysign(0, -1), 0.1, 1.5, -1.5, 1e-7, 1e20, 1e21, 123456789.125, 5e-324, math.MaxFloat64, -math.MaxFloat64,
	}
	for _, s := range stringLeaves() {
		out = append(out, s)
	}
	return out
}

func mediumLeaves() []any {
	return []any{nil, true, false, int64(0), int64(-1), int64(math.MaxInt64), int64(math.MinInt64), 0.1, 1e21, 5e-324,
		"", "a", "\"\\", "\n\x01", "<a>&", "\u2028", "\x7f", "é😀", "\x80", "\xe2\x82"}
}

func reducedLeaves() []any {
	return []any{nil, true, int64(0), "", "s<"}
}

// keyStrings: object keys; at most one of them is invalid UTF-8 per object
// (two could collide after replacement, which the statement does not cover).
func keyStrings() []string {
	return stringLeaves()
}

// ---------------------------------------------------------------- option vectors

type plan struct {
	ojVecs     []optVec // in-memory oj vectors
	indentVecs []optVec // indent-chains family: every indent of gens.IndentValues and Tab, with and without Sort
	ojSm       []optVec // the three basic layouts only (largest tree classes of the thorough tier)
	ojTiny     []optVec // ojSm with HTMLUnsafe left at its default (6-node trees: escaping does not depend on shape)
	prettyTiny []optVec // prettySm with HTMLUnsafe left at its default
	prettySm   []optVec // pretty vectors for the big tree families
	prettyFull []optVec // pretty vectors for tables, chains, small trees
	wls        []int
}

func bools(n int) [][]bool {
	var out [][]bool
	for m := 0; m < 1<<n; m++ {
		v := make([]bool, n)
		for i := range v {
			v[i] = m>>i&1 == 1
		}
		out = append(out, v)
	}
	return out
}

func newPlan(quick bool) *plan {
	p := &plan{}
	type layout struct {
		indent int
		tab    bool
	}
	layouts := []layout{{0, false}, {2, false}, {0, true}}
	if !quick {
		layouts = []layout{{0, false}, {1, false}, {2, false}, {4, false}, {130, false}, {0, true}, {2, true}}
	}
	for _, sorted := range []bool{false, true} {
		for _, in := range gens.IndentValues {
			p.indentVecs = append(p.indentVecs, optVec{Indent: in, Sort: sorted})
		}
		p.indentVecs = append(p.indentVecs, optVec{Tab: true, Sort: sorted})
	}
	for _, l := range layouts {
		for _, b := range bools(4) {
			v := optVec{Indent: l.indent, Tab: l.tab, Sort: b[0], OmitNil: b[1], OmitEmpty: b[2], HTMLUnsafe: b[3]}
			p.ojVecs = append(p.ojVecs, v)
			if (l.indent == 0 || l.indent == 2) && !(l.tab && l.indent != 0) {
				p.ojSm = append(p.ojSm, v)
				if v.HTMLUnsafe {
					p.ojTiny = append(p.ojTiny, v)
				}
			}
		}
	}
	type wd struct{ w, d int }
	small := []wd{{80, 3}, {8, 1}, {20, 2}}
	var full []wd
	for _, w := range []int{1, 8, 20, 40, 80, 200} {
		for _, d := range []int{1, 2, 3} {
			full = append(full, wd{w, d})
		}
	}
	// a depth limit beyond the depth of every table (what lies four and five levels down is laid out too)
	full = append(full, wd{80, 6}, wd{200, 6})
	mk := func(set []wd) (out []optVec) {
		for _, x := range set {
			for _, al := range []bool{false, true} {
				for _, b := range bools(3) {
					out = append(out, optVec{Width: x.w, MaxDepth: x.d, Align: al, OmitNil: b[0], OmitEmpty: b[1], HTMLUnsafe: b[2]})
				}
			}
		}
		// the options pretty ignores must stay harmless
		out = append(out, optVec{Width: 80, MaxDepth: 3, Align: true, Sort: true, Tab: true, Indent: 4, HTMLUnsafe: true})
		return
	}
	p.prettySm, p.prettyFull = mk(small), mk(full)
	// every vector again with the float verb set explicitly
	withVerb := func(vs []optVec) []optVec {
		out := append([]optVec{}, vs...)
		for _, v := range vs {
			v.FloatFormat = "%g"
			out = append(out, v)
		}
		return out
	}
	p.ojVecs, p.ojSm, p.prettySm, p.prettyFull = withVerb(p.ojVecs), withVerb(p.ojSm), withVerb(p.prettySm), withVerb(p.prettyFull)
	for _, v := range p.prettySm {
		if v.HTMLUnsafe {
			p.prettyTiny = append(p.prettyTiny, v)
		}
	}
	p.wls = []int{1, 3, 1024}
	if !quick {
		p.wls = []int{1, 2, 3, 7, 64, 1024}
	}
	return p
}

// wlsFor: every limit below the text length plus the smallest one that is not
// (a limit >= the whole text never triggers an early flush).
func (p *plan) wlsFor(n int) []int {
	var out []int
	for _, w := range p.wls {
		out = append(out, w)
		if w >= n {
			break
		}
	}
	return out
}

// ---------------------------------------------------------------- run

type caseT struct {
	Family string `json:"family"`
	Rep    string `json:"rep"` // simple | gen
	Tree   any    `json:"tree"`
	Go     string `json:"go"`
	Entry  string `json:"entry"`
	Opts   optVec `json:"opts"`
	Core   string `json:"discrepancy"`
	Pos    string `json:"member_position,omitempty"`
	Nbr    string `json:"omitted_neighbour,omitempty"`
}

type failure struct {
	entry string
	ov    optVec
	fixed bool
	v     verdict
}

type runner struct {
	c       *core.Ctx
	plan    *plan
	samples int
	smallOj bool
	tiny    bool
}

func nodes(t any) int {
	switch x := t.(type) {
	case []any:
		n := 1
		for _, e := range x {
			n += nodes(e)
		}
		return n
	case map[string]any:
		n := 1
		for _, e := range x {
			n += nodes(e)
		}
		return n
	}
	return 1
}

func run(c *core.Ctx) {
	r := &runner{c: c, plan: newPlan(c.Quick())}
	idx := 0
	stop := false
	each := func(fam string, full bool) func(t any) bool {
		return func(t any) bool {
			if stop {
				return false
			}
			if c.Mine(idx) {
				r.smallOj = !c.Quick() && ((fam == "trees-reduced" && nodes(t) >= 6) || (fam == "trees-medium" && nodes(t) >= 4))
				r.tiny = !c.Quick() && fam == "trees-reduced" && nodes(t) >= 6
				r.tree(fam, t, full)
				if c.Expired("C04 " + fam) {
					stop = true
				}
			}
			idx++
			return !stop
		}
	}
	keys := []string{"a", "b", "c"}
	// small trees over the full alphabet: every leaf alone, in an array, as a member value, in pairs
	gens.Trees(3, fullLeaves(), keys, each("trees-full", !c.Quick()))
	// shapes over the reduced alphabet
	gens.Trees(c.Pick(4, 6), reducedLeaves(), keys, each("trees-reduced", false))
	if !c.Quick() {
		gens.Trees(4, mediumLeaves(), keys, each("trees-medium", false))
	}
	keyFamily(each("keys", !c.Quick()))
	byteSeqFamily(c.Pick(2, 3), each("byte-sequences", false))
	gens.Chains([]any{nil, "", int64(1), "x"}, each("chains", true))
	gens.IndentChains(each("indent-chains", false))
	gens.Tables(c.Quick(), !c.Quick(), each("tables", true))
	longFamily(each("long", false))
	// the scale family: counts, depths and string lengths on both sides of every fixed capacity
	sc := each("scale", false)
	for _, d := range gens.ScaleDocs(c.Quick()) {
		if !sc(d.Tree) {
			break
		}
	}
}

func nontrivial(t any) bool {
	switch x := t.(type) {
	case nil, bool:
		return false
	case []any:
		return len(x) > 0
	case map[string]any:
		return len(x) > 0
	}
	return true
}

// tree runs one tree in both representations and reports the failures.
func (r *runner) tree(fam string, t any, fullPretty bool) {
	c := r.c
	multi := wref.MaxMembers(t) >= 2
	type group struct {
		first   failure
		writers map[string]bool
		n       int
	}
	groups := map[string]map[string]*group{} // rep -> core -> group
	reps := []string{"simple", "gen"}
	if t == nil {
		reps = reps[:1]
	}
	for _, rep := range reps {
		v := t
		if rep == "gen" {
			v = toGen(t)
		}
		if nontrivial(t) {
			c.Nontrivial()
		}
		gm := map[string]*group{}
		groups[rep] = gm
		for _, f := range r.evalAll(t, v, multi, fullPretty, fam, rep) {
			g := gm[f.v.core]
			if g == nil {
				g = &group{first: f, writers: map[string]bool{}}
				gm[f.v.core] = g
			}
			g.writers[f.entry] = true
			g.n++
		}
	}
	cores := map[string]bool{}
	for _, gm := range groups {
		for k := range gm {
			cores[k] = true
		}
	}
	if len(cores) == 0 {
		return
	}
	names := make([]string, 0, len(cores))
	for k := range cores {
		names = append(names, k)
	}
	sort.Strings(names)
	for _, k := range names {
		gs, gg := groups["simple"][k], groups["gen"][k]
		rep, g := "both", gs
		switch {
		case gs == nil:
			rep, g = "gen", gg
		case gg == nil && len(reps) == 2:
			rep = "simple"
		}
		repName := "simple"
		v := t
		if gs == nil {
			repName, v = "gen", toGen(t)
		}
		e := entryByName(g.first.entry)
		ov := g.first.ov
		labels := "default-args"
		if !g.first.fixed {
			ov = r.minimise(e, t, v, ov, k, multi)
			labels = optLabels(e, &ov)
		}
		sig := core.Sig("w="+writerClass(g.writers), k, "opts="+labels, "rep="+rep)
		cs := caseT{Family: fam, Rep: repName, Tree: wref.Enc(t), Go: wref.GoLit(t), Entry: e.name, Opts: ov, Core: k}
		if d := g.first.v.diff; d != nil {
			cs.Pos, cs.Nbr = d.Pos, d.Nbr
		}
		c.Fail(sig, cs, wref.Size(t)+1+strings.Count(labels, "+"), g.first.v.exp, g.first.v.obs)
	}
}

// evalAll runs every entry point x option vector on one value.
func (r *runner) evalAll(t, v any, multi, fullPretty bool, fam, rep string) (fails []failure) {
	c := r.c
	memo := map[memoK][]byte{}
	jcache := map[string]verdict{}
	run := func(e *entry, ov *optVec, fixed bool) {
		for _, f := range r.evalVariant(e, t, v, ov, multi, memo, jcache) {
			f.fixed = fixed
			fails = append(fails, f)
		}
	}
	pv := r.plan.prettySm
	if fullPretty {
		pv = r.plan.prettyFull
	} else if r.tiny {
		pv = r.plan.prettyTiny
	}
	for _, e := range entries {
		switch {
		case e.fixed:
			run(e, nil, true)
		case e.pretty:
			for i := range pv {
				run(e, &pv[i], false)
			}
		default:
			ojv := r.plan.ojVecs
			if fam == "indent-chains" {
				ojv = r.plan.indentVecs
			}
			if r.smallOj {
				ojv = r.plan.ojSm
			}
			if r.tiny {
				ojv = r.plan.ojTiny
			}
			for i := range ojv {
				run(e, &ojv[i], false)
			}
		}
	}
	if len(fails) == 0 && rep == "simple" && wref.Size(t) > 4 {
		r.samples++
	}
	if len(fails) == 0 && rep == "simple" && wref.Size(t) > 4 && (r.samples == 7+40*c.Shard || r.samples == 900+300*c.Shard) {
		ov := r.plan.ojVecs[(c.Shard*5+3)%len(r.plan.ojVecs)]
		c.Sample(map[string]any{"family": fam, "rep": rep, "go": wref.GoLit(t), "entry": "oj.JSON", "opts": ov, "text": string(invoke(entries[0], v, &ov).text)})
	}
	return
}

func omitOf(ov *optVec) wref.Opts {
	if ov == nil {
		return wref.Opts{}
	}
	return wref.Opts{OmitNil: ov.OmitNil, OmitEmpty: ov.OmitEmpty}
}

// memoK identifies the in-memory text of an entry under an option vector of
// the plan (vectors are shared by pointer between an entry and its streaming
// sibling).
type memoK struct {
	name string
	ov   *optVec
}

func memoKey(name string, ov *optVec) memoK { return memoK{name, ov} }

// evalVariant runs one entry point under one option vector (a streaming entry
// under every applicable WriteLimit unless ov fixes one) and judges it.
func (r *runner) evalVariant(e *entry, t, v any, ov *optVec, multi bool, memo map[memoK][]byte, jcache map[string]verdict) (fails []failure) {
	c := r.c
	fail := func(o *optVec, vd verdict) {
		f := failure{entry: e.name, v: vd}
		if o != nil {
			f.ov = *o
		} else {
			f.ov = optVec{HTMLUnsafe: true}
		}
		fails = append(fails, f)
	}
	sorted := ov != nil && ov.Sort
	jd := func(text []byte) verdict {
		if jcache == nil {
			return judge(text, t, omitOf(ov), sorted)
		}
		flags := byte('0')
		if ov != nil {
			if ov.OmitNil {
				flags |= 1
			}
			if ov.OmitEmpty {
				flags |= 2
			}
		}
		if sorted {
			flags |= 4
		}
		k := string(flags) + string(text)
		vd, ok := jcache[k]
		if !ok {
			vd = judge(text, t, omitOf(ov), sorted)
			jcache[k] = vd
		}
		return vd
	}
	bad := func(o *optVec, res outcome) bool {
		switch {
		case res.panic != "":
			fail(o, verdict{core: "panic:" + res.panic, exp: "a JSON text", obs: "panic: " + res.pmsg})
		case res.err == errOverwritten:
			fail(o, verdict{core: "result-overwritten-by-next-call", exp: "a text owned by the caller", obs: res.err.Error()})
		case res.err != nil:
			fail(o, verdict{core: "error-result", exp: "a JSON text", obs: "error: " + res.err.Error()})
		default:
			return false
		}
		return true
	}
	if !e.stream {
		runs := 1
		if multi {
			runs = 2 // unsorted: map order is not controlled; sorted: the text must be deterministic
		}
		var first []byte
		for k := 0; k < runs; k++ {
			res := invoke(e, v, ov)
			c.Eval()
			if bad(ov, res) {
				return
			}
			if k == 0 {
				first = res.text
				if memo != nil {
					memo[memoKey(e.name, ov)] = res.text
				}
			} else if sorted && string(first) != string(res.text) {
				fail(ov, verdict{core: "nondeterministic", exp: fmt.Sprintf("%q", first), obs: fmt.Sprintf("second run %q", res.text)})
				return
			}
			if vd := jd(res.text); vd.core != "" {
				fail(ov, vd)
				return
			}
		}
		return
	}
	// streaming entry: the in-memory sibling's text under the same options
	var mem []byte
	mk := memoKey(e.mem, ov)
	if m, ok := memo[mk]; ok && memo != nil {
		mem = m
	} else {
		res := invoke(entryByName(e.mem), v, ov)
		c.Eval()
		if res.panic != "" || res.err != nil {
			return // reported by the in-memory entry itself
		}
		mem = res.text
		if memo != nil {
			memo[mk] = mem
		}
	}
	exact := !multi || (ov != nil && ov.Sort) || e.pretty
	one := func(o *optVec) {
		res := invoke(e, v, o)
		c.Eval()
		c.Add("streamed_calls", 1)
		if res.calls > 1 {
			c.Add("streamed_calls_with_early_flush", 1)
		}
		if bad(o, res) {
			return
		}
		if exact {
			if core, obs := streamCore(mem, res.text); core != "" {
				fail(o, verdict{core: core, exp: fmt.Sprintf("%q", mem), obs: obs})
			}
			return
		}
		if string(mem) == string(res.text) {
			return
		}
		if !sameBytesAnyOrder(mem, res.text) {
			how := "bytes"
			if len(res.text) < len(mem) {
				how = "shorter"
			} else if len(res.text) > len(mem) {
				how = "longer"
			}
			fail(o, verdict{core: "stream-differs:" + how, exp: fmt.Sprintf("the bytes of %q in some member order", mem), obs: fmt.Sprintf("%q", res.text)})
			return
		}
		// the members came out in another order: judge the streamed text on
		// its own (a defect the in-memory text shows too is the in-memory
		// entry's finding, not a streaming one)
		if vd := jd(res.text); vd.core != "" && vd.core != jd(mem).core {
			vd.core = "stream-differs:content:" + vd.core
			fail(o, vd)
		}
	}
	switch {
	case ov == nil:
		one(nil)
	case ov.WriteLimit != 0:
		one(ov)
	default:
		for _, wl := range r.plan.wlsFor(len(mem)) {
			o := *ov
			o.WriteLimit = wl
			one(&o)
			if wl == 1 || wl == 1024 {
				o.OneByte = true
				one(&o)
			}
		}
	}
	return
}

// stillFails re-runs one variant and says whether core shows again.
func (r *runner) stillFails(e *entry, t, v any, ov *optVec, core string, multi bool) bool {
	tries := 1
	if multi {
		tries = 8 // the member order is not controlled and may decide whether the defect shows
	}
	for i := 0; i < tries; i++ {
		for _, f := range r.evalVariant(e, t, v, ov, multi, nil, nil) {
			if f.v.core == core {
				return true
			}
		}
	}
	return false
}

// minimise turns options back to their neutral value while the same
// discrepancy persists, so that the signature names only what matters.
func (r *runner) minimise(e *entry, t, v any, ov optVec, core string, multi bool) optVec {
	try := func(mod func(o *optVec)) {
		o := ov
		mod(&o)
		if o != ov && r.stillFails(e, t, v, &o, core, multi) {
			ov = o
		}
	}
	orig := ov
	if e.stream {
		// a flush defect shows at limits that depend on the text length, and
		// the text changes with the options: minimise under "any limit of the
		// set" (WriteLimit 0 makes evalVariant scan them), then pin one again
		try(func(o *optVec) { o.WriteLimit, o.OneByte = 0, false })
	}
	try(func(o *optVec) { o.Tab = false })
	try(func(o *optVec) { o.Indent = 0 })
	try(func(o *optVec) { o.Sort = false })
	try(func(o *optVec) { o.OmitNil = false })
	try(func(o *optVec) { o.OmitEmpty = false })
	try(func(o *optVec) { o.HTMLUnsafe = true })
	try(func(o *optVec) { o.FloatFormat = "" })
	if e.pretty {
		try(func(o *optVec) { o.Align = false })
		try(func(o *optVec) { o.Width = 80 })
		try(func(o *optVec) { o.MaxDepth = 3 })
	}
	if e.stream && ov.WriteLimit == 0 {
		pinned := false
		for i := len(r.plan.wls) - 1; i >= 0 && !pinned; i-- { // largest failing limit first: 1024 = "no limit needed"
			o := ov
			o.WriteLimit = r.plan.wls[i]
			if r.stillFails(e, t, v, &o, core, multi) {
				ov, pinned = o, true
			}
		}
		if !pinned {
			ov.WriteLimit, ov.OneByte = orig.WriteLimit, orig.OneByte
		}
	}
	return ov
}

func optLabels(e *entry, o *optVec) string {
	var l []string
	add := func(c bool, s string) {
		if c {
			l = append(l, s)
		}
	}
	add(o.Tab, "tab")
	add(o.Indent > 0, "indent")
	add(o.Sort, "sort")
	add(o.OmitNil, "omitnil")
	add(o.OmitEmpty, "omitempty")
	add(!o.HTMLUnsafe, "htmlsafe")
	add(o.FloatFormat != "", "floatformat")
	if e.pretty {
		add(o.Align, "align")
		add(o.Width != 0 && o.Width < 80, "width<80")
		add(o.Width > 80, "width>80")
		add(o.MaxDepth != 0 && o.MaxDepth < 3, "depth<3")
	}
	if e.stream {
		add(o.WriteLimit != 0 && o.WriteLimit < 1024, "writelimit<1024")
		add(o.OneByte, "onebyte")
	}
	if len(l) == 0 {
		return "none"
	}
	return strings.Join(l, "+")
}

// ---------------------------------------------------------------- families

func keyFamily(fn func(t any) bool) {
	for _, k := range keyStrings() {
		if !fn(map[string]any{k: int64(1)}) {
			return
		}
		if k != "b" && !fn(map[string]any{k: nil, "b": "v"}) {
			return
		}
		if k != "a" && k != "zz" && !fn(map[string]any{"a": []any{}, k: map[string]any{k: ""}, "zz": true}) {
			return
		}
	}
	// several escaped keys together (sorting happens on the raw key)
	fn(map[string]any{"\"": int64(1), "\\": int64(2), "\x01": int64(3), "é": int64(4), "<": int64(5), " ": int64(6), "\x80": int64(7), "": int64(8)})
}

// byteSeqFamily: every string of up to three bytes over one representative per
// byte class that the string writer treats differently (plain, quote,
// backslash, control, continuation byte, the leads of 2-, 3- and 4-byte
// sequences, a byte that is never valid), as a value and as a key. A lead
// byte followed by a quote, a backslash or a control character is where a
// writer that trusts the lead emits broken JSON.
func byteSeqFamily(maxLen int, fn func(t any) bool) {
	classes := []byte{'a', '"', '\\', '\n', 0x80, 0xC2, 0xE2, 0xF0, 0xFF}
	var rec func(prefix []byte) bool
	rec = func(prefix []byte) bool {
		if len(prefix) > 0 {
			str := string(prefix)
			if !fn([]any{str, "z"}) || !fn(map[string]any{"k": str, "z": int64(1)}) || !fn(map[string]any{str: int64(1)}) {
				return false
			}
		}
		if len(prefix) == maxLen {
			return true
		}
		for _, b := range classes {
			if !rec(append(append([]byte{}, prefix...), b)) {
				return false
			}
		}
		return true
	}
	rec(nil)
}

func longFamily(fn func(t any) bool) {
	long := strings.Repeat("0123456789", 110) // 1100 bytes: one value longer than the largest WriteLimit
	ints := make([]any, 300)
	for i := range ints {
		ints[i] = int64(i * 7919)
	}
	objs := make([]any, 60)
	for i := range objs {
		objs[i] = map[string]any{"k": int64(i), "s": strings.Repeat("<", i%5)}
	}
	strs := make([]any, 40)
	for i := range strs {
		strs[i] = strings.Repeat("é\"", 15)
	}
	wide := map[string]any{}
	for i := 0; i < 3; i++ {
		wide[string(rune('a'+i))] = strings.Repeat("x", 400)
	}
	for _, t := range []any{
		[]any{long}, map[string]any{"a": long, "b": int64(1)}, map[string]any{"a": nil, "b": long}, ints, objs, strs, wide,
		[]any{long, []any{}, map[string]any{}, long}, map[string]any{long: []any{long}},
	} {
		if !fn(t) {
			return
		}
	}
}

// ---------------------------------------------------------------- replay

func replay(c *core.Ctx, raw json.RawMessage) {
	var cs caseT
	if err := json.Unmarshal(raw, &cs); err != nil {
		c.HarnessError("bad case: %v", err)
		return
	}
	t, err := wref.Dec(cs.Tree)
	if err != nil {
		c.HarnessError("bad tree: %v", err)
		return
	}
	e := entryByName(cs.Entry)
	if e == nil {
		c.HarnessError("unknown entry %q", cs.Entry)
		return
	}
	v := t
	if cs.Rep == "gen" {
		v = toGen(t)
	}
	r := &runner{c: c, plan: newPlan(false)}
	ov := &cs.Opts
	if e.fixed {
		ov = nil
	}
	multi := wref.MaxMembers(t) >= 2
	tries := 1
	if multi {
		tries = 3
	}
	for i := 0; i < tries; i++ {
		for _, f := range r.evalVariant(e, t, v, ov, multi, nil, nil) {
			c.Fail(core.Sig("replay", "w="+e.name, f.v.core), cs, wref.Size(t), f.v.exp, f.v.obs)
		}
	}
}
