package c04

import (
	"fmt"
	"runtime"
	"strings"

	"github.com/ohler55/ojg"
	"github.com/ohler55/ojg/gen"
	"github.com/ohler55/ojg/oj"
	"github.com/ohler55/ojg/pretty"
)

// optVec is one option vector. The first six fields are ojg.Options members,
// the next three belong to pretty, WriteLimit/OneByte to the streaming calls.
type optVec struct {
	Indent     int  `json:"indent,omitempty"`
	Tab        bool `json:"tab,omitempty"`
	Sort       bool `json:"sort,omitempty"`
	OmitNil    bool `json:"omit_nil,omitempty"`
	OmitEmpty  bool `json:"omit_empty,omitempty"`
	HTMLUnsafe bool `json:"html_unsafe"`
	Width      int  `json:"width,omitempty"`
	MaxDepth   int  `json:"max_depth,omitempty"`
	Align      bool `json:"align,omitempty"`
	WriteLimit int  `json:"write_limit,omitempty"`
	OneByte    bool `json:"one_byte_sink,omitempty"`
	// FloatFormat "%g" is the documented default verb spelled out (the shortest
	// text that reads back as the same float64)
	FloatFormat string `json:"float_format,omitempty"`
}

func (o *optVec) options() *ojg.Options {
	op := ojg.DefaultOptions
	op.Indent, op.Tab, op.Sort = o.Indent, o.Tab, o.Sort
	op.FloatFormat = o.FloatFormat
	op.OmitNil, op.OmitEmpty, op.HTMLUnsafe = o.OmitNil, o.OmitEmpty, o.HTMLUnsafe
	if o.WriteLimit > 0 {
		op.WriteLimit = o.WriteLimit
	}
	return &op
}

func (o *optVec) prettyArgs() []any {
	w, d := o.Width, o.MaxDepth
	if w == 0 {
		w = 80
	}
	if d == 0 {
		d = 3
	}
	// pretty takes width and depth as one float: W.D
	return []any{o.options(), float64(w) + float64(d)/10.0, o.Align}
}

// entry is one writer entry point.
type entry struct {
	name   string
	pretty bool
	stream bool
	mem    string // for streaming entries: the in-memory call whose text must be reproduced
	fixed  bool   // takes no option vector (default-argument flavours)
	call   func(v any, o *optVec, w *sink) ([]byte, error)
}

// sink is the io.Writer handed to the streaming calls. OneByte emulates a
// device that takes a single byte per call (the slice is consumed byte by
// byte; the io.Writer contract — report len(p), keep nothing — is honoured).
type sink struct {
	buf     []byte
	calls   int
	oneByte bool
}

func (s *sink) Write(p []byte) (int, error) {
	s.calls++
	if s.oneByte {
		for i := 0; i < len(p); i++ {
			s.buf = append(s.buf, p[i:i+1]...)
		}
	} else {
		s.buf = append(s.buf, p...)
	}
	return len(p), nil
}

var entries = []*entry{
	{name: "oj.JSON", call: func(v any, o *optVec, _ *sink) ([]byte, error) {
		return []byte(oj.JSON(v, o.options())), nil
	}},
	{name: "oj.Marshal", call: func(v any, o *optVec, _ *sink) ([]byte, error) {
		return oj.Marshal(v, o.options())
	}},
	{name: "Writer.JSON", call: func(v any, o *optVec, _ *sink) ([]byte, error) {
		wr := oj.Writer{Options: *o.options()}
		return []byte(wr.JSON(v)), nil
	}},
	{name: "Writer.MustJSON", call: func(v any, o *optVec, _ *sink) ([]byte, error) {
		wr := oj.Writer{Options: *o.options()}
		return append([]byte{}, wr.MustJSON(v)...), nil
	}},
	{name: "oj.Write", stream: true, mem: "oj.JSON", call: func(v any, o *optVec, w *sink) ([]byte, error) {
		err := oj.Write(w, v, o.options())
		return w.buf, err
	}},
	{name: "Writer.Write", stream: true, mem: "Writer.JSON", call: func(v any, o *optVec, w *sink) ([]byte, error) {
		wr := oj.Writer{Options: *o.options()}
		err := wr.Write(w, v)
		return w.buf, err
	}},
	{name: "pretty.JSON", pretty: true, call: func(v any, o *optVec, _ *sink) ([]byte, error) {
		return []byte(pretty.JSON(v, o.prettyArgs()...)), nil
	}},
	{name: "pretty.WriteJSON", pretty: true, stream: true, mem: "pretty.JSON", call: func(v any, o *optVec, w *sink) ([]byte, error) {
		err := pretty.WriteJSON(w, v, o.prettyArgs()...)
		return w.buf, err
	}},
	// default-argument flavours: no option vector, nothing is omitted
	{name: "oj.JSON()", fixed: true, call: func(v any, _ *optVec, _ *sink) ([]byte, error) {
		return []byte(oj.JSON(v)), nil
	}},
	{name: "oj.JSON(int)", fixed: true, call: func(v any, _ *optVec, _ *sink) ([]byte, error) {
		return []byte(oj.JSON(v, 2)), nil
	}},
	{name: "oj.JSON(*Writer)", fixed: true, call: func(v any, _ *optVec, _ *sink) ([]byte, error) {
		return []byte(oj.JSON(v, &oj.Writer{Options: ojg.DefaultOptions})), nil
	}},
	{name: "oj.Marshal()", fixed: true, call: func(v any, _ *optVec, _ *sink) ([]byte, error) {
		// the returned text is the caller's: it must still denote v after the
		// pooled writer has served another call
		out, err := oj.Marshal(v)
		if err == nil {
			snap := string(out)
			_, _ = oj.Marshal(clobber)
			if string(out) != snap {
				return out, errOverwritten
			}
		}
		return out, err
	}},
	{name: "oj.Marshal(*Writer)", fixed: true, call: func(v any, _ *optVec, _ *sink) ([]byte, error) {
		return oj.Marshal(v, &oj.Writer{Options: ojg.DefaultOptions})
	}},
	{name: "oj.Write()", fixed: true, stream: true, mem: "oj.JSON()", call: func(v any, _ *optVec, w *sink) ([]byte, error) {
		err := oj.Write(w, v)
		return w.buf, err
	}},
	{name: "pretty.JSON()", fixed: true, pretty: true, call: func(v any, _ *optVec, _ *sink) ([]byte, error) {
		return []byte(pretty.JSON(v)), nil
	}},
	{name: "pretty.WriteJSON()", fixed: true, pretty: true, stream: true, mem: "pretty.JSON()", call: func(v any, _ *optVec, w *sink) ([]byte, error) {
		err := pretty.WriteJSON(w, v)
		return w.buf, err
	}},
	// the remaining exported methods, with default options
	{name: "Writer.MustWrite()", fixed: true, stream: true, mem: "oj.JSON()", call: func(v any, _ *optVec, w *sink) ([]byte, error) {
		wr := oj.Writer{Options: ojg.DefaultOptions}
		wr.MustWrite(w, v)
		return w.buf, nil
	}},
	{name: "pretty.Writer.Encode()", fixed: true, pretty: true, call: func(v any, _ *optVec, _ *sink) ([]byte, error) {
		pw := pretty.Writer{Options: ojg.DefaultOptions, Width: 80, MaxDepth: 3}
		return append([]byte{}, pw.Encode(v)...), nil
	}},
	{name: "pretty.Writer.Marshal()", fixed: true, pretty: true, call: func(v any, _ *optVec, _ *sink) ([]byte, error) {
		pw := pretty.Writer{Options: ojg.DefaultOptions, Width: 80, MaxDepth: 3}
		b, err := pw.Marshal(v)
		return append([]byte{}, b...), err
	}},
	{name: "pretty.Writer.Write()", fixed: true, pretty: true, stream: true, mem: "pretty.JSON()", call: func(v any, _ *optVec, w *sink) ([]byte, error) {
		pw := pretty.Writer{Options: ojg.DefaultOptions, Width: 80, MaxDepth: 3}
		err := pw.Write(w, v)
		return w.buf, err
	}},
}

var (
	clobber        = []any{"################################################################", map[string]any{"#": "#"}}
	errOverwritten = fmt.Errorf("the []byte returned by oj.Marshal changed when oj.Marshal was called again")
)

func entryByName(n string) *entry {
	for _, e := range entries {
		if e.name == n {
			return e
		}
	}
	return nil
}

// outcome of one call.
type outcome struct {
	text  []byte
	err   error
	panic string // "" = none, else classified panic kind
	pmsg  string
	calls int
}

// invoke runs one entry point and contains its panics.
func invoke(e *entry, v any, o *optVec) (res outcome) {
	var w *sink
	if e.stream {
		w = &sink{oneByte: o != nil && o.OneByte}
	}
	defer func() {
		if r := recover(); r != nil {
			res.panic, res.pmsg = panicKind(r), fmt.Sprint(r)
			if w != nil {
				res.text, res.calls = w.buf, w.calls
			}
		}
	}()
	if o == nil {
		o = &optVec{HTMLUnsafe: true}
	}
	res.text, res.err = e.call(v, o, w)
	if w != nil {
		res.calls = w.calls
	}
	return
}

// panicKind classifies a recovered value without quoting data.
func panicKind(r any) string {
	if re, ok := r.(runtime.Error); ok {
		msg := re.Error()
		for _, k := range []string{"index out of range", "slice bounds out of range", "nil pointer dereference", "nil map", "interface conversion", "divide by zero", "makeslice"} {
			if strings.Contains(msg, k) {
				return strings.ReplaceAll(k, " ", "-")
			}
		}
		return "runtime-error"
	}
	if _, ok := r.(error); ok {
		return "error-value"
	}
	return "other"
}

// toGen builds the gen.Node form of a tree (what alt.Generify yields for
// simple data), without going through ojg's own converter.
func toGen(v any) any {
	switch t := v.(type) {
	case nil:
		return nil
	case bool:
		return gen.Bool(t)
	case int64:
		return gen.Int(t)
	case int:
		return gen.Int(int64(t))
	case float64:
		return gen.Float(t)
	case string:
		return gen.String(t)
	case []any:
		a := make(gen.Array, len(t))
		for i, e := range t {
			if g, _ := toGen(e).(gen.Node); g != nil {
				a[i] = g
			}
		}
		return a
	case map[string]any:
		o := gen.Object{}
		for k, e := range t {
			g, _ := toGen(e).(gen.Node)
			o[k] = g
		}
		return o
	}
	panic(fmt.Sprintf("toGen: unsupported %T", v))
}
