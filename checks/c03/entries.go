package c03

import (
	"fmt"
	"io"
	"strings"
	"testing/iotest"

	"github.com/ohler55/ojg"
	"github.com/ohler55/ojg/gen"
	"github.com/ohler55/ojg/oj"
	"github.com/ohler55/ojg/sen"

	"verif/internal/core"
	"verif/internal/mach"
)

// ------------------------------------------------------------------ leg E
//
// Every exported way into the parsers: package functions, their Must* and
// *String forms, the methods of Parser / Tokenizer / Validator values (fresh,
// and with Reuse set), each with every kind of optional argument (no argument,
// the two callback types, a channel, a number conversion, and combinations) and,
// for the reader forms, every way a reader may end. All of them are thin
// wrappers over the same machine, so for the same text they must deliver what
// (&Parser{}).Parse delivers with the same arguments: the returned value, the
// sequence of documents and whether an error is reported.

type argForm struct {
	name  string
	multi bool
	// build returns the arguments for one call and a function that collects
	// the documents delivered once the call has returned
	build func(pkg string) (args []any, docs func() []string)
}

func recordDocs() (cbBool func(any) bool, cbPlain func(any), out func() []string) {
	var got []string
	return func(v any) bool { got = append(got, mach.Canon(v)); return false },
		func(v any) { got = append(got, mach.Canon(v)) },
		func() []string { return got }
}

func genNodeAny(n gen.Node) any {
	if n == nil {
		return nil
	}
	return n // mach.Canon reads gen nodes directly (Simplify turns a gen.Big into a string)
}

func argForms() []argForm {
	none := func() []string { return nil }
	chanForm := func(extra ...any) func(pkg string) ([]any, func() []string) {
		return func(pkg string) ([]any, func() []string) {
			if pkg == "gen" {
				ch := make(chan gen.Node, 256)
				return append([]any{ch}, extra...), func() []string {
					close(ch)
					var got []string
					for v := range ch {
						got = append(got, mach.Canon(genNodeAny(v)))
					}
					return got
				}
			}
			ch := make(chan any, 256)
			return append([]any{ch}, extra...), func() []string {
				close(ch)
				var got []string
				for v := range ch {
					got = append(got, mach.Canon(v))
				}
				return got
			}
		}
	}
	cbForm := func(plain bool, extra ...any) func(pkg string) ([]any, func() []string) {
		return func(pkg string) ([]any, func() []string) {
			b, p, out := recordDocs()
			if pkg == "gen" {
				if plain {
					return append([]any{func(n gen.Node) { p(genNodeAny(n)) }}, extra...), out
				}
				return append([]any{func(n gen.Node) bool { return b(genNodeAny(n)) }}, extra...), out
			}
			if plain {
				return append([]any{p}, extra...), out
			}
			return append([]any{b}, extra...), out
		}
	}
	return []argForm{
		{"none", false, func(string) ([]any, func() []string) { return nil, none }},
		{"func(any)bool", true, cbForm(false)},
		{"func(any)", true, cbForm(true)},
		{"chan", true, chanForm()},
		{"NumConvFloat64", false, func(string) ([]any, func() []string) { return []any{ojg.NumConvFloat64}, none }},
		{"NumConvString", false, func(string) ([]any, func() []string) { return []any{ojg.NumConvString}, none }},
		{"func(any)bool+NumConvFloat64", true, cbForm(false, ojg.NumConvFloat64)},
		{"chan+NumConvString", true, chanForm(ojg.NumConvString)},
	}
}

type entryT struct {
	name   string
	pkg    string
	reader bool
	// kind: parse (value + documents), tokenize (documents rebuilt from the
	// events; package forms are multi-document), validate (verdict only)
	kind  string
	multi bool // tokenize / validate: accepts a stream of documents
	call  func(in []byte, r io.Reader, args []any) (any, error)
}

func tok(ojNotSen bool, onlyOne, viaReader bool, form string) func(in []byte, r io.Reader, args []any) (any, error) {
	return func(in []byte, r io.Reader, args []any) (any, error) {
		rec := &mach.Rec{}
		var err error
		switch {
		case ojNotSen && form == "Tokenize":
			err = oj.Tokenize(in, rec)
		case ojNotSen && form == "TokenizeString":
			err = oj.TokenizeString(string(in), rec)
		case ojNotSen && form == "TokenizeLoad":
			err = oj.TokenizeLoad(r, rec)
		case ojNotSen && viaReader:
			t := &oj.Tokenizer{}
			t.OnlyOne = onlyOne
			err = t.Load(r, rec)
		case ojNotSen:
			t := &oj.Tokenizer{}
			t.OnlyOne = onlyOne
			err = t.Parse(in, rec)
		case form == "Tokenize":
			err = sen.Tokenize(in, rec)
		case form == "TokenizeString":
			err = sen.TokenizeString(string(in), rec)
		case form == "TokenizeLoad":
			err = sen.TokenizeLoad(r, rec)
		case viaReader:
			err = (&sen.Tokenizer{OnlyOne: onlyOne}).Load(r, rec)
		default:
			err = (&sen.Tokenizer{OnlyOne: onlyOne}).Parse(in, rec)
		}
		if err == nil {
			err = rec.BErr
		}
		return rec.Docs, err
	}
}

func entries() []entryT {
	gp := func(reuse, viaReader bool) func(in []byte, r io.Reader, args []any) (any, error) {
		return func(in []byte, r io.Reader, args []any) (any, error) {
			p := &gen.Parser{Reuse: reuse}
			var n gen.Node
			var err error
			if viaReader {
				n, err = p.ParseReader(r, args...)
			} else {
				n, err = p.Parse(in, args...)
			}
			return genNodeAny(n), err
		}
	}
	es := []entryT{
		// the reference of each package comes first
		{"(&oj.Parser{}).Parse", "oj", false, "parse", false, func(in []byte, r io.Reader, a []any) (any, error) { return (&oj.Parser{}).Parse(in, a...) }},
		{"oj.Parse", "oj", false, "parse", false, func(in []byte, r io.Reader, a []any) (any, error) { return oj.Parse(in, a...) }},
		{"oj.MustParse", "oj", false, "parse", false, func(in []byte, r io.Reader, a []any) (any, error) { return oj.MustParse(in, a...), nil }},
		{"oj.ParseString", "oj", false, "parse", false, func(in []byte, r io.Reader, a []any) (any, error) { return oj.ParseString(string(in), a...) }},
		{"oj.MustParseString", "oj", false, "parse", false, func(in []byte, r io.Reader, a []any) (any, error) { return oj.MustParseString(string(in), a...), nil }},
		{"oj.Load", "oj", true, "parse", false, func(in []byte, r io.Reader, a []any) (any, error) { return oj.Load(r, a...) }},
		{"oj.MustLoad", "oj", true, "parse", false, func(in []byte, r io.Reader, a []any) (any, error) { return oj.MustLoad(r, a...), nil }},
		{"(&oj.Parser{}).ParseReader", "oj", true, "parse", false, func(in []byte, r io.Reader, a []any) (any, error) { return (&oj.Parser{}).ParseReader(r, a...) }},
		{"(&oj.Parser{Reuse:true}).Parse", "oj", false, "parse", false, func(in []byte, r io.Reader, a []any) (any, error) { return (&oj.Parser{Reuse: true}).Parse(in, a...) }},
		{"(&oj.Parser{Reuse:true}).ParseReader", "oj", true, "parse", false, func(in []byte, r io.Reader, a []any) (any, error) {
			return (&oj.Parser{Reuse: true}).ParseReader(r, a...)
		}},
		{"oj.Tokenize", "oj", false, "tokenize", true, tok(true, false, false, "Tokenize")},
		{"oj.TokenizeString", "oj", false, "tokenize", true, tok(true, false, false, "TokenizeString")},
		{"oj.TokenizeLoad", "oj", true, "tokenize", true, tok(true, false, true, "TokenizeLoad")},
		{"(&oj.Tokenizer{}).Parse", "oj", false, "tokenize", true, tok(true, false, false, "")},
		{"(&oj.Tokenizer{}).Load", "oj", true, "tokenize", true, tok(true, false, true, "")},
		{"(&oj.Tokenizer{OnlyOne:true}).Parse", "oj", false, "tokenize", false, tok(true, true, false, "")},
		{"(&oj.Tokenizer{OnlyOne:true}).Load", "oj", true, "tokenize", false, tok(true, true, true, "")},
		{"oj.Validate", "oj", false, "validate", true, func(in []byte, r io.Reader, a []any) (any, error) { return nil, oj.Validate(in) }},
		{"oj.ValidateString", "oj", false, "validate", true, func(in []byte, r io.Reader, a []any) (any, error) { return nil, oj.ValidateString(string(in)) }},
		{"oj.ValidateReader", "oj", true, "validate", true, func(in []byte, r io.Reader, a []any) (any, error) { return nil, oj.ValidateReader(r) }},
		{"(&oj.Validator{OnlyOne:true}).Validate", "oj", false, "validate", false, func(in []byte, r io.Reader, a []any) (any, error) {
			return nil, (&oj.Validator{OnlyOne: true}).Validate(in)
		}},
		{"(&oj.Validator{OnlyOne:true}).ValidateReader", "oj", true, "validate", false, func(in []byte, r io.Reader, a []any) (any, error) {
			return nil, (&oj.Validator{OnlyOne: true}).ValidateReader(r)
		}},

		{"(&gen.Parser{}).Parse", "gen", false, "parse", false, gp(false, false)},
		{"(&gen.Parser{}).ParseReader", "gen", true, "parse", false, gp(false, true)},
		{"(&gen.Parser{Reuse:true}).Parse", "gen", false, "parse", false, gp(true, false)},
		{"(&gen.Parser{Reuse:true}).ParseReader", "gen", true, "parse", false, gp(true, true)},

		{"(&sen.Parser{}).Parse", "sen", false, "parse", false, func(in []byte, r io.Reader, a []any) (any, error) { return (&sen.Parser{}).Parse(in, a...) }},
		{"sen.Parse", "sen", false, "parse", false, func(in []byte, r io.Reader, a []any) (any, error) { return sen.Parse(in, a...) }},
		{"sen.MustParse", "sen", false, "parse", false, func(in []byte, r io.Reader, a []any) (any, error) { return sen.MustParse(in, a...), nil }},
		{"sen.ParseReader", "sen", true, "parse", false, func(in []byte, r io.Reader, a []any) (any, error) { return sen.ParseReader(r, a...) }},
		{"sen.MustParseReader", "sen", true, "parse", false, func(in []byte, r io.Reader, a []any) (any, error) { return sen.MustParseReader(r, a...), nil }},
		{"(&sen.Parser{}).MustParse", "sen", false, "parse", false, func(in []byte, r io.Reader, a []any) (any, error) { return (&sen.Parser{}).MustParse(in, a...), nil }},
		{"(&sen.Parser{}).ParseReader", "sen", true, "parse", false, func(in []byte, r io.Reader, a []any) (any, error) { return (&sen.Parser{}).ParseReader(r, a...) }},
		{"(&sen.Parser{}).MustParseReader", "sen", true, "parse", false, func(in []byte, r io.Reader, a []any) (any, error) {
			return (&sen.Parser{}).MustParseReader(r, a...), nil
		}},
		{"(&sen.Parser{Reuse:true}).Parse", "sen", false, "parse", false, func(in []byte, r io.Reader, a []any) (any, error) { return (&sen.Parser{Reuse: true}).Parse(in, a...) }},
		{"(&sen.Parser{Reuse:true}).ParseReader", "sen", true, "parse", false, func(in []byte, r io.Reader, a []any) (any, error) {
			return (&sen.Parser{Reuse: true}).ParseReader(r, a...)
		}},
		{"sen.Tokenize", "sen", false, "tokenize", true, tok(false, false, false, "Tokenize")},
		{"sen.TokenizeString", "sen", false, "tokenize", true, tok(false, false, false, "TokenizeString")},
		{"sen.TokenizeLoad", "sen", true, "tokenize", true, tok(false, false, true, "TokenizeLoad")},
		{"(&sen.Tokenizer{}).Parse", "sen", false, "tokenize", true, tok(false, false, false, "")},
		{"(&sen.Tokenizer{}).Load", "sen", true, "tokenize", true, tok(false, false, true, "")},
		{"(&sen.Tokenizer{OnlyOne:true}).Parse", "sen", false, "tokenize", false, tok(false, true, false, "")},
		{"(&sen.Tokenizer{OnlyOne:true}).Load", "sen", true, "tokenize", false, tok(false, true, true, "")},
	}
	return es
}

var readerKinds = []string{"eof-on-its-own-read", "eof-with-the-last-bytes", "one-byte-reads"}

func makeReader(kind string, in []byte) io.Reader {
	switch kind {
	case "eof-with-the-last-bytes":
		return iotest.DataErrReader(strings.NewReader(string(in)))
	case "one-byte-reads":
		return iotest.OneByteReader(strings.NewReader(string(in)))
	}
	return strings.NewReader(string(in))
}

// entryTexts: single documents, streams of documents, numbers that need a
// conversion, malformed tails; the last group is SEN-only syntax.
var entryTexts = []struct {
	text  string
	sen   bool // SEN-only syntax: the sen package alone
	valid bool // a sequence of valid JSON documents
}{
	{"", false, true}, {"   ", false, true}, {"1", false, true}, {`"a"`, false, true}, {"null", false, true}, {`[1,2.5,{"a":"b"}]`, false, true},
	{`{"a":{"b":[1,{"c":null}]},"d":[],"":{}}`, false, true}, {`{"a":1} {"b":[2]} 3`, false, true}, {"1 2 3", false, true}, {"[1][2]", false, true},
	{`{"a":1}{"a":2,"b":{"c":3}}{"d":{"e":4}}`, false, true}, {"12345678901234567890 1.5 123456789012345678901234567890.5 [1e400]", false, true},
	{"12345678901234567890", false, true}, {"0.1234567890123456789012", false, true}, {`{"n":123456789012345678901}`, false, true},
	{"[1,", false, false}, {`{"a":1} x`, false, false}, {`{"a":1} [2`, false, false}, {"[1]]", false, false}, {"nul", false, false}, {"[1] 2 tru", false, false},
	{"{a:1}{b:2}", true, false}, {"[a b] c", true, false}, {"{a:1 b:[x y]} abc 12345678901234567890", true, false}, {"'x' \"y\"", true, false}, {"[a b", true, false},
}

func runEntry(e entryT, in []byte, readerKind string, af argForm) (out string, res string, docs []string, failed bool) {
	args, collect := af.build(e.pkg)
	var v any
	var err error
	func() {
		defer func() {
			if r := recover(); r != nil {
				err = fmt.Errorf("panic: %v", r)
			}
		}()
		v, err = e.call(in, makeReader(readerKind, in), args)
	}()
	docs = collect()
	if e.kind == "tokenize" {
		ds, _ := v.([]any)
		for _, d := range ds {
			docs = append(docs, mach.Canon(d))
		}
		v = nil
	}
	failed = err != nil
	res = mach.Canon(v)
	return fmt.Sprintf("error=%v value=%s docs=[%s]", failed, res, strings.Join(docs, " ; ")), res, docs, failed
}

type entryCase struct {
	Leg     string `json:"leg"`
	Entry   string `json:"entry"`
	Args    string `json:"args"`
	Reader  string `json:"reader,omitempty"`
	Text    string `json:"text"`
	Quoted  string `json:"quoted"`
	Against string `json:"against,omitempty"`
}

// compareEntry runs the entry and its package's reference with the same
// arguments and says how they differ ("" = they agree).
func compareEntry(e, ref entryT, text string, rk string, af argForm) (diff, wantOut, gotOut string, accepted bool) {
	in := []byte(text)
	wantOut, wantRes, wantDocs, wantFailed := runEntry(ref, in, "", af)
	gotOut, _, gotDocs, gotFailed := runEntry(e, in, rk, af)
	switch e.kind {
	case "parse":
		// (what comes back together with an error is not fixed by the statement)
		if gotFailed != wantFailed || (!gotFailed && gotOut != wantOut) {
			diff = diffClass(wantFailed, gotFailed)
		}
	case "tokenize":
		// the documents rebuilt from the events against the documents delivered
		// (single-document form: against the returned value)
		want := wantDocs
		if !e.multi && !wantFailed {
			want = []string{wantRes}
			if len(strings.TrimSpace(text)) == 0 {
				want = nil
			}
		}
		if gotFailed != wantFailed || (!gotFailed && strings.Join(gotDocs, " ; ") != strings.Join(want, " ; ")) {
			diff = diffClass(wantFailed, gotFailed)
		}
	case "validate":
		if gotFailed != wantFailed {
			diff = "error-vs-ok"
		}
	}
	return diff, wantOut, gotOut, !gotFailed
}

func formsFor(e entryT, forms []argForm) []argForm {
	switch {
	case e.kind == "parse" && e.pkg == "gen":
		return forms[:4]
	case e.kind == "parse":
		return forms
	case e.multi:
		return forms[1:2]
	}
	return forms[:1]
}

func legE(c *core.Ctx) {
	es := entries()
	refOf := map[string]entryT{}
	for _, e := range es {
		if _, ok := refOf[e.pkg]; !ok {
			refOf[e.pkg] = e
		}
	}
	forms := argForms()
	for _, tx := range entryTexts {
		for _, e := range es {
			ref := refOf[e.pkg]
			if (tx.sen && e.pkg != "sen") || e.name == ref.name {
				continue
			}
			if e.kind == "tokenize" && e.pkg == "sen" && !tx.valid {
				continue // sen.Tokenizer on SEN-only or malformed text: leg D, known differences
			}
			if c.Expired("C03 entry points") {
				return
			}
			kinds := []string{""}
			if e.reader {
				kinds = readerKinds
			}
			for _, af := range formsFor(e, forms) {
				for _, rk := range kinds {
					diff, want, got, accepted := compareEntry(e, ref, tx.text, rk, af)
					c.Eval()
					c.Eval()
					c.Add("entry_point_calls", 1)
					if accepted {
						c.Nontrivial()
					}
					if diff != "" {
						cs := entryCase{Leg: "E", Entry: e.name, Args: af.name, Reader: rk, Text: tx.text, Quoted: fmt.Sprintf("%q", tx.text)}
						c.Fail(core.Sig("entry-points", "entry="+e.name, "args="+af.name, "reader="+rk, diff), cs, len(tx.text), ref.name+": "+want, got)
					}
				}
			}
		}
		// the three packages against each other on valid JSON (value and documents)
		if tx.valid {
			for _, af := range forms[:4] {
				_, wr, wd, wf := runEntry(refOf["oj"], []byte(tx.text), "", af)
				for _, pkg := range []string{"gen", "sen"} {
					_, gr, gd, gf := runEntry(refOf[pkg], []byte(tx.text), "", af)
					c.Eval()
					if gf != wf || (!gf && (gr != wr || strings.Join(gd, " ; ") != strings.Join(wd, " ; "))) {
						cs := entryCase{Leg: "E", Entry: refOf[pkg].name, Args: af.name, Text: tx.text, Quoted: fmt.Sprintf("%q", tx.text), Against: "oj"}
						c.Fail(core.Sig("entry-points", "entry="+refOf[pkg].name, "args="+af.name, "against=oj", diffClass(wf, gf)), cs, len(tx.text),
							fmt.Sprintf("error=%v value=%s docs=%v", wf, wr, wd), fmt.Sprintf("error=%v value=%s docs=%v", gf, gr, gd))
					}
				}
			}
		}
	}
	c.Sample(map[string]any{"leg": "E", "entries": len(es), "argument_forms": len(forms), "texts": len(entryTexts), "reader_kinds": readerKinds})
}

func diffClass(wf, gf bool) string {
	switch {
	case wf != gf:
		return "error-vs-ok"
	}
	return "delivered-values-differ"
}

func replayE(c *core.Ctx, cs entryCase) {
	es := entries()
	var e, ref, ojRef *entryT
	for i := range es {
		if es[i].name == cs.Entry {
			e = &es[i]
		}
	}
	if e == nil {
		c.HarnessError("unknown entry %q", cs.Entry)
		return
	}
	for i := range es {
		if es[i].pkg == e.pkg && ref == nil {
			ref = &es[i]
		}
		if es[i].pkg == "oj" && ojRef == nil {
			ojRef = &es[i]
		}
	}
	for _, af := range argForms() {
		if af.name != cs.Args {
			continue
		}
		if cs.Against == "oj" {
			_, wr, wd, wf := runEntry(*ojRef, []byte(cs.Text), "", af)
			_, gr, gd, gf := runEntry(*e, []byte(cs.Text), "", af)
			if gf != wf || (!gf && (gr != wr || strings.Join(gd, " ; ") != strings.Join(wd, " ; "))) {
				c.Fail("replay", cs, 1, fmt.Sprintf("error=%v value=%s docs=%v", wf, wr, wd), fmt.Sprintf("error=%v value=%s docs=%v", gf, gr, gd))
			}
			return
		}
		if diff, want, got, _ := compareEntry(*e, *ref, cs.Text, cs.Reader, af); diff != "" {
			c.Fail("replay", cs, 1, want, got)
		}
	}
}
