// Package c03 decides C03: every parsing front-end gives the same outcome
// however the input is chunked.
//
// Leg A (chunk lemma, model checking): for every reachable abstract state of
// each of the six machines and every short chunk over the byte-class
// alphabet, feeding the chunk at once lands in the same concrete state (and
// the same final outcome) as feeding it byte by byte. By induction over the
// chunks, any chunking == byte-at-a-time == one buffer.
// Leg B (joint agreement): on every input explored by the product search all
// front-ends finish with the same outcome (equal tree or error everywhere),
// in single- and multi-document mode.
// Leg C: long tokens (numbers, strings, literals) split at every offset and
// across the 4096-byte refill. Leg D: all short SEN texts, sen.Parse vs
// sen.ParseReader (every chunking) vs sen.Tokenize.
package c03

import (
	"encoding/json"
	"fmt"
	"sort"
	"strings"

	"verif/internal/bytemc"
	"verif/internal/core"
	"verif/internal/gens"
	"verif/internal/mach"
	"verif/internal/ref/jsonref"
)

const (
	subA    = 2
	nA      = 6 * 2 * subA // machines x {single,multi} x sub
	nB      = 8            // 4 single + 4 multi
	nC      = 4
	nD      = 12
	nE      = 1
	nShards = nA + nB + nC + nD + nE
)

func init() {
	core.Register(&core.Check{
		ID:     "C03",
		Level:  "model_checking",
		Shards: func(tier string) int { return nShards },
		Run:    run,
		Replay: replay,
		Rule: "leg A: states = abstract states of each machine (BFS, 256 bytes each); transitions = (state, chunk) pairs, chunk = every string of length 2..L over one representative per byte class, fed at once vs byte-wise, concrete snapshots compared; " +
			"leg B: every (state, byte) input of the oj.Parser product search through all front-ends whole and byte-wise; leg C: token texts x contexts x every 2-split / 4096 straddle, each chunking also under the reader's other lawful answers (io.EOF with the last chunk, one empty read at every position; legs B and C) and each []byte run also with a continuation stored in the spare capacity and with none; leg D: every SEN text of <= L class representatives x every chunking into <=3 pieces; " +
			"leg E: every exported parse / tokenize / validate entry point (package functions, Must* and *String forms, methods of fresh and Reuse parsers) x every kind of optional argument x every way a reader ends, against (&Parser{}).Parse of the same package, and the packages against each other; " +
			"distinct_nontrivial = (state, chunk) pairs where the machine is still alive after the chunk + inputs accepted by at least one front-end",
		Assumptions: []string{"byte classes are recomputed from the current tables; bytes compared literally in the code are kept as separate classes",
			"snapshot masks scratch fields (stale tmp, runeBytes, mi) that fast paths legitimately leave different", "error text and position are not compared here (C09)"},
		Bound: func(tier string) string {
			if tier == "thorough" {
				return "leg A: chunks of length 2 from every state of nesting D<=3 (strict) / 1 (SEN), chunks of length 3 from the strict states of nesting <=1; leg B: D=3 single, D=2 multi; leg C: 2-splits at every offset + 4096 straddle, scale family (counts 7..65, strings to 257 bytes; reads of 1/3/16/64 bytes, splits, refill); leg D: SEN texts <=4 symbols"
			}
			return "leg A: nesting D=2 (strict) / 0 (SEN), chunks of length 2; leg B: D=2 single, D=2 multi; leg C: 2-splits at every offset + 4096 straddle, scale family (counts 7..65, strings to 257 bytes; reads of 1/3/16/64 bytes, splits, refill); leg D: SEN texts <=3 symbols"
		},
	})
}

type caseT struct {
	Leg     string     `json:"leg"`
	Machine string     `json:"machine"`
	Multi   bool       `json:"multi,omitempty"`
	Chan    bool       `json:"chan,omitempty"`
	A       [][]byte   `json:"chunks_a,omitempty"`
	B       [][]byte   `json:"chunks_b,omitempty"`
	Input   []byte     `json:"input,omitempty"`
	Quoted  string     `json:"quoted"`
	Other   string     `json:"other,omitempty"`
	Whole   bool       `json:"whole,omitempty"`
	Extra   [][][]byte `json:"-"`
	// the reader's answers (io.EOF with the last chunk, one empty read) or the
	// content of the input slice's spare capacity ("-" = none at all)
	EOFWithLast bool   `json:"eof_with_last,omitempty"`
	ZeroAt      int    `json:"zero_read_before_chunk,omitempty"`
	Spare       string `json:"spare_capacity,omitempty"`
}

// outcome is the canonical text of what a run delivered.
func outcome(m *mach.M, cfg mach.Config, o *mach.Out) string {
	if o.Panic != nil {
		return "ERR" // panics are C06's business; here they are failures like errors
	}
	if o.Err != nil {
		return "ERR"
	}
	if m.Name == "oj.Validator" {
		return "OK"
	}
	if cfg.Multi {
		if m.Pkg == "gen" {
			return "docs:" + strings.Join(o.GenDocs, " ; ")
		}
		var parts []string
		for _, d := range o.Docs {
			parts = append(parts, mach.Canon(d))
		}
		return "docs:" + strings.Join(parts, " ; ")
	}
	if o.HasGen {
		return o.GenCanon
	}
	return mach.Canon(o.Result)
}

func run(c *core.Ctx) {
	switch {
	case c.Shard < nA:
		legA(c)
	case c.Shard < nA+nB:
		legB(c, c.Shard-nA)
	case c.Shard < nA+nB+nC:
		legC(c, c.Shard-nA-nB)
	case c.Shard < nA+nB+nC+nD:
		legD(c, c.Shard-nA-nB-nC)
	default:
		legE(c)
	}
}

// ------------------------------------------------------------------ leg A

func chunkAlphabet(m *mach.M, maxLen int) [][]byte {
	reps := m.Classes()
	var out [][]byte
	var rec func(prefix []byte)
	rec = func(prefix []byte) {
		if len(prefix) >= 2 {
			out = append(out, append([]byte{}, prefix...))
		}
		if len(prefix) == maxLen {
			return
		}
		for _, b := range reps {
			rec(append(prefix, b))
		}
	}
	rec(nil)
	return out
}

// category maps a byte to its syntactic role in SEN (signature coordinate).
func category(b byte) byte {
	switch {
	case b >= '0' && b <= '9':
		return '9'
	case b == ' ' || b == '\t' || b == '\r':
		return '_'
	case b == '\n':
		return 'N'
	case b == '-' || b == '+' || b == '.':
		return b
	case b == 'e' || b == 'E':
		return 'e'
	case strings.IndexByte("[]{}():,'\"/*\\#", b) >= 0:
		return b
	case b == 0xEF || b == 0xBB || b == 0xBF:
		return 'B'
	case b < 0x20 || b == 0x7f:
		return '^'
	case b >= 0x80:
		return 'H'
	}
	return 'T'
}

func shapeOf(c []byte) string {
	out := make([]byte, len(c))
	for i, x := range c {
		out[i] = category(x)
	}
	return string(out)
}

func className(c []byte) string {
	var b strings.Builder
	for _, x := range c {
		b.WriteString(bytemc.ByteName(x))
		b.WriteByte(' ')
	}
	return strings.TrimSpace(b.String())
}

// diffField names the snapshot field in which two snapshots first differ.
func diffField(a, b string) string {
	n := len(a)
	if len(b) < n {
		n = len(b)
	}
	i := 0
	for i < n && a[i] == b[i] {
		i++
	}
	// back up to the start of the "name=" token
	j := strings.LastIndexByte(a[:i], ' ')
	rest := a[j+1:]
	if k := strings.IndexAny(rest, "={"); k > 0 && k < 16 {
		return rest[:k]
	}
	if j < 0 {
		return "key"
	}
	return "key"
}

func legA(c *core.Ctx) {
	all := mach.All()
	idx := c.Shard / subA
	sub := c.Shard % subA
	m := all[idx%len(all)]
	cfg := mach.Config{Multi: idx >= len(all)}
	e := &bytemc.Explorer{M: m, Cfg: cfg}
	if m.Strict {
		e.D = c.Pick(2, 3)
	} else {
		e.D, e.NoRef, e.MaxStates = c.Pick(0, 1), true, 20000
	}
	e.Stop = func() bool { return c.Expired("C03 BFS") }
	e.Run()
	if sub == 0 {
		c.Add("states", int64(len(e.States)))
	}
	alphabet := chunkAlphabet(m, 2)
	// look-ahead family: the fast paths scan ahead after a newline, a quote, a
	// first digit and a decimal point; a byte they swallow wrongly only shows
	// when something follows it in the same buffer, so these openers get
	// chunks of length 3: opener + every class representative + a follower.
	for _, first := range []byte{'\n', '"', '1', '.'} {
		for _, mid := range m.Classes() {
			for _, last := range []byte{'1', ' ', '"', ']'} {
				alphabet = append(alphabet, []byte{first, mid, last})
			}
		}
	}
	// thorough: chunks of length 3 as well, from the states of nesting <= 1 (the
	// chunk can open at most two more levels; deeper contexts repeat the top two)
	var alphabet3 [][]byte
	if !c.Quick() && m.Strict {
		for _, ch := range chunkAlphabet(m, 3) {
			if len(ch) == 3 {
				alphabet3 = append(alphabet3, ch)
			}
		}
	}
	c.Add("chunk_alphabet_"+m.Name, int64(len(alphabet)+len(alphabet3))/int64(subA)/2+1)
	sampled := false
	for _, s := range e.States {
		if s.ID%subA != sub {
			continue
		}
		if c.Expired("C03 chunk lemma " + m.Name) {
			break
		}
		w := mach.Bytewise(s.Witness)
		mode := bytemc.ModeOfKey(s.Key)
		chunks := alphabet
		if len(alphabet3) > 0 && s.Ref != nil && s.Ref.Depth() <= 1 {
			chunks = append(append([][]byte{}, alphabet...), alphabet3...)
		}
		for _, ch := range chunks {
			a := append(append([][]byte{}, w...), ch)
			full := append(append([]byte{}, s.Witness...), ch...)
			b := mach.Bytewise(full)
			oa := m.FeedFrom(a, cfg, false, true, len(a))
			ob := m.FeedFrom(b, cfg, false, true, len(b))
			c.Eval()
			c.Eval()
			c.Add("transitions", 1)
			c.Add("traces_validated_against_impl", 2)
			aliveA := !(oa.Failed() && oa.ErrChunk < len(a))
			aliveB := !(ob.Failed() && ob.ErrChunk < len(b))
			cs := caseT{Leg: "A", Machine: m.Name, Multi: cfg.Multi, A: a, B: b, Quoted: fmt.Sprintf("%q + %q", s.Witness, ch)}
			sigBase := []string{"lemma", "fe=" + m.Name, fmt.Sprintf("multi=%v", cfg.Multi), "mode=" + mode, "chunk=" + shapeOf(ch)}
			switch {
			case aliveA != aliveB:
				c.Fail(core.Sig(append(sigBase, "error-differs")...), cs, len(full), fmt.Sprintf("byte-wise alive=%v", aliveB), fmt.Sprintf("one chunk alive=%v (err %v / %v)", aliveA, oa.Err, ob.Err))
			case aliveA:
				c.Nontrivial()
				if !sampled && len(s.Witness) > 3 {
					sampled = true
					c.Sample(map[string]any{"leg": "A", "machine": m.Name, "state": s.Key, "witness": fmt.Sprintf("%q", s.Witness), "chunk": fmt.Sprintf("%q", ch)})
				}
				if len(oa.Snaps) == 0 || len(ob.Snaps) == 0 {
					c.HarnessError("no snapshot for %q + %q", s.Witness, ch)
					continue
				}
				sa, sb := oa.Snaps[len(oa.Snaps)-1], ob.Snaps[len(ob.Snaps)-1]
				if sa != sb {
					c.Fail(core.Sig(append(sigBase, "state-differs:"+diffField(sa, sb))...), cs, len(full), sb, sa)
					continue
				}
				if x, y := outcome(m, cfg, oa), outcome(m, cfg, ob); x != y {
					c.Fail(core.Sig(append(sigBase, "outcome-differs")...), cs, len(full), y, x)
				}
			}
		}
	}
}

// ------------------------------------------------------------------ leg B

type runner struct {
	m     *mach.M
	whole bool
	cfg   mach.Config
	sen   bool
	env   string // "" or the reader answer that differs from the default (cfg carries it)
}

func runners(multi bool) []runner {
	var rs []runner
	cfgs := []mach.Config{{}}
	if multi {
		cfgs = []mach.Config{{Multi: true}, {Multi: true, Chan: true}}
	}
	for _, m := range mach.All() {
		for _, cf := range cfgs {
			if cf.Chan && (m.Name == "oj.Validator" || m.Name == "oj.Tokenizer" || m.Name == "sen.Tokenizer") {
				continue
			}
			rs = append(rs, runner{m, true, cf, !m.Strict, ""}, runner{m, false, cf, !m.Strict, ""})
			// the reader's other lawful answers (compared with the default reader run)
			ce, cz := cf, cf
			ce.EOFWithLast, cz.ZeroAt = true, -1
			rs = append(rs, runner{m, false, ce, !m.Strict, "+eof-with-last-chunk"}, runner{m, false, cz, !m.Strict, "+empty-read-before-eof"})
		}
	}
	return rs
}

func (r runner) name() string {
	n := r.m.Name
	if r.whole {
		n += ".whole"
	} else {
		n += ".reader"
	}
	if r.cfg.Chan {
		n += ".chan"
	}
	return n + r.env
}

func (r runner) exec(in []byte) *mach.Out {
	if r.whole {
		return r.m.Whole(in, r.cfg)
	}
	cf := r.cfg
	if cf.ZeroAt < 0 {
		cf.ZeroAt = len(in) + 1
	}
	return r.m.Feed(mach.Bytewise(in), cf, false, false)
}

// treeDiffKind classifies how two canonical outcomes differ.
func treeDiffKind(a, b string) string {
	if a == "ERR" || b == "ERR" {
		return "error-vs-ok"
	}
	n := len(a)
	if len(b) < n {
		n = len(b)
	}
	i := 0
	for i < n && a[i] == b[i] {
		i++
	}
	kind := func(s string) string {
		j := i
		for j > 0 && s[j-1] != ',' && s[j-1] != '[' && s[j-1] != ':' && s[j-1] != ';' && s[j-1] != ' ' && s[j-1] != '{' {
			j--
		}
		// step over a key's colon: value kinds are i: f: n: s:
		if j+1 < len(s) && s[j+1] == ':' {
			return s[j : j+1]
		}
		if j < len(s) {
			return s[j : j+1]
		}
		return "end"
	}
	return "tree-differs:" + kind(a) + "/" + kind(b)
}

func compareAll(c *core.Ctx, rs []runner, in []byte, multi bool, leg, mode string, valid bool) {
	var base string
	var baseName string
	accepted := false
	outs := make([]string, len(rs))
	for i, r := range rs {
		skipCross := r.sen && !valid // SEN accepts more than JSON: only strict JSON input is compared across front-ends
		if skipCross && r.whole {
			continue
		}
		o := r.exec(in)
		c.Eval()
		out := outcome(r.m, r.cfg, o)
		outs[i] = out
		if out != "ERR" {
			accepted = true
		}
		if i == 0 {
			base, baseName = out, r.name()
			continue
		}
		if r.env != "" {
			// rs[i-1] or rs[i-2] is the default reader run of the same machine and mode
			j := i - 1
			if rs[j].env != "" {
				j--
			}
			if want := outs[j]; out != want {
				cs := caseT{Leg: leg + "-env", Machine: r.m.Name, Multi: multi, Chan: r.cfg.Chan, Input: in, Quoted: fmt.Sprintf("%q", in), A: mach.Bytewise(in), EOFWithLast: r.cfg.EOFWithLast}
				if r.cfg.ZeroAt < 0 {
					cs.ZeroAt = len(in) + 1
				}
				c.Fail(core.Sig("agree", "a="+rs[j].name(), "b="+r.name(), fmt.Sprintf("multi=%v", multi), "mode="+mode, treeDiffKind(want, out)), cs, len(in), want, out)
			}
			continue
		}
		if skipCross {
			continue
		}
		cmpBase := base
		if r.m.Name == "oj.Validator" && base != "ERR" {
			cmpBase = "OK"
		}
		if out != cmpBase {
			cs := caseT{Leg: leg, Machine: r.m.Name, Multi: multi, Chan: r.cfg.Chan, Whole: r.whole, Input: in, Quoted: fmt.Sprintf("%q", in), Other: baseName}
			c.Fail(core.Sig("agree", "a="+baseName, "b="+r.name(), fmt.Sprintf("multi=%v", multi), "mode="+mode, treeDiffKind(cmpBase, out)), cs, len(in), cmpBase, out)
		}
	}
	if accepted {
		c.Nontrivial()
	}
}

func legB(c *core.Ctx, sub int) {
	multi := sub >= 4
	sub %= 4
	m := mach.OjParser()
	cfg := mach.Config{Multi: multi}
	e := &bytemc.Explorer{M: m, Cfg: cfg, D: c.Pick(2, 3)}
	if multi {
		e.D = 2
	}
	rs := runners(multi)
	e.Stop = func() bool { return c.Expired("C03 joint") }
	n := 0
	e.OnTrans = func(t *bytemc.Trans) {
		if t.From.ID%4 != sub || t.Sym.Macro != "" {
			return
		}
		n++
		valid := jsonref.Valid(t.Input)
		if multi {
			valid = false // multi-document: SEN not part of the statement's strict-JSON clause for sequences
		}
		compareAll(c, rs, t.Input, multi, "B", bytemc.ModeOfKey(t.From.Key), valid)
		if n == 5000 {
			c.Sample(map[string]any{"leg": "B", "multi": multi, "input": fmt.Sprintf("%q", t.Input), "front_ends": len(rs)})
		}
	}
	e.Run()
}

// ------------------------------------------------------------------ leg C

func tokenTexts() []string {
	var out []string
	for _, s := range []string{
		"0", "-0", "7", "-7", "123456789012345678", "1234567890123456789", "9223372036854775807", "-9223372036854775808",
		"9223372036854775808", "18446744073709551615", "18446744073709551616", "99999999999999999999", "123456789012345678901234",
		"0.5", "1.25", "-1.25", "0.000001", "123.456", "0.12345678901234567", "0.123456789012345678", "0.1234567890123456789",
		"0.12345678901234567890123", "0.00000000000000000001", "0.000000000000000000001234", "1.0000000000000000000000001",
		"12345678901234567.125", "123456789012345678.125", "1234567890123456789.125",
		"1e5", "1E5", "1e+5", "1e-5", "1.5e10", "1e22", "1e23", "1e102", "1e103", "1e308", "1e309", "1e-400", "1e1022", "1e1023", "1e99999",
		"0e1", "-0E5", "0.0e0", "1.5E+007", "123456789012345678e10", "1234567890123456789e10", "0.1234567890123456789e-5",
		"true", "false", "null",
		`""`, `"a"`, `"abcdefghijklmnopqrstuvwxyz0123456789"`, `"\n"`, `"a\tb"`, `"\"\\\/\b\f\n\r\t"`, `"A"`, `"éx"`, `"€"`, `"😀"`,
		`"\ud83d"`, `"\ude00"`, `"é"`, `"€"`, `"😀"`, "\"\x80\"", "\"a\xffb\"", `"a\u0000b"`, `"\\u0041"`, `"x\\"`,
		`[]`, `{}`, `[[]]`, `{"a":{}}`, `[1,2]`, `{"a":1,"b":[true,null]}`, `{"a":1,"a":2}`,
		// strings spelled like other tokens, plain and with one character escaped (slow path)
		`"true"`, `"false"`, `"null"`, `"0"`, `"-1"`, `"1.5e3"`, `"[]"`, `"{}"`, `"tru\u0065"`, `"\u006eull"`, `"fal\u0073e"`, `"1\u0032"`, `{"true":"null","null":"false","12":"-3"}`,
	} {
		out = append(out, s)
	}
	return out
}

var contexts = []string{"%s", " %s ", "[%s]", "[%s,1]", "[1,%s]", "{\"k\":%s}", "{\"k\":%s,\"j\":0}", "[%s\n]", "[\n%s\n,\n%s]", "{\"\":%s,\"j\":0}", "{\"a\":{\"\":%s},\"j\":[%s]}",
	// the token with one token of every other kind behind it (what reading the
	// first one piecewise leaves behind must not show in the later ones)
	"[%s,\"\\u0041\",true,-1.5e2,\"x\\ny\",null]", "{\"k\":%s,\"\\u0041\":\"\\u0042c\",\"f\":false,\"n\":12345678901234567890}"}

func legC(c *core.Ctx, sub int) {
	machines := []*mach.M{mach.OjParser(), mach.OjTokenizer(), mach.GenParser(), mach.OjValidator(), mach.SenParser(), mach.SenTokenizer()}
	texts := tokenTexts()
	n := 0
	for ti, tok := range texts {
		for ci, ctx := range contexts {
			n++
			if n%nC != sub {
				continue
			}
			if c.Expired("C03 token family") {
				return
			}
			in := []byte(strings.ReplaceAll(ctx, "%s", tok))
			tokStart := strings.Index(string(in), tok)
			var baseWhole string
			for mi, m := range machines {
				ow := m.Whole(in, mach.Config{})
				c.Eval()
				whole := outcome(m, mach.Config{}, ow)
				if mi == 0 {
					baseWhole = whole
					if whole != "ERR" {
						c.Nontrivial()
					}
				} else {
					cmp := baseWhole
					if m.Name == "oj.Validator" && cmp != "ERR" {
						cmp = "OK"
					}
					if whole != cmp {
						cs := caseT{Leg: "C", Machine: m.Name, Whole: true, Input: in, Quoted: fmt.Sprintf("%q", in), Other: "oj.Parser.whole"}
						c.Fail(core.Sig("agree", "a=oj.Parser.whole", "b="+m.Name+".whole", "token="+tokenClass(tok), treeDiffKind(cmp, whole)), cs, len(in), cmp, whole)
					}
				}
				checkEnv := func(class string, chunks [][]byte, cf mach.Config, want string) string {
					o := m.Feed(chunks, cf, false, false)
					c.Eval()
					got := outcome(m, mach.Config{}, o)
					if got != want {
						cs := caseT{Leg: "C", Machine: m.Name, A: chunks, Input: in, Quoted: fmt.Sprintf("%q", in), EOFWithLast: cf.EOFWithLast, ZeroAt: cf.ZeroAt}
						c.Fail(core.Sig("chunking", "fe="+m.Name, "token="+tokenClass(tok), "split="+class, treeDiffKind(want, got)), cs, len(in)+len(chunks), want, got)
					}
					return got
				}
				// every chunking is run under the reader's default answers and, up to two
				// chunks, under its other lawful ones: io.EOF together with the last
				// chunk, one read of no bytes before any chunk or before io.EOF
				// (a variant is compared with the default run of the same chunking)
				check := func(class string, chunks [][]byte) {
					base := checkEnv(class, chunks, mach.Config{}, whole)
					if len(chunks) > 2 && class != "bytewise" {
						return
					}
					checkEnv(class+"+eof-with-last-chunk", chunks, mach.Config{EOFWithLast: true}, base)
					for z := 1; z <= len(chunks)+1; z++ {
						if len(chunks) > 2 && z != len(chunks)+1 {
							continue
						}
						checkEnv(class+"+empty-read", chunks, mach.Config{ZeroAt: z}, base)
					}
				}
				// the []byte entry point must not look behind the slice it is given
				for si, spare := range [][]byte{mach.SpareFor([]byte("e]}")), nil} {
					o := m.WholeSpare(in, spare, mach.Config{})
					c.Eval()
					if got := outcome(m, mach.Config{}, o); got != whole {
						cs := caseT{Leg: "C", Machine: m.Name, Whole: true, Input: in, Quoted: fmt.Sprintf("%q", in), Spare: []string{string(spare), "-"}[si]}
						c.Fail(core.Sig("spare-capacity", "fe="+m.Name, "token="+tokenClass(tok), []string{"continuation-stored-behind-the-input", "no-spare-capacity"}[si], treeDiffKind(whole, got)), cs, len(in), whole, got)
					}
				}
				check("one-chunk", [][]byte{in})
				check("bytewise", mach.Bytewise(in))
				for i := 1; i < len(in); i++ {
					cl := "outside-token"
					if i > tokStart && i < tokStart+len(tok) {
						cl = "inside-token"
					}
					check(cl, [][]byte{in[:i], in[i:]})
				}
				// the literal 4096-byte refill: pad so that the boundary falls at every offset of the token
				if ci < 3 {
					for k := 0; k <= len(tok); k++ {
						pad := 4096 - tokStart - k
						padded := append([]byte(strings.Repeat(" ", pad)), in...)
						if len(padded) <= 4096 {
							continue
						}
						check("refill-4096", [][]byte{padded[:4096], padded[4096:]})
					}
				}
			}
			if ti == 3 && ci == 2 {
				c.Sample(map[string]any{"leg": "C", "input": string(in), "splits": len(in) + 1})
			}
		}
	}
	legCScale(c, sub, machines)
	legCRefill(c, sub, machines)
	// SEN-only syntax: sen.Parser and sen.Tokenizer, each against its own whole-buffer outcome
	for si, st := range senTexts {
		if si%nC != sub {
			continue
		}
		in := []byte(st.text)
		for _, m := range []*mach.M{mach.SenParser(), mach.SenTokenizer()} {
			whole := outcome(m, mach.Config{}, m.Whole(in, mach.Config{}))
			c.Eval()
			if whole != "ERR" {
				c.Nontrivial()
			}
			checkEnv := func(class string, chunks [][]byte, cf mach.Config, want string) string {
				o := m.Feed(chunks, cf, false, false)
				c.Eval()
				got := outcome(m, mach.Config{}, o)
				if got != want {
					cs := caseT{Leg: "C", Machine: m.Name, A: chunks, Input: in, Quoted: fmt.Sprintf("%q", in), EOFWithLast: cf.EOFWithLast, ZeroAt: cf.ZeroAt}
					c.Fail(core.Sig("chunking", "fe="+m.Name, "token=sen:"+st.class, "split="+class, treeDiffKind(want, got)), cs, len(in)+len(chunks), want, got)
				}
				return got
			}
			check := func(class string, chunks [][]byte) {
				base := checkEnv(class, chunks, mach.Config{}, whole)
				if len(chunks) > 2 && class != "bytewise" {
					return
				}
				checkEnv(class+"+eof-with-last-chunk", chunks, mach.Config{EOFWithLast: true}, base)
				for z := 1; z <= len(chunks)+1; z++ {
					if len(chunks) > 2 && z != len(chunks)+1 {
						continue
					}
					checkEnv(class+"+empty-read", chunks, mach.Config{ZeroAt: z}, base)
				}
			}
			check("one-chunk", [][]byte{in})
			check("bytewise", mach.Bytewise(in))
			for i := 1; i < len(in); i++ {
				check("2-split", [][]byte{in[:i], in[i:]})
			}
			for k := 0; k <= len(in); k++ {
				padded := append([]byte(strings.Repeat(" ", 4096-k)), in...)
				if len(padded) > 4096 {
					check("refill-4096", [][]byte{padded[:4096], padded[4096:]})
				}
			}
		}
	}
}

// fixedChunks cuts data into chunks of k bytes.
func fixedChunks(data []byte, k int) [][]byte {
	var out [][]byte
	for i := 0; i < len(data); i += k {
		e := i + k
		if e > len(data) {
			e = len(data)
		}
		out = append(out, data[i:e])
	}
	return out
}

// scaleSplits: every offset of a short text, and the offsets next to every
// power of two and to both ends of a long one.
func scaleSplits(n int) []int {
	if n <= 300 {
		out := make([]int, 0, n)
		for i := 1; i < n; i++ {
			out = append(out, i)
		}
		return out
	}
	seen := map[int]bool{}
	var out []int
	add := func(i int) {
		if i >= 1 && i < n && !seen[i] {
			seen[i] = true
			out = append(out, i)
		}
	}
	for d := -2; d <= 2; d++ {
		add(2 + d)
		add(n - 2 + d)
		for p := 8; p <= n; p *= 2 {
			add(p + d)
		}
	}
	sort.Ints(out)
	return out
}

// legCScale: the scale family (gens.ScaleDocs: element / member / nesting
// counts of 7..129, strings and member names of 7..4097 bytes) through all six
// machines: the front-ends agree on the whole text, and every machine gives its
// whole-buffer outcome under one-byte reads, reads of 3 / 16 / 64 bytes, a split
// at the offsets of scaleSplits, the 4096-byte refill in the middle of and
// right behind the text, and the reader's other lawful answers.
func legCScale(c *core.Ctx, sub int, machines []*mach.M) {
	for di, d := range gens.ScaleDocs(c.Quick()) {
		if di%nC != sub {
			continue
		}
		if c.Expired("C03 scale family") {
			return
		}
		in := gens.ScaleJSON(d.Tree)
		shape := "scale-" + d.Name[:strings.IndexByte(d.Name, ':')]
		var baseWhole string
		for mi, m := range machines {
			whole := outcome(m, mach.Config{}, m.Whole(in, mach.Config{}))
			c.Eval()
			if mi == 0 {
				baseWhole = whole
				c.Nontrivial()
			} else {
				cmp := baseWhole
				if m.Name == "oj.Validator" && cmp != "ERR" {
					cmp = "OK"
				}
				if whole != cmp {
					cs := caseT{Leg: "C", Machine: m.Name, Whole: true, Input: in, Quoted: d.Name, Other: "oj.Parser.whole"}
					c.Fail(core.Sig("agree", "a=oj.Parser.whole", "b="+m.Name+".whole", "token="+shape, treeDiffKind(cmp, whole)), cs, len(in), cmp, whole)
				}
			}
			checkEnv := func(class string, chunks [][]byte, cf mach.Config, want string) string {
				o := m.Feed(chunks, cf, false, false)
				c.Eval()
				got := outcome(m, mach.Config{}, o)
				if got != want {
					cs := caseT{Leg: "C", Machine: m.Name, A: chunks, Input: in, Quoted: d.Name, EOFWithLast: cf.EOFWithLast, ZeroAt: cf.ZeroAt}
					c.Fail(core.Sig("chunking", "fe="+m.Name, "token="+shape, "split="+class, treeDiffKind(want, got)), cs, len(in)+len(chunks), want, got)
				}
				return got
			}
			check := func(class string, chunks [][]byte) {
				base := checkEnv(class, chunks, mach.Config{}, whole)
				checkEnv(class+"+eof-with-last-chunk", chunks, mach.Config{EOFWithLast: true}, base)
				checkEnv(class+"+empty-read", chunks, mach.Config{ZeroAt: len(chunks) + 1}, base)
				if len(chunks) <= 2 {
					checkEnv(class+"+empty-read", chunks, mach.Config{ZeroAt: 1}, base)
				}
			}
			for si, spare := range [][]byte{mach.SpareFor([]byte("e]}")), nil} {
				o := m.WholeSpare(in, spare, mach.Config{})
				c.Eval()
				if got := outcome(m, mach.Config{}, o); got != whole {
					cs := caseT{Leg: "C", Machine: m.Name, Whole: true, Input: in, Quoted: d.Name, Spare: []string{string(spare), "-"}[si]}
					c.Fail(core.Sig("spare-capacity", "fe="+m.Name, "token="+shape, []string{"continuation-stored-behind-the-input", "no-spare-capacity"}[si], treeDiffKind(whole, got)), cs, len(in), whole, got)
				}
			}
			check("one-chunk", [][]byte{in})
			check("bytewise", mach.Bytewise(in))
			for _, k := range []int{3, 16, 64, 4096} {
				if k < len(in) {
					check(fmt.Sprintf("reads-of-%d", k), fixedChunks(in, k))
				}
			}
			for _, i := range scaleSplits(len(in)) {
				checkEnv("2-split", [][]byte{in[:i], in[i:]}, mach.Config{}, whole)
			}
			for _, k := range []int{0, 1, len(in) / 2, len(in) - 1, len(in)} {
				if k < 0 || k > len(in) || k > 4096 {
					continue
				}
				padded := append([]byte(strings.Repeat(" ", 4096-k)), in...)
				if len(padded) > 4096 {
					checkEnv("refill-4096", [][]byte{padded[:4096], padded[4096:]}, mach.Config{}, whole)
				}
			}
		}
	}
}

// refillUnit is one element of the refill sweep: a member name, a string with an
// escape, a number with fraction and exponent, a literal, a \u escape, a plain
// string, a nested array and a line feed.
const refillUnit = `{"k":"v\n","n":-12.5e1,"t":true,"\u0041":"\u0042c","p":"plain",` + "\n" + `"a":[null,false]},`

// legCRefill: the sweep over the 4096-byte refill. A text of about 4.6 KB made of
// refillUnit elements is moved one byte at a time (blanks in front) so that
// every byte of an element falls once on the last byte of a full read buffer
// and once on the first byte of the next; every machine must give its
// whole-buffer outcome when the text comes in reads of 4096 bytes, in reads of
// 4096 bytes with io.EOF delivered with the last one, and in two reads that
// meet at the same place.
func legCRefill(c *core.Ctx, sub int, machines []*mach.M) {
	body := "[" + strings.Repeat(refillUnit, 4700/len(refillUnit)) + "0]"
	for p := 0; p < len(refillUnit); p++ {
		if p%nC != sub {
			continue
		}
		if c.Expired("C03 refill sweep") {
			return
		}
		in := []byte(strings.Repeat(" ", p) + body)
		for _, m := range machines {
			whole := outcome(m, mach.Config{}, m.Whole(in, mach.Config{}))
			c.Eval()
			if whole == "ERR" {
				c.HarnessError("refill sweep: %s rejects the text at shift %d", m.Name, p)
				continue
			}
			c.Nontrivial()
			for vi, v := range []struct {
				class  string
				chunks [][]byte
				cf     mach.Config
			}{
				{"reads-of-4096", fixedChunks(in, 4096), mach.Config{}},
				{"reads-of-4096+eof-with-last-chunk", fixedChunks(in, 4096), mach.Config{EOFWithLast: true}},
				{"two-reads-meeting-at-4096", [][]byte{in[:4096], in[4096:]}, mach.Config{}},
				{"two-reads-meeting-at-4095", [][]byte{in[:4095], in[4095:]}, mach.Config{}},
			} {
				o := m.Feed(v.chunks, v.cf, false, false)
				c.Eval()
				if got := outcome(m, mach.Config{}, o); got != whole {
					cs := caseT{Leg: "C", Machine: m.Name, A: v.chunks, Input: in, Quoted: fmt.Sprintf("refill sweep, shift %d", p), EOFWithLast: v.cf.EOFWithLast}
					c.Fail(core.Sig("chunking", "fe="+m.Name, "token=refill-sweep", "split="+v.class, treeDiffKind(whole, got)), cs, len(in)+vi, whole, got)
				}
			}
		}
	}
}

var senTexts = []struct{ class, text string }{
	{"token", "abc"}, {"token", "abc123"}, {"tokens", "[abc def ghi]"}, {"object", "{a:b c:d}"}, {"object", "{a:1 b:[x y] c:{d:null}}"},
	{"object-commas", "{a:1, b:2}"}, {"literals", "[true false null]"}, {"quoted-key", "{\"a b\":1 'c d':2}"}, {"single-quote", "'it is'"},
	{"single-quote-esc", "'a\\'b'"}, {"concat", "\"abc\" + \"def\""}, {"concat-member", "{a:\"x\" + \"y\"}"}, {"line-comment", "// note\n[1 2]"},
	{"line-comment-inside", "[1 // one\n 2]"}, {"block-comment", "/* note */ [1 2]"}, {"block-comment-inside", "{a:1 /* x */ b:2}"},
	{"numbers", "[0 -1 2.5 1e3 -0.5e-2]"}, {"number-token", "[1a 2b]"}, {"dollar", "{$a:1 b$:2}"}, {"function", "[ISODate(\"2021-01-01T00:00:00Z\")]"},
	{"concat-token-member", "{first:\"x\" second:abc + \"y\" third:true}"}, {"concat-token-element", "[abc + \"y\" \"p\" + \"q\"]"},
	{"concat-after-number-member", "{a:1 b:\"x\" + \"y\" c:def}"},
	{"nested", "[[a][b [c]]]"}, {"newlines", "{\n  a: b\n  c: [\n    d\n  ]\n}"}, {"unicode", "{é:\"\\u00e9\" k:ü}"},
}

func tokenClass(t string) string {
	switch {
	case t == "true" || t == "false" || t == "null":
		return "literal"
	case strings.HasPrefix(t, "\""):
		switch {
		case strings.Contains(t, "\\ud") || strings.Contains(t, "\\uD"):
			return "string-surrogate"
		case strings.Contains(t, "\\u"):
			return "string-uescape"
		case strings.Contains(t, "\\"):
			return "string-escape"
		}
		for i := 0; i < len(t); i++ {
			if t[i] >= 0x80 {
				return "string-nonascii"
			}
		}
		return "string-plain"
	case strings.HasPrefix(t, "[") || strings.HasPrefix(t, "{"):
		return "container"
	}
	// number: digit counts decide the code path
	intDigits, fracDigits, hasExp := 0, 0, false
	part := 0
	for i := 0; i < len(t); i++ {
		switch {
		case t[i] == '.':
			part = 1
		case t[i] == 'e' || t[i] == 'E':
			part = 2
			hasExp = true
		case t[i] >= '0' && t[i] <= '9':
			if part == 0 {
				intDigits++
			} else if part == 1 {
				fracDigits++
			}
		}
	}
	cl := func(n int) string {
		switch {
		case n == 0:
			return "0"
		case n <= 17:
			return "<=17"
		case n <= 19:
			return "18-19"
		}
		return ">=20"
	}
	s := "number:int" + cl(intDigits) + ":frac" + cl(fracDigits)
	if hasExp {
		s += ":exp"
	}
	return s
}

// ------------------------------------------------------------------ leg D

type dFail struct {
	family string
	kind   string
	cs     caseT
	exp    string
	obs    string
}

// judgeD runs one SEN text through sen.Parser (whole and every chunking into
// <= 3 pieces) and sen.Tokenizer and returns the disagreements, at most one
// per family.
func judgeD(c *core.Ctx, p, tk *mach.M, in []byte) []dFail {
	cfg := mach.Config{}
	var fails []dFail
	seen := map[string]bool{}
	add := func(f dFail) {
		if !seen[f.family] {
			seen[f.family] = true
			fails = append(fails, f)
		}
	}
	ow := p.Whole(in, cfg)
	c.Eval()
	whole := outcome(p, cfg, ow)
	check := func(chunks [][]byte) {
		o := p.Feed(chunks, cfg, false, false)
		c.Eval()
		if got := outcome(p, cfg, o); got != whole {
			add(dFail{"sen-chunking", treeDiffKind(whole, got), caseT{Leg: "D", Machine: p.Name, A: chunks, Input: in, Quoted: fmt.Sprintf("%q", in)}, whole, got})
		}
	}
	check([][]byte{in})
	for i := 1; i < len(in); i++ {
		check([][]byte{in[:i], in[i:]})
		for j := i + 1; j < len(in); j++ {
			check([][]byte{in[:i], in[i:j], in[j:]})
		}
	}
	if len(in) > 3 {
		check(mach.Bytewise(in))
	}
	ot := tk.Whole(in, cfg)
	c.Eval()
	tw := outcome(tk, cfg, ot)
	if tw != whole {
		add(dFail{"sen-tokenize", treeDiffKind(whole, tw), caseT{Leg: "D", Machine: tk.Name, Whole: true, Input: in, Quoted: fmt.Sprintf("%q", in), Other: "sen.Parser.whole"}, whole, tw})
	}
	for i := 0; i <= len(in); i++ {
		var chunks [][]byte
		switch {
		case i == 0:
			chunks = mach.Bytewise(in)
		case i == len(in):
			chunks = [][]byte{in}
		default:
			chunks = [][]byte{in[:i], in[i:]}
		}
		ot2 := tk.Feed(chunks, cfg, false, false)
		c.Eval()
		if got := outcome(tk, cfg, ot2); got != tw {
			add(dFail{"sen-tokenize-chunking", treeDiffKind(tw, got), caseT{Leg: "D", Machine: tk.Name, A: chunks, Input: in, Quoted: fmt.Sprintf("%q", in)}, tw, got})
		}
	}
	if whole != "ERR" {
		fails = append(fails, dFail{family: "accepted"})
	}
	return fails
}

func legD(c *core.Ctx, sub int) {
	p, tk := mach.SenParser(), mach.SenTokenizer()
	reps := p.Classes()
	maxLen := c.Pick(3, 4)
	memo := map[string][]dFail{}
	judge := func(in []byte) []dFail {
		if f, ok := memo[string(in)]; ok {
			return f
		}
		f := judgeD(c, p, tk, in)
		if len(in) < maxLen {
			memo[string(in)] = f
		}
		return f
	}
	has := func(fs []dFail, family, kind string) bool {
		for _, f := range fs {
			if f.family == family && f.kind == kind {
				return true
			}
		}
		return false
	}
	// shrink finds a minimal sub-text (single deletions) failing the same way.
	var shrink func(in []byte, family, kind string) []byte
	shrink = func(in []byte, family, kind string) []byte {
		for i := range in {
			if len(in) == 1 {
				break
			}
			sub := append(append([]byte{}, in[:i]...), in[i+1:]...)
			if has(judge(sub), family, kind) {
				return shrink(sub, family, kind)
			}
		}
		return in
	}
	var rec func(prefix []byte) bool
	rec = func(prefix []byte) bool {
		if len(prefix) > 0 {
			in := append([]byte{}, prefix...)
			for _, f := range judge(in) {
				if f.family == "accepted" {
					c.Nontrivial()
					continue
				}
				min := shrink(in, f.family, f.kind)
				c.Fail(core.Sig(f.family, "minimal="+shapeOf(min), f.kind), f.cs, len(in)*10+len(f.cs.A), f.exp, f.obs)
			}
		}
		if len(prefix) == maxLen {
			return true
		}
		for i, b := range reps {
			if len(prefix) == 0 && i%nD != sub {
				continue
			}
			if len(prefix) == 1 && c.Expired("C03 SEN family") {
				return false
			}
			if !rec(append(prefix, b)) {
				return false
			}
		}
		return true
	}
	rec(nil)
	c.Sample(map[string]any{"leg": "D", "sen_class_representatives": len(reps), "max_len": maxLen, "example": "{a:'b'"})
}

// ------------------------------------------------------------------ replay

func replay(c *core.Ctx, raw json.RawMessage) {
	var cs caseT
	if err := json.Unmarshal(raw, &cs); err != nil {
		c.HarnessError("bad case: %v", err)
		return
	}
	if cs.Leg == "E" {
		var ec entryCase
		if err := json.Unmarshal(raw, &ec); err != nil {
			c.HarnessError("bad case: %v", err)
			return
		}
		replayE(c, ec)
		return
	}
	m := mach.ByName(cs.Machine)
	if m == nil {
		c.HarnessError("unknown machine %q", cs.Machine)
		return
	}
	cfg := mach.Config{Multi: cs.Multi, Chan: cs.Chan}
	switch {
	case cs.Leg == "A":
		oa := m.FeedFrom(cs.A, cfg, false, true, len(cs.A))
		ob := m.FeedFrom(cs.B, cfg, false, true, len(cs.B))
		aliveA := !(oa.Failed() && oa.ErrChunk < len(cs.A))
		aliveB := !(ob.Failed() && ob.ErrChunk < len(cs.B))
		if aliveA != aliveB {
			c.Fail("replay", cs, 1, fmt.Sprintf("alive=%v", aliveB), fmt.Sprintf("alive=%v", aliveA))
			return
		}
		if aliveA && len(oa.Snaps) > 0 && len(ob.Snaps) > 0 && oa.Snaps[len(oa.Snaps)-1] != ob.Snaps[len(ob.Snaps)-1] {
			c.Fail("replay", cs, 1, ob.Snaps[len(ob.Snaps)-1], oa.Snaps[len(oa.Snaps)-1])
			return
		}
		if x, y := outcome(m, cfg, oa), outcome(m, cfg, ob); aliveA && x != y {
			c.Fail("replay", cs, 1, y, x)
		}
	case cs.Other != "":
		var other *mach.M
		for _, om := range mach.All() {
			if strings.HasPrefix(cs.Other, om.Name+".") {
				other = om
			}
		}
		if other == nil {
			c.HarnessError("unknown other %q", cs.Other)
			return
		}
		var ob *mach.Out
		if strings.Contains(cs.Other, ".whole") {
			ob = other.Whole(cs.Input, mach.Config{Multi: cs.Multi})
		} else {
			ob = other.Feed(mach.Bytewise(cs.Input), mach.Config{Multi: cs.Multi}, false, false)
		}
		var oa *mach.Out
		if cs.Whole {
			oa = m.Whole(cs.Input, cfg)
		} else {
			oa = m.Feed(mach.Bytewise(cs.Input), cfg, false, false)
		}
		x, y := outcome(other, mach.Config{Multi: cs.Multi}, ob), outcome(m, cfg, oa)
		if m.Name == "oj.Validator" && x != "ERR" {
			x = "OK"
		}
		if x != y {
			c.Fail("replay", cs, 1, x, y)
		}
	case cs.Spare != "":
		ow := m.Whole(cs.Input, cfg)
		spare := []byte(cs.Spare)
		if cs.Spare == "-" {
			spare = nil
		}
		o := m.WholeSpare(cs.Input, spare, cfg)
		if x, y := outcome(m, cfg, ow), outcome(m, cfg, o); x != y {
			c.Fail("replay", cs, 1, x, y)
		}
	default:
		ow := m.Whole(cs.Input, cfg)
		fc := cfg
		fc.EOFWithLast, fc.ZeroAt = cs.EOFWithLast, cs.ZeroAt
		o := m.Feed(cs.A, fc, false, false)
		if cs.EOFWithLast || cs.ZeroAt > 0 {
			ow = m.Feed(cs.A, cfg, false, false)
		}
		if x, y := outcome(m, cfg, ow), outcome(m, cfg, o); x != y {
			c.Fail("replay", cs, 1, x, y)
		}
	}
}
