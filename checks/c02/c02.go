// Package c02 decides C02: parsed values denote exactly what the JSON text
// denotes. Bounded-exhaustive enumeration of number literals, string escape
// sequences and small structures; every text is parsed by six front-end /
// entry-point pairs and each result is compared with the reference decoder
// (internal/ref/valref, cross-checked against encoding/json on every text).
package c02

import (
	"bytes"
	"encoding/json"
	"fmt"
	"reflect"
	"strings"
	"unicode/utf8"

	"verif/internal/core"
	"verif/internal/gens"
	"verif/internal/ref/valref"
)

func init() {
	core.Register(&core.Check{
		ID:     "C02",
		Level:  "exploration",
		Shards: func(tier string) int { return 16 },
		Run:    run,
		Replay: replay,
		Rule: "cases are JSON texts from duplicate-free families (number literal x placement x terminator; string item sequences x placement; every single \\uXXXX escape; strings spelled like other tokens, plain and with one character escaped; " +
			"gens.Trees rendered compact and spaced; duplicate-key objects), case index modulo shard count; each text is executed by oj.Parser (whole, 1-byte reader), " +
			"oj.Tokenizer (whole, 1-byte reader), gen.Parser (whole, 1-byte reader), sen.Parser (whole, 1-byte reader) and sen.Tokenizer (whole, 1-byte reader) and compared with the reference, never with another front-end; " +
			"distinct_nontrivial = texts containing a number literal of more than one character, a string item other than a plain ASCII character, or a container with at least one element",
		Assumptions: []string{
			"strconv.ParseFloat returns the float64 nearest to a decimal literal (checked exactly with big.Rat on a literal list in valref's unit tests)",
			"valref's decoder is the specification of structure, member names and decoded strings; it is compared with encoding/json (UseNumber) on every enumerated text that is valid UTF-8",
			"open points of the statement are read weakly: the sign of a zero is not judged; an unpaired surrogate escape may decode to U+FFFD or to its generalized UTF-8 form; " +
				"raw bytes that are not valid UTF-8 may pass through, be replaced by U+FFFD, or make the front-end reject the text",
			"every execution uses a fresh parser / tokenizer instance (reuse is C07)",
		},
		Bound: func(tier string) string {
			q := tier != "thorough"
			ni, nf, ne := len(intParts(q)), len(fracParts(q)), len(expParts(q))
			sl, tn := 2, 5
			if !q {
				sl = 3
			}
			return fmt.Sprintf("numbers: 2 signs x %d integer parts (<=21 digits) x %d fractions (<=23 digits, 0-21 leading zeros) x %d exponent forms = %d literals, each in %d placement/terminator contexts; "+
				"strings: all sequences of <=%d items over %d items in %d placements, plus all 65536 \\uXXXX escapes (lower%s hex) and 9 boundary surrogate pairs; "+
				"structure: every gens tree with <=%d nodes (compact and spaced) and duplicate-key objects with 2-4 members over %d keys; scale family: 231 documents with 7..129 elements / members / nesting levels and strings and member names of 7..4097 bytes (both sides of every power of two); %d front-end executions per text",
				ni, nf, ne, 2*ni*nf*ne, len(numCtxs), sl, len(items), len(strPlaces), map[bool]string{true: " and sampled upper", false: " and upper"}[q], tn, map[bool]int{true: 2, false: 3}[q], len(frontEnds))
		},
	})
}

// caseT is one recorded failing case: enough for Replay.
type caseT struct {
	Family string `json:"family"`
	FE     string `json:"front_end"`
	Path   string `json:"path"`
	Text   []byte `json:"text"`
	Quoted string `json:"quoted"`
	Lit    string `json:"literal,omitempty"` // numbers family: the literal under test
	Item   string `json:"item,omitempty"`    // strings families: the attributed item class
	Ctx    string `json:"ctx,omitempty"`     // strings: value|key; numbers: placement/terminator
}

// meta travels with a text through the judge into the signature.
type meta struct {
	family string
	lit    string // numbers
	item   string // strings
	ctx    string
}

// judge holds the per-worker state.
type judge struct {
	c    *core.Ctx
	orc  oracles
	tol  int64 // rejections tolerated because the text holds invalid UTF-8
	xchk int64
}

// refCase is a text with its reference decodings.
type refCase struct {
	text []byte
	refs [4]any
	have [4]bool
	info valref.Info
	exps [4][]xev
}

func (j *judge) prepare(text []byte) *refCase {
	rc := &refCase{text: text}
	v, info, err := valref.Decode(text, valref.Readings[0])
	if err != nil {
		j.c.HarnessError("reference rejects enumerated text %q: %v", text, err)
		return nil
	}
	rc.refs[0], rc.have[0], rc.info = v, true, info
	// the reference against encoding/json, on every text the two must agree on
	if utf8.Valid(text) {
		j.xchk++
		dec := json.NewDecoder(bytes.NewReader(text))
		dec.UseNumber()
		var std any
		if err := dec.Decode(&std); err != nil {
			j.c.HarnessError("encoding/json rejects enumerated text %q: %v", text, err)
			return nil
		}
		if dec.More() {
			j.c.HarnessError("encoding/json sees more than one value in %q", text)
			return nil
		}
		if mine := valref.Plain(v, func(l string) any { return json.Number(l) }); !reflect.DeepEqual(mine, std) {
			j.c.HarnessError("reference and encoding/json disagree on %q: %#v vs %#v", text, mine, std)
			return nil
		}
	} else if !info.InvalidUTF8 {
		j.c.HarnessError("text %q is not valid UTF-8 but the reference saw no invalid byte", text)
	}
	return rc
}

func (rc *refCase) reading(i int) any {
	if !rc.have[i] {
		v, _, _ := valref.Decode(rc.text, valref.Readings[i])
		rc.refs[i], rc.have[i] = v, true
	}
	return rc.refs[i]
}

func (j *judge) compare(rc *refCase, i int, o *out) *disc {
	ref := rc.reading(i)
	if o.isEv {
		if rc.exps[i] == nil {
			rc.exps[i] = flatten(ref, nil)
		}
		return j.orc.events(rc.exps[i], o.events)
	}
	return j.orc.tree(ref, o.tree)
}

// verdict judges one execution.
func (j *judge) verdict(rc *refCase, o *out) *disc {
	if o.pan != nil {
		return &disc{cat: "error", kind: panicKind(o.pan), exp: "the value of the text", obs: fmt.Sprintf("panic: %v", o.pan)}
	}
	if o.err != nil {
		if rc.info.InvalidUTF8 {
			j.tol++ // not a valid JSON text under the strict reading of RFC 8259 §8.1
			return nil
		}
		return &disc{cat: "error", kind: "error", exp: "the value of the text", obs: "error: " + o.err.Error()}
	}
	d := j.compare(rc, 0, o)
	if d == nil || (!rc.info.LoneSurrogate && !rc.info.InvalidUTF8) {
		return d
	}
	for i := 1; i < len(valref.Readings); i++ {
		r := valref.Readings[i]
		if (r.WTF8Lone && !rc.info.LoneSurrogate) || (r.ReplaceInvalid && !rc.info.InvalidUTF8) {
			continue
		}
		if j.compare(rc, i, o) == nil {
			return nil
		}
	}
	return d
}

func sigOf(fe *frontEnd, d *disc, m *meta) string {
	switch d.cat {
	case "num":
		return core.Sig(numSig(fe.name, fe.path, d.lit, d.kind)...)
	case "str":
		it := m.item
		if it == "" {
			it = "n/a"
		}
		return core.Sig("str", fe.name, fe.path, "item="+it, "ctx="+d.ctx, d.kind)
	case "error":
		switch m.family {
		case "numbers":
			return core.Sig(numSig(fe.name, fe.path, m.lit, d.kind)...)
		case "strings", "uescape", "string-pairs":
			return core.Sig("str", fe.name, fe.path, "item="+m.item, "ctx="+m.ctx, d.kind)
		}
		return core.Sig("struct", fe.name, fe.path, "family="+m.family, d.kind)
	}
	return core.Sig("struct", fe.name, fe.path, "family="+m.family, d.kind)
}

// runText executes every front-end on one text and reports discrepancies.
// It returns a bit per front-end that failed.
func (j *judge) runText(text []byte, m *meta, attribute func(fe *frontEnd, d *disc) string) (failed uint) {
	rc := j.prepare(text)
	if rc == nil {
		return 0
	}
	for i, fe := range frontEnds {
		j.c.Case(func() string { return fmt.Sprintf("%s/%s %q", fe.name, fe.path, text) })
		o := fe.exec(text)
		j.c.Eval()
		d := j.verdict(rc, o)
		if d == nil {
			continue
		}
		failed |= 1 << uint(i)
		mm := *m
		if attribute != nil {
			mm.item = attribute(fe, d)
		}
		cs := caseT{Family: m.family, FE: fe.name, Path: fe.path, Text: text, Quoted: fmt.Sprintf("%q", text), Lit: m.lit, Item: mm.item, Ctx: m.ctx}
		j.c.Fail(sigOf(fe, d, &mm), cs, len(text), d.exp, d.obs)
	}
	for _, b := range j.orc.bad {
		j.c.HarnessError("%s", b)
	}
	j.orc.bad = nil
	return failed
}

func run(c *core.Ctx) {
	j := &judge{c: c}
	idx := 0
	next := func() bool { // does the next case belong to this shard?
		mine := c.Mine(idx)
		idx++
		return mine
	}
	runNumbers(j, next)
	runStrings(j, next)
	runUEscapes(j, next)
	runStringPairs(j, next)
	runLookalikes(j, next)
	runStructure(j, next)
	runDupKeys(j, next)
	runScale(j, next)
	c.Add("reference_cross_checks", j.xchk)
	c.Add("rejections_tolerated_invalid_utf8", j.tol)
}

// ---------------------------------------------------------------- numbers

func runNumbers(j *judge, next func() bool) {
	c := j.c
	q := c.Quick()
	ints, fracs, exps := intParts(q), fracParts(q), expParts(q)
	var lits int64
	for _, sign := range []string{"", "-"} {
		for _, ip := range ints {
			if c.Expired("C02 number literals") {
				return
			}
			for _, fp := range fracs {
				for _, ep := range exps {
					if !next() {
						continue
					}
					lit := sign + ip
					if fp != "" {
						lit += "." + fp
					}
					lit += ep
					lits++
					m := &meta{family: "numbers", lit: lit}
					for k := range numCtxs {
						nc := &numCtxs[k]
						m.ctx = nc.ctx + "/" + nc.term
						text := []byte(nc.pre + lit + nc.post)
						j.runText(text, m, nil)
						c.Add("texts", 1)
						if len(lit) > 1 {
							c.Nontrivial()
						}
					}
					if lits%4099 == 1 {
						c.Sample(map[string]string{"family": "numbers", "literal": lit})
					}
				}
			}
		}
	}
	c.Add("number_literals", lits)
}

// ---------------------------------------------------------------- strings

func runStrings(j *judge, next func() bool) {
	c := j.c
	maxLen := c.Pick(2, 3)
	memo := map[string]uint{} // place|items -> failed front-end bits
	failsAlone := func(place int, seq []int) uint {
		k := fmt.Sprint(place, seq)
		if v, ok := memo[k]; ok {
			return v
		}
		sp := &strPlaces[place]
		text := []byte(sp.pre + seqText(seq) + sp.post)
		rc := j.prepare(text)
		var bits uint
		if rc != nil {
			for i, fe := range frontEnds {
				o := fe.exec(text)
				c.Add("attribution_runs", 1)
				if j.verdict(rc, o) != nil {
					bits |= 1 << uint(i)
				}
			}
		}
		memo[k] = bits
		return bits
	}
	var n int64
	sequences(maxLen, func(seq []int) {
		if c.Expired("C02 strings") {
			return
		}
		for p := range strPlaces {
			if !next() {
				continue
			}
			sp := &strPlaces[p]
			text := []byte(sp.pre + seqText(seq) + sp.post)
			m := &meta{family: "strings", item: seqClasses(seq), ctx: sp.ctx}
			cur := append([]int(nil), seq...)
			j.runText(text, m, func(fe *frontEnd, d *disc) string {
				// attribute to the shortest, leftmost contiguous run of items that already fails alone
				var feBit uint
				for i, f := range frontEnds {
					if f == fe {
						feBit = 1 << uint(i)
					}
				}
				for l := 1; l < len(cur); l++ {
					for s := 0; s+l <= len(cur); s++ {
						if failsAlone(p, cur[s:s+l])&feBit != 0 {
							if l > 1 && hasEscapedPair(seqText(cur[s:s+l])) {
								return "u-pair" // a high and a low escape from adjacent items form a pair
							}
							return seqClasses(cur[s : s+l])
						}
					}
				}
				if len(cur) > 1 && hasEscapedPair(seqText(cur)) {
					return "u-pair"
				}
				return seqClasses(cur)
			})
			n++
			c.Add("texts", 1)
			for _, it := range seq {
				if items[it].class != "plain" {
					c.Nontrivial()
					break
				}
			}
			if n%1499 == 1 {
				c.Sample(map[string]string{"family": "strings", "text": fmt.Sprintf("%q", text)})
			}
		}
	})
	c.Add("string_texts", n)
}

// runLookalikes: strings spelled like another token (a literal, a number, a
// container), written plainly and with one of their characters as a \uXXXX
// escape (the slow string path), in every placement: they stay strings.
func runLookalikes(j *judge, next func() bool) {
	var n int64
	for _, w := range []string{"true", "false", "null", "0", "-1", "12", "1.5", "1e5", "-0.5E-3", "[]", "{}", "[1]", "tru", "nul", "+1", "NaN", "Infinity"} {
		spellings := []string{w}
		for i := 0; i < len(w); i++ {
			spellings = append(spellings, w[:i]+"\\u"+hex4(int(w[i]), hexLower)+w[i+1:])
		}
		for si, sp := range spellings {
			for p := range strPlaces {
				if !next() {
					continue
				}
				pl := &strPlaces[p]
				text := []byte(pl.pre + sp + pl.post)
				cl := "lookalike:" + w
				if si > 0 {
					cl += ":escaped"
				}
				j.runText(text, &meta{family: "strings", item: cl, ctx: pl.ctx}, nil)
				j.c.Nontrivial()
				n++
			}
		}
	}
	j.c.Add("lookalike_texts", n)
}

const hexLower, hexUpper = "0123456789abcdef", "0123456789ABCDEF"

func hex4(cu int, digits string) string {
	return string([]byte{digits[cu>>12&15], digits[cu>>8&15], digits[cu>>4&15], digits[cu&15]})
}

// runUEscapes: every \uXXXX escape on its own, plus boundary surrogate pairs.
func runUEscapes(j *judge, next func() bool) {
	c := j.c
	var n int64
	one := func(body, class, place string) {
		if !next() {
			return
		}
		var text []byte
		ctx := "value"
		if place == "key" {
			text, ctx = []byte(`{"`+body+`":1}`), "key"
		} else {
			text = []byte(`"` + body + `"`)
		}
		j.runText(text, &meta{family: "uescape", item: class, ctx: ctx}, nil)
		n++
		c.Add("texts", 1)
		c.Nontrivial()
	}
	for cu := 0; cu <= 0xFFFF; cu++ {
		if cu&0xFFF == 0 && c.Expired("C02 \\u escapes") {
			return
		}
		one(ue(hex4(cu, hexLower)), uClass(cu), "value")
		if hex4(cu, hexLower) != hex4(cu, hexUpper) && (!c.Quick() || cu%17 == 0) {
			one(ue(hex4(cu, hexUpper)), uClass(cu), "value")
		}
		if !c.Quick() || cu%257 == 0 {
			one(ue(hex4(cu, hexLower)), uClass(cu), "key")
		}
	}
	for _, hi := range []int{0xD800, 0xD83D, 0xDBFF} {
		for _, lo := range []int{0xDC00, 0xDE00, 0xDFFF} {
			one(ue(hex4(hi, hexLower))+ue(hex4(lo, hexLower)), "u-pair", "value")
			one(ue(hex4(hi, hexUpper))+ue(hex4(lo, hexUpper)), "u-pair", "key")
		}
	}
	c.Add("uescape_texts", n)
}

// ---------------------------------------------------------------- string pairs

// pairPlaces are documents with two strings under test: what the first one
// leaves behind in a front-end (scratch buffers, escape state) must not show
// in the second. %[1]s and %[2]s are the two strings as written between quotes.
var pairPlaces = []struct{ name, format, ctx1, ctx2 string }{
	{"key-value", `{"%[1]s":"%[2]s"}`, "key", "value"},
	{"key-key", `{"%[1]s":1,"k%[2]s":2}`, "key", "key"},
	{"value-key", `{"k":"%[1]s","%[2]s":1}`, "value", "key"},
	{"value-value", `["%[1]s","%[2]s"]`, "value", "value"},
	{"nested", `[{"%[1]s":["%[1]s"]},{"%[2]s":0}]`, "key", "key"},
}

// runStringPairs: every ordered pair of one- and two-item strings in every
// pair placement. A failure that one of the two strings already shows alone
// (in the single-string family) is attributed to that string's item class so
// that it keeps its signature; everything else is a pair signature.
func runStringPairs(j *judge, next func() bool) {
	c := j.c
	var strs [][]int
	for i := range items {
		strs = append(strs, []int{i})
	}
	for i := range items {
		strs = append(strs, []int{0, i})
		if !c.Quick() {
			strs = append(strs, []int{i, 0})
		}
	}
	place := map[string]int{}
	for i, sp := range strPlaces {
		if _, ok := place[sp.ctx]; !ok || sp.name == "array" {
			place[sp.ctx] = i
		}
	}
	memo := map[string]uint{}
	failsAlone := func(ctx string, seq []int) uint {
		k := fmt.Sprint(ctx, seq)
		if v, ok := memo[k]; ok {
			return v
		}
		sp := &strPlaces[place[ctx]]
		text := []byte(sp.pre + seqText(seq) + sp.post)
		var bits uint
		if rc := j.prepare(text); rc != nil {
			for i, fe := range frontEnds {
				c.Add("attribution_runs", 1)
				if j.verdict(rc, fe.exec(text)) != nil {
					bits |= 1 << uint(i)
				}
			}
		}
		memo[k] = bits
		return bits
	}
	// a single item first, every two-item sequence second: what the first string
	// leaves pending (an unpaired surrogate half, a partial escape) meets every
	// combination of "bytes before" and "escape after" in the second
	var seconds [][]int
	for i := range items {
		for k := range items {
			seconds = append(seconds, []int{i, k})
		}
	}
	var n int64
	for si, s1 := range strs {
		if c.Expired("C02 string pairs") {
			return
		}
		s2s := strs
		if si < len(items) {
			s2s = append(append([][]int{}, strs...), seconds...)
		}
		for _, s2 := range s2s {
			for pi := range pairPlaces {
				if !next() {
					continue
				}
				pp := &pairPlaces[pi]
				t1, t2 := seqText(s1), seqText(s2)
				if pp.name == "key-key" && t1 == "k"+t2 {
					continue // would be a duplicate key
				}
				text := []byte(fmt.Sprintf(pp.format, t1, t2))
				m := &meta{family: "string-pairs", item: "pair:" + pp.name, ctx: pp.ctx2}
				j.runText(text, m, func(fe *frontEnd, d *disc) string {
					var feBit uint
					for i, f := range frontEnds {
						if f == fe {
							feBit = 1 << uint(i)
						}
					}
					if failsAlone(pp.ctx1, s1)&feBit != 0 {
						return seqClasses(s1[len(s1)-1:])
					}
					if failsAlone(pp.ctx2, s2)&feBit != 0 {
						return seqClasses(s2[len(s2)-1:])
					}
					return "pair:" + pp.name
				})
				n++
				c.Add("texts", 1)
				c.Nontrivial()
			}
		}
	}
	c.Add("string_pair_texts", n)
}

// ---------------------------------------------------------------- structure

func runStructure(j *judge, next func() bool) {
	c := j.c
	leaves := []any{nil, true, leafNum{}, leafStr{}}
	if !c.Quick() {
		leaves = []any{nil, true, false, leafNum{}, leafStr{}}
	}
	keys := []string{"a", "b", "c"}
	var n int64
	gens.Trees(5, leaves, keys, func(t any) bool {
		if n&1023 == 0 && c.Expired("C02 structure") {
			return false
		}
		for _, spaced := range []bool{false, true} {
			if !next() {
				continue
			}
			text := render(t, spaced)
			fam := "structure-compact"
			if spaced {
				fam = "structure-spaced"
			}
			// self-check: the reference reads back the tree that was rendered
			if v, _, err := valref.Decode(text, valref.Reading{}); err != nil || !sameShape(t, v) {
				c.HarnessError("rendering of a tree does not read back: %q", text)
				continue
			}
			j.runText(text, &meta{family: fam}, nil)
			n++
			c.Add("texts", 1)
			if nodeCount(t) > 1 {
				c.Nontrivial()
			}
			if n%9973 == 1 {
				c.Sample(map[string]string{"family": fam, "text": fmt.Sprintf("%q", text)})
			}
		}
		return true
	})
	c.Add("structure_texts", n)
}

// sameShape: the decoded reference tree has the shape of the generated tree.
func sameShape(t, ref any) bool {
	switch g := t.(type) {
	case nil:
		return ref == nil
	case bool:
		b, ok := ref.(bool)
		return ok && b == g
	case leafNum:
		_, ok := ref.(valref.Num)
		return ok
	case leafStr:
		_, ok := ref.(string)
		return ok
	case []any:
		r, ok := ref.([]any)
		if !ok || len(r) != len(g) {
			return false
		}
		for i := range g {
			if !sameShape(g[i], r[i]) {
				return false
			}
		}
		return true
	case map[string]any:
		r, ok := ref.(valref.Obj)
		if !ok || len(r) != len(g) {
			return false
		}
		for _, m := range r {
			e, ok := g[m.Key]
			if !ok || !sameShape(e, m.Val) {
				return false
			}
		}
		return true
	}
	return false
}

func runDupKeys(j *judge, next func() bool) {
	c := j.c
	var n int64
	dupObjects(c.Quick(), func(m members, desc string) {
		if n&255 == 0 && c.Expired("C02 duplicate keys") {
			return
		}
		placements := []struct {
			name string
			v    any
		}{
			{"top", m},
			{"in-array", []any{rawJSON("0"), m, rawJSON("9")}},
			{"as-member", members{{"o", m}, {"p", rawJSON("9")}}},
		}
		for _, pl := range placements {
			for _, spaced := range []bool{false, true} {
				if !next() {
					continue
				}
				text := render(pl.v, spaced)
				j.runText(text, &meta{family: "dupkeys"}, nil)
				n++
				c.Add("texts", 1)
				c.Nontrivial()
				if n%997 == 1 {
					c.Sample(map[string]string{"family": "dupkeys", "members": desc, "text": fmt.Sprintf("%q", text)})
				}
			}
		}
	})
	c.Add("dupkey_texts", n)
}

// ---------------------------------------------------------------- replay

// runScale: the scale family (gens.ScaleDocs): documents whose element count,
// member count, nesting depth or string length crosses the capacities the
// front-ends start with (stacks of 16 / 32, maps of 8, token buffers of 32,
// read buffers of 4096). The text is rendered by the harness, not by an ojg
// writer; the shape goes into the signature.
func runScale(j *judge, next func() bool) {
	c := j.c
	var n int64
	for _, d := range gens.ScaleDocs(false) {
		if c.Expired("C02 scale") {
			break
		}
		if !next() {
			continue
		}
		text := gens.ScaleJSON(d.Tree)
		shape := d.Name[:strings.IndexByte(d.Name, ':')]
		j.runText(text, &meta{family: "scale-" + shape}, nil)
		n++
		c.Nontrivial()
		if n == 1 {
			c.Sample(map[string]string{"family": "scale", "document": d.Name})
		}
	}
	c.Add("scale_texts", n)
}

func replay(c *core.Ctx, raw json.RawMessage) {
	var cs caseT
	if err := json.Unmarshal(raw, &cs); err != nil {
		c.HarnessError("bad case: %v", err)
		return
	}
	fe := feByName(cs.FE, cs.Path)
	if fe == nil {
		c.HarnessError("unknown front-end %q/%q", cs.FE, cs.Path)
		return
	}
	j := &judge{c: c}
	rc := j.prepare(cs.Text)
	if rc == nil {
		return
	}
	o := fe.exec(cs.Text)
	c.Eval()
	if d := j.verdict(rc, o); d != nil {
		m := &meta{family: cs.Family, lit: cs.Lit, item: cs.Item, ctx: cs.Ctx}
		if strings.HasPrefix(cs.Family, "numbers") && m.lit == "" {
			m.lit = "0"
		}
		c.Fail(sigOf(fe, d, m), cs, len(cs.Text), d.exp, d.obs)
	}
}
