package c02

import (
	"encoding/json"
	"math"
	"testing"

	"github.com/ohler55/ojg/gen"
	"verif/internal/ref/valref"
)

func TestItemsSpelling(t *testing.T) {
	want := map[string]string{
		"esc-quote": "\x5c\x22", "esc-backslash": "\x5c\x5c", "esc-slash": "\x5c/", "esc-b": "\x5cb", "esc-t": "\x5ct",
		"u-ascii": "\x5cu0041", "u-2byte": "\x5cu00e9", "u-3byte": "\x5cu20AC", "u-ffff": "\x5cuFFFF",
		"u-pair": "\x5cuD83D\x5cuDE00", "u-reversed-pair": "\x5cuDE00\x5cuD83D", "raw-2byte": "\xc3\xa9", "raw-4byte": "\xf0\x9f\x98\x80",
	}
	seen := map[string]bool{}
	for _, it := range items {
		if seen[it.class] {
			t.Errorf("duplicate class %s", it.class)
		}
		seen[it.class] = true
		if w, ok := want[it.class]; ok && w != it.text {
			t.Errorf("%s spelled %q want %q", it.class, it.text, w)
		}
	}
	if len(items) != 24 {
		t.Errorf("%d items", len(items))
	}
	// every single item decodes (reference) to what its class says
	dec := map[string]string{"plain": "a", "esc-quote": "\"", "esc-b": "\b", "esc-f": "\f", "esc-n": "\n", "esc-r": "\r", "esc-t": "\t",
		"esc-slash": "/", "esc-backslash": "\\", "u-0000": "\x00", "u-001f": "\x1f", "u-ascii": "A", "u-2byte": "é", "u-3byte": "€",
		"u-ffff": "￿", "u-pair": "\U0001F600", "u-lone-high": "�", "u-lone-low": "�", "u-reversed-pair": "��",
		"raw-2byte": "é", "raw-3byte": "€", "raw-4byte": "\U0001F600", "raw-80": "\x80", "raw-ff": "\xff"}
	for _, it := range items {
		v, _, err := valref.Decode([]byte(`"`+it.text+`"`), valref.Reading{})
		if err != nil || v != dec[it.class] {
			t.Errorf("%s decodes to %q (%v) want %q", it.class, v, err, dec[it.class])
		}
	}
}

func TestEnumerators(t *testing.T) {
	for _, q := range []bool{true, false} {
		ni, nf, ne := len(intParts(q)), len(fracParts(q)), len(expParts(q))
		t.Logf("quick=%v ints=%d fracs=%d exps=%d literals=%d", q, ni, nf, ne, 2*ni*nf*ne)
		for _, f := range fracParts(q) {
			if len(f) > 23 {
				t.Errorf("fraction too long: %s", f)
			}
		}
		for _, i := range intParts(q) {
			if len(i) > 21 || (len(i) > 1 && i[0] == '0') {
				t.Errorf("bad int part %s", i)
			}
		}
		seen := map[string]bool{}
		for _, e := range expParts(q) {
			if seen[e] {
				t.Errorf("dup exp %s", e)
			}
			seen[e] = true
		}
		n := 0
		dupObjects(q, func(m members, d string) { n++ })
		t.Logf("dup objects %d", n)
	}
	// leading-zero counts 0..21 all present in both tiers
	for _, q := range []bool{true, false} {
		have := map[int]bool{}
		for _, f := range fracParts(q) {
			z := 0
			for z < len(f) && f[z] == '0' {
				z++
			}
			if z < len(f) {
				have[z] = true
			}
		}
		for z := 0; z <= 21; z++ {
			if !have[z] && (!q || z <= 2 || z >= 16) {
				t.Errorf("quick=%v: no fraction with %d leading zeros", q, z)
			}
		}
	}
	cnt := 0
	sequences(2, func([]int) { cnt++ })
	if cnt != 1+24+576 {
		t.Errorf("sequences %d", cnt)
	}
}

func TestNumClasses(t *testing.T) {
	for lit, want := range map[string]numClass{
		"0":                          {"0", "le18", "none", "-", "none", "none"},
		"-12":                        {"1-18", "le18", "none", "-", "none", "none"},
		"9223372036854775807":        {"19", "19", "none", "-", "none", "none"},
		"18446744073709551616e5":     {"20+", "20+", "none", "-", "le22", "some"},
		"0.00000000000000000001":     {"0", "le18", "18+", "18+", "none", "none"},
		"1.000E-23":                  {"1-18", "le18", "1-17", "1-17", "23-308", "some"},
		"1.5e+1023":                  {"1-18", "le18", "1-17", "0", "309+", "some"},
		"1.012345678901234567e99999": {"1-18", "le18", "18+", "1-17", "309+", "some"},
	} {
		if got := numClasses(lit); got != want {
			t.Errorf("%s: %v want %v", lit, got, want)
		}
	}
	if !hasEscapedPair(ue("D83D")+ue("DE00")) || !hasEscapedPair("a"+ue("DE00")+ue("dbff")+ue("dc00")) ||
		hasEscapedPair(ue("DE00")+ue("D83D")) || hasEscapedPair("\x5c\x5cuD83D"+ue("DE00")) || hasEscapedPair(ue("D83D")+"a"+ue("DE00")) {
		t.Errorf("hasEscapedPair wrong")
	}
}

func TestRender(t *testing.T) {
	tree := map[string]any{"b": []any{leafNum{}, nil}, "a": leafStr{}}
	if got := string(render(tree, false)); got != `{"a":"s1","b":[2,null]}` {
		t.Errorf("compact %s", got)
	}
	sp := render(tree, true)
	v, _, err := valref.Decode(sp, valref.Reading{})
	if err != nil || !sameShape(tree, v) {
		t.Errorf("spaced %q: %v", sp, err)
	}
	d := members{{"a", rawJSON("1")}, {"a", members{{"x", rawJSON("2")}}}}
	if got := string(render(d, false)); got != `{"a":1,"a":{"x":2}}` {
		t.Errorf("dup %s", got)
	}
}

// The comparison accepts correct results in every representation and flags wrong ones.
func TestCompare(t *testing.T) {
	var c oracles
	ref, _, _ := valref.Decode([]byte(`{"a":1,"b":[1.5,"x",null,true,1e400],"a":2}`), valref.Reading{})
	good := map[string]any{"a": int64(2), "b": []any{1.5, "x", nil, true, json.Number("1e400")}}
	if d := c.tree(ref, good); d != nil {
		t.Errorf("good rejected: %+v", d)
	}
	goodGen := gen.Object{"a": gen.Int(2), "b": gen.Array{gen.Float(1.5), gen.String("x"), nil, gen.Bool(true), gen.Float(math.Inf(1))}}
	if d := c.tree(ref, goodGen); d != nil {
		t.Errorf("good gen rejected: %+v", d)
	}
	bad := []struct {
		v    any
		kind string
	}{
		{map[string]any{"a": int64(1), "b": []any{1.5, "x", nil, true, json.Number("1e400")}}, "dup-not-last"},
		{map[string]any{"a": int64(3), "b": []any{1.5, "x", nil, true, json.Number("1e400")}}, "wrong-value"},
		{map[string]any{"a": json.Number("2"), "b": []any{1.5, "x", nil, true, json.Number("1e400")}}, "wrong-kind"},
		{map[string]any{"a": int64(2), "b": []any{1.5, "y", nil, true, json.Number("1e400")}}, "wrong-string"},
		{map[string]any{"a": int64(2), "b": []any{1.5, "x", nil, true}}, "wrong-length"},
		{map[string]any{"a": int64(2), "b": []any{1.5, "x", nil, true, json.Number("1e40")}}, "lost-digits"},
		{map[string]any{"a": int64(2), "b": []any{1.5, "x", nil, true, math.MaxFloat64}}, "wrong-value"},
		{map[string]any{"a": int64(2)}, "missing-member"},
		{map[string]any{"A": int64(2), "b": []any{1.5, "x", nil, true, json.Number("1e400")}}, "wrong-string"},
		{map[string]any{"a": int64(2), "c": 1, "b": []any{1.5, "x", nil, true, json.Number("1e400")}}, "extra-member"},
		{map[string]any{"a": int64(2), "b": []any{1.5, "x", false, true, json.Number("1e400")}}, "wrong-type"},
		{map[string]any{"a": int64(2), "b": []any{math.Nextafter(1.5, 2), "x", nil, true, json.Number("1e400")}}, "wrong-value:inexact"},
	}
	for i, b := range bad {
		if d := c.tree(ref, b.v); d == nil || d.kind != b.kind {
			t.Errorf("bad[%d]: got %+v want %s", i, d, b.kind)
		}
	}
	exp := flatten(ref, nil)
	evs := []ev{{K: "{"}, {K: "key", S: "a"}, {K: "int", I: 1}, {K: "key", S: "b"}, {K: "["}, {K: "float", F: 1.5}, {K: "string", S: "x"}, {K: "null"},
		{K: "bool", B: true}, {K: "number", S: "1e400"}, {K: "]"}, {K: "key", S: "a"}, {K: "int", I: 2}, {K: "}"}}
	if d := c.events(exp, evs); d != nil {
		t.Errorf("events rejected: %+v", d)
	}
	if d := c.events(exp, evs[:len(evs)-1]); d == nil || d.kind != "missing-events" {
		t.Errorf("short events: %+v", d)
	}
	evs[2].I = 7
	if d := c.events(exp, evs); d == nil || d.kind != "wrong-value" {
		t.Errorf("wrong int event: %+v", d)
	}
}
