package c02

import (
	"fmt"
	"sort"
	"strconv"
	"strings"
)

// ---------------------------------------------------------------- numbers

const mixedDigits = "12345678901234567890123456789"

func rep(s string, n int) string { return strings.Repeat(s, n) }

type strSet struct {
	list []string
	seen map[string]bool
}

func (s *strSet) add(v string) {
	if s.seen == nil {
		s.seen = map[string]bool{}
	}
	if !s.seen[v] {
		s.seen[v] = true
		s.list = append(s.list, v)
	}
}

// intParts lists the integer parts (no sign), duplicate-free.
func intParts(quick bool) []string {
	var s strSet
	s.add("0")
	ks := []int{1, 2, 17, 18, 19, 20, 21}
	if !quick {
		ks = ks[:0]
		for k := 1; k <= 21; k++ {
			ks = append(ks, k)
		}
	}
	for _, k := range ks {
		s.add(rep("1", k))
		s.add(rep("9", k))
		s.add("1" + rep("0", k-1))
		if (!quick && k >= 9) || k >= 18 {
			s.add(mixedDigits[:k])
		}
		if (!quick && k >= 17) || k >= 19 {
			s.add(rep("5", k)) // 19 digits fit int64, one more digit wraps uint64 back below MaxInt64
		}
	}
	// int64 and uint64 boundary values ±1
	for _, b := range []string{"9223372036854775806", "9223372036854775807", "9223372036854775808",
		"18446744073709551614", "18446744073709551615", "18446744073709551616"} {
		s.add(b)
	}
	for d := 0; d <= 9; d++ { // BigLimit followed by each digit
		s.add("922337203685477580" + strconv.Itoa(d))
	}
	if !quick {
		for d := 0; d <= 9; d++ { // MaxUint64/10 followed by each digit
			s.add("1844674407370955161" + strconv.Itoa(d))
		}
		s.add("92233720368547758070") // MaxInt64 followed by one more digit
		s.add("922337203685477579")   // BigLimit-1
		s.add("922337203685477581")   // BigLimit+1
	}
	return s.list
}

// wrapFractions: the front-ends keep the leading zeros of a fraction by adding
// the divisor 10^k to the accumulated digits; for 19 digits that sum passes
// 2^64 from 8446744073709551616 on, and the switch to the textual form comes
// at 9223372036854775800. Both ends of that window and a value inside it, and
// the same for 18 digits (where nothing may wrap).
var wrapFractions = []string{"8446744073709551615", "8446744073709551616", "9000000000000000001", "9223372036854775799", "844674407370955161", "844674407370955162"}

// fracParts lists the fraction digit strings ("" = no fraction), duplicate-free.
func fracParts(quick bool) []string {
	var s strSet
	s.add("")
	for _, f := range []string{"0", "5", "25"} {
		s.add(f)
	}
	if quick {
		for _, z := range []int{0, 1, 2, 5, 10, 16, 17, 18, 19, 20, 21} {
			s.add(rep("0", z) + "1")
		}
		for _, n := range []int{17, 18, 19, 20, 21, 23} {
			s.add(rep("9", n))
		}
		for _, n := range []int{18, 19, 20, 23} {
			s.add(mixedDigits[:n])
		}
		for _, n := range []int{19, 20} {
			s.add("0" + rep("9", n-1))
			s.add(rep("5", n))
		}
		s.add("0" + mixedDigits[:19])
		s.add("00" + mixedDigits[:19])
		for _, n := range []int{18, 19, 20} {
			s.add(rep("0", n))
		}
		// the accumulator thresholds apply to the fraction digits as well
		for _, b := range []string{"9223372036854775807", "9223372036854775808", "18446744073709551615", "18446744073709551616",
			"9223372036854775800", "09223372036854775808"} {
			s.add(b)
		}
		for _, b := range wrapFractions {
			s.add(b)
		}
		return s.list
	}
	for _, f := range []string{"125", "0625", "123456789", "10", "100", "50"} {
		s.add(f)
	}
	// every count of leading zeros followed by a short tail
	for z := 0; z <= 21; z++ {
		s.add(rep("0", z) + "1")
		s.add(rep("0", z) + "9")
	}
	// long runs without leading zeros around every threshold
	for _, n := range []int{16, 17, 18, 19, 20, 21, 22, 23} {
		s.add(rep("1", n))
		s.add(rep("9", n))
		s.add(mixedDigits[:n])
		s.add("1" + rep("0", n-1)) // trailing zeros
		s.add(rep("9", n-1) + "0")
		s.add(rep("5", n))
	}
	// long runs behind a few leading zeros
	for _, z := range []int{1, 2, 5} {
		for _, n := range []int{18, 19, 20, 21, 23} {
			s.add(rep("0", z) + rep("9", n-z))
			s.add(rep("0", z) + mixedDigits[:n-z])
		}
	}
	// leading zeros up to the total bound
	for _, z := range []int{10, 17, 18, 19, 20, 21} {
		s.add(rep("0", z) + rep("9", 23-z))
	}
	for _, b := range wrapFractions {
		s.add(b)
		s.add("0" + b)
	}
	// the accumulator thresholds (BigLimit, MaxInt64, MaxUint64) apply to the fraction digits as well
	for _, b := range []string{"9223372036854775806", "9223372036854775807", "9223372036854775808",
		"18446744073709551614", "18446744073709551615", "18446744073709551616", "922337203685477579", "922337203685477581"} {
		s.add(b)
		s.add("0" + b)
	}
	for d := 0; d <= 9; d++ {
		s.add("922337203685477580" + strconv.Itoa(d))
	}
	// all-zero fractions
	for _, n := range []int{2, 17, 18, 19, 20, 21, 23} {
		s.add(rep("0", n))
	}
	return s.list
}

var expValues = []string{"0", "1", "5", "22", "23", "102", "103", "307", "308", "309", "400", "1022", "1023", "99999"}

// expParts lists the exponent parts ("" = none), duplicate-free.
func expParts(quick bool) []string {
	out := []string{""}
	if quick {
		for _, v := range expValues {
			out = append(out, "e"+v, "e-"+v)
		}
		out = append(out, "E+1", "E+23", "E+308", "E5", "E-1023")
		return out
	}
	for _, l := range []string{"e", "E"} {
		for _, sg := range []string{"", "+", "-"} {
			for _, v := range expValues {
				out = append(out, l+sg+v)
			}
		}
	}
	return out
}

// numCtx is one placement of a literal with one terminator.
type numCtx struct {
	ctx, term string
	pre, post string
}

var numCtxs = []numCtx{
	{"top", "eof", "", ""},
	{"top", "space", "", " "},
	{"top", "newline", "", "\n"},
	{"array", "close", "[", "]"},
	{"array", "space", "[", " ]"},
	{"array", "newline", "[", "\n]"},
	{"array", "comma", "[", ",0]"},
	{"object", "close", `{"a":`, "}"},
	{"object", "space", `{"a":`, " }"},
	{"object", "newline", `{"a":`, "\n}"},
	{"object", "comma", `{"a":`, `,"b":0}`},
}

// numClass holds the categorical coordinates of a number literal.
type numClass struct {
	int0   string // 0 | 1-18 | 19 | 20+      (integer digits; used by error kinds, where the leading-zero mode matters)
	int    string // le18 | 19 | 20+
	frac   string // none | 1-17 | 18+        (fraction digits)
	fzeros string // - | 0 | 1-17 | 18+       (leading fraction zeros; an all-zero fraction counts its length)
	exp    string // none | le22 | 23-308 | 309+   (exponent magnitude)
	expAny string // none | some
}

// numClasses returns the signature coordinates of a number literal.
func numClasses(lit string) (nc numClass) {
	s := strings.TrimPrefix(lit, "-")
	exp := ""
	hasExp := false
	if i := strings.IndexAny(s, "eE"); i >= 0 {
		exp, s, hasExp = s[i+1:], s[:i], true
	}
	frac := ""
	hasFrac := false
	if i := strings.IndexByte(s, '.'); i >= 0 {
		frac, s, hasFrac = s[i+1:], s[:i], true
	}
	switch {
	case s == "0":
		nc.int0, nc.int = "0", "le18"
	case len(s) <= 18:
		nc.int0, nc.int = "1-18", "le18"
	case len(s) == 19:
		nc.int0, nc.int = "19", "19"
	default:
		nc.int0, nc.int = "20+", "20+"
	}
	if !hasFrac {
		nc.frac, nc.fzeros = "none", "-"
	} else {
		if len(frac) <= 17 {
			nc.frac = "1-17"
		} else {
			nc.frac = "18+"
		}
		z := len(frac) - len(strings.TrimLeft(frac, "0"))
		switch {
		case z == 0:
			nc.fzeros = "0"
		case z <= 17:
			nc.fzeros = "1-17"
		default:
			nc.fzeros = "18+"
		}
	}
	if !hasExp {
		nc.exp, nc.expAny = "none", "none"
	} else {
		nc.expAny = "some"
		v, err := strconv.Atoi(strings.TrimLeft(exp, "+-"))
		switch {
		case err != nil || v >= 309:
			nc.exp = "309+"
		case v <= 22:
			nc.exp = "le22"
		default:
			nc.exp = "23-308"
		}
	}
	return
}

// numSig builds the number signature; the coordinates that matter are chosen
// per discrepancy kind (DESIGN §2.5), the others are "*".
func numSig(fe, path, lit, kind string) []string {
	nc := numClasses(lit)
	i, f, z, e := "*", "*", "*", "*"
	switch {
	case kind == "error" || strings.HasPrefix(kind, "panic"):
		i, f, z, e = nc.int0, nc.frac, nc.fzeros, nc.exp
	case kind == "wrong-kind":
		i = nc.int
		if strings.HasPrefix(strings.TrimPrefix(lit, "-"), "922337203685477580") && nc.int == "19" {
			i = "19:last-decade" // 9223372036854775800…807, where the accumulator reaches BigLimit before the last digit
		}
	case kind == "lost-digits:exp-sign":
		// a cross-cutting loss: the front-end and entry point identify it
	case kind == "lost-digits":
		i, f, z = nc.int, nc.frac, nc.fzeros
	case kind == "wrong-value:inexact" || kind == "wrong-value:nonfinite":
		e = nc.exp
	default: // wrong-value
		i, f, z, e = nc.int, nc.frac, nc.fzeros, nc.expAny
	}
	return []string{"num", fe, path, "int=" + i, "frac=" + f, "fzeros=" + z, "exp=" + e, kind}
}

// ---------------------------------------------------------------- strings

type item struct {
	class string
	text  string // as written between the quotes
}

// ue spells a \uXXXX escape (built from pieces so that no tool rewrites it).
func ue(hex string) string { return "\\" + "u" + hex }

var items = []item{
	{"plain", "a"},
	{"esc-quote", "\\\""}, {"esc-backslash", "\\\\"}, {"esc-slash", "\\/"}, {"esc-b", "\\b"},
	{"esc-f", "\\f"}, {"esc-n", "\\n"}, {"esc-r", "\\r"}, {"esc-t", "\\t"},
	{"u-0000", ue("0000")}, {"u-001f", ue("001f")}, {"u-ascii", ue("0041")}, {"u-2byte", ue("00e9")},
	{"u-3byte", ue("20AC")}, {"u-ffff", ue("FFFF")},
	{"u-pair", ue("D83D") + ue("DE00")}, {"u-lone-high", ue("D83D")}, {"u-lone-low", ue("DE00")},
	{"u-reversed-pair", ue("DE00") + ue("D83D")},
	{"raw-2byte", "\xc3\xa9"}, {"raw-3byte", "\xe2\x82\xac"}, {"raw-4byte", "\xf0\x9f\x98\x80"},
	{"raw-80", "\x80"}, {"raw-ff", "\xff"},
}

// strPlace is one placement of a string.
type strPlace struct {
	name, ctx string // ctx: value | key
	pre, post string
}

var strPlaces = []strPlace{
	{"top", "value", `"`, `"`},
	{"array", "value", `["`, `"]`},
	{"member", "value", `{"k":"`, `"}`},
	{"key", "key", `{"`, `":1}`},
}

func seqText(seq []int) string {
	var b strings.Builder
	for _, i := range seq {
		b.WriteString(items[i].text)
	}
	return b.String()
}

func seqClasses(seq []int) string {
	if len(seq) == 0 {
		return "empty"
	}
	parts := make([]string, len(seq))
	for i, k := range seq {
		parts[i] = items[k].class
	}
	return strings.Join(parts, "+")
}

// hasEscapedPair reports whether the string body spells a high surrogate
// escape immediately followed by a low surrogate escape.
func hasEscapedPair(body string) bool {
	unit := func(i int) (int, bool) { // \\uXXXX at i?
		if i+6 > len(body) || body[i] != '\\' || body[i+1] != 'u' {
			return 0, false
		}
		v, err := strconv.ParseUint(body[i+2:i+6], 16, 32)
		return int(v), err == nil
	}
	for i := 0; i < len(body); {
		if body[i] != '\\' {
			i++
			continue
		}
		if hi, ok := unit(i); ok {
			if lo, ok2 := unit(i + 6); ok2 && 0xD800 <= hi && hi <= 0xDBFF && 0xDC00 <= lo && lo <= 0xDFFF {
				return true
			}
			i += 6
			continue
		}
		i += 2 // a short escape
	}
	return false
}

// sequences calls fn with every item sequence of length 0…maxLen, shortest first.
func sequences(maxLen int, fn func(seq []int)) {
	for n := 0; n <= maxLen; n++ {
		seq := make([]int, n)
		var rec func(pos int)
		rec = func(pos int) {
			if pos == n {
				fn(seq)
				return
			}
			for i := range items {
				seq[pos] = i
				rec(pos + 1)
			}
		}
		rec(0)
	}
}

func uClass(cu int) string {
	switch {
	case cu < 0x20:
		return "u-ctrl"
	case cu < 0x80:
		return "u-ascii"
	case cu < 0x800:
		return "u-2byte"
	case 0xD800 <= cu && cu <= 0xDBFF:
		return "u-lone-high"
	case 0xDC00 <= cu && cu <= 0xDFFF:
		return "u-lone-low"
	}
	return "u-3byte"
}

// ---------------------------------------------------------------- structure

type leafNum struct{}
type leafStr struct{}

// wsCycle is the whitespace inserted around every token in the spaced rendering.
var wsCycle = []string{" ", "\n", "\t", "\r\n", "  ", "\n\n ", ""}

type renderer struct {
	b      strings.Builder
	spaced bool
	n      int // value counter: every number / string leaf gets a distinct value
	w      int
}

func (r *renderer) tok(s string) {
	if r.spaced {
		r.b.WriteString(wsCycle[r.w%len(wsCycle)])
		r.w++
	}
	r.b.WriteString(s)
}

func (r *renderer) value(v any) {
	switch t := v.(type) {
	case nil:
		r.tok("null")
	case bool:
		if t {
			r.tok("true")
		} else {
			r.tok("false")
		}
	case leafNum:
		r.n++
		r.tok(strconv.Itoa(r.n))
	case leafStr:
		r.n++
		r.tok(`"s` + strconv.Itoa(r.n) + `"`)
	case rawJSON:
		r.tok(string(t))
	case []any:
		r.tok("[")
		for i, e := range t {
			if i > 0 {
				r.tok(",")
			}
			r.value(e)
		}
		r.tok("]")
	case map[string]any:
		keys := make([]string, 0, len(t))
		for k := range t {
			keys = append(keys, k)
		}
		sort.Strings(keys)
		r.tok("{")
		for i, k := range keys {
			if i > 0 {
				r.tok(",")
			}
			r.tok(strconv.Quote(k))
			r.tok(":")
			r.value(t[k])
		}
		r.tok("}")
	case members:
		r.tok("{")
		for i, m := range t {
			if i > 0 {
				r.tok(",")
			}
			r.tok(strconv.Quote(m.k))
			r.tok(":")
			r.value(m.v)
		}
		r.tok("}")
	default:
		panic(fmt.Sprintf("render: %T", v))
	}
}

func render(v any, spaced bool) []byte {
	r := &renderer{spaced: spaced}
	r.value(v)
	if spaced {
		r.tok("")
	}
	return []byte(r.b.String())
}

// rawJSON is a pre-rendered value.
type rawJSON string

// members is an object with explicit member order (duplicates allowed).
type members []struct {
	k string
	v any
}

// shape describes a tree for the evidence samples.
func nodeCount(v any) int {
	switch t := v.(type) {
	case []any:
		n := 1
		for _, e := range t {
			n += nodeCount(e)
		}
		return n
	case map[string]any:
		n := 1
		for _, e := range t {
			n += nodeCount(e)
		}
		return n
	}
	return 1
}

// dupValueKinds are the member values used in the duplicate-key family; the
// index i makes every value distinct.
func dupValue(kind string, i int) any {
	n := strconv.Itoa(i + 1)
	switch kind {
	case "num":
		return rawJSON(n)
	case "str":
		return rawJSON(`"s` + n + `"`)
	case "arr":
		return []any{rawJSON(n)}
	case "obj":
		return members{{"x", rawJSON(n)}}
	case "dupobj":
		return members{{"x", rawJSON(n + "0")}, {"x", rawJSON(n)}}
	case "null":
		return nil
	}
	panic(kind)
}

// dupObjects calls fn with every duplicate-key object of the family.
func dupObjects(quick bool, fn func(m members, desc string)) {
	keys := []string{"a", "b"}
	if !quick {
		keys = []string{"a", "b", "c"}
	}
	kindsFull := []string{"num", "str", "arr", "obj", "dupobj", "null"}
	kindsThin := []string{"num", "obj"}
	maxLen := 4
	for n := 2; n <= maxLen; n++ {
		kinds := kindsFull
		if n == 4 {
			kinds = kindsThin
		}
		if quick && n == 3 {
			kinds = []string{"num", "str", "obj", "dupobj"}
		}
		ks := make([]int, n)
		vs := make([]int, n)
		var recK func(p int)
		var recV func(p int)
		recV = func(p int) {
			if p == n {
				m := make(members, n)
				var d []string
				for i := range m {
					m[i].k = keys[ks[i]]
					m[i].v = dupValue(kinds[vs[i]], i)
					d = append(d, keys[ks[i]]+":"+kinds[vs[i]])
				}
				fn(m, strings.Join(d, ","))
				return
			}
			for v := range kinds {
				vs[p] = v
				recV(p + 1)
			}
		}
		recK = func(p int) {
			if p == n {
				seen := map[int]bool{}
				dup := false
				for _, k := range ks {
					if seen[k] {
						dup = true
					}
					seen[k] = true
				}
				if dup {
					recV(0)
				}
				return
			}
			for k := range keys {
				ks[p] = k
				recK(p + 1)
			}
		}
		recK(0)
	}
}
