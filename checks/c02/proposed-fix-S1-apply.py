#!/usr/bin/env python3
"""Applies the surrogate-pair fix proposed in TRIAGE.md (S1) to an ojg tree given as argv[1].
Text-anchored, so it survives line shifts; run gofmt afterwards. NOT applied to /repo by the check author."""
import re, sys, os
root = sys.argv[1]
files = {'oj/parser.go': 'p', 'oj/tokenizer.go': 't', 'gen/parser.go': 'p', 'sen/parser.go': 'p', 'sen/tokenizer.go': 't'}
for path, v in files.items():
    full = os.path.join(root, path)
    s = open(full).read()
    old = ('\t\t\t\tn := utf8.EncodeRune(V.runeBytes, V.rn)\n'
           '\t\t\t\tV.tmp = append(V.tmp, V.runeBytes[:n]...)\n'
           '\t\t\t\tV.mode = stringMap').replace('V', v)
    assert s.count(old) == 1, path
    new = ('\t\t\t\tif 0xDC00 <= V.rn && V.rn <= 0xDFFF && V.hi != 0 && V.hiEnd == len(V.tmp) {\n'
           '\t\t\t\t\t// a low surrogate directly after a high one: replace the\n'
           '\t\t\t\t\t// U+FFFD written for the high half by the combined rune\n'
           '\t\t\t\t\tV.tmp = V.tmp[:V.hiEnd-3]\n'
           '\t\t\t\t\tV.rn = 0x10000 + (V.hi-0xD800)<<10 + (V.rn - 0xDC00)\n'
           '\t\t\t\t}\n'
           '\t\t\t\tV.hi = 0\n'
           '\t\t\t\tn := utf8.EncodeRune(V.runeBytes, V.rn)\n'
           '\t\t\t\tV.tmp = append(V.tmp, V.runeBytes[:n]...)\n'
           '\t\t\t\tif 0xD800 <= V.rn && V.rn <= 0xDBFF {\n'
           '\t\t\t\t\tV.hi = V.rn\n'
           '\t\t\t\t\tV.hiEnd = len(V.tmp)\n'
           '\t\t\t\t}\n'
           '\t\t\t\tV.mode = stringMap').replace('V', v)
    s = s.replace(old, new)
    m = re.search(r'\n\trn +rune\n', s)          # struct field
    assert m, path
    s = s[:m.end()] + ('\thi         rune // pending high surrogate of a \\' + 'uXXXX escape\n'
                       '\thiEnd      int  // len(tmp) right after its U+FFFD was appended\n') + s[m.end():]
    old2 = '\t\tcase strQuote:\n'                 # end of a string that went through the slow path
    assert s.count(old2) == 1, path
    s = s.replace(old2, old2 + '\t\t\t%s.hi = 0\n' % v)
    old3 = '\t%s.noff = -1\n' % v                 # the two entry points (Parse, ParseReader / Load)
    assert s.count(old3) == 2, (path, s.count(old3))
    s = s.replace(old3, '\t%s.hi = 0\n' % v + old3)
    open(full, 'w').write(s)
print('applied; now run: gofmt -w oj/parser.go oj/tokenizer.go gen/parser.go sen/parser.go sen/tokenizer.go')
