package c02

import (
	"encoding/json"
	"fmt"
	"sort"
	"strings"

	"github.com/ohler55/ojg/gen"
	"verif/internal/ref/valref"
)

// disc is the first discrepancy between a reference tree and a result.
type disc struct {
	cat  string // num | str | struct | error
	kind string
	lit  string // cat num: the literal
	ctx  string // cat str: value | key
	exp  string
	obs  string
}

// oracles caches the number oracles of the literals in the current text.
type oracles struct {
	m   map[string]*valref.NumOracle
	bad []string
}

func (c *oracles) get(lit string) *valref.NumOracle {
	if o, ok := c.m[lit]; ok {
		return o
	}
	if c.m == nil || len(c.m) > 256 {
		c.m = map[string]*valref.NumOracle{}
	}
	o, err := valref.NewNumOracle(lit)
	if err != nil {
		c.bad = append(c.bad, err.Error())
		o = nil
	}
	c.m[lit] = o
	return o
}

// number judges one number result (int64 / float64 / text, or their gen forms).
func (c *oracles) number(lit string, got any) *disc {
	o := c.get(lit)
	if o == nil {
		return nil // harness error already recorded
	}
	var kind, obs string
	switch g := got.(type) {
	case int64:
		kind, obs = o.CheckInt(g), fmt.Sprintf("int64 %d", g)
	case gen.Int:
		kind, obs = o.CheckInt(int64(g)), fmt.Sprintf("gen.Int %d", int64(g))
	case float64:
		kind, obs = o.CheckFloat(g), fmt.Sprintf("float64 %v", g)
	case gen.Float:
		kind, obs = o.CheckFloat(float64(g)), fmt.Sprintf("gen.Float %v", float64(g))
	case json.Number:
		kind, obs = o.CheckText(string(g)), fmt.Sprintf("json.Number %q", string(g))
	case gen.Big:
		kind, obs = o.CheckText(string(g)), fmt.Sprintf("gen.Big %q", string(g))
	case numText:
		kind, obs = o.CheckText(string(g)), fmt.Sprintf("Number(%q)", string(g))
	default:
		return &disc{cat: "struct", kind: "wrong-type", exp: "number " + lit, obs: fmt.Sprintf("%T %v", got, clipv(got))}
	}
	if kind == "" {
		return nil
	}
	return &disc{cat: "num", kind: kind, lit: lit, exp: o.Accepts(), obs: obs}
}

// numText is the tokenizer's Number(string) callback argument.
type numText string

func clipv(v any) string {
	s := fmt.Sprintf("%#v", v)
	if len(s) > 120 {
		s = s[:120] + "…"
	}
	return s
}

func wrongType(exp string, got any) *disc {
	return &disc{cat: "struct", kind: "wrong-type", exp: exp, obs: fmt.Sprintf("%T %s", got, clipv(got))}
}

// tree compares a parser result with the reference tree.
func (c *oracles) tree(ref, got any) *disc {
	switch r := ref.(type) {
	case nil:
		if got != nil {
			return wrongType("null", got)
		}
	case bool:
		var b bool
		switch g := got.(type) {
		case bool:
			b = g
		case gen.Bool:
			b = bool(g)
		default:
			return wrongType(fmt.Sprintf("bool %v", r), got)
		}
		if b != r {
			return &disc{cat: "struct", kind: "wrong-bool", exp: fmt.Sprint(r), obs: fmt.Sprint(b)}
		}
	case string:
		var s string
		switch g := got.(type) {
		case string:
			s = g
		case gen.String:
			s = string(g)
		default:
			return wrongType(fmt.Sprintf("string %q", r), got)
		}
		if s != r {
			return &disc{cat: "str", kind: "wrong-string", ctx: "value", exp: fmt.Sprintf("%q", r), obs: fmt.Sprintf("%q", s)}
		}
	case valref.Num:
		return c.number(r.Lit, got)
	case []any:
		var elems []any
		switch g := got.(type) {
		case []any:
			elems = g
		case gen.Array:
			elems = make([]any, len(g))
			for i, e := range g {
				if e != nil {
					elems[i] = e
				}
			}
		default:
			return wrongType(fmt.Sprintf("array of %d", len(r)), got)
		}
		if len(elems) != len(r) {
			return &disc{cat: "struct", kind: "wrong-length", exp: fmt.Sprintf("%d elements", len(r)), obs: fmt.Sprintf("%d elements %s", len(elems), clipv(got))}
		}
		for i := range r {
			if d := c.tree(r[i], elems[i]); d != nil {
				return d
			}
		}
	case valref.Obj:
		var gm map[string]any
		switch g := got.(type) {
		case map[string]any:
			gm = g
		case gen.Object:
			gm = make(map[string]any, len(g))
			for k, e := range g {
				if e != nil {
					gm[k] = e
				} else {
					gm[k] = nil
				}
			}
		default:
			return wrongType(fmt.Sprintf("object of %d members", len(r)), got)
		}
		last := make(map[string]int, len(r))
		var order []string
		for i, m := range r {
			if _, seen := last[m.Key]; !seen {
				order = append(order, m.Key)
			}
			last[m.Key] = i
		}
		var extra []string
		for k := range gm {
			if _, ok := last[k]; !ok {
				extra = append(extra, k)
			}
		}
		sort.Strings(extra)
		for _, key := range order {
			gv, ok := gm[key]
			if !ok {
				if len(extra) > 0 {
					return &disc{cat: "str", kind: "wrong-string", ctx: "key", exp: fmt.Sprintf("%q", key), obs: fmt.Sprintf("%q", extra)}
				}
				return &disc{cat: "struct", kind: "missing-member", exp: fmt.Sprintf("member %q", key), obs: clipv(got)}
			}
			d := c.tree(r[last[key]].Val, gv)
			if d == nil {
				continue
			}
			for i := 0; i < last[key]; i++ { // did an earlier duplicate win?
				if r[i].Key == key && c.tree(r[i].Val, gv) == nil {
					return &disc{cat: "struct", kind: "dup-not-last", exp: fmt.Sprintf("member %q from its last occurrence", key), obs: clipv(gv)}
				}
			}
			return d
		}
		if len(extra) > 0 {
			return &disc{cat: "struct", kind: "extra-member", exp: fmt.Sprintf("members %q", order), obs: fmt.Sprintf("also %q", extra)}
		}
	default:
		return &disc{cat: "struct", kind: "harness", exp: fmt.Sprintf("%T", ref)}
	}
	return nil
}

// xev is an expected tokenizer event.
type xev struct {
	K   string // null bool num string key { } [ ]
	B   bool
	S   string
	Lit string
}

func (x xev) String() string {
	switch x.K {
	case "bool":
		return fmt.Sprintf("bool:%v", x.B)
	case "num":
		return "num:" + x.Lit
	case "string", "key":
		return fmt.Sprintf("%s:%q", x.K, x.S)
	}
	return x.K
}

// flatten lists the events the text denotes: document order, duplicates kept.
func flatten(ref any, dst []xev) []xev {
	switch r := ref.(type) {
	case nil:
		return append(dst, xev{K: "null"})
	case bool:
		return append(dst, xev{K: "bool", B: r})
	case string:
		return append(dst, xev{K: "string", S: r})
	case valref.Num:
		return append(dst, xev{K: "num", Lit: r.Lit})
	case []any:
		dst = append(dst, xev{K: "["})
		for _, e := range r {
			dst = flatten(e, dst)
		}
		return append(dst, xev{K: "]"})
	case valref.Obj:
		dst = append(dst, xev{K: "{"})
		for _, m := range r {
			dst = append(dst, xev{K: "key", S: m.Key})
			dst = flatten(m.Val, dst)
		}
		return append(dst, xev{K: "}"})
	}
	return append(dst, xev{K: "?"})
}

func evList(evs []ev) string {
	var b strings.Builder
	for i, e := range evs {
		if i > 0 {
			b.WriteByte(' ')
		}
		b.WriteString(e.String())
		if b.Len() > 300 {
			b.WriteString(" …")
			break
		}
	}
	return b.String()
}

func xevList(evs []xev) string {
	var b strings.Builder
	for i, e := range evs {
		if i > 0 {
			b.WriteByte(' ')
		}
		b.WriteString(e.String())
		if b.Len() > 300 {
			b.WriteString(" …")
			break
		}
	}
	return b.String()
}

// events compares the tokenizer's callbacks with the expected event list.
func (c *oracles) events(exp []xev, got []ev) *disc {
	for i := 0; i < len(exp) || i < len(got); i++ {
		if i >= len(got) {
			return &disc{cat: "struct", kind: "missing-events", exp: xevList(exp), obs: evList(got)}
		}
		if i >= len(exp) {
			return &disc{cat: "struct", kind: "extra-events", exp: xevList(exp), obs: evList(got)}
		}
		x, g := exp[i], got[i]
		ok := false
		switch x.K {
		case "num":
			var d *disc
			switch g.K {
			case "int":
				d, ok = c.number(x.Lit, g.I), true
			case "float":
				d, ok = c.number(x.Lit, g.F), true
			case "number":
				d, ok = c.number(x.Lit, numText(g.S)), true
			}
			if d != nil {
				return d
			}
		case "bool":
			ok = g.K == "bool" && g.B == x.B
		case "string", "key":
			if g.K == x.K {
				ok = true
				if g.S != x.S {
					ctx := "value"
					if x.K == "key" {
						ctx = "key"
					}
					return &disc{cat: "str", kind: "wrong-string", ctx: ctx, exp: fmt.Sprintf("%q", x.S), obs: fmt.Sprintf("%q", g.S)}
				}
			}
		default:
			ok = g.K == x.K
		}
		if !ok {
			return &disc{cat: "struct", kind: "events-differ", exp: xevList(exp), obs: evList(got)}
		}
	}
	return nil
}
