package c02

import (
	"fmt"
	"io"
	"runtime"

	"github.com/ohler55/ojg/gen"
	"github.com/ohler55/ojg/oj"
	"github.com/ohler55/ojg/sen"
)

// ev is one tokenizer event.
type ev struct {
	K string // null bool int float number string key { } [ ]
	B bool
	I int64
	F float64
	S string
}

func (e ev) String() string {
	switch e.K {
	case "bool":
		return fmt.Sprintf("bool:%v", e.B)
	case "int":
		return fmt.Sprintf("int:%d", e.I)
	case "float":
		return fmt.Sprintf("float:%v", e.F)
	case "number", "string", "key":
		return fmt.Sprintf("%s:%q", e.K, e.S)
	}
	return e.K
}

// rec records the TokenHandler callbacks in order.
type rec struct{ evs []ev }

func (r *rec) Null()           { r.evs = append(r.evs, ev{K: "null"}) }
func (r *rec) Bool(b bool)     { r.evs = append(r.evs, ev{K: "bool", B: b}) }
func (r *rec) Int(i int64)     { r.evs = append(r.evs, ev{K: "int", I: i}) }
func (r *rec) Float(f float64) { r.evs = append(r.evs, ev{K: "float", F: f}) }
func (r *rec) Number(s string) { r.evs = append(r.evs, ev{K: "number", S: s}) }
func (r *rec) String(s string) { r.evs = append(r.evs, ev{K: "string", S: s}) }
func (r *rec) Key(s string)    { r.evs = append(r.evs, ev{K: "key", S: s}) }
func (r *rec) ObjectStart()    { r.evs = append(r.evs, ev{K: "{"}) }
func (r *rec) ObjectEnd()      { r.evs = append(r.evs, ev{K: "}"}) }
func (r *rec) ArrayStart()     { r.evs = append(r.evs, ev{K: "["}) }
func (r *rec) ArrayEnd()       { r.evs = append(r.evs, ev{K: "]"}) }

// oneByte delivers the text one byte per Read call, then io.EOF alone.
type oneByte struct {
	data []byte
	i    int
}

func (r *oneByte) Read(p []byte) (int, error) {
	if r.i >= len(r.data) {
		return 0, io.EOF
	}
	if len(p) == 0 {
		return 0, nil
	}
	p[0] = r.data[r.i]
	r.i++
	return 1, nil
}

// out is what one execution of a front-end produced.
type out struct {
	tree   any  // parsers
	events []ev // tokenizer
	isEv   bool
	err    error
	pan    any
}

// frontEnd is one (front-end, entry point) pair. Every execution uses a fresh
// instance: reuse is C07's subject.
type frontEnd struct {
	name string // oj.Parser | oj.Tokenizer | gen.Parser | sen.Parser
	path string // whole | bytewise
	run  func(text []byte, o *out)
}

var frontEnds = []*frontEnd{
	{"oj.Parser", "whole", func(text []byte, o *out) { // what oj.Parse does with its pooled parser
		p := &oj.Parser{}
		o.tree, o.err = p.Parse(text)
	}},
	{"oj.Parser", "bytewise", func(text []byte, o *out) {
		p := &oj.Parser{}
		o.tree, o.err = p.ParseReader(&oneByte{data: text})
	}},
	{"oj.Tokenizer", "whole", func(text []byte, o *out) {
		r := &rec{}
		o.isEv = true
		o.err = oj.Tokenize(text, r)
		o.events = r.evs
	}},
	{"gen.Parser", "whole", func(text []byte, o *out) {
		p := &gen.Parser{}
		var n gen.Node
		n, o.err = p.Parse(text)
		o.tree = n
	}},
	{"gen.Parser", "bytewise", func(text []byte, o *out) {
		p := &gen.Parser{}
		var n gen.Node
		n, o.err = p.ParseReader(&oneByte{data: text})
		o.tree = n
	}},
	{"sen.Parser", "whole", func(text []byte, o *out) { // what sen.Parse does with its pooled parser
		p := &sen.Parser{}
		o.tree, o.err = p.Parse(text)
	}},
	{"sen.Parser", "bytewise", func(text []byte, o *out) {
		p := &sen.Parser{}
		o.tree, o.err = p.ParseReader(&oneByte{data: text})
	}},
	{"oj.Tokenizer", "bytewise", func(text []byte, o *out) {
		r := &rec{}
		o.isEv = true
		o.err = oj.TokenizeLoad(&oneByte{data: text}, r)
		o.events = r.evs
	}},
	{"sen.Tokenizer", "whole", func(text []byte, o *out) {
		r := &rec{}
		o.isEv = true
		o.err = sen.Tokenize(text, r)
		o.events = r.evs
	}},
	{"sen.Tokenizer", "bytewise", func(text []byte, o *out) {
		r := &rec{}
		o.isEv = true
		o.err = sen.TokenizeLoad(&oneByte{data: text}, r)
		o.events = r.evs
	}},
}

func feByName(name, path string) *frontEnd {
	for _, fe := range frontEnds {
		if fe.name == name && fe.path == path {
			return fe
		}
	}
	return nil
}

// exec runs the front-end on a private copy of the text, catching panics.
func (fe *frontEnd) exec(text []byte) (o *out) {
	o = &out{}
	buf := append([]byte(nil), text...)
	defer func() {
		if p := recover(); p != nil {
			o.pan = p
		}
	}()
	fe.run(buf, o)
	return o
}

func panicKind(p any) string {
	if re, ok := p.(runtime.Error); ok {
		s := re.Error()
		for _, k := range []string{"index out of range", "slice bounds out of range", "nil map", "nil pointer", "interface conversion", "divide by zero"} {
			if containsStr(s, k) {
				return "panic:" + k
			}
		}
		return "panic:runtime-error"
	}
	return "panic:other"
}

func containsStr(s, sub string) bool {
	for i := 0; i+len(sub) <= len(s); i++ {
		if s[i:i+len(sub)] == sub {
			return true
		}
	}
	return false
}
