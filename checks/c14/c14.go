// Package c14 decides C14: JSONPath and script text forms round-trip.
//
// Family "expr": every jp.Expr of a bounded number of fragments built with
// the public constructors is printed (String and BracketString), parsed back,
// printed again and both expressions are evaluated on data tailored so that
// every fragment selects something. Family "equation": every equation tree of
// bounded depth (all operators at every parent/child pair and side, constants
// of every kind) is printed as Equation, Script and Filter, parsed back,
// printed again, and both are evaluated on an element corpus that makes every
// leaf take two values, so a changed nesting is observable.
package c14

import (
	"encoding/json"
	"fmt"

	"verif/internal/core"
)

func init() {
	core.Register(&core.Check{
		ID:     "C14",
		Level:  "exploration",
		Shards: func(string) int { return 16 },
		Run:    run,
		Replay: replay,
		Rule: "expr: one case = one expression description (head x fragment sequence), non-trivial when Get on the tailored or generic data selects at least one value; " +
			"equation: one case = one tree (shape with path leaves, arithmetic tree with constant leaves and probe, or constant x operator x side), non-trivial when the " +
			"constructed script takes both truth values over its corpus (for the == K probes: is true). A failing case is reported under its own signature only when no " +
			"strictly smaller case (one fragment / the head removed; a single parent-child pair; the constant in '@.a == const') shows the same discrepancy; otherwise it is counted as subsumed",
		Assumptions: []string{
			"the oracle is differential: constructed vs re-parsed object, identical print and identical Get / Match results; no reference evaluator is involved",
			"a Bracket fragment has no text form, so for an expression containing one the re-parsed expression may reproduce the text either with String or with BracketString",
			"results are compared as sequences only for expressions without filter on data whose maps have one key; as multisets otherwise",
			"strconv and regexp are trusted",
		},
		Bound: func(tier string) string {
			n, d := 2, 2
			extra := ""
			if tier == "thorough" {
				n, d = 3, 3
				extra = "; depth 3 = every operator in parent>child>grandchild chains on every side plus all shapes over " + fmt.Sprint(repOps) + "; Root/At also in non-initial positions"
			}
			return fmt.Sprintf("expr: <= %d fragments from an alphabet of %d (20 child keys, 4 indexes, wildcard, descent, 26 unions, 16 slices, %d filters incl. nested) x 6 heads "+
				"(none|$|@, with and without leading Bracket) x String|BracketString x 3 data; equation: all trees of depth <= 2 over %d operators (both operands operators or leaves), "+
				"arithmetic trees of depth <= %d with constant leaves observed through == K, %d constants x 19 binary operators x both sides + ! + arithmetic, each as Equation|Script|Filter%s",
				n, len(fragments(tier == "thorough")), len(filterScripts()), len(allOps), d, len(constants()), extra)
		},
	})
}

func run(c *core.Ctx) {
	runExprs(c)
	idx := 0
	runNest(c, &idx)
	runArith(c, &idx)
	floatLeaves = true // the same trees over decimal leaves (regrouping a chain of + or * shows only there)
	runArith(c, &idx)
	floatLeaves = false
	runConsts(c, &idx)
}

func replay(c *core.Ctx, raw json.RawMessage) {
	var probe struct {
		Family string `json:"family"`
	}
	if err := json.Unmarshal(raw, &probe); err != nil {
		c.HarnessError("bad case: %v", err)
		return
	}
	if probe.Family == "expr" {
		var cs exprCase
		if err := json.Unmarshal(raw, &cs); err != nil {
			c.HarnessError("bad case: %v", err)
			return
		}
		replayExpr(c, cs)
		return
	}
	var cs eqCase
	if err := json.Unmarshal(raw, &cs); err != nil {
		c.HarnessError("bad case: %v", err)
		return
	}
	replayEq(c, cs)
}
