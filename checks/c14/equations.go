package c14

import (
	"fmt"
	"math"
	"regexp"

	"github.com/ohler55/ojg/jp"

	"verif/internal/core"
	"verif/internal/gens"
	"verif/internal/ref/scriptref"
)

type node = scriptref.Node

var (
	infix   = []string{"==", "!=", "<", ">", "<=", ">=", "||", "&&", "+", "-", "*", "/", "in", "empty", "has", "exists", "~="}
	allOps  = append(append([]string{}, infix...), "!", "match", "search", "length", "count")
	parents = append(append([]string{}, infix...), "!", "match", "search") // operators whose operands may be operators
	repOps  = []string{"*", "-", "==", "&&", "||", "!"}                    // one or two per precedence class, for full depth-3 trees
)

func unary(op string) bool { return scriptref.Unary(op) }

// ------------------------------------------------------------------ shapes and leaves

// shape is an operator tree; nil is a leaf position.
type shape struct {
	op   string
	l, r *shape
}

func (s *shape) String() string {
	if s == nil {
		return "leaf"
	}
	if unary(s.op) {
		return s.op + "(" + s.l.String() + ")"
	}
	return s.op + "(" + s.l.String() + "," + s.r.String() + ")"
}

func (s *shape) depth() int {
	if s == nil {
		return 0
	}
	d := s.l.depth()
	if r := s.r.depth(); r > d {
		d = r
	}
	return d + 1
}

// domain returns the two values a path leaf takes below operator op on the
// given side, chosen so that the operator is both true and false (or has two
// different values) over the corpus.
func domain(op string, side int, sibling *shape) [2]any {
	no := scriptref.Nothing{}
	if (op == "==" || op == "!=") && sibling != nil && boolValued(sibling.op) {
		return [2]any{true, false} // compared with a boolean result
	}
	switch op {
	case "&&", "||", "!":
		return [2]any{true, false}
	case "in":
		if side == 1 {
			return [2]any{[]any{int64(1)}, []any{int64(2), int64(3)}}
		}
	case "empty":
		if side == 0 {
			return [2]any{"", "a"}
		}
		return [2]any{true, false}
	case "has", "exists":
		if side == 0 {
			return [2]any{int64(1), no}
		}
		return [2]any{true, false}
	case "~=":
		return [2]any{"a", "b"}
	case "match", "search":
		if side == 0 {
			return [2]any{"a", "ab"}
		}
		return [2]any{"a", "b"}
	case "length":
		return [2]any{"ab", []any{int64(1)}}
	case "count":
		return [2]any{int64(1), no}
	}
	return [2]any{int64(1), int64(2)}
}

func boolValued(op string) bool {
	switch op {
	case "+", "-", "*", "/", "length", "count":
		return false
	}
	return true
}

// opClass is the signature coordinate of an operator: its precedence class
// (|| and && share a precedence but are kept apart).
func opClass(op string) string {
	switch op {
	case "":
		return "leaf"
	case "!":
		return "not"
	case "length", "count", "match", "search":
		return "function"
	case "*", "/":
		return "mul"
	case "+", "-":
		return "add"
	case "&&":
		return "and"
	case "||":
		return "or"
	}
	return "cmp"
}

// prec is jp's precedence table (lower binds tighter); only used to name
// signature coordinates.
func prec(op string) int {
	switch opClass(op) {
	case "not", "function":
		return 0
	case "mul":
		return 1
	case "add":
		return 2
	case "cmp":
		return 3
	}
	return 4
}

// parentKind and rel are the signature coordinates of a parent/child pair:
// what matters to the printers and the parser is whether the parent is an
// infix operator, ! or a function call, and whether the child is !, a
// function call, or an infix operator binding tighter than, as tight as
// (same operator or not) or looser than the parent.
func parentKind(op string) string {
	switch opClass(op) {
	case "not", "function":
		return opClass(op)
	}
	return "infix"
}

func rel(parent, child string) string {
	switch cl := opClass(child); cl {
	case "leaf", "not", "function":
		return cl
	}
	switch p, c := prec(parent), prec(child); {
	case c < p:
		return "tighter"
	case c > p:
		return "looser"
	case parent == child:
		return "same-operator"
	}
	return "same-precedence"
}

func childOp(s *shape) string {
	if s == nil {
		return ""
	}
	return s.op
}

// relShape renders the tree with these relations.
func relShape(parent string, s *shape) string {
	if s == nil {
		return "leaf"
	}
	name := parentKind(s.op)
	if parent != "" {
		name = rel(parent, s.op)
	}
	if unary(s.op) {
		return name + "(" + relShape(s.op, s.l) + ")"
	}
	return name + "(" + relShape(s.op, s.l) + "," + relShape(s.op, s.r) + ")"
}

// instantiate turns a shape into a script with one path leaf @.k<i> per leaf
// position and returns the value domains of the leaves.
func instantiate(s *shape) (*node, [][2]any) {
	var doms [][2]any
	var rec func(s *shape, parent string, side int, sibling *shape) *node
	rec = func(s *shape, parent string, side int, sibling *shape) *node {
		if s == nil {
			n := scriptref.P(scriptref.K(fmt.Sprintf("k%d", len(doms))))
			doms = append(doms, domain(parent, side, sibling))
			return n
		}
		if unary(s.op) {
			return scriptref.N1(s.op, rec(s.l, s.op, 0, nil))
		}
		return scriptref.B(s.op, rec(s.l, s.op, 0, s.r), rec(s.r, s.op, 1, s.l))
	}
	return rec(s, "", 0, nil), doms
}

// corpus is every assignment of the leaves for up to 6 leaves, else 64 fixed
// assignments (all-first, all-second and 62 rows of a multiplicative hash).
func corpus(doms [][2]any) []any {
	k := len(doms)
	var rows []uint32
	if k <= 6 {
		for i := 0; i < 1<<k; i++ {
			rows = append(rows, uint32(i))
		}
	} else {
		rows = append(rows, 0, 1<<k-1)
		for i := uint32(1); len(rows) < 64; i++ {
			rows = append(rows, (i*2654435761)>>7)
		}
	}
	out := make([]any, len(rows))
	for ri, bits := range rows {
		el := map[string]any{}
		for i, d := range doms {
			v := d[bits>>uint(i)&1]
			if _, missing := v.(scriptref.Nothing); !missing {
				el[fmt.Sprintf("k%d", i)] = gens.Clone(v)
			}
		}
		out[ri] = el
	}
	return out
}

// ------------------------------------------------------------------ round trip of one script in one form

var forms = []string{"equation", "script", "filter"}

type evaluator func(el any) string

func recoverEval(c *core.Ctx, f func(el any) bool) evaluator {
	return func(el any) (out string) {
		defer func() {
			if r := recover(); r != nil {
				out = "panic:" + gens.JPPanicKind(r)
			}
		}()
		c.Eval()
		return fmt.Sprint(f(el))
	}
}

// printParse prints the constructed script in the given form, parses the
// text back and prints again; it returns evaluators for both.
func printParse(c *core.Ctx, n *node, goInt bool, form string) (s string, d *disc, ex, ey evaluator) {
	fail := func(kind, detail, exp, obs string) *disc { return &disc{form, kind, detail, exp, obs} }
	var s2 string
	var pk string
	switch form {
	case "equation":
		x := gens.JPEquation(n, goInt)
		if s, pk = safeString(x.String); pk != "" {
			return s, fail("print-panic", pk, "prints", "panic: "+pk), nil, nil
		}
		var y *jp.Equation
		if _, pk = safeString(func() string { y = jp.MustParseEquation(s); return "" }); pk != "" {
			return s, fail("parse-error", pk, "MustParseEquation("+s+") succeeds", "panic: "+pk), nil, nil
		}
		if s2, pk = safeString(y.String); pk != "" {
			return s, fail("print-panic", pk, s, "re-parsed equation panics when printed: "+pk), nil, nil
		}
		xs, ys := x.Script(), y.Script()
		ex, ey = recoverEval(c, xs.Match), recoverEval(c, ys.Match)
	case "script":
		x := gens.JPEquation(n, goInt).Script()
		if s, pk = safeString(x.String); pk != "" {
			return s, fail("print-panic", pk, "prints", "panic: "+pk), nil, nil
		}
		y, err := jp.NewScript(s)
		if err != nil {
			return s, fail("parse-error", gens.JPPanicKind(err), "NewScript("+s+") succeeds", err.Error()), nil, nil
		}
		if s2, pk = safeString(y.String); pk != "" {
			return s, fail("print-panic", pk, s, "re-parsed script panics when printed: "+pk), nil, nil
		}
		ex, ey = recoverEval(c, x.Match), recoverEval(c, y.Match)
	default:
		x := jp.R().Filter(gens.JPEquation(n, goInt))
		if s, pk = safeString(x.String); pk != "" {
			return s, fail("print-panic", pk, "prints", "panic: "+pk), nil, nil
		}
		y, err := jp.ParseString(s)
		if err != nil {
			return s, fail("parse-error", gens.JPPanicKind(err), "ParseString("+s+") succeeds", err.Error()), nil, nil
		}
		if s2, pk = safeString(y.String); pk != "" {
			return s, fail("print-panic", pk, s, "re-parsed filter panics when printed: "+pk), nil, nil
		}
		ex = recoverEval(c, func(el any) bool { return len(x.Get([]any{el})) > 0 })
		ey = recoverEval(c, func(el any) bool { return len(y.Get([]any{el})) > 0 })
	}
	if s2 != s {
		d = fail("prints-differently", "", s, s2)
	}
	return s, d, ex, ey
}

// roundTrip applies the oracle to one script in every form. At most one
// discrepancy per form is returned (the most severe: a different evaluation
// outranks a different print), and forms with the same discrepancy are merged
// (form "script+filter" or "all": Script and Filter share their printer).
func roundTrip(c *core.Ctx, n *node, goInt bool, els []any) (out []disc, texts map[string]string, varied bool) {
	texts = map[string]string{}
	per := map[string]*disc{}
	for _, form := range forms {
		s, d, ex, ey := printParse(c, n, goInt, form)
		texts[form] = s
		if d != nil {
			per[form] = d
		}
		if ex == nil {
			continue
		}
		seen := map[string]bool{}
		for _, el := range els {
			a, b := ex(el), ey(el)
			seen[a] = true
			if a != b {
				per[form] = &disc{form, "evaluates-differently", "", "constructed: " + a, "re-parsed " + s + ": " + b + " on " + clipS(show(el))}
				break
			}
		}
		if len(seen) > 1 {
			varied = true
		}
	}
	same := func(a, b *disc) bool { return a != nil && b != nil && a.kind == b.kind && a.detail == b.detail }
	e, sc, f := per["equation"], per["script"], per["filter"]
	switch {
	case same(e, sc) && same(sc, f):
		e.form = "all"
		out = append(out, *e)
	case same(sc, f):
		sc.form = "script+filter"
		out = append(out, *sc)
		if e != nil {
			out = append(out, *e)
		}
	default:
		for _, d := range []*disc{e, sc, f} {
			if d != nil {
				out = append(out, *d)
			}
		}
	}
	return
}

// textOf picks the printed text a (possibly merged) form refers to.
func textOf(texts map[string]string, form string) string {
	switch form {
	case "all", "equation":
		return texts["equation"]
	case "script+filter", "script":
		return texts["script"]
	}
	return texts[form]
}

type eqCase struct {
	Family string            `json:"family"` // nest | arith | const
	Eq     *node             `json:"eq"`
	GoInt  bool              `json:"go_int_list,omitempty"`
	Form   string            `json:"form"`
	Kind   string            `json:"kind"`
	Elems  []scriptref.VSpec `json:"elems"`
	Texts  map[string]string `json:"texts"`
}

func specs(els []any) []scriptref.VSpec {
	out := make([]scriptref.VSpec, len(els))
	for i, e := range els {
		out[i] = scriptref.Spec(e)
	}
	return out
}

// ------------------------------------------------------------------ nesting family

type edge struct {
	parent, child string
	side          string
}

func edges(s *shape, out []edge) []edge {
	if s == nil {
		return out
	}
	if s.l != nil {
		out = append(out, edge{s.op, s.l.op, "L"})
	}
	if s.r != nil {
		out = append(out, edge{s.op, s.r.op, "R"})
	}
	return edges(s.r, edges(s.l, out))
}

func edgeShape(e edge) *shape {
	if e.child == "" {
		return &shape{op: e.parent} // the operator alone over leaves
	}
	ch := &shape{op: e.child}
	if e.side == "L" {
		return &shape{op: e.parent, l: ch}
	}
	return &shape{op: e.parent, r: ch}
}

type nestRun struct {
	c     *core.Ctx
	memo  map[edge]map[string]bool
	class map[string]map[string]bool // (parent kind, relation, side) -> forms in which some operator pair of the class fails
}

func classKey(e edge) string {
	return parentKind(e.parent) + "|" + rel(e.parent, e.child) + "|" + e.side
}

// classify runs every single operator and every parent/child pair once (in
// every shard; about 900 small trees) so that larger trees can be attributed
// to the class of pair that already fails on its own.
func (r *nestRun) classify() {
	r.class = map[string]map[string]bool{}
	add := func(e edge) {
		k := classKey(e)
		if r.class[k] == nil {
			r.class[k] = map[string]bool{}
		}
		for f := range r.edgeFails(e) {
			r.class[k][f] = true
		}
	}
	for _, p := range parents {
		for _, ch := range allOps {
			add(edge{p, ch, "L"})
			if !unary(p) {
				add(edge{p, ch, "R"})
			}
		}
	}
}

func (r *nestRun) edgeFails(e edge) map[string]bool {
	if m, ok := r.memo[e]; ok {
		return m
	}
	n, doms := instantiate(edgeShape(e))
	ds, _, _ := roundTrip(r.c, n, false, corpus(doms))
	m := map[string]bool{}
	mark(m, ds)
	r.memo[e] = m
	return m
}

// notFollowed reports whether some ! operand is followed by further infix
// operator text in the printed form.
func notFollowed(s *shape, followed bool) bool {
	switch {
	case s == nil:
		return false
	case s.op == "!":
		return followed || notFollowed(s.l, followed)
	case unary(s.op) || parentKind(s.op) == "function":
		return notFollowed(s.l, false) || notFollowed(s.r, false)
	}
	return notFollowed(s.l, true) || notFollowed(s.r, followed)
}

func isEdgeShape(s *shape) bool {
	if s == nil || s.depth() != 2 {
		return false
	}
	return (s.l == nil) != (s.r == nil) || (unary(s.op) && s.l != nil)
}

func (r *nestRun) run(s *shape, sample bool) {
	c := r.c
	n, doms := instantiate(s)
	els := corpus(doms)
	c.Add("equation_trees", 1)
	c.Case(func() string { return "nest " + s.String() })
	ds, texts, varied := roundTrip(c, n, false, els)
	if varied {
		c.Nontrivial()
	}
	if sample {
		c.Sample(map[string]any{"family": "nest", "shape": s.String(), "texts": texts, "elements": len(els), "discrepancies": len(ds)})
	}
	es := edges(s, nil)
	for _, d := range ds {
		var sig string
		if isEdgeShape(s) {
			e := es[0]
			// already broken as a single operator over leaves?
			if d.covered(r.edgeFails(edge{e.parent, "", ""})) || d.covered(r.edgeFails(edge{e.child, "", ""})) {
				c.Add("equation_failures_subsumed_by_a_single_operator", 1)
				continue
			}
			sig = core.Sig("equation", "form="+d.form, "parent="+parentKind(e.parent), "child="+rel(e.parent, e.child), "side="+e.side, d.kind)
		} else {
			sub := false
			for _, e := range es {
				if d.covered(r.edgeFails(e)) || d.covered(r.class[classKey(e)]) {
					sub = true
					break
				}
			}
			// a ! that is followed by more operator text is the "(infix, not, L)" pair
			// (`!a && b`) wherever it stands, e.g. `a && !b && c`
			if !sub && notFollowed(s, false) && d.covered(r.class["infix|not|L"]) {
				sub = true
			}
			if sub {
				c.Add("equation_failures_subsumed_by_a_parent_child_pair", 1)
				continue
			}
			if s.depth() == 1 {
				sig = core.Sig("equation", "form="+d.form, "parent="+parentKind(s.op), "child=leaf", d.kind)
			} else if s.depth() == 2 {
				sig = core.Sig("equation", "form="+d.form, "parent="+parentKind(s.op), "left="+rel(s.op, childOp(s.l)), "right="+rel(s.op, childOp(s.r)), d.kind)
			} else {
				sig = core.Sig("equation", "form="+d.form, "tree="+relShape("", s), d.kind)
			}
		}
		if d.detail != "" {
			sig += "|" + d.detail
		}
		c.Fail(sig, eqCase{Family: "nest", Eq: n, Form: d.form, Kind: d.kind, Elems: specs(els), Texts: texts}, s.depth()*1000+len(textOf(texts, d.form)), d.exp, d.obs)
	}
}

func childChoices(ops []string) []*shape {
	out := []*shape{nil}
	for _, op := range ops {
		out = append(out, &shape{op: op})
	}
	return out
}

// trees of depth <= d over ops (operators that cannot take operator operands,
// length and count, only appear with a leaf).
func fullTrees(ops []string, d int) []*shape {
	if d == 0 {
		return []*shape{nil}
	}
	sub := fullTrees(ops, d-1)
	out := []*shape{nil}
	for _, op := range ops {
		switch {
		case op == "length" || op == "count":
			out = append(out, &shape{op: op})
		case unary(op):
			for _, l := range sub {
				out = append(out, &shape{op: op, l: l})
			}
		default:
			for _, l := range sub {
				for _, r := range sub {
					out = append(out, &shape{op: op, l: l, r: r})
				}
			}
		}
	}
	return out
}

func runNest(c *core.Ctx, idx *int) {
	r := &nestRun{c: c, memo: map[edge]map[string]bool{}}
	r.classify()
	visit := func(s *shape) {
		mine := c.Mine(*idx)
		*idx++
		if mine && s != nil {
			r.run(s, *idx%3001 == 1)
		}
	}
	// depth <= 2 over every operator
	for _, s := range fullTrees(allOps, 2) {
		if c.Expired("C14 equations depth 2") {
			return
		}
		visit(s)
	}
	// chains: three and four operands at the loosest level, each of them a
	// tighter operation, leaning left and leaning right (a == 1 && b < 2 || c == 3
	// && d < 4): the reader corrects precedence by rotating, once per operand
	for _, n := range []int{3, 4} {
		spine, kids := []string{"||", "&&"}, []string{"==", "<"}
		total := 2 // lean
		for i := 0; i < n-1; i++ {
			total *= len(spine)
		}
		for i := 0; i < n; i++ {
			total *= len(kids)
		}
		for code := 0; code < total; code++ {
			if c.Expired("C14 equation chains") {
				return
			}
			x := code
			left := x%2 == 0
			x /= 2
			var t *shape
			for i := 0; i < n; i++ {
				k := &shape{op: kids[x%len(kids)]}
				x /= len(kids)
				if t == nil {
					t = k
					continue
				}
				op := spine[x%len(spine)]
				x /= len(spine)
				if left {
					t = &shape{op: op, l: t, r: k}
				} else {
					t = &shape{op: op, l: k, r: t}
				}
			}
			visit(t)
		}
	}
	if c.Quick() {
		return
	}
	// depth 3, every operator: chains parent > child > grandchild on each side
	sides := func(op string, ch *shape) []*shape {
		if unary(op) {
			return []*shape{{op: op, l: ch}}
		}
		return []*shape{{op: op, l: ch}, {op: op, r: ch}}
	}
	for _, p := range parents {
		if c.Expired("C14 equations depth 3 chains") {
			return
		}
		for _, ch := range parents {
			for _, g := range allOps {
				for _, mid := range sides(ch, &shape{op: g}) {
					for _, top := range sides(p, mid) {
						visit(top)
					}
				}
			}
		}
	}
	// depth 3, all shapes over the representative operators
	for _, s := range fullTrees(repOps, 3) {
		if s.depth() < 3 {
			continue // covered above
		}
		if c.Expired("C14 equations depth 3 full") {
			return
		}
		visit(s)
	}
}

// ------------------------------------------------------------------ arithmetic with constant leaves, observed through == K

var primes = []int64{7, 3, 2, 11, 5, 13, 17, 19}

// decimals: leaves for which + and * are not associative in float64
// (0.1 + (0.2 + 0.3) != (0.1 + 0.2) + 0.3), so that a regrouping of a chain of
// one operator shows in the value; floatLeaves switches the leaf table.
var decimals = []float64{0.1, 0.2, 0.3, 0.7, 1.1, 2.3, 0.6, 1.7}
var floatLeaves bool

// arithValues evaluates the arithmetic tree on the constant leaves under
// integer and under exact division; it only chooses the probe constants (the
// oracle is agreement between the constructed and the re-parsed script).
func arithValues(s *shape, next *int) (i int64, f float64, iok bool) {
	if s == nil {
		if floatLeaves {
			v := decimals[*next%len(decimals)]
			*next++
			return 0, v, false
		}
		v := primes[*next%len(primes)]
		*next++
		return v, float64(v), true
	}
	li, lf, lok := arithValues(s.l, next)
	ri, rf, rok := arithValues(s.r, next)
	iok = lok && rok
	switch s.op {
	case "+":
		return li + ri, lf + rf, iok
	case "-":
		return li - ri, lf - rf, iok
	case "*":
		return li * ri, lf * rf, iok
	}
	if ri == 0 {
		return 0, lf / rf, false
	}
	return li / ri, lf / rf, iok
}

func arithNode(s *shape, next *int) *node {
	if s == nil {
		if floatLeaves {
			v := decimals[*next%len(decimals)]
			*next++
			return scriptref.C(v)
		}
		v := primes[*next%len(primes)]
		*next++
		return scriptref.C(v)
	}
	l := arithNode(s.l, next)
	return scriptref.B(s.op, l, arithNode(s.r, next))
}

// arithEdgeFails runs the two-operator tree of one parent/child pair (with
// constant leaves, observed through == K) and returns its discrepancy keys.
func arithEdgeFails(c *core.Ctx, memo map[edge]map[string]bool, e edge) map[string]bool {
	if m, ok := memo[e]; ok {
		return m
	}
	m := map[string]bool{}
	s := edgeShape(e)
	k := 0
	iv, fv, iok := arithValues(s, &k)
	for _, kv := range []any{iv, fv} {
		if _, isInt := kv.(int64); isInt && !iok {
			continue
		}
		k = 0
		ds, _, _ := roundTrip(c, scriptref.B("==", arithNode(s, &k), scriptref.C(kv)), false, []any{nil})
		mark(m, ds)
	}
	memo[e] = m
	return m
}

func runArith(c *core.Ctx, idx *int) {
	memo := map[edge]map[string]bool{}
	ar := []string{"+", "-", "*", "/"}
	class := map[string]map[string]bool{} // as in nestRun: the class of pair fails for some operator pair
	for _, p := range ar {
		for _, ch := range ar {
			for _, side := range []string{"L", "R"} {
				e := edge{p, ch, side}
				if class[classKey(e)] == nil {
					class[classKey(e)] = map[string]bool{}
				}
				for f := range arithEdgeFails(c, memo, e) {
					class[classKey(e)][f] = true
				}
			}
		}
	}
	shapes := fullTrees(ar, c.Pick(2, 3))
	for _, s := range shapes {
		if s.depth() < 2 {
			continue
		}
		mine := c.Mine(*idx)
		*idx++
		if !mine {
			continue
		}
		if c.Expired("C14 arithmetic") {
			return
		}
		k := 0
		iv, fv, iok := arithValues(s, &k)
		var ks []any
		if iok {
			ks = append(ks, iv)
		}
		if !iok || float64(iv) != fv {
			ks = append(ks, fv)
		}
		for _, kv := range ks {
			if f, isF := kv.(float64); isF && (math.IsInf(f, 0) || math.IsNaN(f)) {
				// the probe constant K is the harness's own device; a non-finite K
				// (a division by zero in the tree) has no text form, which says
				// nothing about the tree under test
				c.Add("arithmetic_trees_with_a_non_finite_value_not_probed", 1)
				continue
			}
			k = 0
			n := scriptref.B("==", arithNode(s, &k), scriptref.C(kv))
			els := []any{nil}
			c.Add("equation_trees", 1)
			ds, texts, _ := roundTrip(c, n, false, els)
			matched := false
			func() {
				defer func() { _ = recover() }()
				matched = gens.JPEquation(n, false).Script().Match(nil)
			}()
			if matched {
				c.Nontrivial() // the constructed script is true for this probe, so a changed value is visible
			}
			es := edges(s, nil)
			for _, d := range ds {
				var sig string
				if len(es) == 1 {
					sig = core.Sig("equation", "form="+d.form, "parent="+parentKind(es[0].parent), "child="+rel(es[0].parent, es[0].child), "side="+es[0].side, d.kind)
				} else {
					// subsumed if one of its parent/child pairs already fails on its own
					sub := false
					for _, e := range es {
						if d.covered(arithEdgeFails(c, memo, e)) || d.covered(class[classKey(e)]) {
							sub = true
						}
					}
					if sub {
						c.Add("equation_failures_subsumed_by_a_parent_child_pair", 1)
						continue
					}
					sig = core.Sig("equation", "form="+d.form, "tree="+relShape("", s), d.kind)
				}
				if d.detail != "" {
					sig += "|" + d.detail
				}
				c.Fail(sig, eqCase{Family: "arith", Eq: n, Form: d.form, Kind: d.kind, Elems: specs(els), Texts: texts}, s.depth()*1000+len(textOf(texts, d.form)), d.exp, d.obs)
			}
		}
	}
}

// ------------------------------------------------------------------ constants of every kind next to every operator

type constant struct {
	v     any
	class string
	goInt bool
}

func constants() []constant {
	rx := func(s string) scriptref.Regex { regexp.MustCompile(s); return scriptref.Regex(s) }
	l := func(v ...any) []any { return v }
	return []constant{
		{nil, "null", false}, {true, "true", false}, {false, "false", false}, {scriptref.Nothing{}, "nothing", false},
		{int64(0), "int", false}, {int64(12), "int", false}, {int64(-1), "int-negative", false}, {int64(12345678901), "int-large", false},
		{1.5, "float", false}, {-1.5, "float-negative", false}, {1.0, "float-integral", false}, {0.0, "float-integral", false},
		{-2.0, "float-integral", false}, {0.1, "float", false}, {1e20, "float-exponent", false}, {1e-7, "float-exponent", false},
		{-1.5e300, "float-exponent", false}, {123456789.125, "float", false}, {1e21, "float-exponent", false},
		{"", "string-empty", false}, {"a", "string", false}, {"a'b", "string-single-quote", false}, {`a"b`, "string-double-quote", false},
		{`a\b`, "string-backslash", false}, {"a/b", "string-slash", false}, {"\x01", "string-control", false}, {"a\nb\t", "string-newline-tab", false},
		{"é", "string-non-ascii", false}, {" ", "string-u2028", false}, {"\xff", "string-invalid-utf8", false}, {"a b", "string-space", false},
		{"(", "string-paren", false}, {")]", "string-paren", false}, {"&& ||", "string-operator", false}, {"Nothing", "string-keyword", false},
		{"true", "string-keyword", false}, {"@.a", "string-path", false}, {long65, "string-long", false},
		{allBytes(0x01, 0x1f), "string-all-controls", false}, {allBytes(0x20, 0x7e), "string-all-printable-ascii", false},
		{rx("a"), "regex", false}, {rx("a.c"), "regex", false}, {rx("a/b"), "regex-slash", false}, {rx(`a\.b`), "regex-backslash", false},
		{rx("^a$"), "regex", false}, {rx("[a-c]+"), "regex-class", false}, {rx("(a|b)"), "regex-group", false}, {rx("a'b"), "regex-quote", false},
		{rx(""), "regex-empty", false}, {rx(`\/`), "regex-escaped-slash", false},
		// backslashes in front of the delimiter, even and odd runs: only an odd run escapes it
		{rx(`a\\/b`), "regex-backslash-backslash-slash", false}, {rx(`a\\\/b`), "regex-three-backslashes-slash", false},
		{rx(`\\`), "regex-backslash-last", false}, {rx("a\nb"), "regex-control-character", false}, {rx("a\x01b\tc"), "regex-control-character", false}, {rx(`/`), "regex-slash-only", false}, {rx(`a/b/c`), "regex-two-slashes", false},
		{l(), "list-empty", false}, {l(int64(1)), "list", false}, {l(int64(1), "a"), "list", false}, {l(1.5, true, nil), "list", false},
		{l("a'b", `c\d`), "list-string-escapes", false}, {l(l(int64(1))), "list-nested", false}, {l(int64(-1), -2.5), "list-negative", false},
		{l(1.0), "list-float-integral", false}, {l(int64(1), "a"), "list-go-int", true}, {l(scriptref.Nothing{}), "list-nothing", false},
	}
}

func constCorpus(cv any) []any {
	vals := []any{nil, true, false, int64(-1), int64(0), int64(1), int64(2), int64(12), 1.5, 1.0, 0.5, "", "a", "b", "a'b", "a/b", "a.b", "abc", "1", "a\nb", "anb", "a\x01b\tc",
		[]any{}, []any{int64(1), "a"}, map[string]any{}, scriptref.Nothing{}}
	switch cv.(type) {
	case scriptref.Regex, scriptref.Nothing:
	default:
		vals = append(vals, cv)
	}
	out := make([]any, 0, len(vals))
	for _, v := range vals {
		el := map[string]any{}
		if _, missing := v.(scriptref.Nothing); !missing {
			el["a"] = gens.Clone(v)
		}
		out = append(out, el)
	}
	return out
}

func runConsts(c *core.Ctx, idx *int) {
	path := func() *node { return scriptref.P(scriptref.K("a")) }
	for _, k := range constants() {
		els := constCorpus(k.v)
		// neutral context "@.a == const": a discrepancy that already shows there belongs to the
		// constant itself and is reported once, without operator and side
		var neutral map[string]bool
		neutralFails := func() map[string]bool {
			if neutral == nil {
				neutral = map[string]bool{}
				ds, _, _ := roundTrip(c, scriptref.B("==", path(), scriptref.C(k.v)), k.goInt, els)
				mark(neutral, ds)
			}
			return neutral
		}
		type item struct {
			op, side string
			n        *node
		}
		var items []item
		for _, op := range append(append([]string{}, infix...), "match", "search") {
			items = append(items, item{op, "L", scriptref.B(op, scriptref.C(k.v), path())}, item{op, "R", scriptref.B(op, path(), scriptref.C(k.v))})
		}
		items = append(items, item{"!", "L", scriptref.N1("!", scriptref.C(k.v))})
		// arithmetic results are observed through a comparison with the element
		for _, op := range []string{"+", "-", "*", "/"} {
			items = append(items,
				item{op + ">==", "L", scriptref.B("==", scriptref.B(op, scriptref.C(k.v), scriptref.C(int64(2))), path())},
				item{op + ">==", "R", scriptref.B("==", scriptref.B(op, scriptref.C(int64(3)), scriptref.C(k.v)), path())})
		}
		for _, it := range items {
			mine := c.Mine(*idx)
			*idx++
			if !mine {
				continue
			}
			if c.Expired("C14 constants") {
				return
			}
			c.Add("equation_trees", 1)
			ds, texts, varied := roundTrip(c, it.n, k.goInt, els)
			if varied {
				c.Nontrivial()
			}
			if *idx%701 == 1 {
				c.Sample(map[string]any{"family": "const", "texts": texts, "elements": len(els), "discrepancies": len(ds)})
			}
			for _, d := range ds {
				sig := core.Sig("equation", "form="+d.form, "const="+k.class, d.kind)
				if it.op == "==" && it.side == "R" {
					// the neutral context itself
				} else if d.covered(neutralFails()) {
					c.Add("equation_failures_subsumed_by_the_constant_alone", 1)
					continue
				}
				if d.detail != "" {
					sig += "|" + d.detail
				}
				c.Fail(sig, eqCase{Family: "const", Eq: it.n, GoInt: k.goInt, Form: d.form, Kind: d.kind, Elems: specs(els), Texts: texts},
					len(textOf(texts, d.form)), d.exp, d.obs)
			}
		}
	}
}

func replayEq(c *core.Ctx, cs eqCase) {
	els := make([]any, len(cs.Elems))
	for i, e := range cs.Elems {
		els[i] = e.Value()
	}
	ds, _, _ := roundTrip(c, cs.Eq, cs.GoInt, els)
	for _, d := range ds {
		if d.form == cs.Form && d.kind == cs.Kind {
			c.Fail("replay|equation|"+d.form+"|"+d.kind, cs, len(textOf(cs.Texts, cs.Form)), d.exp, d.obs)
		}
	}
}
