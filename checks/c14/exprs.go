package c14

import (
	"fmt"
	"sort"
	"strings"

	"github.com/ohler55/ojg/jp"

	"verif/internal/core"
	"verif/internal/gens"
	"verif/internal/ref/scriptref"
)

// ------------------------------------------------------------------ alphabets

var long65 = strings.Repeat("k", 65)

// keys is the key alphabet of the property with a class name for signatures.
var keys = []struct{ key, class string }{
	{"a", "plain"}, {"", "empty"}, {"a b", "space-inside"}, {"a.b", "dot"}, {"a'b", "single-quote"}, {`a"b`, "double-quote"},
	{`a\b`, "backslash"}, {"[", "open-bracket"}, {"]", "close-bracket"}, {"*", "star"}, {"$", "dollar"}, {"@", "at-sign"},
	{"?", "question"}, {"-1", "negative-number"}, {"1a", "digit-first"}, {"é", "non-ascii"}, {" ", "space"}, {"\x01", "control"},
	{"\xff", "invalid-utf8"}, {long65, "long"},
	{allBytes(0x01, 0x1f), "all-controls"}, {allBytes(0x20, 0x7e), "all-printable-ascii"},
}

// allBytes is the string of all byte values lo..hi: one key / constant that
// exercises every cell of the printer's escape table in that range.
func allBytes(lo, hi int) string {
	b := make([]byte, 0, hi-lo+1)
	for i := lo; i <= hi; i++ {
		b = append(b, byte(i))
	}
	return string(b)
}

func keyClass(k string) string {
	for _, e := range keys {
		if e.key == k {
			return e.class
		}
	}
	return "other"
}

const maxEnd = 2147483647 // jp's "no end" marker, what parsing [1:] yields

func filterScripts() []*scriptref.Node {
	P, K, C, B, N1 := scriptref.P, scriptref.K, scriptref.C, scriptref.B, scriptref.N1
	nested := &scriptref.Path{Steps: []scriptref.Step{K("l"), {Filter: B("==", P(K("y")), C(int64(1)))}}}
	nested2 := &scriptref.Path{Steps: []scriptref.Step{K("l"), {Filter: B(">", P(), C(int64(1)))}}}
	return []*scriptref.Node{
		B("==", P(K("a")), C(int64(1))),
		B(">", P(), C(int64(1))),
		P(K("b")),
		N1("!", P(K("c"))),
		B("&&", B("==", P(K("a")), C(int64(1))), B("==", P(K("b")), C("x"))),
		B("==", N1("count", &scriptref.Node{Path: nested}), C(int64(1))),
		B("exists", &scriptref.Node{Path: nested2}, C(true)),
		B("~=", P(K("s")), C(scriptref.Regex("a.c"))),
		B("in", P(K("a")), C([]any{int64(1), "a"})),
		B("==", N1("length", P(K("s"))), C(int64(3))),
	}
}

// fragments is the fragment alphabet; the second result names each one's
// kind for signatures ("child", "union", ...).
func fragments(nonInitialRootAt bool) []gens.JPFrag {
	var out []gens.JPFrag
	for _, k := range keys {
		out = append(out, gens.JPChild(k.key))
	}
	for _, n := range []int{0, 1, -1, 12} {
		out = append(out, gens.JPNth(n))
	}
	out = append(out, gens.JPSimple("wild"), gens.JPSimple("desc"))
	for _, k := range keys {
		out = append(out, gens.JPUnion(k.key, 1))
	}
	out = append(out, gens.JPUnion(0, 1), gens.JPUnion("a", "b"), gens.JPUnion(0, "a", -1), gens.JPUnion("a"), gens.JPUnion(2), gens.JPUnion("a b", "a'b", "é"))
	for _, s := range [][]int{{0}, {1}, {-1}, {0, 2}, {1, 3}, {1, -1}, {-3, -1}, {0, maxEnd}, {1, 3, 1}, {0, 4, 2}, {1, maxEnd, 2},
		{3, 0, -1}, {0, maxEnd, -1}, {-1, 0, -2}, {1, 3, 0}, {1, 2, 3, 4}} {
		out = append(out, gens.JPSlice(s...))
	}
	for _, f := range filterScripts() {
		out = append(out, gens.JPFilter(f))
	}
	if nonInitialRootAt {
		out = append(out, gens.JPSimple("root"), gens.JPSimple("at"))
	}
	return out
}

// ------------------------------------------------------------------ data

type tailorer struct {
	ctr  int64
	mode int
}

func (t *tailorer) leaf() any { t.ctr++; return t.ctr }

func (t *tailorer) filterElems(rest []gens.JPFrag) []any {
	lm := func(y int64) any { return map[string]any{"y": y} }
	els := []any{
		map[string]any{"a": int64(1), "b": "x", "c": true, "l": []any{lm(1), lm(2)}, "s": "abc"},
		map[string]any{"a": int64(2), "b": true, "c": false, "l": []any{lm(1), lm(1)}, "s": "abd"},
		map[string]any{"a": "a", "l": []any{int64(1), int64(2), int64(3)}, "s": "xyz"},
		int64(5), int64(0),
	}
	if len(rest) > 0 && rest[0].K == "child" {
		for _, e := range els {
			if m, ok := e.(map[string]any); ok {
				m[string(rest[0].Key)] = t.build(rest[1:])
			}
		}
	}
	return els
}

// build makes data on which every fragment of fr selects something. In mode
// 0 every map has a single key except filter elements (so result order is
// defined when no filter is present); mode 1 uses multi-key maps.
func (t *tailorer) build(fr []gens.JPFrag) any {
	if len(fr) == 0 {
		return t.leaf()
	}
	f, rest := fr[0], fr[1:]
	arr := func(n int) any {
		out := make([]any, n)
		for i := range out {
			out[i] = t.build(rest)
		}
		return out
	}
	switch f.K {
	case "root", "at", "bracket":
		return t.build(rest)
	case "child":
		out := map[string]any{string(f.Key): t.build(rest)}
		if t.mode == 1 {
			out["~"] = t.leaf()
		}
		return out
	case "nth":
		return arr(3)
	case "wild":
		if t.mode == 1 {
			return map[string]any{"p": t.build(rest), "q": t.build(rest)}
		}
		return arr(2)
	case "desc":
		if t.mode == 1 {
			return []any{t.build(rest), map[string]any{"~d": t.build(rest), "~e": t.leaf()}}
		}
		return map[string]any{"~d": t.build(rest)}
	case "union":
		if t.mode == 1 {
			out := map[string]any{"~": t.leaf()}
			for _, m := range f.U {
				if m.S != nil {
					out[string(*m.S)] = t.build(rest)
				}
			}
			return out
		}
		return arr(3)
	case "slice":
		return arr(5)
	case "filter":
		els := t.filterElems(rest)
		if t.mode == 1 {
			out := map[string]any{}
			for i, e := range els {
				out[fmt.Sprintf("e%d", i)] = e
			}
			return out
		}
		return els
	}
	panic("tailor: " + f.K)
}

// generic is a fixed document with every key of the alphabet at the top and
// one level below, arrays and filterable elements.
func generic() any {
	t := &tailorer{ctr: 1000}
	inner := func() any {
		out := map[string]any{}
		for _, k := range keys {
			out[k.key] = t.leaf()
		}
		return out
	}
	top := map[string]any{}
	for i, k := range keys {
		switch i % 3 {
		case 0:
			top[k.key] = inner()
		case 1:
			top[k.key] = []any{t.leaf(), inner(), t.filterElems(nil)}
		default:
			top[k.key] = t.leaf()
		}
	}
	return []any{top, t.filterElems(nil), []any{t.leaf(), t.leaf(), t.leaf(), t.leaf(), t.leaf()}}
}

var genericDoc = generic()

// show renders a value kind-exactly with sorted map keys.
func show(v any) string {
	switch t := v.(type) {
	case nil:
		return "null"
	case string:
		return fmt.Sprintf("%q", t)
	case float64:
		return fmt.Sprintf("f%v", t)
	case []any:
		parts := make([]string, len(t))
		for i, e := range t {
			parts[i] = show(e)
		}
		return "[" + strings.Join(parts, ",") + "]"
	case map[string]any:
		ks := make([]string, 0, len(t))
		for k := range t {
			ks = append(ks, k)
		}
		sort.Strings(ks)
		parts := make([]string, len(ks))
		for i, k := range ks {
			parts[i] = fmt.Sprintf("%q:%s", k, show(t[k]))
		}
		return "{" + strings.Join(parts, ",") + "}"
	}
	return fmt.Sprint(v)
}

// results evaluates x on d: the rendered values, or the panic.
func results(c *core.Ctx, x jp.Expr, d any, ordered bool) (out string) {
	defer func() {
		if r := recover(); r != nil {
			out = "panic:" + gens.JPPanicKind(r)
		}
	}()
	c.Eval()
	vs := x.Get(d)
	parts := make([]string, len(vs))
	for i, v := range vs {
		parts[i] = show(v)
	}
	if !ordered {
		sort.Strings(parts)
	}
	return fmt.Sprintf("%d:", len(parts)) + strings.Join(parts, " ")
}

// ------------------------------------------------------------------ the expression round trip

// disc is one discrepancy of a case.
type disc struct {
	form   string // dot | bracket
	kind   string // parse-error | prints-differently | evaluates-differently | print-panic
	detail string // sub-kind for the signature (error class)
	exp    string
	obs    string
}

// keys lists the atomic forms of a possibly merged discrepancy. Subsumption
// is by form only: a smaller witness that is already broken in the same print
// form (whatever the symptom) explains the larger case.
func (d disc) keys() []string {
	var fs []string
	switch d.form {
	case "dot+bracket":
		fs = []string{"dot", "bracket"}
	case "all":
		fs = []string{"equation", "script", "filter"}
	case "script+filter":
		fs = []string{"script", "filter"}
	default:
		fs = []string{d.form}
	}
	return fs
}

// covered reports whether every (form, kind) of d is in m.
func (d disc) covered(m map[string]bool) bool {
	for _, k := range d.keys() {
		if !m[k] {
			return false
		}
	}
	return true
}

func mark(m map[string]bool, ds []disc) {
	for _, d := range ds {
		for _, k := range d.keys() {
			m[k] = true
		}
	}
}

func hasKind(x gens.JPExpr, kind string) bool {
	for _, f := range x {
		if f.K == kind {
			return true
		}
	}
	return false
}

func safeString(f func() string) (s string, pk string) {
	defer func() {
		if r := recover(); r != nil {
			pk = gens.JPPanicKind(r)
		}
	}()
	return f(), ""
}

// checkExpr runs the oracle on one expression description.
func checkExpr(c *core.Ctx, spec gens.JPExpr, evaluate bool) (out []disc, selected bool) {
	x := spec.Build()
	bracketed := hasKind(spec, "bracket")
	for _, form := range []string{"dot", "bracket"} {
		print := func(e jp.Expr) func() string {
			if form == "dot" {
				return e.String
			}
			return e.BracketString
		}
		s, pk := safeString(print(x))
		if pk != "" {
			out = append(out, disc{form, "print-panic", pk, "prints", "panic: " + pk})
			continue
		}
		y, err := jp.ParseString(s)
		if err != nil {
			out = append(out, disc{form, "parse-error", gens.JPPanicKind(err), "ParseString(" + fmt.Sprintf("%q", s) + ") succeeds", err.Error()})
			continue
		}
		s2, pk := safeString(print(y))
		if pk != "" {
			out = append(out, disc{form, "print-panic", pk, s, "re-parsed expression panics when printed: " + pk})
			continue
		}
		if s2 != s {
			// A Bracket fragment only switches the print mode and has no text form: the
			// re-parsed expression may print the same text in bracket mode instead.
			alt, _ := safeString(y.BracketString)
			if !(form == "dot" && bracketed && alt == s) {
				out = append(out, disc{form, "prints-differently", "", fmt.Sprintf("%q", s), fmt.Sprintf("%q", s2)})
			}
		}
		nBefore := len(out)
		if !evaluate {
			continue
		}
		frs := []gens.JPFrag(spec)
		ordered := !hasKind(spec, "filter")
		for mode := 0; mode < 3; mode++ {
			if descentAfterMulti(spec) && (mode > 0 || !ordered) {
				// Get descends into only one of several selected nodes (which one depends on map
				// order: `$.*..` on a two-member object) - a Get defect outside this property that
				// makes results on multi-key maps irreproducible; only the single-key data is used
				// (none when a filter is present: its elements are multi-key maps).
				c.Add("expr_map_data_skipped_descent_after_multi_selector", 1)
				break
			}
			var d any
			ord := false
			switch mode {
			case 0, 1:
				t := &tailorer{mode: mode}
				d = t.build(frs)
				ord = ordered && mode == 0
			default:
				d = genericDoc
			}
			rx, ry := results(c, x, d, ord), results(c, y, d, ord)
			if rx != "0:" {
				selected = true
			}
			if rx != ry {
				// the difference must be reproducible, or it is map order
				stable := true
				for i := 0; i < 3 && stable; i++ {
					stable = results(c, x, d, ord) == rx && results(c, y, d, ord) == ry
				}
				if !stable {
					c.Add("expr_irreproducible_results_ignored", 1)
					continue
				}
			}
			if rx != ry {
				ev := disc{form, "evaluates-differently", "", "Get gives " + clipS(rx), "re-parsed " + fmt.Sprintf("%q", s) + " gives " + clipS(ry) + " on " + clipS(show(d))}
				if nBefore > 0 && out[nBefore-1].form == form {
					out[nBefore-1] = ev // outranks prints-differently of the same form
				} else {
					out = append(out, ev)
				}
				break
			}
		}
	}
	if len(out) == 2 && out[0].kind == out[1].kind && out[0].detail == out[1].detail {
		out[0].form = "dot+bracket" // the same discrepancy in both print modes
		out = out[:1]
	}
	return out, selected
}

// descentAfterMulti reports whether a Descent comes after a fragment that can
// select several nodes.
func descentAfterMulti(spec gens.JPExpr) bool {
	multi := false
	for _, f := range spec {
		switch f.K {
		case "desc":
			if multi {
				return true
			}
			multi = true
		case "wild", "union", "slice", "filter":
			multi = true
		}
	}
	return false
}

func clipS(s string) string {
	if len(s) > 160 {
		return s[:160] + "…"
	}
	return s
}

type head struct {
	name  string
	frags gens.JPExpr
}

func heads() []head {
	var out []head
	for _, b := range []bool{false, true} {
		for _, h := range []string{"", "root", "at"} {
			var fr gens.JPExpr
			name := "nohead"
			if b {
				fr = append(fr, gens.JPSimple("bracket"))
			}
			if h != "" {
				fr = append(fr, gens.JPSimple(h))
				name = h
			}
			if b {
				name = "bracket+" + name
			}
			out = append(out, head{name, fr})
		}
	}
	return out
}

type exprRun struct {
	c    *core.Ctx
	memo map[string]map[string]bool
}

func specKey(spec gens.JPExpr) string {
	var b strings.Builder
	for _, f := range spec {
		fmt.Fprintf(&b, "%s|%q|%d|%v|%v;", f.K, string(f.Key), f.N, f.S, unionKey(f))
		if f.F != nil {
			fmt.Fprintf(&b, "%p", f.F)
		}
	}
	return b.String()
}

func unionKey(f gens.JPFrag) string {
	var b strings.Builder
	for _, m := range f.U {
		if m.S != nil {
			fmt.Fprintf(&b, "%q,", string(*m.S))
		} else {
			fmt.Fprintf(&b, "%d,", *m.I)
		}
	}
	return b.String()
}

// failing returns the discrepancy keys of a (sub-)expression, memoised.
func (r *exprRun) failing(spec gens.JPExpr) map[string]bool {
	k := specKey(spec)
	if m, ok := r.memo[k]; ok {
		return m
	}
	m := map[string]bool{}
	ds, _ := checkExpr(r.c, spec, true)
	mark(m, ds)
	if len(r.memo) < 200000 {
		r.memo[k] = m
	}
	return m
}

// subsumed reports whether a strictly smaller expression (one fragment or
// the head removed) shows the same discrepancy; then the smaller one is the
// witness and this case is only counted.
func (r *exprRun) subsumed(hd head, frs []gens.JPFrag, d disc) bool {
	join := func(h gens.JPExpr, f []gens.JPFrag) gens.JPExpr {
		return append(append(gens.JPExpr{}, h...), f...)
	}
	var subs []gens.JPExpr
	if len(frs) > 0 {
		subs = append(subs, join(hd.frags, frs[1:]), join(hd.frags, frs[:len(frs)-1]))
		if len(frs) > 2 {
			subs = append(subs, join(hd.frags, append(append([]gens.JPFrag{}, frs[:1]...), frs[2:]...)))
		}
	}
	for i := range hd.frags { // drop one head fragment (bracket or root/at)
		h := append(append(gens.JPExpr{}, hd.frags[:i]...), hd.frags[i+1:]...)
		subs = append(subs, join(h, frs))
	}
	for _, s := range subs {
		if d.covered(r.failing(s)) {
			return true
		}
	}
	return false
}

// coarse is the fragment class without key detail: how the fragment prints
// in dot mode (a dotted token or a bracketed form) is what matters to its
// neighbours.
func coarse(f gens.JPFrag) string {
	switch f.K {
	case "child":
		if s, _ := safeString(jp.C(string(f.Key)).String); strings.HasPrefix(s, "[") {
			return "child-quoted"
		}
		return "child-token"
	case "union":
		if len(f.U) == 1 {
			return "union-of-one"
		}
		return "union"
	case "filter":
		return "filter"
	case "slice":
		return "slice"
	case "nth":
		return "nth"
	}
	return f.K
}

// keySpecific returns the key classes of the witness when replacing every
// key by a plain one makes the discrepancy disappear, else "-".
func (r *exprRun) keySpecific(hd head, frs []gens.JPFrag, d disc) string {
	var classes []string
	plain := make([]gens.JPFrag, len(frs))
	for i, f := range frs {
		plain[i] = f
		switch f.K {
		case "child":
			canon := "a"
			if coarse(f) == "child-quoted" {
				canon = "a b"
			}
			if string(f.Key) != canon {
				classes = append(classes, keyClass(string(f.Key)))
				plain[i] = gens.JPChild(canon)
			}
		case "union":
			var ms []any
			for _, m := range f.U {
				if m.S != nil {
					if string(*m.S) != "a" && string(*m.S) != "b" {
						classes = append(classes, keyClass(string(*m.S)))
					}
					ms = append(ms, "a")
				} else {
					ms = append(ms, int(*m.I))
				}
			}
			plain[i] = gens.JPUnion(ms...)
		}
	}
	if len(classes) == 0 {
		return "-"
	}
	if d.covered(r.failing(append(append(gens.JPExpr{}, hd.frags...), plain...))) {
		return "-"
	}
	return strings.Join(classes, "+")
}

func exprSig(hd head, frs []gens.JPFrag, key string, d disc) string {
	parts := make([]string, len(frs))
	for i, f := range frs {
		parts[i] = coarse(f)
	}
	// A Root or At that is not the first fragment has no parseable text whatever surrounds it.
	for i, f := range frs {
		if (f.K == "root" || f.K == "at") && (i > 0 || hd.name != "nohead" && hd.name != "bracket+nohead") {
			return core.Sig("expr", "form="+d.form, "non-initial-"+f.K, d.kind)
		}
	}
	sig := []string{"expr", "form=" + d.form, "head=" + hd.name, "frags=" + strings.Join(parts, ">"), "key=" + key, d.kind}
	if d.detail != "" {
		sig = append(sig, d.detail)
	}
	return core.Sig(sig...)
}

type exprCase struct {
	Family string      `json:"family"`
	Expr   gens.JPExpr `json:"expr"`
	Form   string      `json:"form"`
	Kind   string      `json:"kind"`
	Text   string      `json:"text"`
}

func runExprs(c *core.Ctx) {
	maxFrags := c.Pick(2, 3)
	alpha := fragments(!c.Quick())
	r := &exprRun{c: c, memo: map[string]map[string]bool{}}
	idx := 0
	var rec func(hd head, frs []gens.JPFrag)
	visit := func(hd head, frs []gens.JPFrag) {
		mine := c.Mine(idx)
		idx++
		if !mine || (len(frs) == 0 && hd.name == "bracket+nohead") {
			return // a lone Bracket is only a print-mode switch, not an expression
		}
		spec := append(append(gens.JPExpr{}, hd.frags...), frs...)
		c.Add("exprs", 1)
		c.Case(func() string { return "expr " + specKey(spec) })
		ds, selected := checkExpr(c, spec, true)
		if selected {
			c.Nontrivial()
		}
		if idx%7919 == 4000 {
			s, _ := safeString(spec.Build().String)
			b, _ := safeString(spec.Build().BracketString)
			c.Sample(map[string]any{"family": "expr", "dot": s, "bracket": b, "discrepancies": len(ds)})
		}
		for _, d := range ds {
			if r.subsumed(hd, frs, d) {
				c.Add("expr_failures_subsumed_by_smaller_witness", 1)
				continue
			}
			s, _ := safeString(spec.Build().String)
			c.Fail(exprSig(hd, frs, r.keySpecific(hd, frs, d), d), exprCase{Family: "expr", Expr: spec, Form: d.form, Kind: d.kind, Text: s}, len(spec)*100+len(s), d.exp, d.obs)
		}
	}
	rec = func(hd head, frs []gens.JPFrag) {
		if len(frs) <= 1 && c.Expired("C14 expressions") {
			return
		}
		visit(hd, frs)
		if len(frs) == maxFrags {
			return
		}
		for _, f := range alpha {
			rec(hd, append(frs[:len(frs):len(frs)], f))
		}
	}
	for _, hd := range heads() {
		if c.Expired("C14 expressions") {
			return
		}
		rec(hd, nil)
	}
}

func replayExpr(c *core.Ctx, cs exprCase) {
	ds, _ := checkExpr(c, cs.Expr, true)
	for _, d := range ds {
		if (d.form == cs.Form || d.form == "dot+bracket" || cs.Form == "dot+bracket") && d.kind == cs.Kind {
			c.Fail("replay|expr|"+d.form+"|"+d.kind, cs, len(cs.Text), d.exp, d.obs)
		}
	}
}
