package c16

import (
	"fmt"
	"reflect"
	"sort"
	"strings"
	"unsafe"

	"github.com/ohler55/ojg/alt"

	"verif/checks/c16/typesa"
	"verif/checks/c16/typesb"
	"verif/internal/core"
	"verif/internal/snap"
)

// target is one letter of the history alphabet: recompose a fixed simple
// value into a fixed target type.
type target struct {
	name  string
	class string
	tree  func() any
	out   func() any
}

func customFn(m map[string]any) (any, error) {
	n, _ := m["n"].(int64)
	return &typesa.Custom{N: int(n) * 10}, nil
}

var targets = []target{
	{"typesa.T", "typesa.T",
		func() any { return map[string]any{"a": int64(1), "b": "x"} },
		func() any { return &typesa.T{} }},
	{"typesb.T", "typesb.T",
		func() any { return map[string]any{"x": 1.5, "y": []any{int64(1), int64(2)}} },
		func() any { return &typesb.T{} }},
	{"anon1", "anonymous-struct-1",
		func() any { return map[string]any{"p": int64(1), "q": "x"} },
		func() any { return &anon1{} }},
	{"anon2", "anonymous-struct-2",
		func() any { return map[string]any{"q": "y", "r": true} },
		func() any { return &anon2{} }},
	{"anonLong1", "anonymous-struct-long-1",
		func() any {
			return map[string]any{"firstFieldWithALongName": int64(1), "secondFieldWithALongName": "s", "thirdFieldWithALongName": true, "tailOne": int64(4)}
		},
		func() any { return &anonLong1{} }},
	{"anonLong2", "anonymous-struct-long-2",
		func() any {
			return map[string]any{"firstFieldWithALongName": int64(2), "secondFieldWithALongName": "t", "thirdFieldWithALongName": true, "tailTwo": "u"}
		},
		func() any { return &anonLong2{} }},
	{"typesa.Wrap", "embeds-typesa.T",
		func() any { return map[string]any{"a": int64(2), "b": "w", "w": true} },
		func() any { return &typesa.Wrap{} }},
	{"typesb.HasT", "field-of-typesb.T",
		func() any {
			return map[string]any{"label": "l", "item": map[string]any{"x": 2.5, "y": []any{int64(3)}}}
		},
		func() any { return &typesb.HasT{} }},
	{"typesa.Custom", "custom-function",
		func() any { return map[string]any{"n": int64(4)} },
		func() any { return &typesa.Custom{} }},
	// two types declared inside functions: one package path, one name, two types
	{"local1", "function-local-type-1",
		func() any { return map[string]any{"a": int64(1), "b": "x"} },
		localOne},
	{"local2", "function-local-type-2",
		func() any { return map[string]any{"x": 1.5, "y": []any{int64(1), int64(2)}, "z": true} },
		localTwo},
}

func localOne() any {
	type Local struct {
		A int
		B string
	}
	return &Local{}
}

func localTwo() any {
	type Local struct {
		X float64
		Y []int
		Z bool
	}
	return &Local{}
}

// recKind: private | default
type machine struct {
	kind string
	rec  *alt.Recomposer
}

func newMachine(kind string) *machine {
	m := &machine{kind: kind}
	if kind == "default" {
		alt.DefaultRecomposer = *freshRecomposer("")
		m.rec = &alt.DefaultRecomposer
	} else {
		m.rec = freshRecomposer("")
	}
	_ = m.rec.RegisterComposer(&typesa.Custom{}, customFn)
	return m
}

// step recomposes target t and renders the outcome.
func (m *machine) step(t int) (out string) {
	defer func() {
		if r := recover(); r != nil {
			out = "panic:" + errClass(fmt.Sprint(r)) + ": " + fmt.Sprint(r)
		}
	}()
	tg := targets[t]
	dst := tg.out()
	var err error
	var res any
	if m.kind == "default" {
		res, err = alt.Recompose(tg.tree(), dst)
	} else {
		res, err = m.rec.Recompose(tg.tree(), dst)
	}
	if err != nil {
		return "error:" + errClass(err.Error()) + ": " + err.Error()
	}
	return "ok: " + snap.Dump(res)
}

func accessible(v reflect.Value) reflect.Value {
	if v.CanInterface() || !v.CanAddr() {
		return v
	}
	return reflect.NewAt(v.Type(), unsafe.Pointer(v.UnsafeAddr())).Elem()
}

// stateKey renders the registry: key -> composer identity, type identity,
// function flags and field index.
func (m *machine) stateKey() string {
	cm, ok := snap.Field(m.rec, "composers")
	if !ok || cm.Kind() != reflect.Map {
		return "?"
	}
	var lines []string
	ids := map[uintptr]int{}
	keys := cm.MapKeys()
	sort.Slice(keys, func(i, j int) bool { return keys[i].String() < keys[j].String() })
	for _, k := range keys {
		cp := cm.MapIndex(k)
		if cp.IsNil() {
			lines = append(lines, fmt.Sprintf("%q:nil", k.String()))
			continue
		}
		id, seen := ids[cp.Pointer()]
		if !seen {
			id = len(ids)
			ids[cp.Pointer()] = id
		}
		c := cp.Elem()
		get := func(name string) reflect.Value { return accessible(c.FieldByName(name)) }
		rt := "-"
		if rv := get("rtype"); !rv.IsNil() {
			t := rv.Interface().(reflect.Type)
			rt = t.PkgPath() + "." + t.String()
		}
		var idx []string
		im := get("indexes")
		for _, ik := range im.MapKeys() {
			sf := im.MapIndex(ik).Interface().(reflect.StructField)
			idx = append(idx, fmt.Sprintf("%s>%s%v", ik.String(), sf.Name, sf.Index))
		}
		sort.Strings(idx)
		lines = append(lines, fmt.Sprintf("%q:#%d full=%s short=%s type=%s fun=%v any=%v idx=%s", k.String(), id,
			get("full").String(), get("short").String(), rt, !get("fun").IsNil(), !get("any").IsNil(), strings.Join(idx, ",")))
	}
	return strings.Join(lines, "\n")
}

type histories struct {
	c     *core.Ctx
	kind  string
	fresh []string
	trans int64
}

// runSeq replays a history on a new machine and returns the last outcome and
// the machine.
func (h *histories) runSeq(seq []int) (string, *machine) {
	m := newMachine(h.kind)
	out := ""
	for _, t := range seq {
		out = m.step(t)
		h.trans++
	}
	return out, m
}

func outcomeClass(fresh, got string) string {
	switch {
	case strings.HasPrefix(got, "panic:"), strings.HasPrefix(got, "error:"):
		return got[:strings.Index(got, ": ")]
	case strings.HasPrefix(fresh, "ok") && strings.HasPrefix(got, "ok"):
		return "different-value"
	}
	return "different-outcome"
}

func (h *histories) fail(seq []int, got string) {
	a := seq[len(seq)-1]
	min := append([]int{}, seq...)
	for changed := true; changed; {
		changed = false
		for i := 0; i < len(min)-1; i++ {
			cand := append(append([]int{}, min[:i]...), min[i+1:]...)
			if o, _ := h.runSeq(cand); o == got {
				min, changed = cand, true
				break
			}
		}
	}
	var before, txt []string
	seen := map[string]bool{}
	for _, t := range min[:len(min)-1] {
		if !seen[targets[t].class] {
			seen[targets[t].class] = true
			before = append(before, targets[t].class)
		}
	}
	sort.Strings(before)
	for _, t := range min {
		txt = append(txt, targets[t].name)
	}
	sig := core.Sig("history", "rec="+h.kind, "target="+targets[a].class, "after="+strings.Join(before, ","), outcomeClass(h.fresh[a], got))
	h.c.Fail(sig, caseT{Leg: "history", Rec: h.kind, Seq: min, SeqTxt: txt}, len(min), h.fresh[a], got)
}

func runHistory(c *core.Ctx) {
	L := c.Pick(3, 4)
	for _, kind := range []string{"private", "default"} {
		h := &histories{c: c, kind: kind}
		for t := range targets {
			o, _ := h.runSeq([]int{t})
			h.fresh = append(h.fresh, o)
			if o2, _ := h.runSeq([]int{t}); o2 != o {
				c.HarnessError("fresh outcome of %s is not reproducible: %q vs %q", targets[t].name, o, o2)
			}
			if !strings.HasPrefix(o, "ok") {
				c.Note("fresh recompose into %s does not succeed: %s", targets[t].name, o)
			}
		}
		_, m0 := h.runSeq(nil)
		type st struct {
			key string
			seq []int
		}
		states := map[string]bool{m0.stateKey(): true}
		frontier := []st{{m0.stateKey(), nil}}
		for depth := 0; depth < L; depth++ {
			var next []st
			for _, s := range frontier {
				if c.Expired("C16 history leg") {
					break
				}
				for t := range targets {
					seq := append(append([]int{}, s.seq...), t)
					got, m := h.runSeq(seq)
					c.Add("transitions", 1)
					if got != h.fresh[t] {
						h.fail(seq, got)
					}
					k := m.stateKey()
					if !states[k] {
						states[k] = true
						next = append(next, st{k, seq})
						if len(states)%5 == 2 {
							var txt []string
							for _, x := range seq {
								txt = append(txt, targets[x].name)
							}
							c.Sample(map[string]any{"recomposer": kind, "history": txt, "registry_keys": strings.Count(k, "\n") + 1})
						}
					}
				}
			}
			frontier = next
		}
		c.Add("states", int64(len(states)))
		c.Add("distinct_nontrivial", int64(len(states)))
		c.Add("implementation_steps_incl_replay", h.trans)
	}
	alt.DefaultRecomposer = *freshRecomposer("")
	tr := c.Report().Counters["transitions"]
	c.Add("traces_validated_against_impl", tr)
	c.Add("evaluations", tr)
}

func replayHistory(c *core.Ctx, cs caseT) {
	if len(cs.Seq) == 0 {
		c.HarnessError("empty history")
		return
	}
	for _, t := range cs.Seq {
		if t < 0 || t >= len(targets) {
			c.HarnessError("bad target %d", t)
			return
		}
	}
	h := &histories{c: c, kind: cs.Rec}
	a := cs.Seq[len(cs.Seq)-1]
	fresh, _ := h.runSeq([]int{a})
	got, _ := h.runSeq(cs.Seq)
	alt.DefaultRecomposer = *freshRecomposer("")
	if got != fresh {
		c.Fail(core.Sig("replay", "history", "rec="+cs.Rec, "target="+targets[a].class, outcomeClass(fresh, got)), cs, len(cs.Seq), fresh, got)
	}
}
