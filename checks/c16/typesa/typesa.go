// Package typesa declares named struct types for C16. typesb declares a
// different struct under the same short name T.
package typesa

// T has the same short name as typesb.T and different fields.
type T struct {
	A int
	B string
}

// Wrap embeds T.
type Wrap struct {
	T
	W bool
}

// Circle is a concrete type put behind an interface-typed field.
type Circle struct {
	R float64
}

// Square is a second concrete type for interface-typed fields.
type Square struct {
	Side int
	Tag  string
}

// Drawing has interface-typed fields; they need a create key to come back.
type Drawing struct {
	Name  string
	Shape any
	More  []any
}

// Node is recursive through a pointer.
type Node struct {
	Val  int
	Next *Node
}

// Custom is recomposed by a registered function.
type Custom struct {
	N int
}

// Tagged uses json tags.
type Tagged struct {
	ID    int     `json:"id"`
	Name  string  `json:"name,omitempty"`
	Score float64 `json:"score,string"`
	Skip  int     `json:"-"`
}

// Holder has an anonymous struct typed field.
type Holder struct {
	In struct {
		P int
		Q string
	}
	Z int
}
