package c16

import (
	"fmt"
	"reflect"

	"github.com/ohler55/ojg"
	"github.com/ohler55/ojg/oj"

	"verif/checks/c16/typesa"
	"verif/checks/c16/typesb"
	"verif/internal/core"
)

// Anon1 and Anon2 are two distinct anonymous struct types.
type (
	anon1 = struct {
		P int
		Q string
	}
	anon2 = struct {
		Q string
		R bool
	}
	// two anonymous struct types whose printed forms (reflect.Type.String) agree
	// in their first hundred bytes and differ in the last field only
	anonLong1 = struct {
		FirstFieldWithALongName  int
		SecondFieldWithALongName string
		ThirdFieldWithALongName  bool
		TailOne                  int
	}
	anonLong2 = struct {
		FirstFieldWithALongName  int
		SecondFieldWithALongName string
		ThirdFieldWithALongName  bool
		TailTwo                  string
	}
)

// flag is a named bool type; flags holds it at every position a value can have.
type flag bool

type flags struct {
	On   flag
	List []flag
	M    map[string]flag
	P    *flag
}

// wide64 holds integers that no float64 holds.
type wide64 struct {
	N int64
	U uint64
}

// casePair has two fields whose names differ in case only.
type casePair struct {
	AB *int
	Ab *int
}

// names has a field name of every length class and casing pattern the key
// rules distinguish (one, two, three, four and five letters; capitals at the
// front, inside, everywhere); no two names collide when lower-cased.
type names struct {
	A     int
	Bc    int
	DE    int
	Fgh   int
	IJK   int
	URL   string
	LMn   int
	OpQ   int
	Rstu  int
	VWXY  int
	ZaBcd int
}

// namedCase is one value of a named (or anonymous, declared) type.
type namedCase struct {
	name string // type and value label, unique
	typ  string // type class for the signature
	mk   func() any
	ck   bool  // needs a create key
	full bool  // with FullTypePath (two types share the short name)
	reg  []any // types registered on the fresh recomposer
}

func namedCases() []namedCase {
	return []namedCase{
		{name: "typesa.T/zero", typ: "typesa.T", mk: func() any { return &typesa.T{} }},
		{name: "typesa.T/nonzero", typ: "typesa.T", mk: func() any { return &typesa.T{A: 1, B: "b"} }},
		{name: "typesb.T/zero", typ: "typesb.T", mk: func() any { return &typesb.T{} }},
		{name: "typesb.T/nonzero", typ: "typesb.T", mk: func() any { return &typesb.T{X: 1.5, Y: []int{1, 2}} }},
		{name: "typesa.Wrap/nonzero", typ: "embeds-typesa.T", mk: func() any { return &typesa.Wrap{T: typesa.T{A: 2, B: "w"}, W: true} }},
		{name: "typesb.HasT/nonzero", typ: "field-of-typesb.T", mk: func() any { return &typesb.HasT{Label: "l", Item: typesb.T{X: 2.5, Y: []int{3}}} }},
		{name: "typesb.Deep/nonzero", typ: "containers-of-typesb.T", mk: func() any {
			return &typesb.Deep{M: map[string]*typesb.T{"k": {X: 1.5}}, L: []typesb.T{{X: 2.5, Y: []int{1}}}, P: &typesb.T{Y: []int{4}}}
		}},
		{name: "typesb.Deep/nils", typ: "containers-of-typesb.T", mk: func() any { return &typesb.Deep{} }},
		{name: "typesb.Nums/nonzero", typ: "numeric", mk: func() any {
			return &typesb.Nums{I8: -8, U16: 65535, U64: 1 << 40, F32: 1.5, F64: 2.25, I: -7}
		}},
		{name: "typesa.Node/chain", typ: "recursive-pointer", mk: func() any { return &typesa.Node{Val: 1, Next: &typesa.Node{Val: 2}} }},
		{name: "typesa.Custom/nonzero", typ: "plain", mk: func() any { return &typesa.Custom{N: 4} }},
		{name: "typesa.Tagged/nonzero", typ: "tagged", mk: func() any { return &typesa.Tagged{ID: 3, Name: "n", Score: 2.25} }},
		{name: "typesa.Tagged/zero", typ: "tagged", mk: func() any { return &typesa.Tagged{} }},
		{name: "typesa.Holder/nonzero", typ: "anonymous-struct-field", mk: func() any {
			h := &typesa.Holder{Z: 3}
			h.In.P, h.In.Q = 1, "q"
			return h
		}},
		{name: "flags/nonzero", typ: "named-bool", mk: func() any {
			t := flag(true)
			return &flags{On: true, List: []flag{true, false}, M: map[string]flag{"k": true}, P: &t}
		}},
		{name: "wide64/beyond-2^53", typ: "integers-beyond-2^53", mk: func() any { return &wide64{N: 9007199254740993, U: 9007199254740993} }},
		{name: "casePair/second-only", typ: "fields-that-differ-in-case", mk: func() any { one := 1; return &casePair{Ab: &one} }},
		{name: "names/nonzero", typ: "field-names", mk: func() any {
			return &names{A: 1, Bc: 2, DE: 3, Fgh: 4, IJK: 5, URL: "u", LMn: 6, OpQ: 7, Rstu: 8, VWXY: 9, ZaBcd: 10}
		}},
		{name: "anonLong1/nonzero", typ: "anonymous-struct", mk: func() any {
			return &anonLong1{FirstFieldWithALongName: 1, SecondFieldWithALongName: "s", ThirdFieldWithALongName: true, TailOne: 4}
		}},
		{name: "anonLong2/nonzero", typ: "anonymous-struct", mk: func() any {
			return &anonLong2{FirstFieldWithALongName: 1, SecondFieldWithALongName: "s", ThirdFieldWithALongName: true, TailTwo: "t"}
		}},
		{name: "anon1/nonzero", typ: "anonymous-struct", mk: func() any { return &anon1{P: 1, Q: "x"} }},
		{name: "anon2/nonzero", typ: "anonymous-struct", mk: func() any { return &anon2{Q: "y", R: true} }},
		{name: "typesa.Drawing/shapes", typ: "interface-fields", ck: true, reg: []any{&typesa.Circle{}, &typesa.Square{}}, mk: func() any {
			return &typesa.Drawing{Name: "d", Shape: &typesa.Circle{R: 1.5}, More: []any{&typesa.Square{Side: 2, Tag: "t"}, "s", 2.5}}
		}},
		{name: "typesa.Drawing/nil-shape", typ: "interface-fields", ck: true, reg: []any{&typesa.Circle{}, &typesa.Square{}}, mk: func() any {
			return &typesa.Drawing{Name: "d"}
		}},
		{name: "typesa.Drawing/one-T", typ: "interface-fields", ck: true, reg: []any{&typesa.T{}}, mk: func() any {
			return &typesa.Drawing{Name: "d", Shape: &typesa.T{A: 1, B: "b"}}
		}},
		// both T registered; the full type path makes the create key unambiguous
		{name: "typesa.Drawing/both-T", typ: "interface-fields-same-named-types", ck: true, full: true, reg: []any{&typesa.T{}, &typesb.T{}}, mk: func() any {
			return &typesa.Drawing{Name: "d", Shape: &typesa.T{A: 1, B: "b"}, More: []any{&typesb.T{X: 1.5, Y: []int{1}}}}
		}},
		{name: "typesa.Drawing/both-T-reversed", typ: "interface-fields-same-named-types", ck: true, full: true, reg: []any{&typesb.T{}, &typesa.T{}}, mk: func() any {
			return &typesa.Drawing{Name: "d", Shape: &typesa.T{A: 1, B: "b"}, More: []any{&typesb.T{X: 1.5, Y: []int{1}}}}
		}},
	}
}

func runNamedCase(nc namedCase, leg string) (failure, obs string) {
	ptr := reflect.ValueOf(nc.mk())
	want := reflect.ValueOf(nc.mk())
	out, failure, msg := roundTrip(leg, ptr, nc.ck, nc.reg, nc.full)
	if failure != "" {
		return failure, msg
	}
	if !equalMod(want.Elem(), out.Elem()) {
		return "different-value", fmt.Sprintf("want %s got %s", oj.JSON(want.Interface(), &ojg.Options{Sort: true}), oj.JSON(out.Interface(), &ojg.Options{Sort: true}))
	}
	return "", ""
}

func runNamed(c *core.Ctx, ex *explorer) {
	types := map[string]bool{}
	for _, nc := range namedCases() {
		types[nc.typ] = true
		for _, leg := range legs {
			ex.evals++
			c.Nontrivial()
			if failure, obs := runNamedCase(nc, leg); failure != "" {
				sig := core.Sig("named", "trip="+leg, failure, "type="+nc.typ)
				c.Fail(sig, caseT{Leg: "named", Trip: leg, Named: nc.name, Disc: failure}, len(nc.name), "a value deeply equal to the original", obs)
			}
		}
	}
	c.Add("named_type_cases", int64(len(namedCases())))
	c.Sample(map[string]any{"named_cases": len(namedCases()), "example": "typesa.Drawing{Shape: &typesa.Circle{R: 1.5}, More: []any{&typesa.Square{...}, \"s\", 2.5}} with create key"})
}

func replayNamed(c *core.Ctx, cs caseT) {
	for _, nc := range namedCases() {
		if nc.name == cs.Named {
			if failure, obs := runNamedCase(nc, cs.Trip); failure != "" {
				c.Fail(core.Sig("replay", "named", "trip="+cs.Trip, failure), cs, 1, "a value deeply equal to the original", obs)
			}
			return
		}
	}
	c.HarnessError("unknown named case %q", cs.Named)
}
