// Package c16 decides C16: Decompose/Recompose and Marshal/Unmarshal are
// inverse on user types, and the outcome for one target type never depends on
// which other types the recomposer has seen before.
//
// Value leg: struct types (reflect.StructOf enumeration plus named types of
// two packages) x values x three round trips, each on a fresh Recomposer.
// History leg: explicit-state BFS over the registry content of one recomposer
// (a private one and alt.DefaultRecomposer); every transition recomposes a
// fixed value into one target type and must give what a fresh recomposer gives.
package c16

import (
	"encoding/json"
	"fmt"
	"reflect"
	"strings"
	"time"

	"github.com/ohler55/ojg"
	"github.com/ohler55/ojg/alt"
	"github.com/ohler55/ojg/oj"
	"github.com/ohler55/ojg/sen"

	"verif/internal/core"
	"verif/internal/gens"
)

func init() {
	core.Register(&core.Check{
		ID:     "C16",
		Level:  "model_checking",
		Shards: func(tier string) int { return 16 },
		Run:    run,
		Replay: replay,
		Rule: "history leg: states = distinct registry contents of one recomposer (keys -> type identity, field index, function flags), transitions = (state, target type) executions of Recompose on the real recomposer, " +
			"each compared with a fresh recomposer; value leg: every field sequence over (22 field kinds x 6 tag classes) built with reflect.StructOf plus 14 named types x value vectors x " +
			"{alt.Recompose(alt.Decompose(v)), oj.Unmarshal(oj.Marshal(v)), sen.Unmarshal(sen.Bytes(v))}, each on a fresh alt.Recomposer; evaluations = round trips + transitions; " +
			"distinct_nontrivial = (type, value, round trip) cases with at least one non-zero field + registry states",
		Assumptions: []string{
			"package default options are used for every round trip (alt.Decompose(v), oj.Marshal(v), sen.Bytes(v)); a create key (\"type\") is added only where an interface-typed field holds a struct pointer",
			"a fresh recomposer is alt.MustNewRecomposer plus the json.Unmarshaler composer that package oj registers on the default one",
			"fields tagged json:\"-\" are expected to come back zero; nil and empty slices or maps are not distinguished; time.Time is compared with Equal",
			"the registry (Recomposer.composers, read with reflect+unsafe) is the only state of a recomposer that outlives a call",
			"failures are reported at their minimal field sequence / minimal history; a failing round trip of a type is not reported when a type with one field less already fails as a whole (Recompose visits fields in map order, so which of two failing fields errors first is not fixed)",
		},
		Bound: func(tier string) string {
			if tier == "thorough" {
				return "value leg: field sequences of length 1-2 (full alphabet, all value vectors) and 3 (thinned alphabet, {first,last} values), 14 named types; history leg: all orders over 9 target types (named, same-named from another package, anonymous, same-named declared inside two functions) up to length 4, dedup on registry state, private and default recomposer"
			}
			return "value leg: field sequences of length 1-2 (full alphabet, all value vectors), 14 named types; history leg: all orders over 9 target types (named, same-named from another package, anonymous, same-named declared inside two functions) up to length 3, dedup on registry state, private and default recomposer"
		},
	})
}

const createKey = "type"

func toJSON(v any) (any, error) { return []byte(oj.JSON(v)), nil }

// freshRecomposer is the initial state of every round trip and history.
func freshRecomposer(ck string, register ...any) *alt.Recomposer {
	r := alt.MustNewRecomposer(ck, nil)
	r.RegisterUnmarshalerComposer(toJSON)
	for _, v := range register {
		_ = r.RegisterComposer(v, nil)
	}
	return r
}

// ---- equality modulo nil/empty ------------------------------------------

var timeType = reflect.TypeOf(time.Time{})

// equalMod compares want and got; skip tells which top-level fields are
// expected to be zero in got (json:"-").
func equalMod(want, got reflect.Value) bool {
	if !want.IsValid() || !got.IsValid() {
		return want.IsValid() == got.IsValid()
	}
	if want.Type() != got.Type() {
		return false
	}
	if want.Type() == timeType {
		return want.Interface().(time.Time).Equal(got.Interface().(time.Time))
	}
	switch want.Kind() {
	case reflect.Ptr:
		if want.IsNil() || got.IsNil() {
			return want.IsNil() == got.IsNil()
		}
		return equalMod(want.Elem(), got.Elem())
	case reflect.Interface:
		if want.IsNil() || got.IsNil() {
			return want.IsNil() == got.IsNil()
		}
		return equalMod(want.Elem(), got.Elem())
	case reflect.Slice:
		if want.Len() != got.Len() {
			return false
		}
		for i := 0; i < want.Len(); i++ {
			if !equalMod(want.Index(i), got.Index(i)) {
				return false
			}
		}
		return true
	case reflect.Array:
		for i := 0; i < want.Len(); i++ {
			if !equalMod(want.Index(i), got.Index(i)) {
				return false
			}
		}
		return true
	case reflect.Map:
		if want.Len() != got.Len() {
			return false
		}
		it := want.MapRange()
		for it.Next() {
			g := got.MapIndex(it.Key())
			if !g.IsValid() || !equalMod(it.Value(), g) {
				return false
			}
		}
		return true
	case reflect.Struct:
		for i := 0; i < want.NumField(); i++ {
			if want.Type().Field(i).PkgPath != "" && !want.Type().Field(i).Anonymous {
				continue // private fields are not reachable
			}
			if !equalMod(want.Field(i), got.Field(i)) {
				return false
			}
		}
		return true
	}
	return reflect.DeepEqual(want.Interface(), got.Interface())
}

// ---- round trips ----------------------------------------------------------

var legs = []string{"decompose", "marshal", "sen"}

func errClass(msg string) string {
	for _, kv := range [][2]string{
		{"Value.Set on zero Value", "set-zero-value"},
		{"Set using unaddressable", "unaddressable"},
		{"can only recompose a", "kind-mismatch"},
		{"UnmarshalJSON", "unmarshal-json"},
		{"NumField of non-struct", "numfield-non-struct"},
		{"nil pointer to embedded", "nil-embedded-pointer"},
		{"can not convert", "cannot-convert"},
		{"cannot be converted", "reflect-convert"},
		{"Convert", "reflect-convert"},
		{"not assignable", "not-assignable"},
		{"can not recompose", "cannot-recompose"},
		{"strconv", "strconv"},
		{"index out of range", "index-out-of-range"},
		{"nil pointer dereference", "nil-dereference"},
		{"invalid memory address", "nil-dereference"},
		{"unaddressable", "unaddressable"},
	} {
		if strings.Contains(msg, kv[0]) {
			return kv[1]
		}
	}
	return "other"
}

// roundTrip runs one leg for the value ptr points to and returns the pointer
// to the reproduced value.
// decomposeOpts, when set, replaces the default Decompose options (used only
// to describe a failure: which documented option would have made it pass).
var decomposeOpts *ojg.Options

func roundTrip(leg string, ptr reflect.Value, needCK bool, register []any, fullPath ...bool) (out reflect.Value, failure, msg string) {
	defer func() {
		if r := recover(); r != nil {
			failure, msg = "panic:"+errClass(fmt.Sprint(r)), fmt.Sprint(r)
		}
	}()
	ck := ""
	if needCK {
		ck = createKey
	}
	full := len(fullPath) > 0 && fullPath[0]
	rec := freshRecomposer(ck, register...)
	out = reflect.New(ptr.Type().Elem())
	var err error
	switch leg {
	case "decompose":
		var tree any
		switch {
		case decomposeOpts != nil:
			o := *decomposeOpts
			if needCK {
				o.CreateKey = createKey
				o.FullTypePath = full
			}
			tree = alt.Decompose(ptr.Interface(), &o)
		case needCK:
			o := alt.DefaultOptions
			o.CreateKey = createKey
			o.FullTypePath = full
			tree = alt.Decompose(ptr.Interface(), &o)
		default:
			tree = alt.Decompose(ptr.Interface())
		}
		_, err = rec.Recompose(tree, out.Interface())
	case "marshal":
		var b []byte
		if needCK {
			o := ojg.GoOptions
			o.CreateKey = createKey
			o.FullTypePath = full
			b, err = oj.Marshal(ptr.Interface(), &o)
		} else {
			b, err = oj.Marshal(ptr.Interface())
		}
		if err != nil {
			return out, "encode-error:" + errClass(err.Error()), err.Error()
		}
		if len(b) == 0 {
			return out, "encode-error:empty", "oj.Marshal returned nothing"
		}
		err = oj.Unmarshal(b, out.Interface(), rec)
		if err != nil {
			msg = string(b)
		}
	case "sen":
		var b []byte
		if needCK {
			o := ojg.DefaultOptions
			o.CreateKey = createKey
			o.FullTypePath = full
			b = append(b, sen.Bytes(ptr.Interface(), &o)...)
		} else {
			b = append(b, sen.Bytes(ptr.Interface())...)
		}
		if len(b) == 0 {
			return out, "encode-error:empty", "sen.Bytes returned nothing"
		}
		err = sen.Unmarshal(b, out.Interface(), rec)
		if err != nil {
			msg = string(b)
		}
	}
	if err != nil {
		return out, "error:" + errClass(err.Error()), err.Error() + " " + msg
	}
	return out, "", ""
}

// ---- StructOf value leg ---------------------------------------------------

// valsOf is the C16 value list of a kind: the shared one without the
// interface values that cannot come back by construction (a typed nil pointer
// and a struct by value inside an interface), plus a struct pointer inside an
// interface, which needs the create key.
func valsOf(kind int) []gens.Val {
	k := gens.Kinds[kind]
	if k.Name != "any" {
		return k.Vals
	}
	var out []gens.Val
	for _, v := range k.Vals {
		if v.Name == "typednil" || v.Name == "struct" {
			continue
		}
		out = append(out, v)
	}
	anyT := k.Type
	out = append(out, gens.Val{Name: "ptrstruct", New: func() reflect.Value {
		x := reflect.New(anyT).Elem()
		x.Set(reflect.ValueOf(&gens.Inner{X: 1, Y: "y"}))
		return x
	}})
	return out
}

func choices(spec gens.StructSpec, full bool) [][]int {
	out := [][]int{{}}
	for _, f := range spec {
		n := len(valsOf(f.Kind))
		idx := []int{}
		if full || n <= 2 {
			for i := 0; i < n; i++ {
				idx = append(idx, i)
			}
		} else {
			idx = []int{0, n - 1}
		}
		var next [][]int
		for _, pre := range out {
			for _, i := range idx {
				next = append(next, append(append([]int{}, pre...), i))
			}
		}
		out = next
	}
	return out
}

func newValue(spec gens.StructSpec, t reflect.Type, vals []int, zeroDash bool) reflect.Value {
	p := reflect.New(t)
	for i, f := range spec {
		if zeroDash && gens.Tags[f.Tag].Name == "-" {
			continue
		}
		p.Elem().Field(i).Set(valsOf(f.Kind)[vals[i]].New())
	}
	return p
}

func valName(spec gens.StructSpec, vals []int, i int) string {
	return valsOf(spec[i].Kind)[vals[i]].Name
}

func needsCK(spec gens.StructSpec, vals []int) bool {
	for i := range spec {
		if valName(spec, vals, i) == "ptrstruct" {
			return true
		}
	}
	return false
}

type fkey struct {
	field int // >=0 a field, -1 the whole round trip
	disc  string
}

type outcome struct {
	keys map[fkey]string // -> observed text
}

type explorer struct {
	c     *core.Ctx
	memo  map[string]*outcome
	evals int64
}

func tagCoarse(t int) string {
	switch gens.Tags[t].Name {
	case "name,omitempty", ",omitempty":
		return "omitempty"
	}
	return gens.Tags[t].Name
}

// evalCase runs one leg on one (type, values) case.
func (ex *explorer) evalCase(spec gens.StructSpec, vals []int, leg string) *outcome {
	key := fmt.Sprint([]gens.FieldSpec(spec), vals, leg)
	if o, ok := ex.memo[key]; ok {
		return o
	}
	t := spec.Type()
	o := &outcome{keys: map[fkey]string{}}
	ptr := newValue(spec, t, vals, false)
	want := newValue(spec, t, vals, true)
	ck := needsCK(spec, vals)
	var reg []any
	if ck {
		reg = []any{&gens.Inner{}}
	}
	ex.evals++
	out, failure, msg := roundTrip(leg, ptr, ck, reg)
	if failure != "" {
		o.keys[fkey{-1, failure}] = msg
	} else {
		for i := range spec {
			if !equalMod(want.Elem().Field(i), out.Elem().Field(i)) {
				o.keys[fkey{i, "different-value"}] = fmt.Sprintf("field %s: want %s got %s", spec.FieldName(i),
					oj.JSON(want.Elem().Field(i).Interface(), &ojg.Options{Sort: true}), oj.JSON(out.Elem().Field(i).Interface(), &ojg.Options{Sort: true}))
			}
		}
	}
	if len(ex.memo) > 300000 {
		ex.memo = map[string]*outcome{}
	}
	ex.memo[key] = o
	return o
}

func without(spec gens.StructSpec, vals []int, j int) (gens.StructSpec, []int) {
	s := append(gens.StructSpec{}, spec[:j]...)
	s = append(s, spec[j+1:]...)
	v := append([]int{}, vals[:j]...)
	v = append(v, vals[j+1:]...)
	return s, v
}

type caseT struct {
	Leg    string           `json:"leg"` // value | named | history
	Trip   string           `json:"round_trip,omitempty"`
	Spec   []gens.FieldSpec `json:"spec,omitempty"`
	Type   string           `json:"type,omitempty"`
	Vals   []int            `json:"vals,omitempty"`
	Values []string         `json:"values,omitempty"`
	Field  int              `json:"field"`
	Disc   string           `json:"disc,omitempty"`
	Named  string           `json:"named,omitempty"`
	Rec    string           `json:"recomposer,omitempty"`
	Seq    []int            `json:"seq,omitempty"`
	SeqTxt []string         `json:"seq_text,omitempty"`
}

// judgeType reports the minimal unexplained failures of one type.
func (ex *explorer) judgeType(spec gens.StructSpec, full bool) {
	intKind := gens.KindIndex("int")
	for _, vals := range choices(spec, full) {
		nonzero := false
		for _, v := range vals {
			if v != 0 {
				nonzero = true
			}
		}
		for _, leg := range legs {
			o := ex.evalCase(spec, vals, leg)
			if nonzero {
				ex.c.Nontrivial()
			}
			for k, obs := range o.keys {
				ex.c.Add("failing_round_trips", 1)
				// explained by a type with one field less?
				explained := false
				if len(spec) > 1 {
					for j := range spec {
						if j == k.field {
							continue
						}
						s, v := without(spec, vals, j)
						sk := k
						if k.field > j {
							sk.field--
						}
						sub := ex.evalCase(s, v, leg)
						if _, ok := sub.keys[sk]; ok {
							explained = true
							break
						}
						if k.field < 0 {
							// Recompose walks its field index in map order: with two
							// failing fields either error may come first, so any
							// whole round-trip failure of the simpler type explains
							for kk := range sub.keys {
								if kk.field < 0 {
									explained = true
								}
							}
							if explained {
								break
							}
						}
					}
				}
				if explained {
					continue
				}
				// shrink along the enumeration order while the failure stays
				cs, cv := append(gens.StructSpec{}, spec...), append([]int{}, vals...)
				try := func(s gens.StructSpec, v []int) bool {
					if !s.Valid() {
						return false
					}
					for i := range s {
						if v[i] >= len(valsOf(s[i].Kind)) {
							return false
						}
					}
					if ob, ok := ex.evalCase(s, v, leg).keys[k]; ok {
						cs, cv, obs = s, v, ob
						return true
					}
					return false
				}
				simplify := func(j int) {
					for changed := true; changed; {
						changed = false
						if cs[j].Tag != 0 {
							s2 := append(gens.StructSpec{}, cs...)
							s2[j].Tag = 0
							changed = try(s2, cv) || changed
						}
						if cs[j].Kind != intKind {
							s2 := append(gens.StructSpec{}, cs...)
							s2[j].Kind = intKind
							v2 := append([]int{}, cv...)
							if v2[j] != 0 {
								v2[j] = 1
							}
							changed = try(s2, v2) || changed
						}
						if cv[j] != 0 {
							v2 := append([]int{}, cv...)
							v2[j] = 0
							changed = try(cs, v2) || changed
						}
					}
				}
				for j := range cs {
					if j != k.field {
						simplify(j)
					}
				}
				if k.field >= 0 {
					simplify(k.field)
				}
				desc := func(j int) string {
					return gens.Kinds[cs[j].Kind].Class + ":" + tagCoarse(cs[j].Tag) + ":" + valName(cs, cv, j)
				}
				field, nbs := "document", []string{}
				for j := range cs {
					switch {
					case j == k.field:
						field = desc(j)
					case k.field >= 0 && j < k.field:
						nbs = append(nbs, "before:"+desc(j))
					case k.field >= 0:
						nbs = append(nbs, "after:"+desc(j))
					default:
						nbs = append(nbs, desc(j))
					}
				}
				nb := "none"
				if len(nbs) > 0 {
					nb = strings.Join(nbs, ",")
				}
				sig := core.Sig("value", "trip="+leg, k.disc, "field="+field, "with="+nb)
				if leg == "decompose" {
					sig = core.Sig(sig, "passes-with="+ex.otherOptions(cs, cv, k))
				}
				var names []string
				for j := range cs {
					names = append(names, valName(cs, cv, j))
				}
				size := len(cs)*100 + sumInts(cv)
				ex.c.Fail(sig, caseT{Leg: "value", Trip: leg, Spec: cs, Type: cs.String(), Vals: cv, Values: names, Field: k.field, Disc: k.disc}, size,
					"a value deeply equal to the original (nil and empty slices or maps alike)", obs)
			}
		}
	}
}

// otherOptions names the first documented Decompose option set under which the
// failing decompose/recompose case round-trips ("none" if there is none). It
// only describes the finding: the default options are what is judged.
func (ex *explorer) otherOptions(spec gens.StructSpec, vals []int, k fkey) string {
	defer func() { decomposeOpts = nil }()
	for _, alt := range []struct {
		name string
		o    ojg.Options
	}{
		{"BytesAsArray", ojg.Options{BytesAs: ojg.BytesAsArray, OmitNil: true}},
		{"BytesAsBase64", ojg.Options{BytesAs: ojg.BytesAsBase64, OmitNil: true}},
		{"TimeFormat=RFC3339Nano", ojg.Options{TimeFormat: time.RFC3339Nano, OmitNil: true}},
		{"GoOptions", ojg.GoOptions},
	} {
		o := alt.o
		decomposeOpts = &o
		t := spec.Type()
		ptr := newValue(spec, t, vals, false)
		want := newValue(spec, t, vals, true)
		ck := needsCK(spec, vals)
		var reg []any
		if ck {
			reg = []any{&gens.Inner{}}
		}
		out, failure, _ := roundTrip("decompose", ptr, ck, reg)
		ex.evals++
		if failure == "" && equalMod(want.Elem(), out.Elem()) {
			return alt.name
		}
	}
	return "none"
}

func sumInts(a []int) int {
	n := 0
	for _, x := range a {
		n += x
	}
	return n
}

func run(c *core.Ctx) {
	ex := &explorer{c: c, memo: map[string]*outcome{}}
	idx := 0
	nTypes := int64(0)
	stop := false
	each := func(alpha []gens.FieldSpec, n int, full bool) {
		gens.Specs(alpha, n, func(_ int, s gens.StructSpec) {
			i := idx
			idx++
			if stop || !c.Mine(i) {
				return
			}
			if c.Expired("C16 value leg") {
				stop = true
				return
			}
			nTypes++
			ex.judgeType(s, full)
			if nTypes%97 == 1 {
				c.Sample(map[string]any{"type": s.String(), "value_vectors": len(choices(s, full)), "round_trips": legs})
			}
		})
	}
	alpha := gens.FieldAlphabet(gens.AllKinds())
	each(alpha, 1, true)
	each(alpha, 2, true)
	if !c.Quick() {
		var thin []gens.FieldSpec
		for _, k := range gens.ThinKinds() {
			if gens.Kinds[k].Embedded {
				thin = append(thin, gens.FieldSpec{Kind: k})
				continue
			}
			for _, t := range gens.ThinTags {
				thin = append(thin, gens.FieldSpec{Kind: k, Tag: t})
			}
		}
		each(thin, 3, false)
	}
	c.Add("struct_types", nTypes)
	// named types and the history leg are small: shard 0 and 1 take them
	if c.Shard == 0 {
		runNamed(c, ex)
	}
	if c.Shard == 1%c.NShards {
		runHistory(c)
	}
	c.Add("evaluations", ex.evals)
}

func replay(c *core.Ctx, raw json.RawMessage) {
	var cs caseT
	if err := json.Unmarshal(raw, &cs); err != nil {
		c.HarnessError("bad case: %v", err)
		return
	}
	ex := &explorer{c: c, memo: map[string]*outcome{}}
	switch cs.Leg {
	case "history":
		replayHistory(c, cs)
	case "named":
		replayNamed(c, cs)
	default:
		spec := gens.StructSpec(cs.Spec)
		if !spec.Valid() || len(cs.Vals) != len(spec) {
			c.HarnessError("bad case spec")
			return
		}
		for i := range spec {
			if cs.Vals[i] < 0 || cs.Vals[i] >= len(valsOf(spec[i].Kind)) {
				c.HarnessError("bad value index")
				return
			}
		}
		o := ex.evalCase(spec, cs.Vals, cs.Trip)
		if obs, ok := o.keys[fkey{cs.Field, cs.Disc}]; ok {
			c.Fail(core.Sig("replay", "value", "trip="+cs.Trip, cs.Disc), cs, 1, "a value deeply equal to the original", obs)
		}
	}
}
