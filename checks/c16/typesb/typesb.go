// Package typesb declares named struct types for C16, among them a T that
// shares its short name with typesa.T.
package typesb

// T has the same short name as typesa.T and different fields.
type T struct {
	X float64
	Y []int
}

// HasT has a field of type T.
type HasT struct {
	Label string
	Item  T
}

// Deep nests T in containers.
type Deep struct {
	M map[string]*T
	L []T
	P *T
}

// Nums covers the numeric conversions.
type Nums struct {
	I8  int8
	U16 uint16
	U64 uint64
	F32 float32
	F64 float64
	I   int
}
