package c16

import (
	"reflect"
	"strings"
	"testing"
	"time"

	"verif/checks/c16/typesa"
)

func TestEqualMod(t *testing.T) {
	type S struct {
		A []int
		M map[string]int
		P *int
		I any
		T time.Time
		x int
	}
	one, uno := 1, 1
	tm := time.Unix(1, 5)
	eq := func(a, b S) bool { return equalMod(reflect.ValueOf(a), reflect.ValueOf(b)) }
	if !eq(S{}, S{A: []int{}, M: map[string]int{}}) {
		t.Error("nil and empty containers must be alike")
	}
	if !eq(S{P: &one, T: tm, x: 1}, S{P: &uno, T: tm.UTC(), x: 2}) {
		t.Error("pointers are compared by target, times with Equal, private fields not at all")
	}
	for _, d := range []S{{A: []int{1}}, {M: map[string]int{"k": 0}}, {P: &one}, {I: 1.5}, {I: (*int)(nil)}, {T: tm}} {
		if eq(S{}, d) || eq(d, S{}) {
			t.Errorf("difference not seen: %+v", d)
		}
	}
	if eq(S{I: &typesa.T{A: 1}}, S{I: typesa.T{A: 1}}) {
		t.Error("a pointer and a value inside an interface differ")
	}
}

func TestRegistryStateKey(t *testing.T) {
	m := newMachine("private")
	k0 := m.stateKey()
	if !strings.Contains(k0, `"Custom"`) || !strings.Contains(k0, "fun=true") || !strings.Contains(k0, `"json.Unmarshaler"`) {
		t.Fatalf("initial registry not read: %s", k0)
	}
	if out := m.step(0); !strings.HasPrefix(out, "ok: &T{A:1") {
		t.Fatalf("fresh recompose into typesa.T: %s", out)
	}
	k1 := m.stateKey()
	if k1 == k0 || !strings.Contains(k1, "type=verif/checks/c16/typesa.typesa.T") || !strings.Contains(k1, "a>") && !strings.Contains(k1, "A>A[0]") {
		t.Errorf("registration not visible in the state key:\n%s", k1)
	}
	m.step(0)
	if m.stateKey() != k1 {
		t.Error("recomposing the same type again must not change the state")
	}
}
