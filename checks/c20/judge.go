package c20

import (
	"fmt"
	"os"
	"runtime"
	"sort"
	"strings"

	"github.com/ohler55/ojg/asm"
	"github.com/ohler55/ojg/sen"

	"verif/internal/ref/asmref"
)

// finding is one oracle failure of one plan on one root.
type finding struct {
	Disc   string // panic | nondeterministic | wrong-result | reprint-differs | src-mutated
	Detail string // categorical refinement (exp/got classes, cause of a reprint difference …)
	Root   int
	Exp    string
	Obs    string
}

func (f finding) key() string { return f.Disc + "|" + f.Detail }

// mutators are the functions documented to modify their target.
var mutators = map[string]bool{"set": true, "setall": true, "del": true, "delall": true}

// hasMutator: some list anywhere in the plan is headed by a mutator name
// (conservative: also inside quote/cond clauses and literals).
func hasMutator(v any) bool {
	switch t := v.(type) {
	case []any:
		if len(t) > 0 {
			if name, _ := t[0].(string); mutators[name] {
				return true
			}
		}
		for _, e := range t {
			if hasMutator(e) {
				return true
			}
		}
	case map[string]any:
		for _, e := range t {
			if hasMutator(e) {
				return true
			}
		}
	}
	return false
}

// srcUntouchable reports whether the plan provably has no documented way to
// change $.src: it has no mutator call at all, or every mutator call is
// [set|setall "$.asm…" <scalar literal>] or [del|delall "$.asm…"] (nothing
// that came from src is ever stored under asm, so nothing under asm can alias
// src). Any other shape counts as "may target $.src" and is left to the
// semantic oracle.
func srcUntouchable(v any) bool {
	switch t := v.(type) {
	case []any:
		if len(t) > 0 {
			if name, _ := t[0].(string); mutators[name] {
				if len(t) < 2 || !asmPath(t[1]) {
					return false
				}
				switch name {
				case "set", "setall":
					if len(t) != 3 || !scalarLiteral(t[2]) {
						return false
					}
				default:
					if len(t) != 2 {
						return false
					}
				}
				return true
			}
		}
		for _, e := range t {
			if !srcUntouchable(e) {
				return false
			}
		}
	case map[string]any:
		for _, e := range t {
			if !srcUntouchable(e) {
				return false
			}
		}
	}
	return true
}

func asmPath(v any) bool {
	s, ok := v.(string)
	if !ok || !strings.HasPrefix(s, "$.asm") {
		return false
	}
	rest := s[len("$.asm"):]
	if rest == "" {
		return true
	}
	if rest[0] != '.' && rest[0] != '[' {
		return false
	}
	return !strings.Contains(rest, "..") // no descent
}

func scalarLiteral(v any) bool {
	switch t := v.(type) {
	case nil, bool, int64, float64:
		return true
	case string:
		return t == "" || (t[0] != '$' && t[0] != '@')
	}
	return false
}

// env is the per-worker state of the judge.
type env struct {
	fns     map[string]bool
	names   []string
	srcs    []any // pristine corpus (never handed to the implementation)
	devnull *os.File
	cnt     map[string]int64
	masked  map[string]bool // functions seen returning a masked runtime error
}

func newEnv() *env {
	e := &env{fns: map[string]bool{}, srcs: roots(), cnt: map[string]int64{}, masked: map[string]bool{}}
	for name := range asm.FnDocs() { // read from the running code: a new function is picked up
		e.fns[name] = true
		e.names = append(e.names, name)
	}
	sort.Strings(e.names)
	e.devnull, _ = os.OpenFile(os.DevNull, os.O_WRONLY, 0)
	return e
}

func (e *env) mkRoot(i int) map[string]any {
	return map[string]any{"src": clone(e.srcs[i])}
}

// result of one execution.
type result struct {
	raised  bool
	errText string
	escaped any // a panic that escaped Plan.Execute
	val     any // direct evaluation only
	root    map[string]any
}

// mute sends the implementation's prints (inspect) to /dev/null: the worker's
// stdout carries the report protocol.
func (e *env) mute() func() {
	real := os.Stdout
	if e.devnull != nil {
		os.Stdout = e.devnull
	}
	return func() { os.Stdout = real }
}

func (e *env) execute(p *asm.Plan, root map[string]any) (res result) {
	res.root = root
	defer e.mute()()
	defer func() {
		if r := recover(); r != nil {
			res.escaped = r
		}
	}()
	e.cnt["evaluations"]++
	if err := p.Execute(root); err != nil {
		res.raised, res.errText = true, err.Error()
	}
	res.root, _ = snapshot(root).(map[string]any)
	return
}

// evalDirect is Plan.Execute without discarding the value: Execute is
// "recover + p.Eval(root, root, p.Args...)" and turns the panic value into an
// error with fmt's %v.
func (e *env) evalDirect(p *asm.Plan, root map[string]any, fn string) (res result) {
	res.root = root
	defer e.mute()()
	defer func() {
		if r := recover(); r != nil {
			res.raised, res.errText = true, fmt.Sprintf("%v", r)
		}
	}()
	e.cnt["evaluations"]++
	defer func() { res.root, _ = snapshot(root).(map[string]any) }() // also when the plan raised
	res.val = snapshot(p.Eval(root, root, p.Args...))
	return
}

func newPlan(arr []any) (p *asm.Plan, pv any) {
	defer func() { pv = recover() }()
	return asm.NewPlan(arr), nil
}

func panicKind(r any) string {
	if re, ok := r.(runtime.Error); ok {
		s := re.Error()
		s = strings.TrimPrefix(s, "runtime error: ")
		for _, k := range []string{"index out of range", "slice bounds out of range", "nil pointer dereference", "interface conversion", "integer divide by zero",
			"comparing uncomparable", "hash of unhashable", "assignment to entry in nil map", "makeslice"} {
			if strings.Contains(s, k) {
				return "runtime:" + strings.ReplaceAll(k, " ", "-")
			}
		}
		return "runtime:other"
	}
	if _, ok := r.(error); ok {
		return "error-value"
	}
	return fmt.Sprintf("%T", r)
}

// senParse is sen.Parse with a parser of its own: the pooled parser of
// sen.Parse keeps state after a failed parse (that is C07's subject) and would
// blame later, innocent plans.
func senParse(s string) (v any, err error) {
	defer func() {
		if r := recover(); r != nil {
			err = fmt.Errorf("sen parser panic: %v", r)
		}
	}()
	return (&sen.Parser{}).Parse([]byte(s))
}

// planDiffPlace walks the Simplify() form of a new plan and of a used one and
// names the first place where they differ: "literal" inside a map or a list
// that is not a call, "call" at or directly in a call node, "" when equal.
func planDiffPlace(a, b any, fns map[string]bool, inLit bool, depth int) string {
	place := func() string {
		if inLit {
			return "literal"
		}
		return "call"
	}
	if depth > maxDepth {
		return ""
	}
	switch ta := a.(type) {
	case []any:
		tb, ok := b.([]any)
		if !ok {
			return place()
		}
		isCall := false
		if len(ta) > 0 && !inLit {
			if name, _ := ta[0].(string); fns[name] {
				isCall = true
			}
		}
		lit := inLit || !isCall
		if len(ta) != len(tb) {
			if lit {
				return "literal"
			}
			return "call"
		}
		for i := range ta {
			if d := planDiffPlace(ta[i], tb[i], fns, lit, depth+1); d != "" {
				return d
			}
		}
		return ""
	case map[string]any:
		tb, ok := b.(map[string]any)
		if !ok {
			return place()
		}
		if len(ta) != len(tb) {
			return "literal"
		}
		for k, v := range ta {
			w, has := tb[k]
			if !has {
				return "literal"
			}
			if d := planDiffPlace(v, w, fns, true, depth+1); d != "" {
				return d
			}
		}
		return ""
	}
	if !eqStrict(a, b, 0) {
		return place()
	}
	return ""
}

// firstDiff finds the first place where the re-read array differs from the
// original and names the two kinds.
func firstDiff(a, b any, depth int) (string, bool) {
	if depth > maxDepth {
		return "", false
	}
	la, isLa := a.([]any)
	lb, isLb := b.([]any)
	if isLa && isLb {
		if len(la) != len(lb) {
			return fmt.Sprintf("list(len)→list(other-len)"), true
		}
		for i := range la {
			if d, ok := firstDiff(la[i], lb[i], depth+1); ok {
				if i == 0 && depth > 0 {
					if _, isStr := la[0].(string); isStr {
						return "head:" + d, true
					}
				}
				return d, true
			}
		}
		return "", false
	}
	ma, isMa := a.(map[string]any)
	mb, isMb := b.(map[string]any)
	if isMa && isMb {
		keys := make([]string, 0, len(ma))
		for k := range ma {
			keys = append(keys, k)
		}
		sort.Strings(keys)
		for _, k := range keys {
			y, has := mb[k]
			if !has {
				return "map-key→missing", true
			}
			if d, ok := firstDiff(ma[k], y, depth+1); ok {
				return d, true
			}
		}
		if len(ma) != len(mb) {
			return "map→map(extra-key)", true
		}
		return "", false
	}
	if eqStrict(a, b, 0) {
		return "", false
	}
	return kindOf(a) + "→" + kindOf(b), true
}

// compiled holds the plans built from one array.
type compiled struct {
	arr  []any
	fn   string
	mut  bool
	p    *asm.Plan // the plan under test (executed repeatedly)
	p2   *asm.Plan // second NewPlan on an array NewPlan already compiled in place
	pS   *asm.Plan // NewPlan(sen.Parse(plan.String()))
	pJ   *asm.Plan // NewPlan(plan.Simplify())
	cS   string    // how the String() array differs from the original ("" = identical)
	cJ   string
	text string
	pre  []finding // plan-level findings

	sawRaise bool // Plan.Execute has already returned an error for this plan on some root
	unstable bool // a second run differed from the first on some root
	runs     int  // roots this plan has already been run on
}

func (e *env) compile(arr []any, fn string) *compiled {
	cp := &compiled{arr: arr, fn: fn, mut: !srcUntouchable(arr)}
	var pv any
	if cp.p, pv = newPlan(clone(arr).([]any)); pv != nil {
		// NewPlan has no error result: only a runtime fault counts (DESIGN §2.5)
		if _, isRT := pv.(runtime.Error); isRT {
			cp.pre = append(cp.pre, finding{Disc: "panic", Detail: "newplan:" + panicKind(pv), Exp: "NewPlan returns", Obs: fmt.Sprintf("panic: %v", pv)})
		} else {
			e.cnt["newplan_error_panics"]++
		}
		cp.p = nil
		return cp
	}
	if cp.p == nil {
		return cp // empty array: NewPlan returns nil
	}
	// the same array twice
	twice := clone(arr).([]any)
	if _, pv = newPlan(twice); pv == nil {
		if cp.p2, pv = newPlan(twice); pv != nil {
			if _, isRT := pv.(runtime.Error); isRT {
				cp.pre = append(cp.pre, finding{Disc: "panic", Detail: "newplan-twice:" + panicKind(pv), Exp: "NewPlan returns", Obs: fmt.Sprintf("panic: %v", pv)})
			}
			cp.p2 = nil
		}
	}
	// print / re-read from a plan that is never executed
	pr, _ := newPlan(clone(arr).([]any))
	if pr == nil {
		return cp
	}
	func() {
		defer func() {
			if r := recover(); r != nil {
				cp.pre = append(cp.pre, finding{Disc: "reprint-differs", Detail: "via=string|cause=string-panics:" + panicKind(r), Exp: "String() returns", Obs: fmt.Sprintf("panic: %v", r)})
			}
		}()
		cp.text = pr.String()
		v, err := senParse(cp.text)
		if err != nil {
			cp.pre = append(cp.pre, finding{Disc: "reprint-differs", Detail: "via=string|cause=unparseable", Exp: "String() is SEN that sen.Parse reads back", Obs: fmt.Sprintf("String()=%s sen.Parse: %v", cp.text, err)})
			return
		}
		l, ok := v.([]any)
		if !ok {
			cp.pre = append(cp.pre, finding{Disc: "reprint-differs", Detail: "via=string|cause=not-an-array", Exp: "an array", Obs: fmt.Sprintf("String()=%s parsed to %s", cp.text, kindOf(v))})
			return
		}
		want := normalForm(arr, e.fns)
		if d, differs := firstDiff(want, l, 0); differs {
			cp.cS = d
		}
		var pv any
		if cp.pS, pv = newPlan(l); pv != nil {
			cp.pS = nil
			cp.pre = append(cp.pre, finding{Disc: "reprint-differs", Detail: "via=string|cause=newplan-panics", Exp: "NewPlan returns", Obs: fmt.Sprintf("String()=%s NewPlan panic: %v", cp.text, pv)})
		}
	}()
	func() {
		defer func() {
			if r := recover(); r != nil {
				cp.pre = append(cp.pre, finding{Disc: "reprint-differs", Detail: "via=simplify|cause=simplify-panics:" + panicKind(r), Exp: "Simplify() returns", Obs: fmt.Sprintf("panic: %v", r)})
			}
		}()
		v := pr.Simplify()
		l, ok := v.([]any)
		if !ok {
			cp.pre = append(cp.pre, finding{Disc: "reprint-differs", Detail: "via=simplify|cause=not-an-array", Exp: "an array", Obs: kindOf(v)})
			return
		}
		l = clone(l).([]any) // Simplify shares literal containers with the plan it came from
		want := normalForm(arr, e.fns)
		if d, differs := firstDiff(want, l, 0); differs {
			cp.cJ = d
		}
		var pv any
		if cp.pJ, pv = newPlan(l); pv != nil {
			cp.pJ = nil
			cp.pre = append(cp.pre, finding{Disc: "reprint-differs", Detail: "via=simplify|cause=newplan-panics", Exp: "NewPlan returns", Obs: fmt.Sprintf("NewPlan panic: %v", pv)})
		}
	}()
	return cp
}

// normalForm is the array with the optional leading "asm" made explicit (what
// String()/Simplify() print), used only to describe reprint differences.
func normalForm(arr []any, fns map[string]bool) []any {
	if len(arr) > 0 {
		if name, _ := arr[0].(string); name != "" && fns[name] {
			return arr
		}
	}
	return append([]any{"asm"}, arr...)
}

func sameOutcome(a, b result) (string, bool) {
	switch {
	case a.raised != b.raised:
		return "raise", false
	case a.errText != b.errText:
		return "error-text", false
	case !eqStrict(a.root, b.root, 0):
		return "root", false
	}
	return "", true
}

// sameBehaviour is the reprint comparison: a plan that went through text may
// hold 2 where the original held 2.0, so numbers compare by value and the Go
// type names of numbers in error texts are not told apart.
func sameBehaviour(a, b result) (string, bool) {
	norm := func(s string) string {
		return strings.ReplaceAll(strings.ReplaceAll(s, "float64", "number"), "int64", "number")
	}
	switch {
	case a.raised != b.raised:
		return "raise", false
	case norm(a.errText) != norm(b.errText):
		return "error-text", false
	case !eqNumeric(a.root, b.root):
		return "root", false
	}
	return "", true
}

func outcome(r result) string {
	if r.escaped != nil {
		return fmt.Sprintf("PANIC %v", r.escaped)
	}
	if r.raised {
		return fmt.Sprintf("error %q root=%s", r.errText, show(r.root))
	}
	return "ok root=" + show(r.root)
}

// judgeRoot runs every per-root oracle of one compiled plan.
func (e *env) judgeRoot(cp *compiled, ri int) (out []finding) {
	add := func(disc, detail, exp, obs string) {
		out = append(out, finding{Disc: disc, Detail: detail, Root: ri, Exp: exp, Obs: obs})
	}
	e.cnt["plan_roots"]++
	if cp.p == nil {
		if len(cp.arr) == 0 { // NewPlan(empty) is nil; Execute on it must still not panic
			var np *asm.Plan
			if r := e.execute(np, e.mkRoot(ri)); r.escaped != nil {
				add("panic", "execute-nil-plan:"+panicKind(r.escaped), "nil or error", outcome(r))
			}
		}
		return
	}
	// (1) totality and (2) determinism: the same plan twice on fresh copies.
	// The first run is evalDirect (Execute's own body under our recover; it
	// yields the value for (3)). The second run is Plan.Execute itself whenever
	// the first completed, and for the first root of each plan on which it
	// raised; on the remaining raising roots it is evalDirect again, because
	// ojg.NewError captures a stack trace that costs ten times the plan.
	r2 := e.evalDirect(cp.p, e.mkRoot(ri), cp.fn)
	var r1 result
	if !r2.raised || !cp.sawRaise {
		r1 = e.execute(cp.p, e.mkRoot(ri))
		if r1.escaped != nil {
			add("panic", "execute:"+panicKind(r1.escaped), "nil or error", outcome(r1))
			return
		}
		if r1.raised {
			cp.sawRaise = true
		}
	} else {
		r1 = e.evalDirect(cp.p, e.mkRoot(ri), cp.fn)
	}
	stable := !cp.unstable
	if what, same := sameOutcome(r2, r1); !same {
		// the plan changed itself while running: what it does from now on (also
		// on the following roots) says nothing about the other oracles
		stable, cp.unstable = false, true
		add("nondeterministic", "second-run:"+what, outcome(r2), outcome(r1))
	}
	// (2b) a plan is a value: one that has already run on other roots must do on
	// this root what a plan compiled just now from the same array does (nothing a
	// run learns from its data may be kept in the plan)
	if stable && cp.runs > 0 {
		if fp, pv := newPlan(clone(cp.arr).([]any)); pv == nil && fp != nil {
			rf := e.evalDirect(fp, e.mkRoot(ri), cp.fn)
			e.cnt["fresh_plan_comparisons"]++
			if what, same := sameOutcome(rf, r2); !same {
				stable, cp.unstable = false, true
				// where does the used plan differ from a new one? Inside a container
				// literal: the literal was stored into a root by reference and changed
				// through that root (a listed finding, whatever outcome it leads to).
				// Anywhere else (a call node, a path, or nothing Simplify() shows): its own cell.
				where := "nothing-simplify-shows"
				func() {
					defer func() { _ = recover() }()
					if fp2, pv2 := newPlan(clone(cp.arr).([]any)); pv2 == nil && fp2 != nil {
						where = planDiffPlace(fp2.Simplify(), cp.p.Simplify(), e.fns, false, 0)
					}
				}()
				if where == "literal" {
					add("plan-changed-by-running", "literal-stored-by-reference", "a plan compiled just now ("+what+"): "+outcome(rf), outcome(r2))
				} else {
					add("plan-changed-by-running", "after-other-roots:"+what+"|changed="+where, "a plan compiled just now: "+outcome(rf), outcome(r2))
				}
			}
		}
	}
	cp.runs++
	if r1.raised {
		e.cnt["raised"]++
		if strings.HasPrefix(r1.errText, "runtime error:") {
			e.cnt["masked_runtime_error_results"]++
			e.masked[cp.fn] = true
		}
	} else {
		e.cnt["completed"]++
	}
	// the array NewPlan saw twice: totality only (through Execute unless the
	// recover path of Execute was already exercised by r1)
	if cp.p2 != nil {
		var r result
		if r1.raised {
			r = e.evalDirect(cp.p2, e.mkRoot(ri), cp.fn)
		} else {
			r = e.execute(cp.p2, e.mkRoot(ri))
		}
		if r.escaped != nil {
			add("panic", "execute-recompiled:"+panicKind(r.escaped), "nil or error", outcome(r))
		}
	}
	// (3) semantics against asmref
	if stable {
		refRoot := e.mkRoot(ri)
		m := &asmref.M{Fns: e.fns, Root: refRoot}
		o := m.Run(clone(cp.arr).([]any))
		e.cnt["reference_runs"]++
		if o.Unknown {
			e.cnt["reference_no_opinion"]++
		} else {
			e.cnt["reference_opinions"]++
			e.semantic(o, m, r2, add)
		}
	}
	// (4) print / re-read
	if stable {
		for _, alt := range []struct {
			via   string
			p     *asm.Plan
			cause string
		}{{"string", cp.pS, cp.cS}, {"simplify", cp.pJ, cp.cJ}} {
			if alt.p == nil {
				continue
			}
			r := e.evalDirect(alt.p, e.mkRoot(ri), cp.fn)
			if what, same := sameBehaviour(r1, r); !same {
				cause := alt.cause
				if cause == "" {
					cause = "same-array"
				}
				obs := outcome(r)
				if alt.via == "string" {
					obs = "String()=" + cp.text + " → " + obs
				}
				add("reprint-differs", "via="+alt.via+"|cause="+cause+"|"+what, outcome(r1), obs)
			}
		}
	}
	// (5) non-interference
	if !cp.mut {
		e.cnt["src_compared"]++
		if !eqStrict(r1.root["src"], e.srcs[ri], 0) {
			detail := "no-mutator-in-plan"
			if hasMutator(cp.arr) {
				detail = "mutators-confined-to-asm"
			}
			add("src-mutated", detail, "src="+show(e.srcs[ri]), "src="+show(r1.root["src"]))
		}
	}
	return
}

// classOf is the coarse class of a value for the exp/got coordinates.
func classOf(v any) string {
	switch k := kindOf(v); k {
	case "int", "int0":
		return "int"
	case "float", "float0", "floatw":
		return "float"
	case "str", "str$", "strkw":
		return "str"
	default:
		return k
	}
}

// semantic compares the implementation's value/raise/root with the set of
// outcomes asmref accepts.
func (e *env) semantic(o asmref.Out, m *asmref.M, r result, add func(disc, detail, exp, obs string)) {
	var alts []string
	for _, v := range o.Vals {
		alts = append(alts, show(v))
	}
	if o.CanRaise {
		alts = append(alts, "raise")
	}
	exp := strings.Join(alts, " or ")
	expClass := "raise"
	if len(o.Vals) > 0 {
		expClass = classOf(o.Vals[0])
	}
	if r.raised {
		if !o.CanRaise {
			add("wrong-result", "exp="+expClass+",got=raise", exp, fmt.Sprintf("error %q", r.errText))
		}
		return
	}
	ok := false
	for _, v := range o.Vals {
		if eqLoose(r.val, v, 0) {
			ok = true
			break
		}
	}
	if !ok {
		got := classOf(r.val)
		if got == expClass {
			got += ":other"
		}
		add("wrong-result", "exp="+expClass+",got="+got, exp, show(r.val))
		return
	}
	if !m.RootUnknown && !eqLoose(r.root, m.Root, 0) {
		add("wrong-result", "root-differs", "root="+show(m.Root), "root="+show(r.root))
	}
}

// judgePlan judges one plan array on the given roots. Each (disc, detail) is
// reported once, on the first root that shows it.
func (e *env) judgePlan(arr []any, fn string, rootIdx []int) (out []finding, completedSomewhere bool) {
	cp := e.compile(arr, fn)
	seen := map[string]bool{}
	for _, f := range cp.pre {
		f.Root = rootIdx[0]
		if !seen[f.key()] {
			seen[f.key()] = true
			out = append(out, f)
		}
	}
	before := e.cnt["completed"]
	for _, ri := range rootIdx {
		for _, f := range e.judgeRoot(cp, ri) {
			if !seen[f.key()] {
				seen[f.key()] = true
				out = append(out, f)
			}
		}
	}
	return out, e.cnt["completed"] > before
}
