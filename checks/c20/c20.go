// Package c20 decides C20: assembly plans evaluate totally, deterministically
// and as documented. Bounded-exhaustive enumeration of plans (every function
// asm.FnDocs() lists x arities 0..4 x an argument alphabet incl. nested calls)
// over a 12-tree corpus of roots, judged by five oracles: totality,
// determinism, semantics against the independent reference asmref,
// print/re-read equivalence, and non-interference with $.src.
package c20

import (
	"encoding/json"
	"fmt"
	"strings"

	"verif/internal/core"
	"verif/internal/ref/asmref"
)

const implicit = "(implicit-asm)" // plan arrays that do not start with a function name

func init() {
	core.Register(&core.Check{
		ID:     "C20",
		Level:  "exploration",
		Shards: func(tier string) int { return 16 },
		Run:    run,
		Replay: replay,
		Rule: "plans = (every name in asm.FnDocs() read at run time, plus arrays without a leading function name) x arity 0..4 x every argument vector over the " +
			"per-arity alphabet (literals of every JSON kind, $/@-prefixed strings that are and are not paths, $.src/@ paths hitting and missing, nested calls), " +
			"each plan on all 12 roots; per (plan, root): Execute twice + direct Eval + asmref + String()-rebuilt plan + Simplify()-rebuilt plan + twice-compiled array; " +
			"distinct_nontrivial = distinct plans whose Execute completed without error on at least one root; evaluations = executions of the real plan functions; " +
			"a failing plan is reduced (drop arguments, replace evaluated arguments by their literal value, simpler root) while the same discrepancy stays, and the " +
			"signature is taken from the reduced plan",
		Assumptions: []string{
			"asmref is the reading of asm/doc.go; where doc.go is silent or ambiguous it accepts every reading (sets of outcomes) or has no opinion (counted as reference_no_opinion)",
			"the value a plan function returns is observed with plan.Eval(root, root, plan.Args...) under recover, which is what Plan.Execute runs before discarding the value",
			"sen.Parse is called through a fresh sen.Parser per text (the pooled parser keeps state after a failed parse: C07)",
			"each has no description (\"Each .\"), the string/time/list helper functions are outside the statement's semantic clause: they get the four other oracles only",
			"an error result whose text starts with 'runtime error:' is an error result (DESIGN 2.5); counted as masked_runtime_error_results",
			"plans that store the root under itself (cyclic documents) are compared with a cycle guard; nested templates avoid building them before a consumer runs",
			"Go map iteration order is repeated (every plan runs >= 6 times per root), not enumerated; wildcard paths over multi-key maps are not in the alphabet",
		},
		Bound: func(tier string) string {
			if tier == "thorough" {
				return "all functions x arity 0..4; alphabets: arity 1 = 96 base atoms + 337 depth-2 nested calls (9 templates x 35 inner calls + 22 set forms), arity 2 = every pair with at least one base atom, " +
					"arity 3 = 29 atoms, arity 4 = 12 atoms; plus 10^3 + 10^4 sequences of state-changing steps under asm; nesting depth 2; 12 roots"
			}
			return "all functions x arity 0..4; alphabets: arity 1 = 96 atoms, arity 2 = 65 atoms, arity 3 = 14 atoms, arity 4 = 6 atoms; plus 10^3 sequences of state-changing steps under asm; nesting depth 1; 12 roots"
		},
	})
}

type caseT struct {
	Fn   string `json:"fn"`
	Plan string `json:"plan"` // JSON text of the (reduced) plan array
	Root int    `json:"root"` // index into the root corpus; the root is {"src": corpus[root]}
	Src  string `json:"src"`  // the corpus tree, for the reader
	Orig string `json:"orig,omitempty"`
}

func planOf(fn string, args []any) []any {
	if fn == implicit {
		return append([]any{}, args...)
	}
	return append([]any{fn}, args...)
}

func argsOf(fn string, arr []any) []any {
	if fn == implicit {
		return arr
	}
	return arr[1:]
}

// argKind names one top-level argument: literal kind, or path(kind)/call(kind)
// of what it evaluates to on the witness root according to asmref.
func (e *env) argKind(a any, ri int) string {
	m := &asmref.M{Fns: e.fns, Root: e.mkRoot(ri)}
	form := ""
	if m.IsCall(a) {
		form = "call"
	} else if s, ok := a.(string); ok {
		if _, isPath := asmref.ParsePath(s); isPath {
			form = "path"
		}
	}
	if form == "" {
		return kindOf(a)
	}
	v, raised, ok := m.EvalArg(clone(a)).Single()
	switch {
	case !ok:
		return form + "(?)"
	case raised:
		return form + "(raise)"
	}
	return form + "(" + kindOf(v) + ")"
}

func (e *env) sig(fn string, arr []any, f finding) string {
	args := argsOf(fn, arr)
	kinds := make([]string, len(args))
	for i, a := range args {
		kinds[i] = e.argKind(a, f.Root)
	}
	if f.Disc == "reprint-differs" && strings.Contains(f.Detail, "→") {
		// the array itself came back different: the cause sits in the printer /
		// parser pair and is named in the detail (kind before → kind after);
		// which function merely exposes it is not part of the identity
		return core.Sig(f.Disc, f.Detail, "fn=*")
	}
	return core.Sig(f.Disc, f.Detail, "fn="+fn, fmt.Sprintf("n=%d", len(args)), "kinds="+strings.Join(kinds, ","))
}

// canonical replacements tried by reduce, simplest first.
var (
	canonLits  = []string{`1`, `0`, `"a"`, `null`, `true`, `2.5`, `[1,2]`, `{"a":1}`}
	canonCalls = []string{`["sum",1,2]`, `["get","$.src.a"]`, `["list",1,2]`}
	canonPaths = []string{`"$.src.a"`}
)

// canonFor lists the simpler stand-ins to try for one argument.
func (e *env) canonFor(a any) []any {
	m := &asmref.M{Fns: e.fns}
	var pool []string
	if m.IsCall(a) {
		pool = canonCalls
	} else if s, ok := a.(string); ok && s != "" && (s[0] == '$' || s[0] == '@') {
		if _, isPath := asmref.ParsePath(s); !isPath {
			return nil
		}
		pool = canonPaths
	} else {
		pool = canonLits
	}
	cur := toJSON(a)
	var out []any
	for _, js := range pool {
		if js == cur {
			break // only stand-ins simpler than the argument itself
		}
		out = append(out, mustJSON(js))
	}
	return out
}

// literalOf gives the literal an evaluated argument could be replaced by.
func (e *env) literalOf(a any, ri int) (any, bool) {
	m := &asmref.M{Fns: e.fns, Root: e.mkRoot(ri)}
	isPath := false
	if s, ok := a.(string); ok {
		_, isPath = asmref.ParsePath(s)
	}
	if !m.IsCall(a) && !isPath {
		return nil, false
	}
	v, raised, ok := m.EvalArg(clone(a)).Single()
	if !ok || raised || !plainLiteral(v, m) {
		return nil, false
	}
	return clone(v), true
}

// plainLiteral: v can be written into a plan and will be taken literally.
func plainLiteral(v any, m *asmref.M) bool {
	switch t := v.(type) {
	case nil, bool, int64, float64:
		return true
	case string:
		return t == "" || (t[0] != '$' && t[0] != '@')
	case []any:
		if m.IsCall(t) {
			return false
		}
		for _, x := range t {
			if !plainLiteral(x, m) {
				return false
			}
		}
		return true
	case map[string]any:
		for _, x := range t {
			if !plainLiteral(x, m) {
				return false
			}
		}
		return true
	}
	return false
}

// reduce shrinks a failing plan while the same (disc, detail) keeps failing
// on the witness root: drop an argument, or replace a path/call argument by
// the literal it evaluates to, or replace an argument by a simpler stand-in of
// the same form (canonLits / canonCalls / canonPaths); finally try the earlier
// (simpler) roots. The result is a canonical minimal witness, so that the many
// argument vectors exposing one defect share a signature.
func (e *env) reduce(fn string, arr []any, f finding) (string, []any, finding) {
	saved := map[string]int64{}
	for k, v := range e.cnt {
		saved[k] = v
	}
	defer func() {
		ev := e.cnt["evaluations"]
		for k := range e.cnt {
			delete(e.cnt, k)
		}
		for k, v := range saved {
			e.cnt[k] = v
		}
		e.cnt["reduction_evaluations"] += ev - saved["evaluations"]
		e.cnt["evaluations"] = ev
	}()
	// the oracles that do not depend on what the outer function means allow
	// two more steps: hoist a nested call to the top, and swap the outer
	// function for the plain sequencer asm
	structural := f.Disc == "nondeterministic" || f.Disc == "src-mutated" || f.Disc == "panic" ||
		(f.Disc == "reprint-differs" && strings.Contains(f.Detail, "same-array"))
	still := func(cand []any, ri int) (finding, bool) {
		fs, _ := e.judgePlan(cand, fnOf(cand, e.fns), []int{ri})
		for _, g := range fs {
			if g.key() == f.key() {
				return g, true
			}
		}
		return finding{}, false
	}
	cur := arr
	if f.Disc == "wrong-result" {
		// blame the innermost call that is wrong by itself: an enclosing function
		// that merely passes a wrong value (or a missing raise) on is not at fault
		m := &asmref.M{Fns: e.fns}
		for again := true; again; {
			again = false
			for _, a := range argsOf(fn, cur) {
				if !m.IsCall(a) {
					continue
				}
				inner := a.([]any)
				fs, _ := e.judgePlan(inner, fnOf(inner, e.fns), []int{f.Root})
				for _, g := range fs {
					if g.Disc == "wrong-result" {
						cur, fn, f, again = inner, fnOf(inner, e.fns), g, true
						break
					}
				}
				if again {
					break
				}
			}
		}
	}
	budget := 150
	for changed := true; changed && budget > 0; {
		changed = false
		args := argsOf(fn, cur)
		var cands [][]any
		if structural {
			m := &asmref.M{Fns: e.fns}
			for _, a := range args {
				if m.IsCall(a) {
					cands = append(cands, a.([]any))
				}
			}
			if fn != "asm" && len(args) > 0 {
				cands = append(cands, planOf("asm", args))
			}
		}
		for i := len(args) - 1; i >= 0; i-- {
			rest := append(append([]any{}, args[:i]...), args[i+1:]...)
			if fn == implicit && len(rest) == 0 {
				continue
			}
			cands = append(cands, planOf(fn, rest))
		}
		for i := range args {
			if lit, ok := e.literalOf(args[i], f.Root); ok {
				na := append([]any{}, args...)
				na[i] = lit
				cands = append(cands, planOf(fn, na))
			}
		}
		for i := range args {
			for _, alt := range e.canonFor(args[i]) {
				na := append([]any{}, args...)
				na[i] = alt
				cands = append(cands, planOf(fn, na))
			}
		}
		for _, cand := range cands {
			if fn == implicit && !structural { // must stay an array without a leading function name
				if name, _ := cand[0].(string); e.fns[name] {
					continue
				}
			}
			budget--
			if g, ok := still(cand, f.Root); ok {
				cur, f, changed = cand, g, true
				fn = fnOf(cur, e.fns)
				break
			}
			if budget <= 0 {
				break
			}
		}
	}
	for ri := 0; ri < f.Root; ri++ {
		if g, ok := still(cur, ri); ok {
			f = g
			break
		}
	}
	return fn, cur, f
}

// fnOf names the function a plan array starts with.
func fnOf(arr []any, fns map[string]bool) string {
	if len(arr) > 0 {
		if name, _ := arr[0].(string); name != "" && fns[name] {
			return name
		}
	}
	return implicit
}

func run(c *core.Ctx) {
	e := newEnv()
	allRoots := make([]int, len(e.srcs))
	for i := range allRoots {
		allRoots[i] = i
	}
	thorough := !c.Quick()
	fnList := append(append([]string{}, e.names...), implicit)
	// pre-parsed alphabets per arity (never handed to the implementation)
	alpha := map[int][]any{}
	for ar := 1; ar <= 4; ar++ {
		for _, js := range alphabet(ar, thorough) {
			alpha[ar] = append(alpha[ar], mustJSON(js))
		}
	}
	nBase := len(alphabet(2, false)) + 0
	if thorough {
		nBase = len(baseAtoms)
	}
	caseIdx, judged := 0, 0
	samples := 0
	judge := func(fn string, args []any) {
		arr := planOf(fn, args)
		c.Case(func() string { return toJSON(arr) })
		e.cnt["plans"]++
		fs, completed := e.judgePlan(arr, fn, allRoots)
		if completed {
			c.Nontrivial()
			if samples < 6 && caseIdx%977 == 0 {
				samples++
				c.Sample(map[string]any{"plan": toJSON(arr), "roots": len(allRoots), "findings": len(fs)})
			}
		}
		for _, f := range fs {
			mfn, min, g := e.reduce(fn, arr, f)
			js := toJSON(min)
			cs := caseT{Fn: mfn, Plan: js, Root: g.Root, Src: show(e.srcs[g.Root])}
			if o := toJSON(arr); o != js {
				cs.Orig = o
			}
			c.Fail(e.sig(mfn, min, g), cs, len(js)+g.Root, g.Exp, g.Obs)
		}
	}
outer:
	for _, fn := range fnList {
		for ar := 0; ar <= 4; ar++ {
			if ar == 0 {
				if c.Mine(caseIdx) {
					judge(fn, nil) // implicit + no arguments = the empty array (NewPlan returns nil)
				}
				caseIdx++
				continue
			}
			al := alpha[ar]
			idx := make([]int, ar)
			for {
				if ar == 2 && idx[0] >= nBase && idx[1] >= nBase {
					// thorough: depth-2 nested calls are paired with every base atom, not with each other
				} else if c.Mine(caseIdx) {
					args := make([]any, ar)
					for k, i := range idx {
						args[k] = al[i]
					}
					skip := false
					if fn == implicit { // a leading function name would make it an explicit plan (already enumerated)
						if name, _ := args[0].(string); e.fns[name] {
							skip = true
						}
					}
					if !skip {
						judge(fn, args)
					}
					if judged++; judged%64 == 0 && c.Expired("C20 "+fn) {
						break outer
					}
				}
				caseIdx++
				k := ar - 1
				for k >= 0 {
					idx[k]++
					if idx[k] < len(al) {
						break
					}
					idx[k] = 0
					k--
				}
				if k < 0 {
					break
				}
			}
		}
	}
	// extra: sequences of state-changing steps under asm
	var seq []any
	for _, js := range mutatorSeq {
		seq = append(seq, mustJSON(js))
	}
	for _, fn := range []string{"asm", implicit} {
		for ar := 3; ar <= c.Pick(3, 4); ar++ {
			idx := make([]int, ar)
			for {
				if c.Mine(caseIdx) {
					args := make([]any, ar)
					for k, i := range idx {
						args[k] = seq[i]
					}
					judge(fn, args)
					e.cnt["mutator_sequences"]++
					if judged++; judged%64 == 0 && c.Expired("C20 sequences") {
						break
					}
				}
				caseIdx++
				k := ar - 1
				for k >= 0 {
					idx[k]++
					if idx[k] < len(seq) {
						break
					}
					idx[k] = 0
					k--
				}
				if k < 0 {
					break
				}
			}
		}
	}
	for k, v := range e.cnt {
		c.Add(k, v)
	}
	if c.Shard == 1 {
		eachLeg(c)
		localLeg(c, e.fns)
		copyLeg(c)
	}
	if c.Shard == 0 {
		var m []string
		for _, n := range e.names {
			if e.masked[n] {
				m = append(m, n)
			}
		}
		c.Note("functions (shard 0) with error results that are masked runtime faults, accepted per DESIGN 2.5: %s", strings.Join(m, " "))
		c.Note("functions enumerated: %d from asm.FnDocs() + arrays without a leading function name; asmref models %d of them", len(e.names), modelled(e.names))
		for ar := 1; ar <= 4; ar++ {
			c.Note("alphabet arity %d: %d atoms", ar, len(alpha[ar]))
		}
	}
}

func modelled(names []string) int {
	n := 0
	for _, s := range names {
		if asmref.Modelled(s) {
			n++
		}
	}
	return n
}

func replay(c *core.Ctx, raw json.RawMessage) {
	var ec eachCase
	if err := json.Unmarshal(raw, &ec); err == nil && ec.Leg == "each" {
		replayEach(c, ec)
		return
	}
	var cc copyCase
	if err := json.Unmarshal(raw, &cc); err == nil && cc.Leg == "copy" {
		l := make([]any, len(cc.List))
		for i, v := range cc.List {
			if f, ok := v.(float64); ok {
				v = int64(f)
			}
			l[i] = v
		}
		judgeCopy(c, cc.Fn, l)
		return
	}
	var lc localCase
	if err := json.Unmarshal(raw, &lc); err == nil && lc.Leg == "local" {
		if local, ok := lc.Local.(map[string]any); ok {
			judgeLocal(c, newEnv().fns, lc.Plan, normLocal(local), true)
		}
		return
	}
	var cs caseT
	if err := json.Unmarshal(raw, &cs); err != nil {
		c.HarnessError("bad case: %v", err)
		return
	}
	v, err := parseJSON(cs.Plan)
	arr, ok := v.([]any)
	if err != nil || !ok {
		c.HarnessError("bad plan %q: %v", cs.Plan, err)
		return
	}
	e := newEnv()
	if cs.Root < 0 || cs.Root >= len(e.srcs) {
		c.HarnessError("bad root %d", cs.Root)
		return
	}
	fs, _ := e.judgePlan(arr, cs.Fn, []int{cs.Root})
	for _, f := range fs {
		c.Fail(e.sig(cs.Fn, arr, f), cs, len(cs.Plan), f.Exp, f.Obs)
	}
}
