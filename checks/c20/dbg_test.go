package c20

import (
	"fmt"
	"os"
	"strings"
	"testing"
)

// TestDebugFind prints the findings of selected plans (development aid):
// C20_DBG_FN=asm C20_DBG_FIRST='true' C20_DBG_SIG=substring go test -run DebugFind
func TestDebugFind(t *testing.T) {
	fn := os.Getenv("C20_DBG_FN")
	if fn == "" {
		t.Skip("development aid")
	}
	e := newEnv()
	all := make([]int, len(e.srcs))
	for i := range all {
		all[i] = i
	}
	n := 0
	for _, a := range alphabet(2, true) {
		if f := os.Getenv("C20_DBG_FIRST"); f != "" && a != f {
			continue
		}
		for _, b := range alphabet(2, true) {
			arr := planOf(fn, []any{mustJSON(a), mustJSON(b)})
			fs, _ := e.judgePlan(arr, fn, all)
			for _, f := range fs {
				sig := e.sig(fn, arr, f)
				if strings.Contains(sig, os.Getenv("C20_DBG_SIG")) && n < 12 {
					n++
					fmt.Printf("%s\n  plan %s root %d\n  exp %s\n  obs %s\n", sig, toJSON(arr), f.Root, f.Exp, f.Obs)
				}
			}
		}
	}
}
