package c20

import (
	"fmt"
	"runtime"
	"sort"
	"strings"

	"github.com/ohler55/ojg/asm"
	"verif/internal/core"
	"verif/internal/gens"
	"verif/internal/ref/asmref"
)

// eachBodies are iteration bodies that only read and write the per-item local
// (@): whatever they do for one item cannot legitimately depend on another.
var eachBodies = []string{
	`["set","@.asm","@.src"]`,
	`["cond",[["eq","@.src",2],["set","@.asm","two"]]]`,
	`["cond",[["gt","@.src",1],["set","@.asm",["sum","@.src",1]]],[true,["set","@.other",0]]]`,
	`["cond",[["eq","@.src",1],["set","@.k","one"]]]`,
	`["cond",[["lt","@.src",3],["set","@.asm","@.src"]],[["eq","@.src",3],["del","@.asm"]]]`,
	`["set","@.asm",["get","@.seen"]]`,
	`["cond",[["eq","@.src",2],["set","@.seen",true]]]`,
}

type eachCase struct {
	Leg  string `json:"leg"`
	Plan string `json:"plan"`
	List []any  `json:"list"`
}

func runEach(plan string, list []any) (res any, err error, pv any) {
	defer func() { pv = recover() }()
	v, perr := parseJSON(plan)
	if perr != nil {
		return nil, perr, nil
	}
	p := asm.NewPlan(v.([]any))
	root := map[string]any{"src": map[string]any{"list": gens.Clone(list)}}
	err = p.Execute(root)
	return root["asm"], err, nil
}

// eachLeg checks item independence of each: the result for the whole list must
// be the concatenation of the results for the one-element lists. each has no
// description in doc.go ("Each ."), so this is the only semantic claim made
// about it: an item's outcome depends on the item (and the root), never on
// what the body did for a neighbouring item.
func eachLeg(c *core.Ctx) {
	lists := [][]any{}
	vals := []any{int64(1), int64(2), int64(3)}
	for n := 1; n <= 4; n++ {
		var rec func(prefix []any)
		rec = func(prefix []any) {
			if len(prefix) == n {
				lists = append(lists, append([]any{}, prefix...))
				return
			}
			for _, v := range vals {
				rec(append(prefix, v))
			}
		}
		rec(nil)
	}
	for _, body := range eachBodies {
		for _, key := range []string{"", `,"k"`} {
			plan := fmt.Sprintf(`["set","$.asm",["each","$.src.list",%s%s]]`, body, key)
			for _, list := range lists {
				whole, err, pv := runEach(plan, list)
				c.Eval()
				c.Add("each_independence_cases", 1)
				if pv != nil || err != nil {
					continue // totality is judged by the main enumeration
				}
				var parts []any
				ok := true
				for _, item := range list {
					one, err1, pv1 := runEach(plan, []any{item})
					c.Eval()
					if pv1 != nil || err1 != nil {
						ok = false
						break
					}
					l, _ := one.([]any)
					parts = append(parts, l...)
				}
				if !ok {
					continue
				}
				if fmt.Sprint(whole) != fmt.Sprint(parts) {
					c.Fail(core.Sig("each-item-depends-on-neighbours", "fn=each", "key="+map[bool]string{true: "default", false: "named"}[key == ""]),
						eachCase{Leg: "each", Plan: plan, List: list}, len(list)*100+len(plan), fmt.Sprint(parts), fmt.Sprint(whole))
				} else if len(list) > 1 {
					c.Nontrivial()
				}
			}
		}
	}
}

func replayEach(c *core.Ctx, cs eachCase) {
	whole, err, pv := runEach(cs.Plan, cs.List)
	if pv != nil || err != nil {
		return
	}
	var parts []any
	for _, item := range cs.List {
		one, _, _ := runEach(cs.Plan, []any{item})
		l, _ := one.([]any)
		parts = append(parts, l...)
	}
	if fmt.Sprint(whole) != fmt.Sprint(parts) {
		c.Fail("replay|each", cs, 1, fmt.Sprint(parts), fmt.Sprint(whole))
	}
}

// ---------------------------------------------------------------- local context

// localBodies are calls evaluated with @ bound to a value that is not the
// root (what each and asm do for their bodies): the documented functions must
// compute the same thing there as at the top of a plan, with every nested call
// - cond clauses included - reading the same @.
var localBodies = append(append([]string{}, eachBodies...),
	`["set","@.asm",["sum","@.src","$.src.a"]]`,
	`["cond",[["get","@.flag"],["set","@.asm",["get","@.src"]]],[true,["set","@.asm",["get","$.src.a"]]]]`,
	`["cond",[["lt","@.src","$.src.a"],["sum","@.src",1]],[true,["get","@.k"]]]`,
	`["cond",[["not",["eq","@.src",2]],["list","@.src","@.k"]]]`,
	`["and",["lt","@.src",3],["gt","@.src",["get","$.src.zero"]]]`,
)

type localCase struct {
	Leg   string `json:"leg"`
	Plan  string `json:"plan"`
	Local any    `json:"local"`
}

func runLocal(plan string, local map[string]any, root map[string]any) (val any, raised bool, pv any) {
	defer func() {
		if r := recover(); r != nil {
			if _, isRT := r.(runtime.Error); isRT {
				pv = r
			} else {
				raised = true
			}
		}
	}()
	v, _ := parseJSON(plan)
	p := asm.NewPlan(v.([]any))
	val = snapshot(p.Eval(root, local, p.Args...))
	return
}

func localRoot() map[string]any {
	return map[string]any{"src": map[string]any{"a": int64(2), "zero": int64(0), "list": []any{int64(5)}}, "k": "root-k", "flag": false}
}

func localLeg(c *core.Ctx, fns map[string]bool) {
	var locals []map[string]any
	for _, item := range []any{int64(1), int64(2), int64(3)} {
		locals = append(locals, map[string]any{"src": item}, map[string]any{"src": item, "k": "local-k", "flag": true})
	}
	for _, body := range localBodies {
		for _, local := range locals {
			judgeLocal(c, fns, body, local, false)
		}
	}
}

func judgeLocal(c *core.Ctx, fns map[string]bool, body string, local map[string]any, replaying bool) {
	c.Eval()
	c.Add("local_context_cases", 1)
	impLocal, _ := clone(local).(map[string]any)
	impRoot := localRoot()
	val, raised, pv := runLocal(body, impLocal, impRoot)
	if pv != nil {
		return // totality is judged by the main enumeration
	}
	refLocal, _ := clone(local).(map[string]any)
	m := &asmref.M{Fns: fns, Root: localRoot()}
	arr, _ := parseJSON(body)
	o := m.RunLocal(arr.([]any), refLocal)
	if o.Unknown || m.RootUnknown {
		c.Add("local_context_cases_without_reference_opinion", 1)
		return
	}
	c.Nontrivial()
	fail := func(exp, obs string) {
		c.Fail(core.Sig("local-context", "fn="+fmt.Sprint(arr.([]any)[0]), "wrong-result"), localCase{Leg: "local", Plan: body, Local: local}, len(body), exp, obs)
	}
	if raised {
		if !o.CanRaise {
			fail(fmt.Sprintf("one of %v", o.Vals), "raised an error")
		}
		return
	}
	okVal := false
	for _, w := range o.Vals {
		if eqLoose(val, w, 0) {
			okVal = true
		}
	}
	if !okVal {
		fail(fmt.Sprintf("one of %v (raise allowed: %v)", o.Vals, o.CanRaise), fmt.Sprintf("%v", val))
		return
	}
	if !eqLoose(snapshot(impLocal), snapshot(refLocal), 0) {
		fail("@ afterwards: "+fmt.Sprint(refLocal), "@ afterwards: "+fmt.Sprint(impLocal))
		return
	}
	if !eqLoose(snapshot(impRoot), snapshot(m.Root), 0) {
		fail("$ afterwards: "+fmt.Sprint(m.Root), "$ afterwards: "+fmt.Sprint(impRoot))
	}
}

// normLocal turns the float64 numbers of a decoded case back into int64.
func normLocal(m map[string]any) map[string]any {
	out := map[string]any{}
	for k, v := range m {
		if f, ok := v.(float64); ok && f == float64(int64(f)) {
			v = int64(f)
		}
		out[k] = v
	}
	return out
}

// ---------------------------------------------------------------- documented copies

type copyCase struct {
	Leg  string `json:"leg"`
	Fn   string `json:"fn"`
	List []any  `json:"list"`
}

// copyLeg: a function whose description promises "a copy" (read from
// asm.FnDocs at run time: reverse, sort) must return a list that shares no
// element storage with its argument, for lists of every length from 0 to 3 -
// otherwise a later in-place change of the result changes $.src.
func copyLeg(c *core.Ctx) {
	var fns []string
	for name, doc := range asm.FnDocs() {
		if strings.Contains(doc, "return a copy") {
			fns = append(fns, name)
		}
	}
	sort.Strings(fns)
	c.Add("functions_documented_to_return_a_copy", int64(len(fns)))
	lists := [][]any{{}, {int64(5)}, {int64(2), int64(1)}, {int64(3), int64(1), int64(2)}, {"b"}, {"b", "a"}}
	for _, fn := range fns {
		for _, l := range lists {
			judgeCopy(c, fn, l)
		}
	}
}

func judgeCopy(c *core.Ctx, fn string, list []any) {
	c.Eval()
	c.Add("copy_cases", 1)
	src := append(make([]any, 0, len(list)+1), gens.Clone(list).([]any)...) // spare capacity: an append to an alias would show
	root := map[string]any{"src": map[string]any{"list": src}}
	var res any
	pv := func() (p any) {
		defer func() { p = recover() }()
		plan := asm.NewPlan([]any{fn, "$.src.list"})
		res = plan.Eval(root, root, plan.Args...)
		return nil
	}()
	if pv != nil { // the function wants a second argument (sort: what to sort by)
		pv = func() (p any) {
			defer func() { p = recover() }()
			plan := asm.NewPlan([]any{fn, "$.src.list", "@"})
			res = plan.Eval(root, root, plan.Args...)
			return nil
		}()
	}
	out, isList := res.([]any)
	if pv != nil || !isList {
		c.Add("copy_cases_without_a_list_result", 1)
		return // totality and results are judged by the main enumeration
	}
	c.Nontrivial()
	before := fmt.Sprint(src[:len(list)])
	for i := range out {
		out[i] = "changed"
	}
	out = append(out, "appended")
	_ = out
	after := fmt.Sprint(root["src"].(map[string]any)["list"].([]any)[:len(list)])
	full := root["src"].(map[string]any)["list"].([]any)[:len(list)+1]
	if before != after || (len(full) > len(list) && full[len(list)] == "appended") {
		c.Fail(core.Sig("documented-copy-shares-storage", "fn="+fn, fmt.Sprintf("len=%d", len(list))), copyCase{Leg: "copy", Fn: fn, List: list}, len(list),
			"$.src.list unchanged after the result of "+fn+" was changed in place: "+before, fmt.Sprint(full))
	}
}
