package c20

import (
	"fmt"

	"github.com/ohler55/ojg/asm"
	"verif/internal/core"
	"verif/internal/gens"
)

// eachBodies are iteration bodies that only read and write the per-item local
// (@): whatever they do for one item cannot legitimately depend on another.
var eachBodies = []string{
	`["set","@.asm","@.src"]`,
	`["cond",[["eq","@.src",2],["set","@.asm","two"]]]`,
	`["cond",[["gt","@.src",1],["set","@.asm",["sum","@.src",1]]],[true,["set","@.other",0]]]`,
	`["cond",[["eq","@.src",1],["set","@.k","one"]]]`,
	`["cond",[["lt","@.src",3],["set","@.asm","@.src"]],[["eq","@.src",3],["del","@.asm"]]]`,
	`["set","@.asm",["get","@.seen"]]`,
	`["cond",[["eq","@.src",2],["set","@.seen",true]]]`,
}

type eachCase struct {
	Leg  string `json:"leg"`
	Plan string `json:"plan"`
	List []any  `json:"list"`
}

func runEach(plan string, list []any) (res any, err error, pv any) {
	defer func() { pv = recover() }()
	v, perr := parseJSON(plan)
	if perr != nil {
		return nil, perr, nil
	}
	p := asm.NewPlan(v.([]any))
	root := map[string]any{"src": map[string]any{"list": gens.Clone(list)}}
	err = p.Execute(root)
	return root["asm"], err, nil
}

// eachLeg checks item independence of each: the result for the whole list must
// be the concatenation of the results for the one-element lists. each has no
// description in doc.go ("Each ."), so this is the only semantic claim made
// about it: an item's outcome depends on the item (and the root), never on
// what the body did for a neighbouring item.
func eachLeg(c *core.Ctx) {
	lists := [][]any{}
	vals := []any{int64(1), int64(2), int64(3)}
	for n := 1; n <= 4; n++ {
		var rec func(prefix []any)
		rec = func(prefix []any) {
			if len(prefix) == n {
				lists = append(lists, append([]any{}, prefix...))
				return
			}
			for _, v := range vals {
				rec(append(prefix, v))
			}
		}
		rec(nil)
	}
	for _, body := range eachBodies {
		for _, key := range []string{"", `,"k"`} {
			plan := fmt.Sprintf(`["set","$.asm",["each","$.src.list",%s%s]]`, body, key)
			for _, list := range lists {
				whole, err, pv := runEach(plan, list)
				c.Eval()
				c.Add("each_independence_cases", 1)
				if pv != nil || err != nil {
					continue // totality is judged by the main enumeration
				}
				var parts []any
				ok := true
				for _, item := range list {
					one, err1, pv1 := runEach(plan, []any{item})
					c.Eval()
					if pv1 != nil || err1 != nil {
						ok = false
						break
					}
					l, _ := one.([]any)
					parts = append(parts, l...)
				}
				if !ok {
					continue
				}
				if fmt.Sprint(whole) != fmt.Sprint(parts) {
					c.Fail(core.Sig("each-item-depends-on-neighbours", "fn=each", "key="+map[bool]string{true: "default", false: "named"}[key == ""]),
						eachCase{Leg: "each", Plan: plan, List: list}, len(list)*100+len(plan), fmt.Sprint(parts), fmt.Sprint(whole))
				} else if len(list) > 1 {
					c.Nontrivial()
				}
			}
		}
	}
}

func replayEach(c *core.Ctx, cs eachCase) {
	whole, err, pv := runEach(cs.Plan, cs.List)
	if pv != nil || err != nil {
		return
	}
	var parts []any
	for _, item := range cs.List {
		one, _, _ := runEach(cs.Plan, []any{item})
		l, _ := one.([]any)
		parts = append(parts, l...)
	}
	if fmt.Sprint(whole) != fmt.Sprint(parts) {
		c.Fail("replay|each", cs, 1, fmt.Sprint(parts), fmt.Sprint(whole))
	}
}
