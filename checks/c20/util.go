package c20

import (
	"encoding/json"
	"fmt"
	"math"
	"reflect"
	"sort"
	"strconv"
	"strings"
	"time"

	"github.com/ohler55/ojg/jp"

	"verif/internal/ref/asmref"
)

const maxDepth = 48 // roots can become cyclic ([set $.asm $]); comparisons and printers stop here

// conv turns json.Number into int64 (no fraction/exponent) or float64.
func conv(v any) any {
	switch t := v.(type) {
	case json.Number:
		s := t.String()
		if !strings.ContainsAny(s, ".eE") {
			if i, err := t.Int64(); err == nil {
				return i
			}
		}
		f, _ := t.Float64()
		return f
	case []any:
		for i := range t {
			t[i] = conv(t[i])
		}
	case map[string]any:
		for k := range t {
			t[k] = conv(t[k])
		}
	}
	return v
}

// parseJSON reads JSON with encoding/json (independent of ojg): integers
// become int64, other numbers float64 — what oj.Parse / sen.Parse produce.
func parseJSON(js string) (any, error) {
	d := json.NewDecoder(strings.NewReader(js))
	d.UseNumber()
	var v any
	if err := d.Decode(&v); err != nil {
		return nil, err
	}
	return conv(v), nil
}

func mustJSON(js string) any {
	v, err := parseJSON(js)
	if err != nil {
		panic(fmt.Sprintf("c20: bad JSON %s: %v", js, err))
	}
	return v
}

// toJSON prints a plan (only JSON kinds inside; whole floats keep ".0").
func toJSON(v any) string {
	var b strings.Builder
	writeJSON(&b, v, 0)
	return b.String()
}

func writeJSON(b *strings.Builder, v any, depth int) {
	if depth > maxDepth {
		b.WriteString(`"…"`)
		return
	}
	switch t := v.(type) {
	case nil:
		b.WriteString("null")
	case bool:
		b.WriteString(strconv.FormatBool(t))
	case int64:
		b.WriteString(strconv.FormatInt(t, 10))
	case int:
		b.WriteString(strconv.Itoa(t))
	case float64:
		s := strconv.FormatFloat(t, 'g', -1, 64)
		if !strings.ContainsAny(s, ".eE") && !math.IsInf(t, 0) && !math.IsNaN(t) {
			s += ".0"
		}
		b.WriteString(s)
	case string:
		q, _ := json.Marshal(t)
		b.Write(q)
	case []any:
		b.WriteByte('[')
		for i, e := range t {
			if i > 0 {
				b.WriteByte(',')
			}
			writeJSON(b, e, depth+1)
		}
		b.WriteByte(']')
	case map[string]any:
		keys := make([]string, 0, len(t))
		for k := range t {
			keys = append(keys, k)
		}
		sort.Strings(keys)
		b.WriteByte('{')
		for i, k := range keys {
			if i > 0 {
				b.WriteByte(',')
			}
			q, _ := json.Marshal(k)
			b.Write(q)
			b.WriteByte(':')
			writeJSON(b, t[k], depth+1)
		}
		b.WriteByte('}')
	default:
		q, _ := json.Marshal(show(v))
		b.Write(q)
	}
}

// clone deep-copies []any / map[string]any trees; scalars (incl. time.Time)
// are shared.
func clone(v any) any {
	switch t := v.(type) {
	case []any:
		out := make([]any, len(t))
		for i, e := range t {
			out[i] = clone(e)
		}
		return out
	case map[string]any:
		out := make(map[string]any, len(t))
		for k, e := range t {
			out[k] = clone(e)
		}
		return out
	}
	return v
}

// visiting holds the containers on the current comparison path: a plan like
// [setall $.src.list[*] $] makes the root cyclic, and a revisit is answered
// "equal" instead of descending forever. Workers are single-threaded.
var visiting = map[uintptr]bool{}

func enter(c any) (leave func(), cyclic bool) {
	p := reflect.ValueOf(c).Pointer()
	if visiting[p] {
		return nil, true
	}
	visiting[p] = true
	return func() { delete(visiting, p) }, false
}

// snapshot deep-copies a result root right after a run: results can share
// containers with the plan (set stores plan literals by reference), so a
// later run of the same plan may change an earlier result in retrospect. A
// cyclic part is kept by reference.
func snapshot(v any) any {
	switch t := v.(type) {
	case []any:
		if len(t) == 0 {
			return []any{}
		}
		leave, cyclic := enter(t)
		if cyclic {
			return t
		}
		defer leave()
		out := make([]any, len(t))
		for i, e := range t {
			out[i] = snapshot(e)
		}
		return out
	case map[string]any:
		leave, cyclic := enter(t)
		if cyclic {
			return t
		}
		defer leave()
		out := make(map[string]any, len(t))
		for k, e := range t {
			out[k] = snapshot(e)
		}
		return out
	}
	return v
}

func intOf(v any) (int64, bool) {
	rv := reflect.ValueOf(v)
	switch rv.Kind() {
	case reflect.Int, reflect.Int8, reflect.Int16, reflect.Int32, reflect.Int64:
		return rv.Int(), true
	case reflect.Uint, reflect.Uint8, reflect.Uint16, reflect.Uint32, reflect.Uint64:
		return int64(rv.Uint()), true
	}
	return 0, false
}

func floatOf(v any) (float64, bool) {
	switch t := v.(type) {
	case float64:
		return t, true
	case float32:
		return float64(t), true
	}
	return 0, false
}

// numByValue relaxes eqStrict for the reprint oracle: 2 and 2.0 are the same
// number there (a printed plan is JSON/SEN text).
var numByValue bool

// eqNumeric is eqStrict with numbers compared by value.
func eqNumeric(a, b any) bool {
	numByValue = true
	defer func() { numByValue = false }()
	return eqStrict(a, b, 0)
}

// eqStrict: exact equality of two results of the SAME plan (determinism,
// reprint, non-interference): Go types must agree.
func eqStrict(a, b any, depth int) bool {
	if depth > maxDepth {
		return true
	}
	if numByValue {
		fa, aok := numOf(a)
		fb, bok := numOf(b)
		if aok || bok {
			return aok && bok && (fa == fb || (math.IsNaN(fa) && math.IsNaN(fb)))
		}
	}
	switch ta := a.(type) {
	case nil:
		return b == nil
	case bool:
		tb, ok := b.(bool)
		return ok && ta == tb
	case string:
		tb, ok := b.(string)
		return ok && ta == tb
	case []any:
		tb, ok := b.([]any)
		if !ok || len(ta) != len(tb) {
			return false
		}
		if len(ta) == 0 {
			return true
		}
		if leave, cyclic := enter(ta); cyclic {
			return true
		} else {
			defer leave()
		}
		for i := range ta {
			if !eqStrict(ta[i], tb[i], depth+1) {
				return false
			}
		}
		return true
	case map[string]any:
		tb, ok := b.(map[string]any)
		if !ok || len(ta) != len(tb) {
			return false
		}
		if leave, cyclic := enter(ta); cyclic {
			return true
		} else {
			defer leave()
		}
		for k, x := range ta {
			y, has := tb[k]
			if !has || !eqStrict(x, y, depth+1) {
				return false
			}
		}
		return true
	case time.Time:
		tb, ok := b.(time.Time)
		return ok && ta.Equal(tb) && ta.Format(time.RFC3339Nano) == tb.Format(time.RFC3339Nano)
	case jp.Expr:
		tb, ok := b.(jp.Expr)
		return ok && ta.String() == tb.String()
	}
	if b == nil || reflect.TypeOf(a) != reflect.TypeOf(b) {
		return false
	}
	if fa, ok := floatOf(a); ok {
		fb, _ := floatOf(b)
		return fa == fb || (math.IsNaN(fa) && math.IsNaN(fb))
	}
	if ia, ok := intOf(a); ok {
		ib, _ := intOf(b)
		return ia == ib
	}
	return show(a) == show(b)
}

// eqLoose compares an implementation value with a reference value: numbers
// by value across int/float, nil slice == empty list, jp.Expr == asmref.Path
// by their text. The reference's Unspecified matches anything.
func eqLoose(impl, ref any, depth int) bool {
	if depth > maxDepth {
		return true
	}
	if ref == any(asmref.Unspecified) {
		return true
	}
	if x, ok := impl.(jp.Expr); ok {
		p, isPath := ref.(asmref.Path)
		return isPath && p.String() == x.String()
	}
	if _, isPath := ref.(asmref.Path); isPath {
		return false
	}
	if impl == nil || ref == nil {
		return impl == nil && ref == nil
	}
	fi, iok := numOf(impl)
	fr, rok := numOf(ref)
	if iok || rok {
		return iok && rok && (fi == fr || (math.IsNaN(fi) && math.IsNaN(fr)))
	}
	switch ti := impl.(type) {
	case bool:
		tr, ok := ref.(bool)
		return ok && ti == tr
	case string:
		tr, ok := ref.(string)
		return ok && ti == tr
	case time.Time:
		tr, ok := ref.(time.Time)
		return ok && ti.Equal(tr)
	case []any:
		tr, ok := ref.([]any)
		if !ok || len(ti) != len(tr) {
			return false
		}
		if len(ti) == 0 {
			return true
		}
		if leave, cyclic := enter(ti); cyclic {
			return true
		} else {
			defer leave()
		}
		for i := range ti {
			if !eqLoose(ti[i], tr[i], depth+1) {
				return false
			}
		}
		return true
	case map[string]any:
		tr, ok := ref.(map[string]any)
		if !ok || len(ti) != len(tr) {
			return false
		}
		if leave, cyclic := enter(ti); cyclic {
			return true
		} else {
			defer leave()
		}
		for k, x := range ti {
			y, has := tr[k]
			if !has || !eqLoose(x, y, depth+1) {
				return false
			}
		}
		return true
	}
	return false
}

func numOf(v any) (float64, bool) {
	if i, ok := intOf(v); ok {
		return float64(i), true
	}
	return floatOf(v)
}

// show prints a value for messages (depth capped, map keys sorted).
func show(v any) string {
	var b strings.Builder
	showTo(&b, v, 0)
	s := b.String()
	if len(s) > 300 {
		s = s[:300] + "…"
	}
	return s
}

func showTo(b *strings.Builder, v any, depth int) {
	if depth > 8 {
		b.WriteString("…")
		return
	}
	switch t := v.(type) {
	case nil:
		b.WriteString("null")
	case string:
		b.WriteString(strconv.Quote(t))
	case float64:
		s := strconv.FormatFloat(t, 'g', -1, 64)
		if !strings.ContainsAny(s, ".eEIN") {
			s += ".0"
		}
		b.WriteString(s)
	case time.Time:
		b.WriteString("time(" + t.Format(time.RFC3339Nano) + ")")
	case jp.Expr:
		b.WriteString("path(" + t.String() + ")")
	case asmref.Path:
		b.WriteString("path(" + t.String() + ")")
	case []any:
		b.WriteByte('[')
		for i, e := range t {
			if i > 0 {
				b.WriteByte(' ')
			}
			showTo(b, e, depth+1)
		}
		b.WriteByte(']')
	case map[string]any:
		keys := make([]string, 0, len(t))
		for k := range t {
			keys = append(keys, k)
		}
		sort.Strings(keys)
		b.WriteByte('{')
		for i, k := range keys {
			if i > 0 {
				b.WriteByte(' ')
			}
			b.WriteString(k + ":")
			showTo(b, t[k], depth+1)
		}
		b.WriteByte('}')
	default:
		if v == any(asmref.Unspecified) {
			b.WriteString("<any>")
			return
		}
		rv := reflect.ValueOf(v)
		switch rv.Kind() {
		case reflect.Bool, reflect.Int, reflect.Int8, reflect.Int16, reflect.Int32, reflect.Int64,
			reflect.Uint, reflect.Uint8, reflect.Uint16, reflect.Uint32, reflect.Uint64, reflect.Float32:
			fmt.Fprintf(b, "%v", v)
		default:
			fmt.Fprintf(b, "<%T>", v)
		}
	}
}

// kindOf names the kind of a value for signatures (categorical).
func kindOf(v any) string {
	switch t := v.(type) {
	case nil:
		return "null"
	case bool:
		return "bool"
	case string:
		switch {
		case t != "" && (t[0] == '$' || t[0] == '@'):
			return "str$"
		case t == "true" || t == "false" || t == "null":
			return "strkw"
		}
		return "str"
	case []any:
		return "list"
	case map[string]any:
		return "map"
	case time.Time:
		return "time"
	case jp.Expr, asmref.Path:
		return "path"
	case float64:
		switch {
		case t == 0:
			return "float0"
		case math.IsInf(t, 0):
			return "inf"
		case math.IsNaN(t):
			return "nan"
		case t == math.Trunc(t):
			return "floatw"
		}
		return "float"
	}
	if i, ok := intOf(v); ok {
		if i == 0 {
			return "int0"
		}
		return "int"
	}
	if _, ok := floatOf(v); ok {
		return "float"
	}
	if v == any(asmref.Unspecified) {
		return "any"
	}
	return fmt.Sprintf("%T", v)
}
