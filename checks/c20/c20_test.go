package c20

import (
	"testing"
)

func TestSrcUntouchable(t *testing.T) {
	for js, want := range map[string]bool{
		`["sum",1,2]`:              true,
		`["reverse","$.src.list"]`: true,
		`["set","$.asm.x",1]`:      true,
		`["asm",["set","$.asm.x","a"],["delall","$.asm.x"]]`: true,
		`["set","$.asm.x","$.src.map"]`:                      false, // stores a src container under asm
		`["set","$.src.a",1]`:                                false,
		`["set","@.asm",1]`:                                  false,
		`["set","$.asmx",1]`:                                 false,
		`["set","$.asm..x",1]`:                               false,
		`["del","$.src.a"]`:                                  false,
		`["set","$.asm.x",["get","$.src.a"]]`:                false,
		`["each","$.src.list",["set","@.asm",1]]`:            false,
		`["cond",[true,["setall","$.src.list[*]",0]]]`:       false,
		`["set",["root","src"],1]`:                           false,
	} {
		if got := srcUntouchable(mustJSON(js)); got != want {
			t.Errorf("srcUntouchable(%s) = %v want %v", js, got, want)
		}
	}
}

func TestCyclicRootsTerminate(t *testing.T) {
	e := newEnv()
	for _, js := range []string{`["set","$.asm","$"]`, `["setall","$.src.list[*]","$"]`, `["set","$.asm.x",["list","$","$"]]`} {
		arr := mustJSON(js).([]any)
		e.judgePlan(arr, fnOf(arr, e.fns), []int{0, 5, 7})
	}
	a := map[string]any{"l": []any{nil, nil, nil}}
	for i := range a["l"].([]any) {
		a["l"].([]any)[i] = a
	}
	if !eqStrict(a, a, 0) || !eqLoose(a, a, 0) {
		t.Error("cyclic value not equal to itself")
	}
	if len(visiting) != 0 {
		t.Error("visiting set not emptied")
	}
	_ = snapshot(a)
	_ = show(a)
}

func TestFirstDiff(t *testing.T) {
	for _, c := range []struct{ a, b, want string }{
		{`["sum",2.0]`, `["sum",2]`, "floatw→int"},
		{`["sum","true"]`, `["sum",true]`, "strkw→bool"},
		{`["sum",1]`, `["sum",1]`, ""},
		{`["sum",[1,{"a":0.0}]]`, `["sum",[1,{"a":0}]]`, "float0→int0"},
		{`["sum",1]`, `["sum",1,2]`, "list(len)→list(other-len)"},
	} {
		got, _ := firstDiff(mustJSON(c.a), mustJSON(c.b), 0)
		if got != c.want {
			t.Errorf("firstDiff(%s, %s) = %q want %q", c.a, c.b, got, c.want)
		}
	}
}

// Plans the implementation gets right must come out clean under all oracles.
func TestCleanPlans(t *testing.T) {
	e := newEnv()
	all := make([]int, len(e.srcs))
	for i := range all {
		all[i] = i
	}
	for _, js := range []string{
		`["sum",1,2]`, `["sum","$.src.a",1]`, `["set","$.asm.x",["get","$.src.a"]]`, `["lt",1,"$.src.a",3]`, `["cond",[false,1],["$.src.b","yes"]]`,
		`["and",true,"$.src.b"]`, `["del","$.src.a"]`, `["getall","$.src.list[*]"]`, `["each","$.src.list",["set","@.asm","@.src"]]`,
		`[["set","$.asm.a",1],["set","$.asm.b",["sum","$.asm.a",1]]]`, `["mod",-7,3]`, `["quotient",7,2]`, `["eq",1,1.0]`, `["reverse","$.src.list"]`,
		`["inspect","$.src.a"]`, `[]`,
	} {
		arr := mustJSON(js).([]any)
		fs, _ := e.judgePlan(arr, fnOf(arr, e.fns), all)
		for _, f := range fs {
			t.Errorf("%s: unexpected finding %s on root %d: exp %s obs %s", js, f.key(), f.Root, f.Exp, f.Obs)
		}
	}
}
