package c20

import (
	"time"
)

// atom is one argument of the alphabet, kept as JSON text so that every plan
// gets freshly built values (asm.NewPlan compiles its array in place).
type atom struct {
	JS   string
	Tier int // 0: arity 4 and below, 1: arity 3 and below, 2: arity 2 and below, 3: arity 1 (quick) / arity 1-2 (thorough), 4: depth-2 nesting (thorough)
}

// literals, paths and depth-1 calls. The smaller alphabets are prefixes by
// Tier: A4 = Tier 0, A3 = Tier <= 1, A2 = Tier <= 2.
var baseAtoms = []atom{
	// --- literals
	{`null`, 1},
	{`1`, 0},
	{`0`, 0},
	{`2.5`, 0},
	{`"a"`, 0},
	{`true`, 1},
	{`"b"`, 1},
	{`[1,2]`, 1},
	{`{"a":1}`, 2},
	{`false`, 3},
	{`2`, 2},
	{`3`, 3},
	{`-1`, 2},
	{`-7`, 2},
	{`0.0`, 2},
	{`-0.5`, 2},
	{`2.0`, 2},
	// two integers next to each other that one float64 stands for (2^53 and 2^53+1)
	{`9007199254740992`, 2},
	{`9007199254740993`, 2},
	{`""`, 2},
	{`"5"`, 2},
	{`"true"`, 2},
	{`"$ x"`, 2},   // starts with $ but is not a path
	{`"@x"`, 3},    // starts with @ but is not a path
	{`"a,b c"`, 3}, // separators for split / trim
	{`"2021-03-04T05:06:07Z"`, 2},
	{`[]`, 2},
	{`["b","a"]`, 2},
	{`[[1]]`, 3},
	{`{}`, 2},
	{`{"k":"v","a":[1]}`, 3},
	// two objects of one size that share a member and differ in the name of the other
	{`{"a":1,"b":2}`, 2},
	{`{"a":1,"c":2}`, 2},
	// --- cond clauses (plain two-element lists for every other function)
	{`[true,1]`, 0},
	{`[false,2]`, 1},
	{`["$.src.b","$.src.s"]`, 2},
	{`[["lt",1,2],[1,2]]`, 2},
	{`[null,1]`, 3},
	{`[5,1]`, 3},
	{`[true,["sum",1,2]]`, 2},
	{`[true,{"a":1}]`, 3},
	{`[true]`, 3},
	// --- paths, hitting and missing
	{`"$.src.a"`, 0},
	{`"$.src.missing"`, 2},
	{`"$.src.list"`, 1},
	{`"$.src.b"`, 2},
	{`"$.src.s"`, 2},
	{`"$.src.f"`, 2},
	{`"$.src.n"`, 3},
	{`"$.src.map"`, 2},
	{`"$.src.t"`, 2},
	{`"$.src"`, 2},
	{`"$"`, 2},
	{`"@"`, 2},
	{`"@.src.a"`, 2},
	{`"@.src.list"`, 2},
	{`"@.missing"`, 3},
	{`"@.k"`, 2},
	{`"$.src.list[0]"`, 2},
	{`"$.src.list[-1]"`, 3},
	{`"$.src.list[*]"`, 2},
	{`"$.src.map.k"`, 3},
	{`"$.asm"`, 2},
	{`"$.asm.x"`, 2},
	{`"$.asm.x.y"`, 3},
	// --- nested calls, one or two representatives per function family
	{`["sum",1,2]`, 1},
	{`["set","$.asm.x",1]`, 1},
	{`["get","$.src.a"]`, 2},
	{`["quotient",1,0]`, 2},
	{`["product",2,2.5]`, 3},
	{`["lt",1,2]`, 2},
	{`["eq","$.src.a",1]`, 3},
	{`["not",true]`, 2},
	{`["cond",[false,1],[true,"c"]]`, 2},
	{`["get","@.src.list"]`, 3},
	{`["getall","$.src.list[*]"]`, 2},
	{`["set","$.src.a",2]`, 2},
	{`["set","@.asm","@.src"]`, 2},
	{`["set","$.asm",{"a":1}]`, 2},
	{`["setall","$.src.list[*]",0]`, 3},
	{`["del","$.src.a"]`, 2},
	{`["delall","$.asm.x"]`, 3},
	{`["each","$.src.list",["set","@.asm","@.src"]]`, 2},
	{`["asm",5,["sum","@",1]]`, 3},
	{`["root","src","a"]`, 2},
	{`["at","src","list"]`, 3},
	// a path put together from the data (src.s differs from root to root)
	{`["root","asm","$.src.s"]`, 2},
	{`["at","asm","@.src.s"]`, 3},
	{`["list",1,2]`, 2},
	{`["quote","$.src.a"]`, 2},
	{`["toupper","a"]`, 2},
	{`["split","a,b",","]`, 3},
	{`["string",5]`, 3},
	{`["nil?",null]`, 3},
	{`["int","5"]`, 3},
	{`["time",0]`, 2},
	{`["reverse","$.src.list"]`, 2},
	{`["sort","$.src.list","@"]`, 3},
	{`["append","$.src.list",1]`, 3},
	{`["nth","$.src.list",0]`, 3},
	{`["size","$.src.list"]`, 3},
	{`["inspect","$.src.a"]`, 3},
}

// depth-2 nesting (thorough): every template over every inner call below.
var d2Templates = []string{
	`["list",X]`,
	`["not",X]`,
	`["sum",1,X]`,
	`["get",X]`,
	`["and",true,X]`,
	`["eq",X,X]`,
	`["cond",[X,X]]`,
	`["asm",X,["list","@"]]`,
	`["each",X,["set","@.asm",["sum","@.src",1]]]`,
}

// inner calls for the set template: none of them returns the root (storing the
// root under itself makes the document cyclic, and a later string/inspect of
// it would exhaust the stack — outside what this check wants to provoke).
var d2SetInner = []string{
	`["sum","$.src.a",1]`, `["lt",1,2]`, `["get","$.src.list"]`, `["list",1,2]`, `["quote","$.src.a"]`, `["root","src","a"]`,
	`["toupper","a"]`, `["time",0]`, `["reverse","$.src.list"]`, `["quotient",1,0]`, `["get","$.asm.x"]`,
}

func d2Atoms() []atom {
	var out []atom
	for _, t := range d2Templates {
		for _, a := range baseAtoms {
			if len(a.JS) > 2 && a.JS[0] == '[' && a.JS[1] == '"' && isCallJS(a.JS) {
				out = append(out, atom{JS: replaceX(t, a.JS), Tier: 4})
			}
		}
	}
	for _, in := range d2SetInner {
		out = append(out, atom{JS: replaceX(`["set","$.asm.y",X]`, in), Tier: 4})
		out = append(out, atom{JS: replaceX(`["set","$.src.a",X]`, in), Tier: 4})
	}
	return out
}

func replaceX(t, x string) string {
	out := ""
	for i := 0; i < len(t); i++ {
		if t[i] == 'X' {
			out += x
		} else {
			out += string(t[i])
		}
	}
	return out
}

// isCallJS: the atom text is a list whose head is a lower-case word followed
// by more elements or a known call head (used only to pick inner calls).
func isCallJS(js string) bool {
	v := mustJSON(js)
	l, ok := v.([]any)
	if !ok || len(l) == 0 {
		return false
	}
	name, _ := l[0].(string)
	return callHeads[name]
}

var callHeads = map[string]bool{"sum": true, "set": true, "get": true, "quotient": true, "product": true, "lt": true, "eq": true, "not": true,
	"cond": true, "getall": true, "setall": true, "del": true, "delall": true, "each": true, "asm": true, "root": true, "at": true, "list": true,
	"quote": true, "toupper": true, "split": true, "string": true, "nil?": true, "int": true, "time": true, "reverse": true, "sort": true,
	"append": true, "nth": true, "size": true, "inspect": true}

// alphabet returns the atoms for one arity.
func alphabet(arity int, thorough bool) []string {
	maxTier := 3
	switch arity {
	case 2:
		if !thorough {
			maxTier = 2
		}
	case 3:
		maxTier = 1
	case 4:
		maxTier = 0
	}
	var out []string
	for _, a := range baseAtoms {
		if a.Tier <= maxTier {
			out = append(out, a.JS)
		}
	}
	if thorough {
		switch arity {
		case 1, 2:
			for _, a := range d2Atoms() {
				out = append(out, a.JS)
			}
		case 3: // the arity-3 alphabet grows by a few literals, paths and depth-1/2 calls
			out = append(out, `false`, `3`, `-1`, `0.0`, `""`, `"$ x"`, `"$.src.s"`, `"@"`, `"$.asm.x"`, `["lt",1,2]`, `["del","$.src.a"]`,
				`["quotient",1,0]`, `["list",["get","$.src.a"]]`, `["set","$.asm.y",["get","$.asm.x"]]`, `["set","$.asm",{"a":1}]`)
		case 4:
			out = append(out, `true`, `"b"`, `[false,2]`, `"$.src.missing"`, `["set","$.asm.x",1]`, `["get","$.src.a"]`)
		}
	}
	return out
}

var (
	tNorm = time.Date(2021, 3, 4, 5, 6, 7, 0, time.UTC)
	tZone = time.Date(2021, 3, 4, 7, 6, 7, 0, time.FixedZone("", 7200)) // same instant, +02:00
)

// roots is the 12-tree corpus of values stored under "src". Keys a b s f n
// list map t are the ones the path atoms use.
func roots() []any {
	i := func(n int64) any { return n }
	return []any{
		nil,
		i(5),
		"str",
		[]any{},
		map[string]any{},
		[]any{i(3), i(1), i(2)},
		[]any{"b", "a", "c"},
		map[string]any{"a": i(1), "b": true, "s": "x", "f": 2.5, "n": nil, "list": []any{i(3), i(1), i(2)}, "map": map[string]any{"k": "v"}, "t": tNorm},
		map[string]any{"a": i(0), "b": false, "s": "", "f": 0.0, "n": nil, "list": []any{}, "map": map[string]any{}, "t": time.Time{}},
		map[string]any{"a": i(-7), "b": true, "s": "$.src.a", "f": -0.5, "list": []any{"b", "a"}, "map": map[string]any{"a": i(1), "b": i(2)}, "t": tZone},
		map[string]any{"a": "1", "b": "true", "s": i(5), "f": "x", "n": false, "list": map[string]any{"x": i(1)}, "map": []any{i(1)}, "t": "2021-03-04T05:06:07Z"},
		map[string]any{"a": []any{i(1), []any{i(2), i(3)}}, "b": nil, "s": "abc def", "f": 1e21,
			"list": []any{map[string]any{"k": i(2), "v": "b"}, map[string]any{"k": i(1), "v": "a"}, map[string]any{"k": i(3)}},
			"map":  map[string]any{"k": map[string]any{"k": i(1)}, "list": []any{i(1)}}, "t": i(1614834367)},
	}
}

// mutatorSeq is the alphabet of an extra enumeration under asm (explicit and
// implicit): sequences of 3 (thorough: also 4) state-changing steps, the only
// plans in which one step can observe what an earlier one stored.
var mutatorSeq = []string{
	`["set","$.asm",{"a":1}]`,
	`["set","$.asm",[1,2]]`,
	`["set","$.asm","$.src.map"]`,
	`["set","$.asm.b","$.asm.a"]`,
	`["set","$.asm.a",2]`,
	`["set","$.asm[0]","$.asm[1]"]`,
	`["del","$.asm.a"]`,
	`["set","$.src.a","$.asm.b"]`,
	`["setall","$.asm.*",0]`,
	`["set","$.asm.k",["sum","$.src.a",1]]`,
	// one list appended to twice: the two results are two lists
	`["set","$.asm.l",["list",1,2,3]]`,
	`["set","$.asm.p",["append","$.asm.l",4]]`,
	`["set","$.asm.q",["append","$.asm.l",5]]`,
}
