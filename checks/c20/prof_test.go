package c20

import (
	"testing"
)

// BenchmarkJudge measures the cost of judging one plan on all roots.
func BenchmarkJudge(b *testing.B) {
	e := newEnv()
	all := make([]int, len(e.srcs))
	for i := range all {
		all[i] = i
	}
	plans := []string{`["sum","$.src.a",1]`, `["lt",1,"a"]`, `["set","$.asm.x",["get","$.src.a"]]`, `["cond",[true,1],5]`, `["toupper",5,1]`, `["each","$.src.list",["set","@.asm","@.src"]]`}
	var arrs [][]any
	for _, p := range plans {
		arrs = append(arrs, mustJSON(p).([]any))
	}
	b.ResetTimer()
	for i := 0; i < b.N; i++ {
		arr := arrs[i%len(arrs)]
		name, _ := arr[0].(string)
		e.judgePlan(arr, name, all)
	}
}
