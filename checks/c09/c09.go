// Package c09 decides C09: parse errors of the strict front-ends designate the
// first offending byte (or the position just past the input when it is only
// incomplete), identically for every front-end and chunking.
//
// The state space of each machine is explored as in C01; for the witness of
// every reachable state, every placement of whitespace / newline insertions at
// the inter-token positions, every offending continuation byte (and end of
// input) and every chunking of the resulting input is executed on the real
// front-end and the reported (line, column) compared with the byte-exact
// expectation.
package c09

import (
	"bytes"
	"encoding/json"
	"fmt"
	"reflect"
	"regexp"
	"strconv"
	"strings"

	"verif/internal/bytemc"
	"verif/internal/core"
	"verif/internal/gens"
	"verif/internal/mach"
	"verif/internal/ref/jsonref"
)

const subShards = 4

func init() {
	core.Register(&core.Check{
		ID:     "C09",
		Level:  "model_checking",
		Shards: func(tier string) int { return len(mach.Strict()) * subShards },
		Run:    run,
		Replay: replay,
		Rule: "states = product states of the C01 exploration (implementation key x RFC 8259 PDA); for each state's witness: whitespace/newline insertions at inter-token positions x offending bytes (ref dies) and EOF (ref not accepting) x tails x chunkings {[]byte, one chunk, byte-wise, every 2-split, split after each newline} x reader answers {default, io.EOF with the last chunk, one empty read at every position, on the one-chunk reading, the byte-wise one (before io.EOF) and the 2-splits next to the offending byte (two-insertion pass: on the one-chunk reading only)} and, for []byte, x {as given, likeliest continuation stored in the spare capacity, no spare capacity}; " +
			"distinct_nontrivial = distinct inputs whose offending byte lies beyond the first line (each is run under every chunking)",
		Assumptions: []string{"BOM-less inputs; columns count bytes; lines end at \\n", "jsonref decides which byte is the first offending one",
			"nesting bounded as in C01; whitespace placement bounded to <= 1 (quick) / 2 (thorough) insertions"},
		Bound: func(tier string) string {
			if tier == "thorough" {
				return "pass A: nesting D=4, <=1 insertion from 6 whitespace strings; pass B: nesting D=2, exactly 2 insertions (6 x 3 strings); 16 candidate offending bytes + EOF, 2 tails, all 2-splits"
			}
			return "nesting D=2, <=1 insertion from 6 whitespace strings, 16 candidate offending bytes + EOF, 2 tails, all 2-splits"
		},
	})
}

var insertions = []string{" ", "\n", "\n ", " \n", "\r\n", "\n\n"}
var offenders = []byte{'x', ']', '}', ',', ':', '"', '1', '-', 0x00, 0x7f, 0xff, '\n', ' ', 'e', '.', '\\'}
var tails = []string{"", "\n1"}

type caseT struct {
	Machine string   `json:"machine"`
	Entry   string   `json:"entry"` // whole | reader
	Chunks  [][]byte `json:"chunks"`
	Input   string   `json:"quoted"`
	At      int      `json:"offending_offset"`
	EOF     bool     `json:"eof"`
	GoTest  string   `json:"go_test,omitempty"`
	// the reader's answers (io.EOF with the last chunk, one empty read) or the
	// content of the input slice's spare capacity ("-" = none at all)
	EOFWithLast bool   `json:"eof_with_last,omitempty"`
	ZeroAt      int    `json:"zero_read_before_chunk,omitempty"`
	Spare       string `json:"spare_capacity,omitempty"`
}

func interToken(m jsonref.Mode) bool {
	switch m {
	case jsonref.Start, jsonref.Value, jsonref.ValueOrClose, jsonref.After, jsonref.Key1, jsonref.Key, jsonref.Colon:
		return true
	}
	return false
}

func numberEnd(m jsonref.Mode) bool {
	switch m {
	case jsonref.Zero, jsonref.Int, jsonref.Frac, jsonref.Exp:
		return true // whitespace here terminates the number
	}
	return false
}

// wsPositions returns the offsets of w (0..len) at which whitespace may be inserted.
func wsPositions(w []byte) []int {
	var out []int
	p := &jsonref.PDA{}
	for i := 0; i <= len(w); i++ {
		if interToken(p.M) || (i == len(w) && numberEnd(p.M)) {
			out = append(out, i)
		}
		if i < len(w) {
			p.Step(w[i])
		}
	}
	return out
}

func insertAt(w []byte, pos int, s string) []byte {
	out := make([]byte, 0, len(w)+len(s))
	out = append(out, w[:pos]...)
	out = append(out, s...)
	return append(out, w[pos:]...)
}

var atRe = regexp.MustCompile(` at (\d+):(-?\d+)$`)

// position extracts (line, column) from an error.
func position(err error) (line, col int, ok bool) {
	v := reflect.ValueOf(err)
	if v.Kind() == reflect.Ptr && !v.IsNil() && v.Elem().Kind() == reflect.Struct {
		l, c := v.Elem().FieldByName("Line"), v.Elem().FieldByName("Column")
		if l.IsValid() && c.IsValid() {
			return int(l.Int()), int(c.Int()), true
		}
	}
	if m := atRe.FindStringSubmatch(err.Error()); m != nil {
		l, _ := strconv.Atoi(m[1])
		c, _ := strconv.Atoi(m[2])
		return l, c, true
	}
	return 0, 0, false
}

func expected(input []byte, k int) (line, col int) {
	line = 1 + bytes.Count(input[:k], []byte{'\n'})
	col = k - bytes.LastIndexByte(input[:k], '\n')
	return
}

type chunking struct {
	class  string
	chunks [][]byte
}

func chunkings(in []byte, k int) []chunking {
	out := []chunking{{"single", [][]byte{in}}, {"bytewise", mach.Bytewise(in)}}
	for i := 1; i < len(in); i++ {
		cl := "split-other"
		switch {
		case in[i-1] == '\n':
			cl = "split-after-nl"
		case in[i] == '\n':
			cl = "split-before-nl"
		}
		if i > k {
			cl += "-past-offender"
		}
		out = append(out, chunking{cl, [][]byte{in[:i], in[i:]}})
	}
	if bytes.Count(in, []byte{'\n'}) > 1 {
		var cs [][]byte
		start := 0
		for i, b := range in {
			if b == '\n' {
				cs = append(cs, in[start:i+1])
				start = i + 1
			}
		}
		if start < len(in) {
			cs = append(cs, in[start:])
		}
		out = append(out, chunking{"split-after-every-nl", cs})
	}
	return out
}

func run(c *core.Ctx) {
	ms := mach.Strict()
	m := ms[c.Shard%len(ms)]
	sub := c.Shard / len(ms)
	// pass A: deep nesting, at most one insertion
	explore(c, m, sub, c.Pick(2, 4), 1, true)
	if !c.Quick() {
		// pass B: shallow nesting, exactly two insertions
		explore(c, m, sub, 2, 2, false)
	}
	if sub == 0 {
		refillPositions(c, m)
	}
	c.Add("traces_validated_against_impl", c.Report().Counters["evaluations"])
}

// refillPositions: the witnesses of the search are a few bytes long, so none of
// them is read in more than one buffer unless the harness cuts it. Here the
// text is longer than the 4096 bytes a reader entry point asks for: elements
// with line feeds (3.9 KB), then a tail without a line feed that runs across
// the refill (a 300-byte string, or 150 one-digit numbers), then a closer of
// the wrong kind. The last line feed is in the first buffer and the offending
// byte in the second, so the column is right only if the line start is kept
// relative to the whole input. Shifted by 0..7 blanks; []byte, reads of 4096
// (io.EOF on its own and with the last read), two reads meeting at the refill.
func refillPositions(c *core.Ctx, m *mach.M) {
	const unit = `{"k":"v\n","n":-12.5e1,"t":true,"p":"plain",` + "\n" + `"a":[null,false]},`
	tails := []string{`"` + gens.ScaleString(300) + `"`, strings.TrimSuffix(strings.Repeat("1,", 150), ",")}
	for ti, tail := range tails {
		for p := 0; p < 8; p++ {
			in := []byte(strings.Repeat(" ", p) + "[" + strings.Repeat(unit, 3950/len(unit)) + tail + "}")
			k := len(in) - 1
			if r := jsonref.Run(in[:k]); !r.Alive() || jsonref.Run(in).Alive() || bytes.LastIndexByte(in, '\n') >= 4096 || k <= 4096 {
				c.HarnessError("refill positions: the text is not what it is meant to be (tail %d shift %d)", ti, p)
				return
			}
			el, ec := expected(in, k)
			fixed := func(n int) [][]byte {
				var out [][]byte
				for i := 0; i < len(in); i += n {
					e := i + n
					if e > len(in) {
						e = len(in)
					}
					out = append(out, in[i:e])
				}
				return out
			}
			runs := []struct {
				entry, class string
				chunks       [][]byte
				cf           mach.Config
			}{
				{"whole", "whole", [][]byte{in}, mach.Config{}},
				{"reader", "reads-of-4096", fixed(4096), mach.Config{}},
				{"reader", "reads-of-4096+eof-with-last-chunk", fixed(4096), mach.Config{EOFWithLast: true}},
				{"reader", "two-reads-meeting-at-4096", [][]byte{in[:4096], in[4096:]}, mach.Config{}},
				{"reader", "two-reads-meeting-at-4095", [][]byte{in[:4095], in[4095:]}, mach.Config{}},
				{"reader", "reads-of-1000", fixed(1000), mach.Config{}},
			}
			for _, r := range runs {
				var o *mach.Out
				if r.entry == "whole" {
					o = m.Whole(in, mach.Config{})
				} else {
					o = m.Feed(r.chunks, r.cf, false, false)
				}
				c.Eval()
				c.Add("refill_position_runs", 1)
				if o.Panic != nil || o.Err == nil {
					continue // C06's / C01's business
				}
				l, col, ok := position(o.Err)
				if !ok || (l == el && col == ec) {
					continue
				}
				disc := fmt.Sprintf("col%+d", col-ec)
				if l != el {
					disc = fmt.Sprintf("line%+d", l-el)
				} else if d := col - ec; d > 3 || d < -3 {
					disc = "col-far"
				}
				cs := caseT{Machine: m.Name, Entry: r.entry, Chunks: r.chunks, Input: fmt.Sprintf("refill positions: tail %d, shift %d", ti, p), At: k, EOFWithLast: r.cf.EOFWithLast}
				c.Fail(core.Sig("fe="+m.Name+"."+r.entry, "chunking="+r.class, "at=byte", disc, "mode=past-the-4096-refill"), cs, len(in)+len(r.chunks), fmt.Sprintf("%d:%d", el, ec), fmt.Sprintf("%d:%d (%v)", l, col, o.Err))
			}
		}
	}
}

// envLight: the two-insertion pass of the thorough tier runs the reader-answer
// variants on the one-chunk reading only (its inputs are whitespace variants of
// inputs the one-insertion pass has put through all of them).
var envLight bool

func explore(c *core.Ctx, m *mach.M, sub, depth, maxIns int, countStates bool) {
	envLight = maxIns == 2
	e := &bytemc.Explorer{M: m, D: depth}
	e.Stop = func() bool { return c.Expired("C09 BFS") }
	e.Run()
	for _, h := range e.Harness {
		c.HarnessError("%s", h)
	}
	if sub == 0 && countStates {
		c.Add("states", int64(len(e.States)))
		c.Add("transitions", e.NTrans)
	}
	for _, s := range e.States {
		if s.ID%subShards != sub {
			continue
		}
		if c.Expired("C09 insertion family") {
			break
		}
		if s.Ref.SawBOM || s.Ref.M == jsonref.Bom1 || s.Ref.M == jsonref.Bom2 || len(s.Witness) > 40 {
			continue // BOM-less inputs only; macro witnesses are data variants of shorter ones
		}
		pos := wsPositions(s.Witness)
		var variants [][]byte
		if maxIns == 1 {
			variants = append(variants, s.Witness)
		}
		for _, p := range pos {
			for _, ins := range insertions {
				v := insertAt(s.Witness, p, ins)
				if maxIns == 1 {
					variants = append(variants, v)
					continue
				}
				for _, p2 := range pos {
					if p2 < p {
						continue
					}
					for _, ins2 := range []string{"\n", " \n", "\r\n"} {
						variants = append(variants, insertAt(v, p2+len(ins), ins2))
					}
				}
			}
		}
		mode := bytemc.ModeOfKey(s.Key)
		for _, v := range variants {
			r := jsonref.Run(v)
			if !r.Alive() {
				c.Add("dead_variants_skipped", 1)
				continue
			}
			for _, b := range offenders {
				q := r.Clone()
				q.Step(b)
				if q.Alive() {
					continue
				}
				for _, tl := range tails {
					in := append(append(append([]byte{}, v...), b), tl...)
					judge(c, m, mode, in, len(v), false)
				}
			}
			if !r.Accepting() && !r.NoDocument() {
				judge(c, m, mode, v, len(v), true)
			}
		}
	}
}

func judge(c *core.Ctx, m *mach.M, mode string, in []byte, k int, eof bool) {
	el, ec := expected(in, k)
	what := "byte"
	if eof {
		what = "EOF"
	}
	var cur *caseT // set while a variant run is judged
	check := func(entry, class string, chunks [][]byte, o *mach.Out) {
		c.Eval()
		cs := caseT{Machine: m.Name, Entry: entry, Chunks: chunks, Input: fmt.Sprintf("%q", in), At: k, EOF: eof}
		if cur != nil {
			cs.EOFWithLast, cs.ZeroAt, cs.Spare = cur.EOFWithLast, cur.ZeroAt, cur.Spare
		}
		if o.Panic != nil {
			return // C06's business
		}
		if o.Err == nil {
			c.Add("accepted_but_reference_rejects", 1) // C01's business
			return
		}
		l, col, ok := position(o.Err)
		if !ok {
			c.Add("errors_without_position", 1)
			return
		}
		if l == el && col == ec {
			return
		}
		disc := ""
		switch {
		case l != el:
			disc = fmt.Sprintf("line%+d", l-el)
		default:
			disc = fmt.Sprintf("col%+d", col-ec)
			// a column that is off by the offset of the chunk in which the error was raised
			off := 0
			for _, ch := range chunks {
				if off+len(ch) > k || (eof && off+len(ch) >= k) {
					break
				}
				off += len(ch)
			}
			if entry == "reader" && off > 0 && (ec-col == off || col-ec == off) {
				disc = "col-off-by-chunk-offset"
			} else if col-ec > 3 || ec-col > 3 {
				disc = "col-far"
			}
		}
		sig := core.Sig("fe="+m.Name+"."+entry, "chunking="+class, "at="+what, disc)
		if disc != "col-off-by-chunk-offset" {
			sig = core.Sig(sig, "mode="+mode)
		}
		cs.GoTest = mach.GoTest(m.Name, entry, chunks, false)
		if cur != nil {
			cs.GoTest = cur.GoTest
		}
		c.Fail(sig, cs, len(in)*10+len(chunks), fmt.Sprintf("%d:%d", el, ec), fmt.Sprintf("%d:%d (%v)", l, col, o.Err))
	}
	// variant judges a run that differs from base only in what the statement says
	// must not matter (the reader's answers, the bytes behind the input slice)
	variant := func(base *mach.Out, entry, class string, chunks [][]byte, o *mach.Out, cf mach.Config, spare []byte, exact bool) {
		c.Add("answer_and_capacity_variants", 1)
		if o.Panic == nil && o.Err == nil && base.Err != nil {
			c.Eval()
			cs := caseT{Machine: m.Name, Entry: entry, Chunks: chunks, Input: fmt.Sprintf("%q", in), At: k, EOF: eof, EOFWithLast: cf.EOFWithLast, ZeroAt: cf.ZeroAt, Spare: spareName(spare, exact)}
			cs.GoTest = mach.GoTestEnv(m.Name, entry, chunks, false, cf, spare, exact)
			c.Fail(core.Sig("fe="+m.Name+"."+entry, "chunking="+class, "at="+what, "no-error-where-the-default-run-reports-one"), cs, len(in)*10+len(chunks), fmt.Sprintf("%d:%d", el, ec), "accepted")
			return
		}
		cur = &caseT{EOFWithLast: cf.EOFWithLast, ZeroAt: cf.ZeroAt, Spare: spareName(spare, exact), GoTest: mach.GoTestEnv(m.Name, entry, chunks, false, cf, spare, exact)}
		check(entry, class, chunks, o)
		cur = nil
	}
	if el > 1 {
		c.Nontrivial() // one per distinct input whose offending byte lies beyond the first line
	}
	w := m.Whole(in, mach.Config{})
	check("whole", "whole", [][]byte{in}, w)
	// the same slice with the likeliest continuation stored behind it, and with no spare capacity
	comp, _ := bytemc.Complete(jsonref.Run(in))
	for i, spare := range [][]byte{mach.SpareFor(comp), nil} {
		variant(w, "whole", []string{"whole+continuation-in-spare-capacity", "whole+no-spare-capacity"}[i], [][]byte{in}, m.WholeSpare(in, spare, mach.Config{}), mach.Config{}, spare, i == 1)
	}
	for _, ck := range chunkings(in, k) {
		o := m.Feed(ck.chunks, mach.Config{}, false, false)
		check("reader", ck.class, ck.chunks, o)
		// the reader's other lawful answers: io.EOF with the last chunk, one empty read
		n := len(ck.chunks)
		if n == 2 {
			// only the 2-splits that fall next to the offending byte (none in the two-insertion pass)
			if d := len(ck.chunks[0]) - k; envLight || d < -1 || d > 1 {
				continue
			}
		}
		if envLight && n > 1 {
			continue
		}
		envs := []mach.Config{{EOFWithLast: true}}
		if n <= 2 {
			for z := 1; z <= n+1; z++ {
				envs = append(envs, mach.Config{ZeroAt: z})
			}
		} else {
			envs = append(envs, mach.Config{ZeroAt: n + 1})
		}
		for _, cf := range envs {
			name := "+eof-with-last-chunk"
			if cf.ZeroAt > 0 {
				name = "+empty-read"
			}
			variant(o, "reader", ck.class+name, ck.chunks, m.Feed(ck.chunks, cf, false, false), cf, nil, false)
		}
	}
	if el > 1 && len(in)%5 == 0 {
		c.Sample(map[string]any{"machine": m.Name, "input": fmt.Sprintf("%q", in), "offending_offset": k, "expected": fmt.Sprintf("%d:%d", el, ec)})
	}
}

func spareName(spare []byte, exact bool) string {
	if exact {
		return "-"
	}
	return string(spare)
}

func replay(c *core.Ctx, raw json.RawMessage) {
	var cs caseT
	if err := json.Unmarshal(raw, &cs); err != nil {
		c.HarnessError("bad case: %v", err)
		return
	}
	m := mach.ByName(cs.Machine)
	if m == nil {
		c.HarnessError("unknown machine %q", cs.Machine)
		return
	}
	var in []byte
	for _, ch := range cs.Chunks {
		in = append(in, ch...)
	}
	var o *mach.Out
	cf := mach.Config{EOFWithLast: cs.EOFWithLast, ZeroAt: cs.ZeroAt}
	switch {
	case cs.Entry == "whole" && cs.Spare == "-":
		o = m.WholeSpare(in, nil, cf)
	case cs.Entry == "whole" && cs.Spare != "":
		o = m.WholeSpare(in, []byte(cs.Spare), cf)
	case cs.Entry == "whole":
		o = m.Whole(in, cf)
	default:
		o = m.Feed(cs.Chunks, cf, false, false)
	}
	el, ec := expected(in, cs.At)
	if o.Err == nil {
		if o.Panic == nil && (cs.EOFWithLast || cs.ZeroAt > 0 || cs.Spare != "") {
			c.Fail("replay", cs, len(in), fmt.Sprintf("%d:%d", el, ec), "accepted")
		}
		return
	}
	if l, col, ok := position(o.Err); ok && (l != el || col != ec) {
		c.Fail("replay", cs, len(in), fmt.Sprintf("%d:%d", el, ec), fmt.Sprintf("%d:%d (%v)", l, col, o.Err))
	}
}
