// Package c05 decides C05: Expr.Get returns exactly the elements the path
// denotes. Every path of up to k fragments over the shared fragment alphabet
// is evaluated on every document of the data corpus and compared with the
// reference evaluator pathref (as a sequence where order is defined, as a
// multiset otherwise); position independence is checked directly on the
// implementation: Get(x.f.c) must equal the union of Get(c) over Get(x.f).
package c05

import (
	"encoding/json"
	"fmt"
	"reflect"
	"sort"
	"strings"

	"github.com/ohler55/ojg/jp"
	"verif/internal/core"
	"verif/internal/gens"
	"verif/internal/ref/pathref"
	"verif/internal/snap"
)

const nShards = 32

func init() {
	core.Register(&core.Check{
		ID:     "C05",
		Level:  "exploration",
		Shards: func(tier string) int { return nShards },
		Run:    run,
		Replay: replay,
		Rule: "every sequence of <= k fragments (after $) over the fragment alphabet (3 child keys, 12 indexes, wildcard, descent, 7 unions, the start x end x step slice product, 7 filters) x every document of the corpus (all trees of <= 3 nodes + 8 larger hand-made documents); " +
			"distinct_nontrivial = (path, document) pairs for which the reference selects at least one element",
		Assumptions: []string{"pathref is the specification; slices with |step|>1 starting outside the array and the default bounds of negative-step slices accept every reading (pathref.Variants)",
			"paths ending in a bare descent only get the no-panic / determinism oracle; results involving a descent or a multi-key map are compared as multisets",
			"filters are decided by the scriptref reference evaluator; a case whose filter verdict the reference leaves open is skipped (counted)"},
		Bound: func(tier string) string {
			if tier == "thorough" {
				return "wide alphabet (421 fragments) k<=2 on trees <=4 nodes; thinned alphabet (124 fragments) k<=3 on trees <=3 nodes"
			}
			return "wide alphabet (421 fragments) k<=2 on trees <=3 nodes + 8 larger documents"
		},
	})
}

type caseT struct {
	Path gens.JPExpr `json:"path"`
	Text string      `json:"path_text"`
	Data any         `json:"data"`
}

func safeGet(x jp.Expr, data any) (res []any, pv any, site string) {
	defer func() {
		if pv = recover(); pv != nil {
			site = snap.PanicSite()
		}
	}()
	return x.Get(data), nil, ""
}

func canonList(vs []any) []string {
	out := make([]string, len(vs))
	for i, v := range vs {
		out[i] = snap.Dump(v)
	}
	return out
}

func hitsList(hs []pathref.Hit) []string {
	out := make([]string, len(hs))
	for i, h := range hs {
		out[i] = snap.Dump(h.Value)
	}
	return out
}

func sameSeq(a, b []string) bool {
	if len(a) != len(b) {
		return false
	}
	for i := range a {
		if a[i] != b[i] {
			return false
		}
	}
	return true
}

func sameMulti(a, b []string) bool {
	if len(a) != len(b) {
		return false
	}
	x := append([]string{}, a...)
	y := append([]string{}, b...)
	sort.Strings(x)
	sort.Strings(y)
	return sameSeq(x, y)
}

func hasDescent(x gens.JPExpr) bool {
	for _, f := range x {
		if f.K == "desc" {
			return true
		}
	}
	return false
}

// verdict compares Get's result with the reference under every variant.
// ok=false with kind = missing | extra | order | wrong-elements.
func verdict(spec gens.JPExpr, data any, got []string, ordered bool) (ok, open bool, exp []string, kind string) {
	for vi, v := range pathref.Variants {
		r := pathref.SelectSpec(spec, data, v)
		if r.Open {
			return true, true, nil, ""
		}
		want := hitsList(r.Hits)
		if vi == 0 {
			exp = want
		}
		ordered := ordered && !r.MapOrder
		if sameSeq(got, want) || (!ordered && sameMulti(got, want)) {
			return true, false, want, ""
		}
	}
	switch {
	case sameMulti(got, exp):
		kind = "order"
	case len(got) < len(exp):
		kind = "missing"
	case len(got) > len(exp):
		kind = "extra"
	default:
		kind = "wrong-elements"
	}
	return false, false, exp, kind
}

// negStartEmptyReading: the path holds a negative-step slice and Get's result
// is what pathref selects when such a slice selects nothing once its start is
// at or beyond the end of the array (pathref.Variant.NegStartEmpty).
func negStartEmptyReading(spec gens.JPExpr, data any, got []string, ordered bool) bool {
	neg := false
	for _, f := range spec {
		if f.K == "slice" {
			if _, _, sp := gens.SliceParts(f); sp < 0 {
				neg = true
			}
		}
	}
	if !neg {
		return false
	}
	for _, v := range pathref.Variants {
		v.NegStartEmpty = true
		r := pathref.SelectSpec(spec, data, v)
		if r.Open {
			return false
		}
		want := hitsList(r.Hits)
		if sameSeq(got, want) || (!ordered && sameMulti(got, want)) {
			return true
		}
	}
	return false
}

// trailingDescent judges x.. : "" when the result is one of the accepted
// multisets, otherwise missing | extra | wrong-elements.
func trailingDescent(spec gens.JPExpr, data any, got []string) string {
	for _, f := range spec[:len(spec)-1] {
		if f.K == "desc" || f.K == "filter" {
			return "" // start nodes overlap or need a filter verdict: left to the other oracles
		}
	}
	var starts []pathref.Hit
	if len(spec) == 2 {
		starts = []pathref.Hit{{Value: data}}
	} else {
		ok := false
		for _, v := range pathref.Variants {
			r := pathref.SelectSpec(spec[:len(spec)-1], data, v)
			if r.Open {
				return ""
			}
			// the prefix itself is judged on its own; take the reading Get agrees with
			pre, _, _ := safeGet(spec[:len(spec)-1].Build(), data)
			if sameMulti(canonList(pre), hitsList(r.Hits)) {
				starts, ok = r.Hits, true
				break
			}
		}
		if !ok {
			return ""
		}
	}
	var below func(v any, out []string) []string
	below = func(v any, out []string) []string {
		switch t := v.(type) {
		case []any:
			for _, e := range t {
				out = below(e, append(out, snap.Dump(e)))
			}
		case map[string]any:
			for _, e := range t {
				out = below(e, append(out, snap.Dump(e)))
			}
		}
		return out
	}
	var none, all, containers []string
	for _, h := range starts {
		d := below(h.Value, nil)
		none = append(none, d...)
		all = append(append(all, snap.Dump(h.Value)), d...)
		containers = append(containers, d...)
		if k, _ := gens.NodeKind(h.Value); k != "scalar" {
			containers = append(containers, snap.Dump(h.Value))
		}
	}
	if sameMulti(got, none) || sameMulti(got, all) || sameMulti(got, containers) {
		return ""
	}
	switch {
	case len(got) < len(none):
		return "missing"
	case len(got) > len(all):
		return "extra"
	}
	return "wrong-elements"
}

// boundClass classifies an index / bound relative to the array length.
func boundClass(b, n int, omitted bool) string {
	switch {
	case omitted:
		return "omitted"
	case b < -n:
		return "<-len"
	case b == -n:
		return "-len"
	case b < 0:
		return "neg"
	case b == 0:
		return "0"
	case b < n:
		return "mid"
	case b == n:
		return "len"
	}
	return ">len"
}

func stepClass(s int) string {
	switch {
	case s == 0:
		return "0"
	case s <= -2:
		return "<=-2"
	case s == -1:
		return "-1"
	case s == 1:
		return "1"
	}
	return ">=2"
}

func containerKind(v any) (string, int) {
	switch t := v.(type) {
	case []any:
		return "array", len(t)
	case map[string]any:
		return "object", len(t)
	}
	return "scalar", 0
}

// fragCoords renders the categorical coordinates of a fragment applied to a node.
func fragCoords(f gens.JPFrag, node any) string {
	kind, n := containerKind(node)
	switch f.K {
	case "nth":
		return "nth:" + boundClass(f.N, n, false) + "@" + kind
	case "slice":
		st, en, sp := 0, gens.MaxEnd, 1
		if len(f.S) > 0 {
			st = f.S[0]
		}
		if len(f.S) > 1 {
			en = f.S[1]
		}
		if len(f.S) > 2 {
			sp = f.S[2]
		}
		return fmt.Sprintf("slice|step=%s|start=%s|end=%s@%s", stepClass(sp), boundClass(st, n, st == 0 && len(f.S) < 2), boundClass(en, n, en == gens.MaxEnd), kind)
	case "union":
		var ms []string
		for _, m := range f.U {
			if m.S != nil {
				ms = append(ms, "key")
			} else {
				ms = append(ms, "idx:"+boundClass(int(*m.I), n, false))
			}
		}
		return "union:" + strings.Join(ms, "+") + "@" + kind
	case "filter":
		if f.NestedRootFilter() {
			return "filter:nested-filter-reads-$@" + kind
		}
	}
	return f.K + "@" + kind
}

// localise blames the earliest fragment: the shortest failing prefix p; if
// its last fragment, applied on its own to each element the reference selects
// for the prefix before it, already disagrees, the fragment is wrong "as last
// fragment"; otherwise the fragment before it is wrong "as inner fragment".
func localise(spec gens.JPExpr, data any) (coords, position string) {
	for j := 1; j < len(spec); j++ { // spec[0] is root
		pre := spec[:j+1]
		got, pv, _ := safeGet(pre.Build(), data)
		ordered := !hasDescent(pre)
		if pv == nil {
			if ok, _, _, _ := verdict(pre, data, canonList(got), ordered); ok {
				continue
			}
		}
		// pre fails; does its last fragment fail on its own?
		parents := pathref.SelectSpec(spec[:j], data, pathref.Variants[0]).Hits
		last := gens.JPExpr{gens.JPSimple("root"), spec[j]}
		for _, p := range parents {
			g, pv2, _ := safeGet(last.Build(), p.Value)
			ord := spec[j].K != "desc" && !gens.HasMultiKeyMap(p.Value)
			if pv2 != nil {
				return fragCoords(spec[j], p.Value), "last"
			}
			if ok, _, _, _ := verdict(last, p.Value, canonList(g), ord); !ok {
				return fragCoords(spec[j], p.Value), "last"
			}
		}
		if j >= 2 {
			node := data
			if ps := pathref.SelectSpec(spec[:j-1], data, pathref.Variants[0]).Hits; len(ps) > 0 {
				node = ps[0].Value
			}
			return fragCoords(spec[j-1], node) + ">" + spec[j].K, "inner"
		}
		return fragCoords(spec[j], data), "last"
	}
	return "?", "?"
}

// descAfterMulti reports the kind of a multi-selecting fragment that directly
// precedes a descent ("" when there is none): Get is known to descend into only
// one of the selected nodes then, and which one depends on map order.
func descAfterMulti(spec gens.JPExpr) string {
	for i := 2; i < len(spec); i++ {
		if spec[i].K == "desc" {
			switch spec[i-1].K {
			case "wild", "union", "slice", "filter", "desc":
				return spec[i-1].K
			}
		}
	}
	return ""
}

func judge(c *core.Ctx, spec gens.JPExpr, data any, raw func() any) {
	x := spec.Build()
	got, pv, site := safeGet(x, data)
	c.Eval()
	mk := func() caseT { return caseT{Path: spec, Text: x.String(), Data: raw()} }
	size := len(spec)*1000 + len(snap.Dump(data))
	if pv != nil {
		c.Fail(core.Sig("Get", "panic", "frag="+spec[len(spec)-1].K, "site="+site), mk(), size, "a result", fmt.Sprintf("panic: %v", pv))
		return
	}
	gl := canonList(got)
	// determinism: a second evaluation gives the same multiset
	again, _, _ := safeGet(x, data)
	if !sameMulti(gl, canonList(again)) {
		if prev := descAfterMulti(spec); prev != "" {
			c.Fail(core.Sig("Get", "desc-after-multi", "prev="+prev, "nondeterministic"), mk(), size, strings.Join(gl, " "), strings.Join(canonList(again), " "))
			return
		}
		c.Fail(core.Sig("Get", "nondeterministic", "frag="+spec[len(spec)-1].K), mk(), size, strings.Join(gl, " "), strings.Join(canonList(again), " "))
		return
	}
	if spec[len(spec)-1].K == "desc" {
		// bare trailing descent: whether the start node itself is selected is not
		// fixed anywhere (DESIGN §3 C05), but every reading selects each nested
		// node exactly once: the result must be, as a multiset, the descendants
		// of the start nodes - without the start nodes, with them, or with the
		// start nodes that are containers.
		if n := trailingDescent(spec, data, gl); n != "" {
			c.Fail(core.Sig("Get", "trailing-descent", n), mk(), size, "every node below the start nodes exactly once", strings.Join(gl, " "))
		}
		return
	}
	// the order of the result is defined unless the path descends or walks the
	// members of an object with two or more members (Go map order)
	ordered := !hasDescent(spec)
	ok, open, exp, kind := verdict(spec, data, gl, ordered)
	ordered = ordered && !pathref.SelectSpec(spec, data, pathref.Variants[0]).MapOrder
	if open {
		c.Add("open_filter_verdict_skipped", 1)
		return
	}
	if len(exp) > 0 {
		c.Nontrivial()
	}
	if !ok && negStartEmptyReading(spec, data, gl, ordered) {
		// known finding: a negative-step slice whose start lies at or beyond the
		// end of the array selects nothing. Only results that are exactly what
		// that reading prescribes for the whole path are keyed here.
		c.Fail(core.Sig("Get", "negative-step-start-beyond-end-selects-nothing"), mk(), size, strings.Join(exp, " "), strings.Join(gl, " "))
		return
	}
	if !ok {
		// (the descent-after-a-multi-valued-fragment defect that used to be keyed
		// here by path shape is repaired, 9ad8be3: such paths are localised like
		// every other path)
		coords, pos := localise(spec, data)
		c.Fail(core.Sig("Get", coords, "pos="+pos, kind), mk(), size, strings.Join(exp, " "), strings.Join(gl, " "))
		return
	}
	// position independence, on the implementation alone
	if len(spec) >= 2 && len(got) > 0 && len(got) <= 8 {
		for _, cont := range []gens.JPFrag{gens.JPSimple("wild"), gens.JPNth(0), gens.JPChild("a")} {
			full := append(append(gens.JPExpr{}, spec...), cont)
			whole, pv1, _ := safeGet(full.Build(), data)
			c.Eval()
			if pv1 != nil {
				continue // reported when that path is enumerated itself
			}
			var union []any
			single := gens.JPExpr{gens.JPSimple("root"), cont}.Build()
			for _, e := range got {
				part, _, _ := safeGet(single, e)
				union = append(union, part...)
			}
			a, b := canonList(whole), canonList(union)
			if !(sameSeq(a, b) || ((!ordered || cont.K == "wild") && sameMulti(a, b))) {
				node := any(nil)
				if len(got) > 0 {
					node = got[0]
				}
				c.Fail(core.Sig("Get", "position-dependent", fragCoords(spec[len(spec)-1], parentOf(spec, data)), "then="+cont.K, "elem="+first(containerKind(node))),
					caseT{Path: full, Text: full.Build().String(), Data: raw()}, size+1, strings.Join(b, " "), strings.Join(a, " "))
			}
		}
	}
}

func first(s string, _ int) string { return s }

func parentOf(spec gens.JPExpr, data any) any {
	if len(spec) < 2 {
		return data
	}
	if hs := pathref.SelectSpec(spec[:len(spec)-1], data, pathref.Variants[0]).Hits; len(hs) > 0 {
		return hs[0].Value
	}
	return nil
}

func run(c *core.Ctx) {
	type pass struct {
		alpha *gens.PathAlphabet
		k     int
		data  []any
	}
	var passes []pass
	if c.Quick() {
		passes = []pass{{gens.Paths(true).AddFilter(gens.NestedRootScript()), 2, gens.PathData(3)}, {gens.WidePaths(), 3, gens.WideDocs()}}
	} else {
		passes = []pass{{gens.Paths(true).AddFilter(gens.NestedRootScript()), 2, gens.PathData(4)}, {gens.Paths(false), 3, gens.PathData(3)}, {gens.WidePaths(), 3, gens.WideDocs()}}
	}
	n := 0
	for _, p := range passes {
		raws := make([]any, len(p.data))
		p.alpha.EachPath(p.k, func(idx []int) bool {
			n++
			if n%nShards != c.Shard {
				return true
			}
			if n%4096 == c.Shard && c.Expired("C05 paths") {
				return false
			}
			spec := p.alpha.Expr(idx)
			for di, d := range p.data {
				di := di
				judge(c, spec, d, func() any {
					if raws[di] == nil {
						raws[di] = gens.EncodeTree(p.data[di])
					}
					return raws[di]
				})
			}
			if n == nShards*50+c.Shard {
				c.Sample(map[string]any{"path": spec.Build().String(), "documents": len(p.data)})
			}
			return true
		})
	}
}

func replay(c *core.Ctx, raw json.RawMessage) {
	var cs caseT
	if err := json.Unmarshal(raw, &cs); err != nil {
		c.HarnessError("bad case: %v", err)
		return
	}
	data, err := gens.DecodeTree(cs.Data)
	if err != nil {
		c.HarnessError("bad data: %v", err)
		return
	}
	judge(c, cs.Path, data, func() any { return cs.Data })
}

var _ = reflect.DeepEqual
