// Package c06 decides C06: no input makes a parsing entry point panic with a
// runtime fault or fail to terminate.
//
// Leg A (model checking): explicit-state search over all six byte machines in
// single- and multi-document configuration, all 256 bytes from every state,
// reader and []byte entry, end of input in every state, one injected reader
// fault at every chunk boundary of every witness.
// Leg B: every token sequence up to a length bound into the JSONPath / script
// parsers. Leg C: every function x arity x argument-kind vector into asm.
// Leg D: every small tree into Unmarshal / Recompose for a set of target types.
package c06

import (
	"encoding/json"
	"fmt"
	"reflect"
	"regexp"
	"runtime"
	"sort"
	"strings"
	"testing/iotest"
	"time"

	"github.com/ohler55/ojg/alt"
	"github.com/ohler55/ojg/asm"
	"github.com/ohler55/ojg/jp"
	"github.com/ohler55/ojg/oj"
	"github.com/ohler55/ojg/sen"
	"verif/internal/bytemc"
	"verif/internal/core"
	"verif/internal/gens"
	"verif/internal/mach"
	"verif/internal/snap"
)

// shards: 0..11 byte machines (6 machines x 2 configs), 12..27 jp tokens (16), 28 asm, 29 unmarshal
const (
	nMach   = 12
	nJP     = 16
	shAsm   = nMach + nJP
	shUnm   = shAsm + 1
	nShards = shUnm + 1
)

func init() {
	core.Register(&core.Check{
		ID:     "C06",
		Level:  "model_checking",
		Shards: func(tier string) int { return nShards },
		Run:    run,
		Replay: replay,
		Rule: "leg A: BFS over abstract states of each of the 6 byte machines (single and multi-document), 256 bytes + 3 macros per state, reader byte-wise + []byte entry + EOF + one injected read error per chunk boundary; " +
			"leg B: all token sequences up to length L over a 40-token alphabet into jp.ParseString/MustParseString/NewScript/NewFilter/MustParseEquation; leg C: asm function x arity 0..3 x argument kinds; leg D: trees x target types into oj.Unmarshal/sen.Unmarshal/alt.Recompose; " +
			"distinct_nontrivial = byte-machine states + inputs on which the entry point returned an error (malformed input actually reached the error path)",
		Assumptions: []string{"a violation is a panic escaping an entry point with an error result, a runtime.Error panic from a Must*/NewPlan variant, a fatal abort or no progress for 120 s (DESIGN.md §2.5)",
			"errors whose text starts with 'runtime error:' (faults masked by a recover wrapper) are counted, not violations"},
		Bound: func(tier string) string {
			if tier == "thorough" {
				return "leg A: strict machines nesting D=4, SEN machines D=2; leg B: token sequences <=4; leg C: arity<=3; leg D: trees <=4 nodes"
			}
			return "leg A: strict machines nesting D=3, SEN machines D=1; leg B: token sequences <=3; leg C: arity<=3; leg D: trees <=3 nodes"
		},
	})
}

var numRe = regexp.MustCompile(`[0-9]+`)

// panicKind classifies a recovered value; fault is true for runtime faults.
func panicKind(p any) (kind string, fault bool) {
	if re, ok := p.(runtime.Error); ok {
		return "runtime:" + numRe.ReplaceAllString(re.Error(), "N"), true
	}
	if _, ok := p.(error); ok {
		return "error", false
	}
	if s, ok := p.(string); ok {
		if strings.HasPrefix(s, "reflect") {
			return "reflect-message", false
		}
		return "string", false
	}
	return fmt.Sprintf("%T", p), false
}

type caseT struct {
	Leg     string   `json:"leg"`
	Machine string   `json:"machine,omitempty"`
	Multi   bool     `json:"multi,omitempty"`
	Entry   string   `json:"entry,omitempty"`
	Chunks  [][]byte `json:"chunks,omitempty"`
	ReadErr int      `json:"read_err,omitempty"`
	Text    string   `json:"text,omitempty"`
	Quoted  string   `json:"quoted,omitempty"`
	Target  string   `json:"target,omitempty"`
	GoTest  string   `json:"go_test,omitempty"`
}

func run(c *core.Ctx) {
	switch {
	case c.Shard < nMach:
		legA(c)
	case c.Shard < nMach+nJP:
		legB(c, c.Shard-nMach)
	case c.Shard == shAsm:
		legC(c)
	default:
		legD(c)
	}
}

// ------------------------------------------------------------------ leg A

func legA(c *core.Ctx) {
	all := mach.All()
	m := all[c.Shard%len(all)]
	cfg := mach.Config{Multi: c.Shard >= len(all)}
	e := &bytemc.Explorer{M: m, Cfg: cfg, Alt: 3}
	if m.Strict {
		e.D = c.Pick(3, 4)
	} else {
		e.D, e.NoRef = c.Pick(1, 2), true
		e.MaxStates = c.Pick(4000, 60000)
	}
	e.Stop = func() bool { return c.Expired("C06 BFS " + m.Name) }
	report := func(entry, mode string, chunks [][]byte, readErr int, o *mach.Out) {
		kind, _ := panicKind(o.Panic) // every panic escaping a parser entry point with an error result counts
		var in []byte
		for _, ch := range chunks {
			in = append(in, ch...)
		}
		cs := caseT{Leg: "A", Machine: m.Name, Multi: cfg.Multi, Entry: entry, Chunks: chunks, ReadErr: readErr, Quoted: fmt.Sprintf("%q", in)}
		if readErr == 0 {
			cs.GoTest = mach.GoTest(m.Name, entry, chunks, cfg.Multi)
		}
		c.Fail(core.Sig("fe="+m.Name+"."+entry, fmt.Sprintf("multi=%v", cfg.Multi), "mode="+mode, "panic="+kind, "site="+o.PanicSite), cs, len(in), "error result or success", fmt.Sprintf("panic: %v", o.Panic))
	}
	e.OnState = func(s *bytemc.State) {
		if s.EOFOut.Panic != nil {
			report("reader", bytemc.ModeOfKey(s.Key), mach.Bytewise(s.Witness), 0, s.EOFOut)
		}
		// one injected read error at every chunk boundary
		chunks := mach.Bytewise(s.Witness)
		for k := 1; k <= len(chunks)+1; k++ {
			cf := cfg
			cf.ReadErr = k
			o := m.Feed(chunks, cf, false, false)
			c.Eval()
			c.Add("fault_injections", 1)
			if o.Panic != nil {
				report("reader", bytemc.ModeOfKey(s.Key), chunks, k, o)
			}
		}
		for _, cf := range []mach.Config{{Multi: cfg.Multi, EOFWithLast: true}, {Multi: cfg.Multi, ZeroAt: len(chunks)}} {
			if len(chunks) == 0 {
				continue
			}
			o := m.Feed(chunks, cf, false, false)
			c.Eval()
			if o.Panic != nil {
				report("reader", bytemc.ModeOfKey(s.Key), chunks, -1, o)
			}
		}
	}
	e.OnTrans = func(t *bytemc.Trans) {
		c.Eval()
		mode := bytemc.ModeOfKey(t.From.Key)
		if t.Out.Panic != nil {
			report("reader", mode, mach.Bytewise(t.Input), 0, t.Out)
		}
		w := m.Whole(t.Input, cfg)
		c.Eval()
		if w.Panic != nil {
			report("whole", mode, [][]byte{t.Input}, 0, w)
		}
		if w.Err != nil && strings.HasPrefix(w.Err.Error(), "runtime error:") {
			c.Add("masked_runtime_errors", 1)
		}
	}
	// the byte-order-mark look-ahead of the reader entry points: the BFS merges
	// "a token that starts with 0xEF" with every other token, so the prefixes of
	// the mark (and near misses) are fed under every split into reads on their own
	for _, pre := range [][]byte{{0xEF}, {0xEF, 0xBB}, {0xEF, 0xBB, 0xBF}, {0xEF, 0x00}, {0xEF, 0xBB, 0x00}, {0xEF, 0xEF}} {
		for _, suf := range []string{"", "1", "[1]", "a ", "\"x\"", "{\"a\":1}"} {
			in := append(append([]byte{}, pre...), suf...)
			for mask := 0; mask < 1<<uint(len(in)-1) && mask < 64; mask++ {
				// bit i of mask set = a read boundary after byte i (the first six bytes)
				var chunks [][]byte
				start := 0
				for i := 0; i < len(in)-1; i++ {
					if i < 6 && mask>>uint(i)&1 == 1 {
						chunks = append(chunks, in[start:i+1])
						start = i + 1
					}
				}
				chunks = append(chunks, in[start:])
				o := m.Feed(chunks, cfg, false, false)
				c.Eval()
				c.Add("bom_prefix_runs", 1)
				if o.Panic != nil {
					report("reader", "bom-look-ahead", chunks, 0, o)
				}
			}
		}
	}
	e.Run()
	if !cfg.Multi {
		scaleFaults(c, m, cfg, report)
	}
	for _, h := range e.Harness {
		if m.Strict {
			c.HarnessError("%s", h)
		}
	}
	if e.MaxStates > 0 && len(e.States) >= e.MaxStates {
		c.Cap(fmt.Sprintf("%s: state cap %d reached", m.Name, e.MaxStates))
	}
	c.Add("states", int64(len(e.States)))
	c.Add("transitions", e.NTrans)
	c.Add("traces_validated_against_impl", e.NTrans)
	c.Add("distinct_nontrivial", int64(len(e.States)))
	c.Add("merge_audit_runs", e.Audits)
	c.Add("merge_audit_mismatches", e.AuditMismatches)
	if len(e.States) > 10 {
		s := e.States[len(e.States)/2]
		c.Sample(map[string]any{"leg": "A", "machine": m.Name, "multi": cfg.Multi, "witness": fmt.Sprintf("%q", s.Witness), "state": s.Key})
	}
}

// scaleFaults: the search is bounded in nesting and merges "one more element",
// so no stack, map or token buffer of a front-end is ever grown in it. Every
// document of the scale family (counts, depths and lengths on both sides of
// every fixed capacity), every cut of it (all of them for a short text, the
// ones next to the powers of two and to the end for a long one), the cut with
// a closer of either kind behind it, and the refill sweep (every byte of an
// element on the last byte of a 4096-byte read) go through the machine under
// recover: []byte, one-byte reads (short texts), reads of 16 and of 4096 bytes.
func scaleFaults(c *core.Ctx, m *mach.M, cfg mach.Config, report func(entry, mode string, chunks [][]byte, readErr int, o *mach.Out)) {
	try := func(mode string, in []byte) {
		runs := [][][]byte{nil, fixedReads(in, 16)}
		if len(in) <= 300 {
			runs = append(runs, mach.Bytewise(in))
		}
		if len(in) > 4096 {
			runs = append(runs, fixedReads(in, 4096))
		}
		for _, chunks := range runs {
			var o *mach.Out
			if chunks == nil {
				o = m.Whole(in, cfg)
			} else {
				o = m.Feed(chunks, cfg, false, false)
			}
			c.Eval()
			c.Add("scale_family_runs", 1)
			if o.Panic != nil {
				if chunks == nil {
					report("whole", mode, [][]byte{in}, 0, o)
				} else {
					report("reader", mode, chunks, 0, o)
				}
				return
			}
		}
	}
	for _, d := range gens.ScaleDocs(c.Quick()) {
		if c.Expired("C06 scale family") {
			return
		}
		t := gens.ScaleJSON(d.Tree)
		mode := "scale-" + d.Name[:strings.IndexByte(d.Name, ':')]
		try(mode, t)
		var cuts []int
		if len(t) <= 300 {
			for i := 1; i < len(t); i++ {
				cuts = append(cuts, i)
			}
		} else {
			for p := 8; p < len(t); p *= 2 {
				cuts = append(cuts, p-1, p, p+1)
			}
			cuts = append(cuts, len(t)-2, len(t)-1)
		}
		for _, i := range cuts {
			if i <= 0 || i >= len(t) {
				continue
			}
			try(mode+"-cut", t[:i])
			for _, cl := range []byte{']', '}'} {
				try(mode+"-cut-and-closed", append(append([]byte{}, t[:i]...), cl))
			}
		}
	}
	const unit = `{"k":"v\n","n":-12.5e1,"t":true,"\u0041":"\u0042c","p":"plain",` + "\n" + `"a":[null,false]},`
	body := "[" + strings.Repeat(unit, 4700/len(unit)) + "0]"
	for p := 0; p < len(unit); p++ {
		if c.Expired("C06 refill sweep") {
			return
		}
		in := []byte(strings.Repeat(" ", p) + body)
		try("refill-sweep", in)
		try("refill-sweep-cut", in[:4096])
		try("refill-sweep-cut", in[:4097])
	}
}

func fixedReads(data []byte, k int) [][]byte {
	var out [][]byte
	for i := 0; i < len(data); i += k {
		e := i + k
		if e > len(data) {
			e = len(data)
		}
		out = append(out, data[i:e])
	}
	return out
}

// ------------------------------------------------------------------ leg B

var jpTokens = []string{"$", "@", ".", "..", "*", "[", "]", "(", ")", "?", ",", ":", "'", "\"", "-", "0", "1", "12", "a", "'k'",
	"==", "!=", "<", "&&", "||", "!", "~=", "/x/", " in ", " has ", " empty ", "true", "null", "Nothing", "length(", "count(", " ", "\\", "\\u00", "1.5e", "=~", "+", "#", "\x00", "\xff"}

type jpEntry struct {
	name string
	must bool
	call func(s string) error
}

var jpEntries = []jpEntry{
	{"jp.ParseString", false, func(s string) error { _, err := jp.ParseString(s); return err }},
	{"jp.MustParseString", true, func(s string) error { jp.MustParseString(s); return nil }},
	{"jp.NewScript", false, func(s string) error { _, err := jp.NewScript(s); return err }},
	{"jp.NewFilter", false, func(s string) error { _, err := jp.NewFilter(s); return err }},
	{"jp.MustParseEquation", true, func(s string) error { jp.MustParseEquation(s); return nil }},
}

func tryJP(c *core.Ctx, s string) {
	c.Case(func() string { return fmt.Sprintf("jp parse entry points on %q", s) })
	for _, e := range jpEntries {
		var err error
		var pv any
		site := ""
		func() {
			defer func() {
				if pv = recover(); pv != nil {
					site = snap.PanicSite()
				}
			}()
			err = e.call(s)
		}()
		c.Eval()
		if pv != nil {
			kind, fault := panicKind(pv)
			if e.must && !fault {
				c.Add("must_panics_with_error", 1)
				continue
			}
			cs := caseT{Leg: "B", Entry: e.name, Text: s, Quoted: fmt.Sprintf("%q", s)}
			c.Fail(core.Sig("fe="+e.name, "panic="+kind, "site="+site), cs, len(s), "error result (or panic carrying the error for Must*)", fmt.Sprintf("panic: %v", pv))
			continue
		}
		if err != nil {
			if strings.HasPrefix(err.Error(), "runtime error:") {
				c.Add("masked_runtime_errors", 1)
			}
			if e.name == "jp.ParseString" {
				c.Nontrivial()
			}
		}
	}
}

// shape abstracts an input to its character classes (signature coordinate).
func shape(s string) string {
	var b strings.Builder
	last := byte(0)
	for i := 0; i < len(s) && b.Len() < 24; i++ {
		ch := s[i]
		var cl byte
		switch {
		case ch >= '0' && ch <= '9':
			cl = '9'
		case ch >= 'a' && ch <= 'z' || ch >= 'A' && ch <= 'Z':
			cl = 'a'
		case ch >= 0x80 || ch < 0x20:
			cl = '~'
		default:
			cl = ch
		}
		if cl == last && (cl == '9' || cl == 'a') {
			continue
		}
		last = cl
		b.WriteByte(cl)
	}
	return b.String()
}

func legB(c *core.Ctx, sub int) {
	maxLen := c.Pick(3, 4)
	n := len(jpTokens)
	// nesting families on sub-shard 0
	if sub == 0 {
		for _, open := range []string{"[", "(", "[?(", "$[?(@", "..", "$.", "!", "-", "[?(!", "$[?(@.a==", "$[?(1+", "(((", "[[", "[?(length("} {
			for _, k := range []int{1, 2, 3, 8, 64, 1000, 100000} {
				if k > 1000 && c.Quick() {
					continue
				}
				tryJP(c, strings.Repeat(open, k))
				tryJP(c, "$"+strings.Repeat(open, k))
			}
		}
	}
	// proc fragments ([(...)]) behind every kind of earlier fragment, complete and cut short: the
	// reader looks for the ")]" that ends the proc, and earlier fragments may hold one too
	if sub == 0 {
		for _, pre := range []string{"$", "$.a", "$[0]", "$[?(@.x)]", "$[')]']", "$[(0)]", "$..", "$[*]", "$[1:2]", "@"} {
			for _, proc := range []string{"[(1)]", "[(@.length-1)]", "[(@.length - 1)]", "[(", "[(1", "[(1)", "[()]", "[(1)][(2)]", "[(')]')]"} {
				tryJP(c, pre+proc)
				tryJP(c, pre+proc+".b")
				c.Add("proc_fragment_texts", 2)
			}
		}
	}
	// well-formed scripts with parentheses that are not needed (printed scripts
	// never hold any, and the token sequences below are too short for them):
	// operand op operand with one or two pairs around either operand and the whole
	if sub == 1%nJP {
		atoms := []string{"@.a", "1", "'x'", "true", "$.a", "length(@.a)", "@"}
		for _, l := range atoms {
			for _, op := range []string{"==", "<", "&&", "||", "+", "in", "has", "=~"} {
				for _, r := range atoms {
					for _, v := range []string{
						"((" + l + ") " + op + " " + r + ")", "(" + l + " " + op + " (" + r + "))", "((" + l + ") " + op + " (" + r + "))",
						"(((" + l + ")) " + op + " " + r + ")", "((" + l + " " + op + " " + r + "))", "(!(" + l + ") " + op + " " + r + ")", "((" + l + "))", "(!(" + l + "))",
					} {
						tryJP(c, v)
						tryJP(c, "[?"+v+"]")
						tryJP(c, "$[?"+v+"]")
						c.Add("redundant_parentheses_texts", 3)
					}
				}
			}
		}
	}
	idx := 0
	var rec func(prefix string, depth int) bool
	rec = func(prefix string, depth int) bool {
		if depth > 0 {
			tryJP(c, prefix)
		}
		if depth == maxLen {
			return true
		}
		for _, t := range jpTokens {
			if depth == 1 && c.Expired("C06 jp tokens") {
				return false
			}
			if !rec(prefix+t, depth+1) {
				return false
			}
		}
		return true
	}
	// shard on the first two tokens
	for i := 0; i < n; i++ {
		for j := 0; j < n; j++ {
			idx++
			if idx%nJP != sub {
				continue
			}
			if j == 0 && i%nJP == sub {
				tryJP(c, jpTokens[i])
			}
			if !rec(jpTokens[i]+jpTokens[j], 2) {
				return
			}
		}
	}
	c.Sample(map[string]any{"leg": "B", "example": "$[?(@.a==" + jpTokens[sub], "alphabet": len(jpTokens), "max_len": maxLen})
}

// ------------------------------------------------------------------ leg C

func asmArgs() []any {
	return []any{nil, true, 1, -1, 0, 1.5, "s", "$.src", "@.x", "$.src.a[0]", []any{}, []any{1, 2}, map[string]any{}, map[string]any{"a": 1}, []any{"quote", 1}, []any{"get", "$.src"}, time.Unix(0, 0).UTC()}
}

var lastSite string

func execPlan(plan []any) (err error, pv any) {
	defer func() {
		if pv = recover(); pv != nil {
			lastSite = snap.PanicSite()
		}
	}()
	p := asm.NewPlan(plan)
	root := map[string]any{"src": map[string]any{"a": []any{1, 2, 3}, "b": "x", "c": map[string]any{"d": 1.5}}}
	err = p.Execute(root)
	return
}

// senTokenFuncs: the token functions of sen.Parser (AddMongoFuncs and a
// user function) with every kind and number of arguments, in three contexts,
// from a byte slice and through one-byte reads. The functions receive whatever
// the text holds: a fault in one of them escapes through Parse.
func senTokenFuncs(c *core.Ctx) {
	fns := []string{"ISODate", "ObjectId", "NumberInt", "NumberLong", "NumberDecimal", "User", "Unknown"}
	args := []string{"", `"5"`, `"2021-02-03T04:05:06Z"`, `"x"`, `""`, "5", "-1", "1.5", "123456789012345678901234567890", "null", "true", "[1 2]", "[]", "{a:1}", "abc", `"a" "b"`, "1 2 3", "ISODate(\"2021-02-03T04:05:06Z\")"}
	ctxs := []string{"%s", "[1 %s 2]", "{a:%s b:1}"}
	for _, fn := range fns {
		for _, a := range args {
			for _, ctx := range ctxs {
				text := fmt.Sprintf(ctx, fn+"("+a+")")
				for _, reader := range []bool{false, true} {
					var pv any
					site := ""
					func() {
						defer func() {
							if pv = recover(); pv != nil {
								site = snap.PanicSite()
							}
						}()
						p := &sen.Parser{}
						p.AddMongoFuncs()
						p.AddTokenFunc("User", func(args ...any) any { return len(args) })
						if reader {
							_, _ = p.ParseReader(iotest.OneByteReader(strings.NewReader(text)))
						} else {
							_, _ = p.Parse([]byte(text))
						}
					}()
					c.Eval()
					c.Add("sen_token_function_calls", 1)
					if pv != nil {
						kind, _ := panicKind(pv)
						cs := caseT{Leg: "C", Entry: "sen.Parser+AddMongoFuncs", Text: text, Quoted: fmt.Sprintf("%q", text)}
						c.Fail(core.Sig("fe=sen.Parser.tokenfunc", "fn="+fn, "panic="+kind, "site="+site), cs, len(text), "error result or success", fmt.Sprintf("panic: %v", pv))
					}
				}
			}
		}
	}
}

func legC(c *core.Ctx) {
	senTokenFuncs(c)
	var names []string
	for n := range asm.FnDocs() {
		names = append(names, n)
	}
	sort.Strings(names)
	args := asmArgs()
	kindOf := func(a any) string {
		switch t := a.(type) {
		case nil:
			return "null"
		case string:
			if strings.HasPrefix(t, "$") || strings.HasPrefix(t, "@") {
				return "path"
			}
			return "string"
		case []any:
			if len(t) > 0 {
				if s, ok := t[0].(string); ok {
					return "call:" + s
				}
			}
			return "list"
		}
		return fmt.Sprintf("%T", a)
	}
	try := func(name string, av []any) {
		plan := append([]any{name}, gens.Clone(av).([]any)...)
		c.Case(func() string { return "asm plan " + sen.String(plan) })
		err, pv := execPlan(plan)
		c.Eval()
		if err != nil {
			c.Nontrivial()
			if strings.HasPrefix(err.Error(), "runtime error:") || strings.Contains(err.Error(), "runtime error:") {
				c.Add("masked_runtime_errors", 1)
			}
		}
		if pv != nil {
			kind, fault := panicKind(pv)
			if !fault {
				c.Add("newplan_panics_with_error", 1)
				return
			}
			var ks []string
			for _, a := range av {
				ks = append(ks, kindOf(a))
			}
			txt := sen.String(plan)
			c.Fail(core.Sig("fe=asm", "fn="+name, "args="+strings.Join(ks, ","), "panic="+kind, "site="+lastSite), caseT{Leg: "C", Text: txt}, len(txt), "error or completion", fmt.Sprintf("panic: %v", pv))
		}
	}
	for _, name := range names {
		try(name, nil)
		for _, a := range args {
			try(name, []any{a})
			for _, b := range args {
				try(name, []any{a, b})
				if c.Expired("C06 asm") {
					return
				}
				for _, d := range args {
					try(name, []any{a, b, d})
				}
			}
		}
	}
	// non-list heads and odd plans
	for _, plan := range [][]any{{}, {1}, {nil}, {[]any{}}, {"nosuchfn"}, {"asm", 1, "x"}, {[]any{"set"}}, {map[string]any{}}} {
		_, pv := execPlan(plan)
		c.Eval()
		if pv != nil {
			if kind, fault := panicKind(pv); fault {
				c.Fail(core.Sig("fe=asm", "odd-plan", "panic="+kind), caseT{Leg: "C", Text: sen.String(plan)}, 1, "error or completion", fmt.Sprintf("panic: %v", pv))
			}
		}
	}
	c.Sample(map[string]any{"leg": "C", "functions": len(names), "example": "[" + names[0] + " $.src 1]"})
}

// ------------------------------------------------------------------ leg D

type inner struct {
	X int
	Y []string
}

type target struct {
	A int
	B string
	C []int
	D map[string]any
	E *inner
	F any
	G inner
	H [2]int
	I map[string]*inner
	J []inner
	K float32
	L bool
	M time.Time
	N []byte
	o int //nolint:unused
}

func targets() map[string]func() any {
	return map[string]func() any{
		"int": func() any { return new(int) }, "string": func() any { return new(string) }, "bool": func() any { return new(bool) },
		"float64": func() any { return new(float64) }, "uint8": func() any { return new(uint8) }, "[]int": func() any { return new([]int) },
		"[]string": func() any { return new([]string) }, "[]any": func() any { return new([]any) }, "[2]int": func() any { return new([2]int) },
		"map[string]int": func() any { return new(map[string]int) }, "map[string]any": func() any { return new(map[string]any) },
		"map[int]string": func() any { return new(map[int]string) }, "any": func() any { return new(any) },
		"struct": func() any { return new(target) }, "*struct": func() any { return new(*target) }, "[]struct": func() any { return new([]target) },
		"[]*struct": func() any { return new([]*inner) }, "map[string]struct": func() any { return new(map[string]inner) },
		"time": func() any { return new(time.Time) }, "[]byte": func() any { return new([]byte) }, "**int": func() any { return new(**int) },
		"chan": func() any { return new(chan int) }, "func": func() any { return new(func()) }, "nonptr-int": func() any { return 0 },
		"nil": func() any { return nil }, "struct-value": func() any { return target{} },
	}
}

func legD(c *core.Ctx) {
	leaves := []any{nil, true, int64(1), 1.5, "s", "2021-01-01T00:00:00Z"}
	keys := []string{"a", "x", "e"}
	tg := targets()
	var names []string
	for n := range tg {
		names = append(names, n)
	}
	sort.Strings(names)
	type entry struct {
		name string
		call func(tree any, text []byte, vp any) error
	}
	entries := []entry{
		{"alt.MustRecompose", func(tree any, text []byte, vp any) (err error) {
			defer func() { // a Must variant may panic, but only with an error that is not a runtime fault
				if p := recover(); p != nil {
					if _, fault := panicKind(p); fault {
						panic(p)
					}
					err, _ = p.(error)
					if err == nil {
						err = fmt.Errorf("%v", p)
					}
				}
			}()
			alt.MustRecompose(gens.Clone(tree), vp)
			return nil
		}},
		{"alt.Recomposer.MustRecompose", func(tree any, text []byte, vp any) (err error) {
			defer func() {
				if p := recover(); p != nil {
					if _, fault := panicKind(p); fault {
						panic(p)
					}
					err, _ = p.(error)
					if err == nil {
						err = fmt.Errorf("%v", p)
					}
				}
			}()
			alt.MustNewRecomposer("^", nil).MustRecompose(gens.Clone(tree), vp)
			return nil
		}},
		{"oj.Unmarshal", func(tree any, text []byte, vp any) error { return oj.Unmarshal(text, vp) }},
		{"sen.Unmarshal", func(tree any, text []byte, vp any) error { return sen.Unmarshal(text, vp) }},
		{"alt.Recompose", func(tree any, text []byte, vp any) error { _, err := alt.Recompose(gens.Clone(tree), vp); return err }},
		{"alt.Recomposer.Recompose", func(tree any, text []byte, vp any) error {
			r, err := alt.NewRecomposer("^", nil)
			if err != nil {
				return err
			}
			_, err = r.Recompose(gens.Clone(tree), vp)
			return err
		}},
	}
	// struct-shaped keys so fields are actually hit
	for _, ks := range [][]string{keys, {"a", "b", "c"}, {"e", "f", "g"}, {"h", "i", "j"}, {"^", "d", "m"}, {"", "a", "^"}} {
		gens.Trees(c.Pick(3, 4), leaves, ks, func(tree any) bool {
			if c.Expired("C06 unmarshal") {
				return false
			}
			text := []byte(oj.JSON(tree))
			c.Case(func() string { return "unmarshal/recompose of " + string(text) })
			for _, tn := range names {
				for _, e := range entries {
					var pv any
					var err error
					site := ""
					func() {
						defer func() {
							if pv = recover(); pv != nil {
								site = snap.PanicSite()
							}
						}()
						err = e.call(tree, text, tg[tn]())
					}()
					c.Eval()
					if err != nil {
						c.Nontrivial()
						if strings.Contains(err.Error(), "runtime error:") {
							c.Add("masked_runtime_errors", 1)
						}
					}
					if pv != nil {
						kind, _ := panicKind(pv)
						c.Fail(core.Sig("fe="+e.name, "target="+tn, "data="+treeKind(tree), "panic="+kind, "site="+site),
							caseT{Leg: "D", Entry: e.name, Target: tn, Text: string(text)}, len(text), "error result or success", fmt.Sprintf("panic: %v", pv))
					}
				}
			}
			return true
		})
	}
	c.Sample(map[string]any{"leg": "D", "targets": names, "example": `{"a":[true]} -> struct`})
}

func treeKind(v any) string {
	switch t := v.(type) {
	case nil:
		return "null"
	case []any:
		if len(t) == 0 {
			return "[]"
		}
		return "[" + treeKind(t[0]) + "…]"
	case map[string]any:
		if len(t) == 0 {
			return "{}"
		}
		var ks []string
		for k := range t {
			ks = append(ks, k)
		}
		sort.Strings(ks)
		return "{" + ks[0] + ":" + treeKind(t[ks[0]]) + "…}"
	}
	return reflect.TypeOf(v).String()
}

// ------------------------------------------------------------------ replay

func replay(c *core.Ctx, raw json.RawMessage) {
	var cs caseT
	if err := json.Unmarshal(raw, &cs); err != nil {
		c.HarnessError("bad case: %v", err)
		return
	}
	switch cs.Leg {
	case "A":
		m := mach.ByName(cs.Machine)
		if m == nil {
			c.HarnessError("unknown machine")
			return
		}
		cfg := mach.Config{Multi: cs.Multi}
		var o *mach.Out
		if cs.Entry == "whole" {
			var in []byte
			for _, ch := range cs.Chunks {
				in = append(in, ch...)
			}
			o = m.Whole(in, cfg)
		} else {
			if cs.ReadErr > 0 {
				cfg.ReadErr = cs.ReadErr
			}
			o = m.Feed(cs.Chunks, cfg, false, false)
		}
		if o.Panic != nil {
			c.Fail("replay", cs, 1, "no panic", fmt.Sprintf("panic: %v", o.Panic))
		}
	case "B":
		for _, e := range jpEntries {
			if e.name != cs.Entry {
				continue
			}
			var pv any
			func() {
				defer func() { pv = recover() }()
				_ = e.call(cs.Text)
			}()
			if pv != nil {
				if _, fault := panicKind(pv); fault || !e.must {
					c.Fail("replay", cs, 1, "no runtime fault", fmt.Sprintf("panic: %v", pv))
				}
			}
		}
	case "C":
		v, err := sen.Parse([]byte(cs.Text))
		if err != nil {
			c.HarnessError("cannot parse plan %q: %v", cs.Text, err)
			return
		}
		plan, _ := v.([]any)
		if _, pv := execPlan(plan); pv != nil {
			if _, fault := panicKind(pv); fault {
				c.Fail("replay", cs, 1, "no runtime fault", fmt.Sprintf("panic: %v", pv))
			}
		}
	case "D":
		tg := targets()[cs.Target]
		if tg == nil {
			c.HarnessError("unknown target")
			return
		}
		tree, _ := oj.Parse([]byte(cs.Text))
		var pv any
		func() {
			defer func() { pv = recover() }()
			switch cs.Entry {
			case "oj.Unmarshal":
				_ = oj.Unmarshal([]byte(cs.Text), tg())
			case "sen.Unmarshal":
				_ = sen.Unmarshal([]byte(cs.Text), tg())
			default:
				_, _ = alt.Recompose(tree, tg())
			}
		}()
		if pv != nil {
			c.Fail("replay", cs, 1, "no panic", fmt.Sprintf("panic: %v", pv))
		}
	}
}
