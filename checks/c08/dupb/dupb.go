// Package dupb holds a struct type whose short name is also used in package
// dupb: a recomposer keeps types by short and by full name.
package dupb

type Point struct {
	X   int
	Tag string
}
