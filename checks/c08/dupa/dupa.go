// Package dupa holds a struct type whose short name is also used in package
// dupb: a recomposer keeps types by short and by full name.
package dupa

type Point struct {
	X   int
	Tag string
}
