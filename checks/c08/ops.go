package c08

import (
	"bytes"
	"fmt"
	"reflect"
	"runtime"
	"strings"

	"github.com/ohler55/ojg"
	"github.com/ohler55/ojg/alt"
	"github.com/ohler55/ojg/gen"
	"github.com/ohler55/ojg/jp"
	"github.com/ohler55/ojg/oj"
	"github.com/ohler55/ojg/pretty"
	"github.com/ohler55/ojg/sen"
	"verif/checks/c08/dupa"
	"verif/checks/c08/dupb"
	"verif/internal/mach"
	"verif/internal/snap"
)

// Op is one API call on goroutine-private data. Run returns the canonical
// text of what the call returned and, for calls that hand out a buffer, the
// buffer itself (it must still hold that text when the caller looks again).
type Op struct {
	Name string
	Run  func() (text string, keep []byte)
}

// Group is a set of calls that share hidden state (a pool, a plan cache, a
// shared expression) and are therefore forced to collide.
type Group struct {
	Name   string
	Shared string
	Ops    []Op
	// Snapshot renders the shared objects the calls must leave untouched.
	Snapshot func() string
}

// struct types first seen concurrently by oj, sen, alt and pretty
type Inner struct {
	X int
	Y string `json:"y,omitempty"`
}

type Outer struct {
	Name  string
	In    Inner
	Ptr   *Inner
	List  []int
	Empty string `json:",omitempty"`
}

type Other struct {
	A float64
	B []string
	C map[string]int
}

// Holder is registered on its own: the types of its fields (behind a map, a
// slice, a pointer and an array) must have been registered with it, not on
// first use inside a Recompose call that other goroutines share.
type LeafM struct{ V int }
type LeafS struct{ V int }
type LeafP struct{ V int }
type LeafA struct{ V int }
type Holder struct {
	ByKey map[string]*LeafM
	List  []*LeafS
	Ptr   *LeafP
	Arr   [1]LeafA
}

func holderData() map[string]any {
	return map[string]any{"^": "Holder", "byKey": map[string]any{"k": map[string]any{"v": 1}}, "list": []any{map[string]any{"v": 2}},
		"ptr": map[string]any{"v": 3}, "arr": []any{map[string]any{"v": 4}}}
}

func outer() *Outer {
	return &Outer{Name: "outer-value-with-some-length", In: Inner{X: 7, Y: "y"}, Ptr: &Inner{X: 8}, List: []int{1, 2, 3, 4, 5, 6, 7, 8, 9}}
}

func other() *Other {
	return &Other{A: 2.5, B: []string{"p", "q"}, C: map[string]int{"k": 1}}
}

var sortOpt = &ojg.Options{Sort: true}
var emptyOpt = &ojg.Options{Sort: true, OmitEmpty: true}
var indentOpt = &ojg.Options{Sort: true, Indent: 2}

func errText(err error) string {
	if err == nil {
		return "<nil>"
	}
	return err.Error()
}

// slowWriter is a consumer that looks at the bytes it is handed only after
// other goroutines had a chance to run (io.Writer may not retain p, but it may
// take its time inside Write).
type slowWriter struct{ got []byte }

func (w *slowWriter) Write(p []byte) (int, error) {
	Pause()
	w.got = append(w.got, p...)
	return len(p), nil
}

// Pause is the scheduling point of slow consumers: the controlled scheduler's
// Yield under exploration, runtime.Gosched in the free-running race pass.
var Pause = func() { runtime.Gosched() }

func small() any { return []any{int64(1), "a", true} }

func long() any { return []any{strings.Repeat("0123456789", 30), map[string]any{"k": []any{nil, 1.5}}} }

// huge is written as more text than the buffer a pooled writer starts with
// (1024 bytes): the buffer is grown, and what is done with the grown buffer is
// another piece of code than what is done with the one that sufficed.
func huge() any {
	return []any{strings.Repeat("0123456789", 120), map[string]any{"k": []any{nil, 1.5}}}
}

// Groups returns the harness alphabet.
func Groups() []*Group {
	sharedExpr := jp.MustParseString("$.a[?(@.x > 1)].y")
	sharedScript := jp.MustNewScript("(@.x > 1 && @.y != 'n')")
	sharedFilter := jp.MustNewFilter("[?(@.x == 3)]")
	wild := jp.MustParseString("$..[?(@.x == 3)].y")
	data := func() any {
		return map[string]any{"a": []any{
			map[string]any{"x": int64(1), "y": "n"}, map[string]any{"x": int64(2), "y": "p"}, map[string]any{"x": int64(3), "y": "q"}}}
	}
	rec := alt.MustNewRecomposer("^", map[any]alt.RecomposeFunc{&Inner{}: nil, &Outer{}: nil, &Other{}: nil, &Holder{}: nil})
	// two types with one short name (different packages) and two anonymous struct
	// types (no name at all), all known to the recomposer before the calls start
	_ = rec.RegisterComposer(&dupa.Point{}, nil)
	_ = rec.RegisterComposer(&dupb.Point{}, nil)
	_, _ = rec.Recompose(map[string]any{"v": 1}, &struct{ V int }{})
	_, _ = rec.Recompose(map[string]any{"w": "s"}, &struct{ W string }{})
	locExpr := jp.MustParseString("$.a[?(@.x > $.a[0].x)].y")
	// a script whose list operand holds Go ints and a float32 (built with the
	// constructors): evaluation has to leave the shared list as it is
	listScript := jp.In(jp.Get(jp.A().C("x")), jp.ConstList([]any{1, 2, float32(2.5), "s"})).Script()
	listExpr := jp.R().C("a").Filter(jp.In(jp.Get(jp.A().C("x")), jp.ConstList([]any{3, int8(1)})))
	_, _ = alt.Recompose(map[string]any{"x": 1}, &Inner{}) // warm the default recomposer with the types used below
	_, _ = alt.Recompose(map[string]any{"a": 1.5}, &Other{})
	return []*Group{
		{Name: "oj.write", Shared: "oj writerPool / marshalPool / struct plan cache", Ops: []Op{
			{"oj.JSON(small)", func() (string, []byte) { return oj.JSON(small()), nil }},
			{"oj.JSON(long)", func() (string, []byte) { return oj.JSON(long()), nil }},
			{"oj.JSON(*Outer)", func() (string, []byte) { return oj.JSON(outer()), nil }},
			{"oj.JSON(*Other,omitEmpty)", func() (string, []byte) { return oj.JSON(other(), emptyOpt), nil }},
			{"oj.Marshal(*Outer)", func() (string, []byte) { b, err := oj.Marshal(outer()); return string(b) + " / " + errText(err), b }},
			{"oj.Marshal(long)", func() (string, []byte) { b, err := oj.Marshal(long()); return string(b) + " / " + errText(err), b }},
			{"oj.Write(long,slow-consumer)", func() (string, []byte) {
				w := &slowWriter{}
				err := oj.Write(w, long())
				return string(w.got) + " / " + errText(err), nil
			}},
			{"oj.Marshal(unsupported)", func() (string, []byte) {
				b, err := oj.Marshal(map[string]any{"f": func() {}})
				return string(b) + " / " + errText(err), nil
			}},
			{"oj.Write(small)", func() (string, []byte) {
				var b bytes.Buffer
				err := oj.Write(&b, small())
				return b.String() + " / " + errText(err), nil
			}},
		}},
		{Name: "oj.parse", Shared: "oj parserPool", Ops: []Op{
			{"oj.Parse(array)", func() (string, []byte) {
				v, err := oj.Parse([]byte(`[1,"two",{"three":3}]`))
				return mach.Canon(v) + " / " + errText(err), nil
			}},
			{"oj.Parse(big)", func() (string, []byte) {
				v, err := oj.Parse([]byte(`{"n":123456789012345678901234567890,"f":0.25}`))
				return mach.Canon(v) + " / " + errText(err), nil
			}},
			{"oj.Parse(invalid)", func() (string, []byte) {
				v, err := oj.Parse([]byte(`{"a":[1,2,`))
				return mach.Canon(v) + " / " + errText(err), nil
			}},
			{"oj.Load(big)", func() (string, []byte) {
				v, err := oj.Load(strings.NewReader(`{"n":123456789012345678901234567890,"f":0.25}`))
				return mach.Canon(v) + " / " + errText(err), nil
			}},
			{"oj.Load(big,NumConvString)", func() (string, []byte) {
				v, err := oj.Load(strings.NewReader(`[123456789012345678901234567890]`), ojg.NumConvString)
				return mach.Canon(v) + " / " + errText(err), nil
			}},
			{"oj.Parse(big,NumConvFloat64)", func() (string, []byte) {
				v, err := oj.Parse([]byte(`[123456789012345678901234567890]`), ojg.NumConvFloat64)
				return mach.Canon(v) + " / " + errText(err), nil
			}},
			{"oj.Load(object)", func() (string, []byte) {
				v, err := oj.Load(strings.NewReader(`{"x":[true,null],"y":"z"}`))
				return mach.Canon(v) + " / " + errText(err), nil
			}},
			{"oj.Unmarshal(*Inner)", func() (string, []byte) {
				var in Inner
				err := oj.Unmarshal([]byte(`{"x":5,"y":"five"}`), &in)
				return fmt.Sprintf("%+v / %s", in, errText(err)), nil
			}},
			{"oj.Unmarshal(malformed)", func() (string, []byte) {
				var in Inner
				err := oj.Unmarshal([]byte(`{"x":5,"y":`), &in)
				return fmt.Sprintf("%+v / %s", in, errText(err)), nil
			}},
			// the Must* forms on their failure path (a panic travels through the deferred Put)
			{"oj.MustParse(invalid)", func() (s string, _ []byte) {
				defer func() { s = fmt.Sprintf("panic: %v", recover()) }()
				return mach.Canon(oj.MustParse([]byte(`{"a":[1,2,`))), nil
			}},
			{"oj.MustLoad(invalid)", func() (s string, _ []byte) {
				defer func() { s = fmt.Sprintf("panic: %v", recover()) }()
				return mach.Canon(oj.MustLoad(strings.NewReader(`[1,}`))), nil
			}},
			{"oj.Validate", func() (string, []byte) { return errText(oj.Validate([]byte(`[1,{"a":2}]`))), nil }},
			{"oj.Tokenize", func() (string, []byte) {
				r := &mach.Rec{}
				err := oj.Tokenize([]byte(`{"a":[1,2.5,"s"]}`), r)
				return strings.Join(r.Events, " ") + " / " + errText(err), nil
			}},
		}},
		{Name: "sen.write", Shared: "sen writerPool / struct plan cache", Ops: []Op{
			{"sen.String(small)", func() (string, []byte) { return sen.String(small()), nil }},
			{"sen.String(*Outer)", func() (string, []byte) { return sen.String(outer()), nil }},
			{"sen.Bytes(small)", func() (string, []byte) { b := sen.Bytes(small()); return string(b), b }},
			{"sen.Bytes(long)", func() (string, []byte) { b := sen.Bytes(long()); return string(b), b }},
			{"sen.Bytes(*Other,omitEmpty)", func() (string, []byte) { b := sen.Bytes(other(), emptyOpt); return string(b), b }},
			{"sen.Write(long,slow-consumer)", func() (string, []byte) {
				w := &slowWriter{}
				err := sen.Write(w, long())
				return string(w.got) + " / " + errText(err), nil
			}},
			{"sen.Write(long)", func() (string, []byte) {
				var b bytes.Buffer
				err := sen.Write(&b, long())
				return b.String() + " / " + errText(err), nil
			}},
		}},
		{Name: "sen.parse", Shared: "sen parserPool", Ops: []Op{
			{"sen.Parse(object)", func() (string, []byte) {
				v, err := sen.Parse([]byte(`{a:[1 two] b:{c:3}}`))
				return mach.Canon(v) + " / " + errText(err), nil
			}},
			{"sen.Parse(concat)", func() (string, []byte) {
				v, err := sen.Parse([]byte(`{a:"x" + "y"}`))
				return mach.Canon(v) + " / " + errText(err), nil
			}},
			{"sen.Parse(invalid-plus)", func() (string, []byte) {
				v, err := sen.Parse([]byte(`["x" +`))
				return mach.Canon(v) + " / " + errText(err), nil
			}},
			{"sen.ParseReader(big)", func() (string, []byte) {
				v, err := sen.ParseReader(strings.NewReader(`{n:123456789012345678901234567890 f:0.25}`))
				return mach.Canon(v) + " / " + errText(err), nil
			}},
			{"sen.ParseReader(big,NumConvString)", func() (string, []byte) {
				v, err := sen.ParseReader(strings.NewReader(`[123456789012345678901234567890]`), ojg.NumConvString)
				return mach.Canon(v) + " / " + errText(err), nil
			}},
			{"sen.Parse(big,NumConvFloat64)", func() (string, []byte) {
				v, err := sen.Parse([]byte(`[123456789012345678901234567890]`), ojg.NumConvFloat64)
				return mach.Canon(v) + " / " + errText(err), nil
			}},
			{"sen.ParseReader(array)", func() (string, []byte) {
				v, err := sen.ParseReader(strings.NewReader(`[1 2 {x:y}]`))
				return mach.Canon(v) + " / " + errText(err), nil
			}},
			{"sen.MustParse(invalid)", func() (s string, _ []byte) {
				defer func() { s = fmt.Sprintf("panic: %v", recover()) }()
				return mach.Canon(sen.MustParse([]byte(`{a:[1 2`))), nil
			}},
			{"sen.MustParseReader(invalid)", func() (s string, _ []byte) {
				defer func() { s = fmt.Sprintf("panic: %v", recover()) }()
				return mach.Canon(sen.MustParseReader(strings.NewReader(`[1 }`))), nil
			}},
			{"sen.Unmarshal(malformed)", func() (string, []byte) {
				var in Inner
				err := sen.Unmarshal([]byte(`{x:5 y:`), &in)
				return fmt.Sprintf("%+v / %s", in, errText(err)), nil
			}},
			{"sen.Unmarshal(*Inner)", func() (string, []byte) {
				var in Inner
				err := sen.Unmarshal([]byte(`{x:5 y:five}`), &in)
				return fmt.Sprintf("%+v / %s", in, errText(err)), nil
			}},
		}},
		{Name: "grown-buffer", Shared: "oj marshalPool / writerPool, sen writerPool: a text longer than the 1024 bytes a pooled writer starts with", Ops: []Op{
			{"oj.Marshal(huge)", func() (string, []byte) { b, err := oj.Marshal(huge()); return string(b) + " / " + errText(err), b }},
			{"oj.Marshal(long)", func() (string, []byte) { b, err := oj.Marshal(long()); return string(b) + " / " + errText(err), b }},
			{"oj.JSON(huge)", func() (string, []byte) { return oj.JSON(huge()), nil }},
			{"sen.Bytes(huge)", func() (string, []byte) { b := sen.Bytes(huge()); return string(b), b }},
			{"sen.Bytes(small)", func() (string, []byte) { b := sen.Bytes(small()); return string(b), b }},
		}},
		{Name: "plan-cache.typed", Shared: "oj / sen struct plan caches: struct types reached through a typed map or slice that is the value itself", Ops: []Op{
			{"oj.JSON(map[string]Inner)", func() (string, []byte) { return oj.JSON(map[string]Inner{"k": {X: 1, Y: "m"}}), nil }},
			{"sen.String([]*Inner)", func() (string, []byte) { return sen.String([]*Inner{{X: 2, Y: "s"}}), nil }},
			{"oj.JSON(*Outer,sort)", func() (string, []byte) { return oj.JSON(outer(), sortOpt), nil }},
			{"sen.String(*Outer,omitEmpty)", func() (string, []byte) { return sen.String(outer(), emptyOpt), nil }},
		}},
		{Name: "plan-cache", Shared: "oj / sen / alt struct plan caches (same type first seen concurrently)", Ops: []Op{
			{"oj.JSON(*Outer,sort)", func() (string, []byte) { return oj.JSON(outer(), sortOpt), nil }},
			{"oj.JSON(*Outer,omitEmpty)", func() (string, []byte) { return oj.JSON(outer(), emptyOpt), nil }},
			{"oj.JSON(*Inner)", func() (string, []byte) { return oj.JSON(&Inner{X: 1}), nil }},
			{"sen.String(*Outer,sort)", func() (string, []byte) { return sen.String(outer(), sortOpt), nil }},
			{"sen.String(*Outer,omitEmpty)", func() (string, []byte) { return sen.String(outer(), emptyOpt), nil }},
			{"alt.Decompose(*Outer)", func() (string, []byte) { return mach.Canon(alt.Decompose(outer())), nil }},
			{"alt.Decompose(*Outer,omitEmpty)", func() (string, []byte) { return mach.Canon(alt.Decompose(outer(), emptyOpt)), nil }},
			{"pretty.JSON(*Other)", func() (string, []byte) { return pretty.JSON(other(), sortOpt), nil }},
			// the indented writers are separate copies of the tight ones
			{"oj.JSON(*Outer,indent)", func() (string, []byte) { return oj.JSON(outer(), indentOpt), nil }},
			{"oj.JSON(*Other,indent)", func() (string, []byte) { return oj.JSON(other(), indentOpt), nil }},
			{"sen.String(*Outer,indent)", func() (string, []byte) { return sen.String(outer(), indentOpt), nil }},
		}},
		{Name: "alt", Shared: "alt.DefaultRecomposer (types registered beforehand), private recomposer", Ops: []Op{
			{"alt.Generify", func() (string, []byte) { return mach.Canon(alt.Generify(long())), nil }},
			{"alt.Dup", func() (string, []byte) { return mach.Canon(alt.Dup(long())), nil }},
			{"alt.Recompose(*Inner)", func() (string, []byte) {
				var in Inner
				_, err := alt.Recompose(map[string]any{"x": 3, "y": "w"}, &in)
				return fmt.Sprintf("%+v / %s", in, errText(err)), nil
			}},
			{"alt.Recompose(*Other)", func() (string, []byte) {
				var o Other
				_, err := alt.Recompose(map[string]any{"a": 1.5, "b": []any{"s"}, "c": map[string]any{"k": 2}}, &o)
				return fmt.Sprintf("%+v / %s", o, errText(err)), nil
			}},
			{"rec.Recompose(^Outer)", func() (string, []byte) {
				v, err := rec.Recompose(map[string]any{"^": "Outer", "name": "n", "in": map[string]any{"x": 1}})
				return fmt.Sprintf("%+v / %s", v, errText(err)), nil
			}},
			{"rec.Recompose(^Holder)", func() (string, []byte) {
				v, err := rec.Recompose(holderData())
				return mach.Canon(alt.Decompose(v)) + " / " + errText(err), nil
			}},
			{"rec.Recompose(*dupa.Point)", func() (string, []byte) {
				var p dupa.Point
				_, err := rec.Recompose(map[string]any{"x": 4, "tag": "a"}, &p)
				return fmt.Sprintf("%+v / %s", p, errText(err)), nil
			}},
			{"rec.Recompose(*dupb.Point)", func() (string, []byte) {
				var p dupb.Point
				_, err := rec.Recompose(map[string]any{"x": 5, "tag": "b"}, &p)
				return fmt.Sprintf("%+v / %s", p, errText(err)), nil
			}},
			{"rec.Recompose(^Point)", func() (string, []byte) {
				v, err := rec.Recompose(map[string]any{"^": "Point", "x": 6, "tag": "k"})
				return fmt.Sprintf("%T %+v / %s", v, v, errText(err)), nil
			}},
			{"rec.Recompose(*struct{V})", func() (string, []byte) {
				var p struct{ V int }
				_, err := rec.Recompose(map[string]any{"v": 7}, &p)
				return fmt.Sprintf("%+v / %s", p, errText(err)), nil
			}},
			{"rec.Recompose(*struct{W})", func() (string, []byte) {
				var p struct{ W string }
				_, err := rec.Recompose(map[string]any{"w": "t"}, &p)
				return fmt.Sprintf("%+v / %s", p, errText(err)), nil
			}},
			{"gen.Node.Simplify", func() (string, []byte) {
				return mach.Canon(gen.Array{gen.Int(1), gen.Object{"a": gen.String("b")}}.Simplify()), nil
			}},
		}, Snapshot: func() string { return snap.Dump(rec) + snap.Dump(alt.DefaultRecomposer) }},
		{Name: "jp", Shared: "one jp.Expr with a filter, one Script, one Filter shared by all goroutines", Ops: []Op{
			{"Expr.Get", func() (string, []byte) { return mach.Canon(sharedExpr.Get(data())), nil }},
			{"Expr.First", func() (string, []byte) { return mach.Canon(sharedExpr.First(data())), nil }},
			{"Expr.Has", func() (string, []byte) { return fmt.Sprint(sharedExpr.Has(data())), nil }},
			{"Expr.Set", func() (string, []byte) {
				d := data()
				err := sharedExpr.Set(d, "new")
				return mach.Canon(d) + " / " + errText(err), nil
			}},
			{"Expr.Del", func() (string, []byte) {
				d := data()
				err := sharedExpr.Del(d)
				return mach.Canon(d) + " / " + errText(err), nil
			}},
			{"Descent.Get", func() (string, []byte) { return mach.Canon(wild.Get(data())), nil }},
			{"Script.Match", func() (string, []byte) {
				return fmt.Sprint(sharedScript.Match(map[string]any{"x": int64(2), "y": "p"}), sharedScript.Match(map[string]any{"x": int64(0)})), nil
			}},
			{"Filter.Get", func() (string, []byte) { return mach.Canon(append(jp.R().C("a"), sharedFilter).Get(data())), nil }},
			{"Expr.Locate", func() (string, []byte) {
				return fmt.Sprint(sharedExpr.Locate(data(), 0), locExpr.Locate(data(), 0)), nil
			}},
			{"Expr.Walk", func() (string, []byte) {
				var out []string
				locExpr.Walk(data(), func(p jp.Expr, nodes []any) { out = append(out, p.String()+"="+mach.Canon(nodes[len(nodes)-1])) })
				return strings.Join(out, " "), nil
			}},
			{"Expr.Remove", func() (string, []byte) {
				r, err := jp.MustParseString("$.a[?(@.x > $.a[0].x)]").Remove(data())
				r2, err2 := append(jp.R().C("a"), sharedFilter).Remove(data())
				return mach.Canon(r) + " / " + errText(err) + " / " + mach.Canon(r2) + " / " + errText(err2), nil
			}},
			{"Expr.Modify", func() (string, []byte) {
				r, err := sharedExpr.Modify(data(), func(any) (any, bool) { return "m", true })
				return mach.Canon(r) + " / " + errText(err), nil
			}},
			{"Script.Match(list)", func() (string, []byte) {
				return fmt.Sprint(listScript.Match(map[string]any{"x": int64(2)}), listScript.Match(map[string]any{"x": 2.5}), listScript.Match(map[string]any{"x": "q"})), nil
			}},
			{"Expr.Get(list filter)", func() (string, []byte) { return mach.Canon(listExpr.Get(data())), nil }},
			{"Expr.GetLoc", func() (string, []byte) { return mach.Canon(locExpr.Get(data())) + fmt.Sprint(locExpr.Has(data())), nil }},
		}, Snapshot: func() string {
			return snap.Dump(sharedExpr) + snap.Dump(sharedScript) + snap.Dump(sharedFilter) + snap.Dump(wild) + snap.Dump(locExpr) + snap.Dump(listScript) + snap.Dump(listExpr)
		}},
	}
}

// ResetCaches empties the struct plan caches of oj, sen and alt (hooks of the
// verif build): the race pass calls it after it has computed the expected
// results, so that the types are first seen by the concurrent calls.
func ResetCaches() { reset() }

// FreshTypeWrite writes a value of a struct type no encoder has seen before
// (built with reflect.StructOf, named after goroutine and iteration) through
// one of the encoders, tight or indented: in the race pass a type is then seen
// for the first time - the plan caches are written - all the time and not only
// in the first moments of the run. It returns a message if the text is wrong.
func FreshTypeWrite(t, i int) string {
	name := fmt.Sprintf("F%dx%d", t, i)
	typ := reflect.StructOf([]reflect.StructField{{Name: name, Type: reflect.TypeOf(0)}, {Name: "In", Type: reflect.TypeOf(Inner{})}})
	v := reflect.New(typ).Elem()
	v.Field(0).SetInt(7)
	val := v.Addr().Interface()
	var text string
	switch (t + i) % 7 {
	case 0:
		text = oj.JSON(val, sortOpt)
	case 1:
		text = oj.JSON(val, indentOpt)
	case 2:
		text = sen.String(val, sortOpt)
	case 3:
		text = sen.String(val, indentOpt)
	case 4:
		text = mach.Canon(alt.Decompose(val))
	case 5:
		text = pretty.JSON(val, sortOpt)
	case 6:
		text = oj.JSON(val, emptyOpt)
	}
	key := "f" + name[1:]
	if !strings.Contains(text, key) || !strings.Contains(text, "7") {
		return fmt.Sprintf("fresh struct type %s written as %q", name, text)
	}
	return ""
}
