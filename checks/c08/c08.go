// Package c08 decides C08: concurrent use of the package-level APIs and of
// shared jp.Expr / Filter / Script values is safe.
//
// Deciding enumeration: for small harnesses (2 threads x 1-2 calls, 3 threads
// x 1 call, each call followed by a step that re-reads what it returned) over
// groups of calls forced to collide on the same pool / plan cache / shared
// expression, all interleavings at pool, mutex and call-boundary scheduling
// points are explored under a cooperative scheduler with iterative preemption
// bounding. Complement: the same call bodies run free under the race detector
// in a separate process (a cooperative scheduler's hand-offs hide races).
package c08

import (
	"encoding/json"
	"fmt"
	"os"
	"os/exec"
	"path/filepath"
	"regexp"
	"strings"

	"github.com/ohler55/ojg/alt"
	"github.com/ohler55/ojg/oj"
	"github.com/ohler55/ojg/sen"
	"github.com/ohler55/ojg/vsync"
	"verif/internal/core"
	"verif/internal/sched"
)

const subShards = 4

func init() {
	core.Register(&core.Check{
		ID:     "C08",
		Level:  "model_checking",
		Shards: func(tier string) int { return len(Groups())*subShards + 1 },
		Run:    run,
		Replay: replay,
		Rule: "states = scheduling points visited; transitions = scheduling decisions taken; every schedule of every harness (assignment of calls of one collision group to 2-3 threads) with at most P preemptions is executed on the real code through the vsync shim (Pool.Get/Put, Mutex.Lock/Unlock and call boundaries are scheduling points); " +
			"distinct_nontrivial = harnesses in which at least two different pool hand-over orders (which thread received a recycled instance) were observed",
		Assumptions: []string{"accesses between scheduling points are atomic for the enumeration; unsynchronised accesses are left to the separate free-running race-detector pass (race_pass_* counters)",
			"sync.Pool is modelled as a LIFO with New (any recycled instance may be handed to any thread: the LIFO plus all interleavings of Put/Get covers the hand-overs of 2-3 threads)",
			"results are compared with the same call executed alone in the same process"},
		Bound: func(tier string) string {
			if tier == "thorough" {
				return "2 threads x 2 calls (all assignments), 3 threads x 1 call; preemption bound 3; horizon 400 points; race pass 16 goroutines x 3000 iterations"
			}
			return "2 threads x 1 call, 2 threads x (call, same call), 3 threads x 1 call; preemption bound 2; horizon 400 points; race pass 8 goroutines x 600 iterations"
		},
	})
}

type caseT struct {
	Group    string     `json:"group"`
	Threads  [][]string `json:"threads"`
	Schedule []int      `json:"schedule"`
	Race     string     `json:"race_report,omitempty"`
	FirstUse bool       `json:"first_use,omitempty"` // the shared objects changed when the call was made for the first time
}

type threadRec struct {
	results []string
	kept    [][]byte
	bad     int // index of the call whose returned buffer changed (-1 none)
	now     string
}

func reset() {
	vsync.ResetPools()
	oj.VerifResetCaches()
	sen.VerifResetCaches()
	alt.VerifResetCaches()
}

func find(g *Group, name string) *Op {
	for i := range g.Ops {
		if g.Ops[i].Name == name {
			return &g.Ops[i]
		}
	}
	return nil
}

// explore runs one harness exhaustively within the bound.
func explore(c *core.Ctx, g *Group, alone map[string]string, threads [][]string, bound int) {
	var recs []*threadRec
	mk := func() []func() {
		recs = recs[:0]
		var bodies []func()
		for _, names := range threads {
			r := &threadRec{bad: -1}
			recs = append(recs, r)
			ops := make([]*Op, len(names))
			for i, n := range names {
				ops[i] = find(g, n)
			}
			bodies = append(bodies, func() {
				for _, o := range ops {
					text, keep := o.Run()
					r.results = append(r.results, text)
					r.kept = append(r.kept, keep)
					sched.Yield() // the caller does something else before looking at the result again
				}
				for i, k := range r.kept {
					if k != nil && !strings.HasPrefix(r.results[i], string(k)) {
						r.bad, r.now = i, string(k)
					}
				}
			})
		}
		return bodies
	}
	snapBefore := ""
	if g.Snapshot != nil {
		snapBefore = g.Snapshot()
	}
	outcomes := map[string]struct{}{}
	size := 0
	for _, t := range threads {
		size += len(t)
	}
	st := sched.Explore(mk, reset, bound, 400, 2_000_000, func(x *sched.Exec) bool {
		c.Eval()
		cs := caseT{Group: g.Name, Threads: threads, Schedule: x.Choices()}
		sz := size*1000 + len(x.Points)
		if x.Diverged != "" {
			c.HarnessError("schedule replay diverged in %s %v: %s", g.Name, threads, x.Diverged)
			return false
		}
		if x.Deadlock {
			c.Fail(core.Sig("group="+g.Name, "deadlock"), cs, sz, "every thread finishes", "no enabled thread while some have not finished")
		}
		if x.Horizon {
			c.Fail(core.Sig("group="+g.Name, "horizon"), cs, sz, "execution ends within 400 scheduling points", "still running")
		}
		for _, pf := range vsync.PoolFaults {
			c.Fail(core.Sig("group="+g.Name, "pool-discipline", pf), cs, sz, "every pooled object is put back once", pf)
		}
		vsync.PoolFaults = nil
		var key strings.Builder
		for ti, r := range recs {
			if p := x.Panics[ti]; p != nil {
				c.Fail(core.Sig("group="+g.Name, "call="+threads[ti][min(len(r.results), len(threads[ti])-1)], "panic"), cs, sz, "no panic", fmt.Sprintf("panic: %v", p))
				continue
			}
			for i, got := range r.results {
				name := threads[ti][i]
				if got != alone[name] {
					c.Fail(core.Sig("group="+g.Name, "call="+name, "result-differs"), cs, sz, alone[name], got)
					key.WriteString("!")
				}
			}
			if r.bad >= 0 {
				c.Fail(core.Sig("group="+g.Name, "call="+threads[ti][r.bad], "buffer-overwritten"), cs, sz, r.results[r.bad], r.now)
				key.WriteString("~")
			}
		}
		// which schedule shape was this (vacuity guard: several hand-over orders must occur)
		for _, p := range x.Points {
			if p.Kind == "pool.get" || p.Kind == "mutex.lock" {
				fmt.Fprintf(&key, "%d", p.Enabled[p.Chosen])
			}
		}
		outcomes[key.String()] = struct{}{}
		return true
	})
	c.Add("states", st.Points)
	c.Add("transitions", st.Points)
	c.Add("traces_validated_against_impl", st.Executions)
	c.Add("schedules", st.Executions)
	c.Add("harnesses", 1)
	if st.Capped {
		c.Cap("execution cap reached in harness " + g.Name)
	}
	if len(outcomes) > 1 {
		c.Nontrivial()
	}
	if g.Snapshot != nil {
		if after := g.Snapshot(); after != snapBefore {
			c.Fail(core.Sig("group="+g.Name, "shared-mutated"), caseT{Group: g.Name, Threads: threads}, size*1000, snapBefore, after)
		}
	}
}

func run(c *core.Ctx) {
	Pause = sched.Yield // slow consumers yield to the controlled scheduler
	groups := Groups()
	if c.Shard == len(groups)*subShards {
		racePass(c)
		return
	}
	g := groups[c.Shard/subShards]
	sub := c.Shard % subShards
	// expected results: every call alone, twice (must be deterministic)
	alone := map[string]string{}
	initial := ""
	if g.Snapshot != nil {
		initial = g.Snapshot() // the shared objects as constructed, before any call
	}
	for _, o := range g.Ops {
		reset()
		a, _ := o.Run()
		b, _ := o.Run()
		if a != b {
			c.HarnessError("call %s is not deterministic alone: %q vs %q", o.Name, a, b)
		}
		alone[o.Name] = a
		// a shared object that is completed on first use (a type registered lazily,
		// a fragment rewritten in place) is written by whichever goroutine comes
		// first while the others read it: it has to be complete when constructed
		if g.Snapshot != nil && sub == 0 {
			if now := g.Snapshot(); now != initial {
				c.Fail(core.Sig("group="+g.Name, "call="+o.Name, "shared-mutated-by-first-use"), caseT{Group: g.Name, Threads: [][]string{{o.Name}}, FirstUse: true}, 1000, initial, now)
				initial = now
			}
		}
	}
	bound := c.Pick(2, 3)
	n := 0
	try := func(threads [][]string) bool {
		n++
		if n%subShards != sub {
			return true
		}
		if c.Expired("C08 " + g.Name) {
			return false
		}
		explore(c, g, alone, threads, bound)
		if n == 3 {
			c.Sample(map[string]any{"group": g.Name, "shared": g.Shared, "threads": threads, "preemption_bound": bound})
		}
		return true
	}
	names := make([]string, len(g.Ops))
	for i, o := range g.Ops {
		names[i] = o.Name
	}
	for _, a := range names {
		for _, b := range names {
			if !try([][]string{{a}, {b}}) {
				return
			}
			if !try([][]string{{a, a}, {b, b}}) {
				return
			}
			for _, d := range names {
				if !try([][]string{{a}, {b}, {d}}) {
					return
				}
			}
		}
	}
	if !c.Quick() {
		for _, a := range names {
			for _, a2 := range names {
				for _, b := range names {
					for _, b2 := range names {
						if a == a2 && b == b2 {
							continue
						}
						if !try([][]string{{a, a2}, {b, b2}}) {
							return
						}
					}
				}
			}
		}
	}
}

// ------------------------------------------------------------------ race pass

var raceFrame = regexp.MustCompile(`github\.com/ohler55/ojg/([A-Za-z0-9_./()*]+)`)

func racePass(c *core.Ctx) {
	bin := os.Getenv("VERIF_RACE_BIN")
	if bin == "" {
		bin = filepath.Join(core.Root, "bin", "racepass")
	}
	if _, err := os.Stat(bin); err != nil {
		c.HarnessError("race pass binary missing: %v", err)
		return
	}
	gor, iter := "8", "600"
	if !c.Quick() {
		gor, iter = "16", "3000"
	}
	for _, g := range Groups() {
		cmd := exec.Command(bin, g.Name, gor, iter)
		cmd.Env = append(os.Environ(), "GOMAXPROCS=16", "GORACE=exitcode=66 halt_on_error=1")
		out, err := cmd.CombinedOutput()
		c.Eval()
		c.Add("race_pass_runs", 1)
		if err == nil {
			continue
		}
		text := string(out)
		if !strings.Contains(text, "DATA RACE") {
			if strings.Contains(text, "MISMATCH") {
				first := text[strings.Index(text, "MISMATCH"):]
				if i := strings.IndexByte(first, '\n'); i > 0 {
					first = first[:i]
				}
				fields := strings.Fields(first)
				call := "?"
				if len(fields) > 1 {
					call = fields[1]
				}
				c.Fail(core.Sig("group="+g.Name, "free-running", "call="+call, "result-differs"), caseT{Group: g.Name, Race: clip(text)}, 10, "same result as alone", first)
				continue
			}
			c.HarnessError("race pass for %s failed without a race report: %v\n%s", g.Name, err, clip(text))
			continue
		}
		c.Add("race_pass_reports", 1)
		// signature: the innermost ojg frames of the two conflicting accesses
		var frames []string
		for _, block := range strings.Split(text, "\n\n") {
			if strings.Contains(block, "by goroutine") || strings.Contains(block, "Previous") {
				if m := raceFrame.FindStringSubmatch(block); m != nil {
					frames = append(frames, m[1])
				}
			}
			if len(frames) == 2 {
				break
			}
		}
		c.Fail(core.Sig("group="+g.Name, "race", strings.Join(frames, " vs ")), caseT{Group: g.Name, Race: clip(text)}, 10, "no data race", "race detector report")
	}
	c.Sample(map[string]any{"race_pass": "same call bodies, free running under -race", "goroutines": gor, "iterations": iter})
}

func clip(s string) string {
	if len(s) > 6000 {
		return s[:6000]
	}
	return s
}

// ------------------------------------------------------------------ replay

func replay(c *core.Ctx, raw json.RawMessage) {
	Pause = sched.Yield
	var cs caseT
	if err := json.Unmarshal(raw, &cs); err != nil {
		c.HarnessError("bad case: %v", err)
		return
	}
	if cs.Race != "" {
		racePass(c)
		return
	}
	for _, g := range Groups() {
		if g.Name != cs.Group {
			continue
		}
		if cs.FirstUse && g.Snapshot != nil && len(cs.Threads) == 1 && len(cs.Threads[0]) == 1 {
			// freshly constructed shared objects, the one call, compare
			initial := g.Snapshot()
			reset()
			if o := find(g, cs.Threads[0][0]); o != nil {
				o.Run()
			}
			if now := g.Snapshot(); now != initial {
				c.Fail(core.Sig("group="+g.Name, "call="+cs.Threads[0][0], "shared-mutated-by-first-use"), cs, 1000, initial, now)
			}
			return
		}
		alone := map[string]string{}
		for _, o := range g.Ops {
			reset()
			alone[o.Name], _ = o.Run()
		}
		var recs []*threadRec
		var bodies []func()
		for _, names := range cs.Threads {
			r := &threadRec{bad: -1}
			recs = append(recs, r)
			names := names
			bodies = append(bodies, func() {
				for _, n := range names {
					text, keep := find(g, n).Run()
					r.results = append(r.results, text)
					r.kept = append(r.kept, keep)
					sched.Yield()
				}
				for i, k := range r.kept {
					if k != nil && !strings.HasPrefix(r.results[i], string(k)) {
						r.bad, r.now = i, string(k)
					}
				}
			})
		}
		reset()
		x := sched.Run(bodies, cs.Schedule, 400)
		if x.Deadlock || x.Horizon {
			c.Fail("replay", cs, 1, "completes", "deadlock/horizon")
		}
		for ti, r := range recs {
			if x.Panics[ti] != nil {
				c.Fail("replay", cs, 1, "no panic", fmt.Sprint(x.Panics[ti]))
			}
			for i, got := range r.results {
				if got != alone[cs.Threads[ti][i]] {
					c.Fail("replay", cs, 1, alone[cs.Threads[ti][i]], got)
				}
			}
			if r.bad >= 0 {
				c.Fail("replay", cs, 1, r.results[r.bad], r.now)
			}
		}
	}
}

func min(a, b int) int {
	if a < b {
		return a
	}
	return b
}
