// Package c12 decides C12: filter scripts are total and follow the typed
// comparison semantics of the operator documentation.
//
// Family "matrix": every operator x left operand x right operand, every
// operand given as a constant and through @/$ paths on data (several path
// forms, four data representations, multi-valued paths), every script built
// through the jp constructors and by parsing the check's own text, evaluated
// through Script.Match and through a filter fragment. Family "logic": all
// && / || / ! trees over six atoms. The oracle is internal/ref/scriptref.
package c12

import (
	"encoding/json"
	"fmt"
	"sort"
	"strings"

	"github.com/ohler55/ojg/gen"
	"github.com/ohler55/ojg/jp"

	"verif/internal/core"
	"verif/internal/gens"
	"verif/internal/ref/scriptref"
)

type (
	node = scriptref.Node
	tri  = scriptref.Tri
)

func init() {
	core.Register(&core.Check{
		ID:     "C12",
		Level:  "exploration",
		Shards: func(string) int { return 16 },
		Run:    run,
		Replay: replay,
		Rule: "matrix: one cell = (operator or value probe, left operand, right operand); each cell is executed in every presentation " +
			"(constant / path form / data representation / constructor or parsed text / Script.Match or filter fragment); logic: one case = " +
			"(tree, element). distinct_nontrivial = cells and (tree, element) pairs for which the reference verdict is definite (true or false) " +
			"in at least one presentation; evaluations = executions of Script.Match or Expr.Get",
		Assumptions: []string{
			"scriptref is the specification (unit-tested against hand-computed tables); it answers 'any' wherever the statement and the operator documentation leave the result open",
			"operand paths used by the check (child, index, wildcard, descent) are resolved identically by ojg and the reference; cross-checked on every element (operand_resolution_mismatch must be 0)",
			"regexp and strconv are trusted",
			"text given to the parser is the check's own rendering with explicit parentheses (layout full) or with only the universally agreed omissions (layout min); ojg's printers are C14's subject",
		},
		Bound: func(tier string) string {
			b := fmt.Sprintf("matrix: %d operators x %d single-valued operands (+%d multi-valued) on each side, presentations const|const-with-go-ints|path x 4 path forms "+
				"(3 multi forms) x representations plain|int|float32|gen x ctor|parse x match|filter, value probes for + - * / length count match search; "+
				"logic: all trees of depth <= 2 over 6 atoms x 8 elements x ctor|parse-full|parse-min x match|filter", len(scriptref.Ops), len(singles()), len(multis()))
			if tier == "thorough" {
				b += "; plus all trees of depth <= 3 over 3 atoms (comparison, boolean path, non-boolean path)"
			}
			return b
		},
	})
}

// ------------------------------------------------------------------ cases

type caseT struct {
	Family string          `json:"family"` // matrix | logic | complement | match-vs-filter
	Script *node           `json:"script"`
	Other  *node           `json:"other,omitempty"` // complement: the != script
	GoInt  bool            `json:"go_int_list,omitempty"`
	Build  string          `json:"build"`            // ctor | parse
	Layout string          `json:"layout,omitempty"` // full | min
	Entry  string          `json:"entry"`            // match | filter
	Elem   scriptref.VSpec `json:"elem"`
	Repr   string          `json:"repr"`
	Text   string          `json:"text"`
}

// ------------------------------------------------------------------ values

type opnd struct {
	label string // kind label used in signatures
	multi bool
	val   any   // single value (Nothing{} = missing path)
	vals  []any // multi values
}

func m(kv ...any) map[string]any {
	out := map[string]any{}
	for i := 0; i < len(kv); i += 2 {
		out[kv[i].(string)] = kv[i+1]
	}
	return out
}

func l(v ...any) []any { return append([]any{}, v...) }

func singles() []opnd {
	// 2^53 and 2^53+1: two integers next to each other that one float64 stands for
	vs := []any{nil, false, true, int64(-1), int64(0), int64(1), int64(2), int64(9007199254740992), int64(9007199254740993), -1.5, 0.0, 1.0, 2.5,
		"", "a", "b", "1", "ab", "a|b", l(), l(int64(1), "a"), // "a|b" as a pattern: an alternation has to be matched as a whole m(), m("a", int64(1)), scriptref.Nothing{},
		scriptref.Regex("a"), l(l(int64(1), "a"), 2.5, "b")}
	out := make([]opnd, len(vs))
	for i, v := range vs {
		out[i] = opnd{label: scriptref.Kind(v), val: v}
	}
	return out
}

func multis() []opnd {
	mk := func(label string, vs ...any) opnd { return opnd{label: label, multi: true, vals: vs} }
	return []opnd{
		mk("multi0"),
		mk("multi1:int", int64(1)), mk("multi1:float", 2.5), mk("multi1:string", "a"), mk("multi1:nil", nil),
		mk("multi1:bool", true), mk("multi1:list", l(int64(1), "a")),
		mk("multi3:ints", int64(0), int64(1), int64(2)), mk("multi3:floats", -1.5, 1.0, 2.5),
		mk("multi3:strings", "", "a", "b"), mk("multi3:bools", false, true, nil),
		mk("multi3:mixed", int64(1), "a", nil), mk("multi3:nums", int64(1), 1.0, "1"),
		mk("multi3:containers", l(), m("a", int64(1)), l(int64(1), "a")),
	}
}

func hasMap(v any) bool {
	switch t := v.(type) {
	case map[string]any:
		return true
	case []any:
		for _, e := range t {
			if hasMap(e) {
				return true
			}
		}
	}
	return false
}

func hasInt(v any) bool {
	switch t := v.(type) {
	case int64:
		return true
	case []any:
		for _, e := range t {
			if hasInt(e) {
				return true
			}
		}
	}
	return false
}

// vias lists how the operand can be presented.
func (o opnd) vias() []string {
	if o.multi {
		return []string{"multi"}
	}
	var out []string
	if !hasMap(o.val) {
		out = append(out, "const")
		if _, ok := o.val.([]any); ok && hasInt(o.val) {
			out = append(out, "constgo")
		}
	}
	if _, ok := o.val.(scriptref.Regex); !ok {
		out = append(out, "path")
	}
	return out
}

// ------------------------------------------------------------------ elements and paths

func isNothing(v any) bool { _, ok := v.(scriptref.Nothing); return ok }

func multiHolder(vals []any, form string) any {
	switch form {
	case "wlist", "rootw":
		return l(vals...)
	case "wmap":
		out := map[string]any{}
		for i, v := range vals {
			out[fmt.Sprintf("k%d", i)] = gens.Clone(v)
		}
		return out
	}
	// desc: {"z":v0,"k":{"z":v1,"k":{"z":v2}}}
	var build func(i int) map[string]any
	build = func(i int) map[string]any {
		out := map[string]any{}
		if i < len(vals) {
			out["z"] = gens.Clone(vals[i])
			if i+1 < len(vals) {
				out["k"] = build(i + 1)
			}
		}
		return out
	}
	return build(0)
}

// element builds the data element holding both operands in every form.
func element(L, R *opnd, form string) (map[string]any, [2]int) {
	el := map[string]any{}
	n := map[string]any{}
	lst := []any{}
	idx := [2]int{7, 8}
	for i, o := range []*opnd{L, R} {
		if o == nil {
			continue
		}
		key := "xy"[i : i+1]
		if o.multi {
			el[key] = multiHolder(o.vals, form)
			continue
		}
		if _, rx := o.val.(scriptref.Regex); rx || isNothing(o.val) {
			continue
		}
		el[key] = gens.Clone(o.val)
		n[key] = gens.Clone(o.val)
		idx[i] = len(lst)
		lst = append(lst, gens.Clone(o.val))
	}
	el["n"] = n
	el["l"] = lst
	return el, idx
}

func operandNode(o *opnd, side int, via, form, entry string, idx [2]int) *node {
	key := "xy"[side : side+1]
	switch via {
	case "const", "constgo":
		return scriptref.C(o.val)
	case "multi":
		if form == "desc" {
			return scriptref.P(scriptref.K(key), scriptref.D(), scriptref.K("z"))
		}
		if form == "rootw" { // the many-valued operand anchored at $ (the document, not the element)
			if entry == "filter" {
				return scriptref.RP(scriptref.I(0), scriptref.K(key), scriptref.W())
			}
			return scriptref.RP(scriptref.K(key), scriptref.W())
		}
		return scriptref.P(scriptref.K(key), scriptref.W())
	}
	switch form {
	case "nested":
		return scriptref.P(scriptref.K("n"), scriptref.K(key))
	case "index":
		return scriptref.P(scriptref.K("l"), scriptref.I(idx[side]))
	case "root":
		if entry == "filter" {
			return scriptref.RP(scriptref.I(0), scriptref.K(key))
		}
		return scriptref.RP(scriptref.K(key))
	}
	return scriptref.P(scriptref.K(key))
}

// toRepr converts a canonical tree into one of the data representations.
func toRepr(v any, repr string) any {
	switch t := v.(type) {
	case int64:
		switch repr {
		case "int":
			return int(t)
		case "gen":
			return gen.Int(t)
		}
	case float64:
		switch repr {
		case "f32":
			return float32(t)
		case "gen":
			return gen.Float(t)
		}
	case bool:
		if repr == "gen" {
			return gen.Bool(t)
		}
	case string:
		if repr == "gen" {
			return gen.String(t)
		}
	case []any:
		if repr == "gen" {
			out := make(gen.Array, len(t))
			for i, e := range t {
				out[i], _ = toRepr(e, repr).(gen.Node)
			}
			return out
		}
		out := make([]any, len(t))
		for i, e := range t {
			out[i] = toRepr(e, repr)
		}
		return out
	case map[string]any:
		if repr == "gen" {
			out := make(gen.Object, len(t))
			for k, e := range t {
				out[k], _ = toRepr(e, repr).(gen.Node)
			}
			return out
		}
		out := make(map[string]any, len(t))
		for k, e := range t {
			out[k] = toRepr(e, repr)
		}
		return out
	}
	return v
}

// canon maps any representation back to the canonical one.
func canon(v any) any {
	switch t := v.(type) {
	case int:
		return int64(t)
	case float32:
		return float64(t)
	case gen.Int:
		return int64(t)
	case gen.Float:
		return float64(t)
	case gen.Bool:
		return bool(t)
	case gen.String:
		return string(t)
	case gen.Array:
		out := make([]any, len(t))
		for i, e := range t {
			out[i] = canon(e)
		}
		return out
	case gen.Object:
		out := make(map[string]any, len(t))
		for k, e := range t {
			out[k] = canon(e)
		}
		return out
	case []any:
		out := make([]any, len(t))
		for i, e := range t {
			out[i] = canon(e)
		}
		return out
	case map[string]any:
		out := make(map[string]any, len(t))
		for k, e := range t {
			out[k] = canon(e)
		}
		return out
	}
	return v
}

// ------------------------------------------------------------------ running the implementation

type compiled struct {
	script *jp.Script
	expr   jp.Expr
	text   string
	err    string // not buildable / not parsable in this presentation
}

func compile(n *node, goInt bool, build, layout string) (cp *compiled) {
	cp = &compiled{}
	defer func() {
		if r := recover(); r != nil {
			cp.err = "build-panic: " + gens.JPPanicKind(r)
		}
	}()
	if layout == "" {
		layout = "full"
	}
	cp.text = scriptText(n, layout)
	if build == "ctor" {
		eq := gens.JPEquation(n, goInt)
		cp.script = eq.Script()
		cp.expr = jp.R().Filter(gens.JPEquation(n, goInt))
		return
	}
	var err error
	if build == "newfilter" {
		var f *jp.Filter
		if f, err = jp.NewFilter("[?" + cp.text + "]"); err != nil {
			cp.err = "parse-error: " + gens.JPPanicKind(err)
			return
		}
		cp.script = &f.Script
		cp.expr = jp.Expr{jp.Root('$'), f}
		return
	}
	if cp.script, err = jp.NewScript(cp.text); err != nil {
		cp.err = "parse-error: " + gens.JPPanicKind(err)
		return
	}
	if cp.expr, err = jp.ParseString("$[?" + cp.text + "]"); err != nil {
		cp.err = "parse-error: " + gens.JPPanicKind(err)
	}
	return
}

// ctorable reports whether the constructors can express the script
// (length and count take a path only).
func ctorable(n *node) bool {
	if n == nil || n.Leaf() {
		return true
	}
	if (n.Op == "length" || n.Op == "count") && n.L.Path == nil {
		return false
	}
	return ctorable(n.L) && ctorable(n.R)
}

// execute runs one presentation; the result is "true", "false" or
// "panic:<kind>" (or "filter-returned-<n>").
func execute(c *core.Ctx, cp *compiled, entry string, elem any) (got string) {
	defer func() {
		if r := recover(); r != nil {
			got = "panic:" + gens.JPPanicKind(r)
		}
	}()
	c.Eval()
	if entry == "match" {
		return fmt.Sprint(cp.script.Match(elem))
	}
	var data any = []any{elem}
	if gn, ok := elem.(gen.Node); ok {
		data = gen.Array{gn}
	}
	switch n := len(cp.expr.Get(data)); n {
	case 0:
		return "false"
	case 1:
		return "true"
	default:
		return fmt.Sprintf("filter-returned-%d", n)
	}
}

func expected(n *node, entry string, elemCanon any) tri {
	if entry == "filter" {
		return scriptref.Eval(n, elemCanon, []any{elemCanon})
	}
	return scriptref.Eval(n, elemCanon, elemCanon)
}

func accepted(exp tri, got string) bool {
	switch got {
	case "true":
		return exp.Accepts(true)
	case "false":
		return exp.Accepts(false)
	}
	return false
}

// ------------------------------------------------------------------ matrix

type vkey struct{ lv, rv, form, repr, build, entry string }

type outcome struct {
	k    vkey
	got  string
	exp  tri
	cs   caseT
	size int
}

var reprs = []string{"plain", "int", "f32", "gen"}

func applyOp(op string, a, b *node) *node {
	if scriptref.Unary(op) {
		return scriptref.N1(op, a)
	}
	return scriptref.B(op, a, b)
}

func valueOp(op string) bool {
	switch op {
	case "+", "-", "*", "/", "length", "count", "match", "search":
		return true
	}
	return false
}

// probes returns the scripts run for a cell: the bare operator and, for the
// value-returning operators with a definite reference value, "== value"
// (expected true) and "== another value" (expected false).
func probes(op string, L, R *opnd) []string {
	out := []string{"bare"}
	if !valueOp(op) || L.multi || (R != nil && R.multi) {
		return out
	}
	v, ok := cellValue(op, L, R)
	if !ok {
		return out
	}
	switch v.(type) {
	case int64, float64:
		return append(out, "eqval", "eqother")
	case scriptref.Nothing:
		return append(out, "eqval", "eqother")
	}
	return out
}

func cellValue(op string, L, R *opnd) (any, bool) {
	var b *node
	if R != nil {
		b = scriptref.C(R.val)
	}
	a := scriptref.C(L.val)
	if op == "count" {
		return nil, false // count is defined on paths; probed through the path presentation below
	}
	return scriptref.Value(applyOp(op, a, b), nil, nil)
}

func probeNode(probe string, base *node, v any) *node {
	switch probe {
	case "eqval":
		return scriptref.B("==", base, scriptref.C(v))
	case "eqother":
		var o any = int64(0)
		switch t := v.(type) {
		case int64:
			o = t + 1
		case float64:
			o = t + 1
		}
		return scriptref.B("==", base, scriptref.C(o))
	}
	return base
}

// summarise names the values of one presentation dimension among the failing
// presentations in absolute terms: "*" when every value of full fails, "-"
// when the dimension does not apply (constant-only presentations), else the
// failing values. The labels do not depend on which presentations happen to
// exist for a particular operand value, so one defect gives one signature.
func summarise(dim func(vkey) string, failing []outcome, full ...string) string {
	fs := map[string]bool{}
	for _, o := range failing {
		if v := dim(o.k); v != "-" && v != "multi" {
			fs[v] = true
		}
	}
	if len(fs) == 0 {
		return "-"
	}
	all := true
	for _, f := range full {
		if !fs[f] {
			all = false
		}
	}
	if all {
		return "*"
	}
	keys := make([]string, 0, len(fs))
	for k := range fs {
		keys = append(keys, k)
	}
	sort.Strings(keys)
	return strings.Join(keys, "+")
}

var (
	singleForms = []string{"child", "nested", "index", "root"}
	multiForms  = []string{"wlist", "wmap", "desc", "rootw"}
)

// mainVias lists the presentations that exist for the operand among const and
// path ("*" in a signature means: all of these fail).
func mainVias(o *opnd) []string {
	var out []string
	if o == nil {
		return out
	}
	for _, v := range o.vias() {
		if v == "const" || v == "path" {
			out = append(out, v)
		}
	}
	return out
}

func presentationSig(L, R *opnd, failing []outcome, forms, builds []string) []string {
	return []string{
		"lvia=" + summarise(func(k vkey) string { return k.lv }, failing, mainVias(L)...),
		"rvia=" + summarise(func(k vkey) string { return k.rv }, failing, mainVias(R)...),
		"form=" + summarise(func(k vkey) string { return k.form }, failing, forms...),
		"repr=" + summarise(func(k vkey) string { return k.repr }, failing, reprs...),
		"build=" + summarise(func(k vkey) string { return k.build }, failing, builds...),
		"entry=" + summarise(func(k vkey) string { return k.entry }, failing, "match", "filter"),
	}
}

var matrixBuilds = []string{"ctor", "parse"}

func formsOf(L, R *opnd) []string {
	if L.multi || (R != nil && R.multi) {
		return multiForms
	}
	return singleForms
}

func penalty(k vkey) int {
	p := 0
	for _, s := range []string{k.lv, k.rv} {
		if s != "const" && s != "-" {
			p += 10
		}
	}
	if k.form != "-" && k.form != "child" && k.form != "wlist" {
		p += 20
	}
	if k.repr != "-" && k.repr != "plain" {
		p += 30
	}
	if k.build != "ctor" {
		p += 3
	}
	if k.entry != "match" {
		p += 5
	}
	return p
}

// runCell executes every presentation of (opLabel, L, R) where mk builds the
// script from the two operand nodes.
func runCell(c *core.Ctx, L, R *opnd, mk func(a, b *node) *node) []outcome {
	var out []outcome
	rvias := []string{"-"}
	if R != nil {
		rvias = R.vias()
	}
	anyMulti := L.multi || (R != nil && R.multi)
	for _, lv := range L.vias() {
		for _, rv := range rvias {
			pathy := lv == "path" || lv == "multi" || rv == "path" || rv == "multi"
			forms := []string{"-"}
			rs := []string{"-"}
			if pathy {
				rs = reprs
				forms = []string{"child", "nested", "index", "root"}
				if anyMulti {
					forms = multiForms
				}
			}
			goInt := lv == "constgo" || rv == "constgo"
			for _, form := range forms {
				el, idx := element(L, R, form)
				elSpec := scriptref.Spec(el)
				if pathy {
					crossCheck(c, L, R, lv, rv, form, idx, el)
				}
				for _, entry := range []string{"match", "filter"} {
					var b *node
					if R != nil {
						b = operandNode(R, 1, rv, form, entry, idx)
					}
					n := mk(operandNode(L, 0, lv, form, entry, idx), b)
					exp := expected(n, entry, el)
					for _, build := range []string{"ctor", "parse"} {
						if build == "ctor" && !ctorable(n) {
							c.Add("presentations_not_constructible", 1)
							continue
						}
						cp := compile(n, goInt, build, "full")
						if cp.err != "" {
							c.Add("presentations_unavailable", 1)
							noteOnce(c, cp.err+" for "+cp.text)
							continue
						}
						for _, repr := range rs {
							r := repr
							if r == "-" {
								r = "plain"
							}
							k := vkey{lv, rv, form, repr, build, entry}
							got := execute(c, cp, entry, toRepr(el, r))
							out = append(out, outcome{k: k, got: got, exp: exp, size: len(cp.text) + penalty(k),
								cs: caseT{Family: "matrix", Script: n, GoInt: goInt, Build: build, Layout: "full", Entry: entry, Elem: elSpec, Repr: r, Text: cp.text}})
						}
					}
				}
			}
		}
	}
	return out
}

var noted = map[string]bool{}

func noteOnce(c *core.Ctx, s string) {
	key := s
	if i := strings.Index(s, " for "); i > 0 {
		key = s[:i]
	}
	if !noted[key] {
		noted[key] = true
		c.Note("presentation unavailable: %s", s)
	}
}

var crossChecked = map[string]bool{}

// crossCheck compares ojg's resolution of the operand paths with the
// reference on this element (all representations). A mismatch is counted and
// noted; it would be a Get defect (C05), not a script defect.
func crossCheck(c *core.Ctx, L, R *opnd, lv, rv, form string, idx [2]int, el map[string]any) {
	for side, o := range []*opnd{L, R} {
		via := []string{lv, rv}[side]
		if o == nil || (via != "path" && via != "multi") {
			continue
		}
		n := operandNode(o, side, via, form, "match", idx)
		want, _ := n.Path.Select(el, el)
		for _, repr := range reprs {
			func() {
				defer func() {
					if r := recover(); r != nil {
						c.Add("operand_resolution_mismatch", 1)
						c.Note("operand path %s panicked on %s data: %v", pathText(n.Path), repr, r)
					}
				}()
				got := gens.JPPath(n.Path).Get(toRepr(el, repr))
				a, b := make([]string, len(got)), make([]string, len(want))
				for i, v := range got {
					a[i] = show(canon(v))
				}
				for i, v := range want {
					b[i] = show(v)
				}
				sort.Strings(a)
				sort.Strings(b)
				c.Add("operand_resolution_checks", 1)
				if strings.Join(a, "\x00") != strings.Join(b, "\x00") {
					c.Add("operand_resolution_mismatch", 1)
					c.Note("operand path %s on %s data: ojg %v, reference %v", pathText(n.Path), repr, a, b)
				}
			}()
		}
	}
}

func kindLabel(o *opnd) string {
	if o == nil {
		return "-"
	}
	return o.label
}

func groupKey(o outcome) string {
	if strings.HasPrefix(o.got, "panic") {
		return "exp=-|got=" + o.got // a panic is wrong whatever the expected value
	}
	return "exp=" + o.exp.String() + "|got=" + o.got
}

func report(c *core.Ctx, family, op, probe string, L, R *opnd, all []outcome) (definite bool) {
	groups := map[string][]outcome{}
	multi := L.multi || (R != nil && R.multi)
	for _, o := range all {
		if o.exp != scriptref.U {
			definite = true
		}
		if accepted(o.exp, o.got) {
			continue
		}
		if multi && op != "count" && explainedBySingles(c, op, L, R, o) {
			c.Add("multi_failures_explained_by_single_valued_cells", 1)
			continue
		}
		g := groupKey(o)
		groups[g] = append(groups[g], o)
	}
	label := op
	if probe != "bare" {
		label += ":" + probe
	}
	lk := kindLabel(L)
	if op == "count" {
		lk = "node" // count counts selected nodes whatever their kind
		if !L.multi {
			L = &opnd{label: "node", val: int64(0)} // for the via summary: const and path presentations exist
		}
	}
	for g, failing := range groups {
		parts := append([]string{family, "op=" + label, "l=" + lk, "r=" + kindLabel(R)}, presentationSig(L, R, failing, formsOf(L, R), matrixBuilds)...)
		sig := core.Sig(append(parts, g)...)
		for _, o := range failing {
			c.Fail(sig, o.cs, o.size, "script is "+o.exp.String(), o.got+"  "+o.cs.Text+" on "+show(o.cs.Elem.Value()))
		}
	}
	return definite
}

var explainMemo = map[string]bool{}

// explainedBySingles reports whether the failure of a presentation with a
// multi-valued operand is already a failure of the same operator on one
// combination of the single values (same presentation otherwise); such a
// failure is reported by the single-valued cell and not repeated here.
func explainedBySingles(c *core.Ctx, op string, L, R *opnd, o outcome) bool {
	side := func(x *opnd) []*opnd {
		if x == nil {
			return []*opnd{nil}
		}
		if !x.multi {
			return []*opnd{x}
		}
		if len(x.vals) == 0 {
			return []*opnd{{label: "nothing", val: scriptref.Nothing{}}}
		}
		var out []*opnd
		for _, v := range x.vals {
			out = append(out, &opnd{label: scriptref.Kind(v), val: v})
		}
		return out
	}
	via := func(v string) string {
		if v == "multi" {
			return "path"
		}
		return v
	}
	for _, a := range side(L) {
		for _, b := range side(R) {
			key := strings.Join([]string{op, show(a.val), via(o.k.lv), via(o.k.rv), o.k.repr, o.k.build, o.k.entry}, "|")
			if b != nil {
				key += "|" + show(b.val)
			}
			bad, ok := explainMemo[key]
			if !ok {
				bad = singleFails(c, op, a, b, via(o.k.lv), via(o.k.rv), o.k.repr, o.k.build, o.k.entry)
				explainMemo[key] = bad
			}
			if bad {
				return true
			}
		}
	}
	return false
}

func singleFails(c *core.Ctx, op string, a, b *opnd, lv, rv, repr, build, entry string) bool {
	el, idx := element(a, b, "child")
	var bn *node
	if b != nil {
		bn = operandNode(b, 1, rv, "child", entry, idx)
	}
	n := applyOp(op, operandNode(a, 0, lv, "child", entry, idx), bn)
	if build == "ctor" && !ctorable(n) {
		return false
	}
	cp := compile(n, lv == "constgo" || rv == "constgo", build, "full")
	if cp.err != "" {
		return false
	}
	if repr == "-" {
		repr = "plain"
	}
	// not counted as evaluations: whether this runs depends on map order in the wmap form
	return !accepted(expected(n, entry, el), execute(scratch, cp, entry, toRepr(el, repr)))
}

var scratch = core.NewCtx("quick", 0, 1, 0, 0)

// matchVsFilter: Script.Match(v) must equal membership of v in the filter result.
func matchVsFilter(c *core.Ctx, op, probe string, L, R *opnd, all []outcome) {
	opLabel := op
	if probe != "bare" {
		opLabel += ":" + probe
	}
	byKey := map[vkey]outcome{}
	for _, o := range all {
		byKey[o.k] = o
	}
	var failing []outcome
	var pairs []outcome
	for _, o := range all {
		if o.k.entry != "match" || o.k.form == "root" || o.k.form == "rootw" {
			continue
		}
		fk := o.k
		fk.entry = "filter"
		f, ok := byKey[fk]
		if !ok {
			continue
		}
		pairs = append(pairs, o)
		if strings.HasPrefix(o.got, "panic") || strings.HasPrefix(f.got, "panic") || o.got == f.got {
			continue
		}
		o.cs.Family = "match-vs-filter"
		o.got = "match=" + o.got + ",filter=" + f.got
		failing = append(failing, o)
	}
	if len(failing) == 0 {
		return
	}
	_ = pairs
	ps := presentationSig(L, R, failing, formsOf(L, R), matrixBuilds)
	sig := core.Sig(append([]string{"match-vs-filter", "op=" + opLabel, "l=" + kindLabel(L), "r=" + kindLabel(R)}, ps[:5]...)...)
	for _, o := range failing {
		c.Fail(sig, o.cs, o.size, "Script.Match(v) == (v in filter result)", o.got+"  "+o.cs.Text)
	}
}

// complement: for single-valued operands == and != are complements even
// where the statement leaves the value of == itself open (containers).
func complement(c *core.Ctx, L, R *opnd, eqs, neqs []outcome) {
	byKey := map[vkey]outcome{}
	for _, o := range neqs {
		byKey[o.k] = o
	}
	var failing, pairs []outcome
	for _, o := range eqs {
		ne, ok := byKey[o.k]
		if !ok || o.exp != scriptref.U {
			continue
		}
		pairs = append(pairs, o)
		if strings.HasPrefix(o.got, "panic") || strings.HasPrefix(ne.got, "panic") || o.got != ne.got {
			continue
		}
		o.cs.Family = "complement"
		o.cs.Other = ne.cs.Script
		failing = append(failing, o)
	}
	if len(failing) == 0 {
		return
	}
	_ = pairs
	sig := core.Sig(append(append([]string{"complement", "l=" + kindLabel(L), "r=" + kindLabel(R)}, presentationSig(L, R, failing, singleForms, matrixBuilds)...), "both="+failing[0].got)...)
	for _, o := range failing {
		c.Fail(sig, o.cs, o.size, "== and != give opposite answers", "both "+o.got+"  "+o.cs.Text)
	}
}

func runMatrix(c *core.Ctx) {
	ss, ms := singles(), multis()
	type cell struct {
		op   string
		L, R *opnd
	}
	var cells []cell
	for _, op := range scriptref.Ops {
		un := scriptref.Unary(op)
		var ls []*opnd
		for i := range ss {
			ls = append(ls, &ss[i])
		}
		for i := range ms {
			ls = append(ls, &ms[i])
		}
		for _, L := range ls {
			if un {
				cells = append(cells, cell{op, L, nil})
				continue
			}
			for _, R := range ls {
				cells = append(cells, cell{op, L, R})
			}
		}
	}
	for i, ce := range cells {
		if !c.Mine(i) {
			continue
		}
		if c.Expired("C12 matrix") {
			return
		}
		c.Add("matrix_cells", 1)
		c.Case(func() string { return fmt.Sprintf("matrix %s %s %s", ce.op, kindLabel(ce.L), kindLabel(ce.R)) })
		definite := false
		var bare []outcome
		for _, probe := range probes(ce.op, ce.L, ce.R) {
			var v any
			if probe != "bare" {
				v, _ = cellValue(ce.op, ce.L, ce.R)
			}
			op := ce.op
			outs := runCell(c, ce.L, ce.R, func(a, b *node) *node { return probeNode(probe, applyOp(op, a, b), v) })
			if report(c, "matrix", ce.op, probe, ce.L, ce.R, outs) {
				definite = true
			}
			matchVsFilter(c, ce.op, probe, ce.L, ce.R, outs)
			if probe == "bare" {
				bare = outs
			}
		}
		if ce.op == "count" && ce.L.vias()[len(ce.L.vias())-1] != "const" {
			// count(path) == number of selected nodes, probed through the path presentations
			definite = countProbe(c, ce.L) || definite
		}
		if ce.op == "==" && !ce.L.multi && !ce.R.multi {
			neqs := runCell(c, ce.L, ce.R, func(a, b *node) *node { return scriptref.B("!=", a, b) })
			complement(c, ce.L, ce.R, bare, neqs)
		}
		if definite {
			c.Nontrivial()
		}
		if i%997 == 0 && len(bare) > 0 {
			o := bare[len(bare)/2]
			c.Sample(map[string]any{"family": "matrix", "script": o.cs.Text, "build": o.cs.Build, "entry": o.cs.Entry, "repr": o.cs.Repr,
				"elem": show(o.cs.Elem.Value()), "expected": o.exp.String(), "got": o.got})
		}
	}
}

// countProbe checks count(path) == n and != n+1 for the path presentations.
func countProbe(c *core.Ctx, L *opnd) bool {
	n := int64(1)
	switch {
	case L.multi:
		n = int64(len(L.vals))
	case isNothing(L.val):
		n = 0
	}
	def := false
	for _, probe := range []string{"eqval", "eqother"} {
		p := probe
		outs := runCell(c, L, nil, func(a, _ *node) *node {
			if a.Path == nil {
				return scriptref.N1("count", a) // constant presentations: open
			}
			return probeNode(p, scriptref.N1("count", a), n)
		})
		if report(c, "matrix", "count", probe, L, nil, outs) {
			def = true
		}
		matchVsFilter(c, "count", probe, L, nil, outs)
	}
	return def
}

// ------------------------------------------------------------------ logic trees

func logicElements() []map[string]any {
	ns := []any{int64(5), "s", scriptref.Nothing{}, nil, int64(0), "", l(), m()}
	mls := [][]any{l(int64(1), int64(2), int64(3)), l(int64(2), int64(3)), l(), l(int64(1)), l(int64(3), int64(1)), l(int64(2)), l(int64(1), int64(1)), l("1")}
	var out []map[string]any
	for i := 0; i < 8; i++ {
		e := map[string]any{"a": int64(1 + i&1), "b": int64(1 + (i>>1&1)*2), "t": i>>2&1 == 0, "m": mls[i]}
		if !isNothing(ns[i]) {
			e["n"] = ns[i]
		}
		out = append(out, e)
	}
	return out
}

type atom struct {
	n     *node
	class string
}

func atoms6() []atom {
	return []atom{
		{scriptref.B("==", scriptref.P(scriptref.K("a")), scriptref.C(int64(1))), "cmp"},
		{scriptref.B("<", scriptref.P(scriptref.K("b")), scriptref.C(int64(2))), "cmp"},
		{scriptref.P(scriptref.K("t")), "boolpath"},
		{scriptref.C(true), "const"},
		{scriptref.P(scriptref.K("n")), "nonbool"},
		{scriptref.B("==", scriptref.P(scriptref.K("m"), scriptref.W()), scriptref.C(int64(1))), "multi"},
	}
}

func atoms3() []atom {
	a := atoms6()
	return []atom{a[0], a[2], a[4]}
}

// level builds all trees of depth <= d (materialised) over the atoms.
func level(as []atom, d int) []*node {
	var cur []*node
	for _, a := range as {
		cur = append(cur, a.n)
	}
	for ; d > 0; d-- {
		next := make([]*node, 0, len(as)+len(cur)+2*len(cur)*len(cur))
		for _, a := range as {
			next = append(next, a.n)
		}
		for _, t := range cur {
			next = append(next, scriptref.N1("!", t))
		}
		for _, op := range []string{"&&", "||"} {
			for _, x := range cur {
				for _, y := range cur {
					next = append(next, scriptref.B(op, x, y))
				}
			}
		}
		cur = next
	}
	return cur
}

func shape(n *node, classes map[*node]string) string {
	if n == nil {
		return "-"
	}
	if cl, ok := classes[n]; ok {
		return cl
	}
	return n.Op
}

// newfilter: the text goes through jp.NewFilter, the hand-copied twin of the
// filter reader inside jp.ParseString (its own precedence correction).
var logicBuilds = [][2]string{{"ctor", ""}, {"parse", "full"}, {"parse", "min"}, {"newfilter", "min"}}

func runTree(c *core.Ctx, t *node, classes map[*node]string, els []map[string]any, elSpecs []scriptref.VSpec, sample bool) {
	if t.Leaf() {
		return // a bare operand at the top is outside the statement
	}
	var cps [4]*compiled
	for i, b := range logicBuilds {
		cps[i] = compile(t, false, b[0], b[1])
		if cps[i].err != "" {
			c.Add("presentations_unavailable", 1)
			noteOnce(c, cps[i].err+" for "+cps[i].text)
		}
	}
	var all []outcome
	for ei, el := range els {
		exp := expected(t, "match", el)
		if exp != scriptref.U {
			c.Nontrivial()
		}
		c.Add("logic_cases", 1)
		for i, b := range logicBuilds {
			if cps[i].err != "" {
				continue
			}
			for _, entry := range []string{"match", "filter"} {
				k := vkey{"-", "-", "-", "-", strings.TrimSuffix(b[0]+"-"+b[1], "-"), entry}
				got := execute(c, cps[i], entry, toRepr(el, "plain"))
				all = append(all, outcome{k: k, got: got, exp: exp, size: len(cps[i].text) + penalty(k),
					cs: caseT{Family: "logic", Script: t, Build: b[0], Layout: b[1], Entry: entry, Elem: elSpecs[ei], Repr: "plain", Text: cps[i].text}})
			}
		}
	}
	// report
	groups := map[string][]outcome{}
	for _, o := range all {
		if !accepted(o.exp, o.got) {
			g := groupKey(o)
			groups[g] = append(groups[g], o)
		}
	}
	for g, failing := range groups {
		ps := presentationSig(nil, nil, failing, nil, []string{"ctor", "parse-full", "parse-min", "newfilter-min"})
		sig := core.Sig("logic", "root="+t.Op, "l="+shape(t.L, classes), "r="+shape(t.R, classes), ps[4], ps[5], g)
		for _, o := range failing {
			c.Fail(sig, o.cs, o.size, "script is "+o.exp.String(), o.got+"  "+o.cs.Text+" on "+show(o.cs.Elem.Value()))
		}
	}
	// match vs filter
	for i := 0; i+1 < len(all); i += 2 {
		a, b := all[i], all[i+1]
		if a.got != b.got && !strings.HasPrefix(a.got, "panic") && !strings.HasPrefix(b.got, "panic") {
			a.cs.Family = "match-vs-filter"
			c.Fail(core.Sig("match-vs-filter", "logic", "root="+t.Op, "l="+shape(t.L, classes), "r="+shape(t.R, classes), "build="+a.k.build),
				a.cs, a.size, "Script.Match(v) == (v in filter result)", "match="+a.got+",filter="+b.got+"  "+a.cs.Text)
		}
	}
	if sample && len(all) > 0 {
		o := all[len(all)/2]
		c.Sample(map[string]any{"family": "logic", "script": o.cs.Text, "build": o.k.build, "entry": o.cs.Entry,
			"elem": show(o.cs.Elem.Value()), "expected": o.exp.String(), "got": o.got})
	}
}

func runLogic(c *core.Ctx) {
	els := logicElements()
	specs := make([]scriptref.VSpec, len(els))
	for i, e := range els {
		specs[i] = scriptref.Spec(e)
	}
	as := atoms6()
	classes := map[*node]string{}
	for _, a := range as {
		classes[a.n] = a.class
	}
	trees := level(as, 2)
	for i, t := range trees {
		if !c.Mine(i) {
			continue
		}
		if i%64 == 0 && c.Expired("C12 logic depth 2") {
			return
		}
		c.Add("logic_trees", 1)
		runTree(c, t, classes, els, specs, i%4001 == 0)
	}
	// chains of three and four many-valued comparisons with their own constants
	// (@.m[*] == 1 && @.m[*] == 2 && @.m[*] == 3 holds when some choice of one
	// value per operand makes it hold: every combination has to be tried)
	idxc := len(trees)
	for n := 3; n <= 4; n++ {
		total := 1
		for i := 0; i < n; i++ {
			total *= 3
		}
		for i := 1; i < n; i++ {
			total *= 2
		}
		for code := 0; code < total; code++ {
			idxc++
			if !c.Mine(idxc) {
				continue
			}
			if c.Expired("C12 many-valued chains") {
				return
			}
			x := code
			var t *node
			for i := 0; i < n; i++ {
				a := scriptref.B("==", scriptref.P(scriptref.K("m"), scriptref.W()), scriptref.C(int64(1+x%3)))
				classes[a] = "multi"
				x /= 3
				if t == nil {
					t = a
					continue
				}
				t = scriptref.B([]string{"&&", "||"}[x%2], t, a)
				x /= 2
			}
			c.Add("logic_trees", 1)
			c.Add("many_valued_chains", 1)
			runTree(c, t, classes, els, specs, false)
		}
	}
	if c.Quick() {
		return
	}
	// depth 3 over three atoms, enumerated without materialising the top level
	a3 := atoms3()
	sub := level(a3, 2)
	idx := 0
	for _, t := range sub {
		if c.Mine(idx) {
			c.Add("logic_trees", 1)
			runTree(c, scriptref.N1("!", t), classes, els, specs, false)
		}
		idx++
	}
	for _, op := range []string{"&&", "||"} {
		for _, x := range sub {
			if c.Expired("C12 logic depth 3") {
				return
			}
			for _, y := range sub {
				if c.Mine(idx) {
					c.Add("logic_trees", 1)
					runTree(c, scriptref.B(op, x, y), classes, els, specs, idx%500009 == 0)
				}
				idx++
			}
		}
	}
}

func run(c *core.Ctx) {
	runMatrix(c)
	runLogic(c)
	if c.Shard == 0 {
		literalLeg(c)
	}
	if c.Shard == 1 {
		parenLeg(c)
	}
}

// ------------------------------------------------------------------ replay

func replay(c *core.Ctx, raw json.RawMessage) {
	var lc litCase
	if err := json.Unmarshal(raw, &lc); err == nil && lc.Leg == "literal" {
		replayLiteral(c, lc)
		return
	}
	var pc parenCase
	if err := json.Unmarshal(raw, &pc); err == nil && pc.Leg == "parens" {
		replayParen(c, pc)
		return
	}
	var cs caseT
	if err := json.Unmarshal(raw, &cs); err != nil {
		c.HarnessError("bad case: %v", err)
		return
	}
	el := cs.Elem.Value()
	one := func(n *node) (string, *compiled) {
		cp := compile(n, cs.GoInt, cs.Build, cs.Layout)
		if cp.err != "" {
			return cp.err, cp
		}
		return execute(c, cp, cs.Entry, toRepr(el, cs.Repr)), cp
	}
	got, cp := one(cs.Script)
	switch cs.Family {
	case "complement":
		other, _ := one(cs.Other)
		if got == other {
			c.Fail("replay|complement", cs, len(cp.text), "== and != give opposite answers", "both "+got)
		}
	case "match-vs-filter":
		cs2 := cs
		cs2.Entry = "filter"
		cpf := compile(cs.Script, cs.GoInt, cs.Build, cs.Layout)
		f := execute(c, cpf, "filter", toRepr(el, cs.Repr))
		cs.Entry = "match"
		mt := execute(c, cpf, "match", toRepr(el, cs.Repr))
		if f != mt {
			c.Fail("replay|match-vs-filter", cs, len(cp.text), "Script.Match(v) == (v in filter result)", "match="+mt+",filter="+f)
		}
	default:
		exp := expected(cs.Script, cs.Entry, el)
		if !accepted(exp, got) {
			c.Fail("replay|"+cs.Family, cs, len(cp.text), "script is "+exp.String(), got+"  "+cp.text)
		}
	}
}

// show renders a value kind-exactly (1 is an int64, 1.0 a float64, map keys sorted).
func show(v any) string {
	switch t := v.(type) {
	case nil:
		return "null"
	case bool:
		return fmt.Sprint(t)
	case int64:
		return fmt.Sprint(t)
	case float64:
		s := fmt.Sprint(t)
		if !strings.ContainsAny(s, ".e") {
			s += ".0"
		}
		return s
	case string:
		return fmt.Sprintf("%q", t)
	case []any:
		parts := make([]string, len(t))
		for i, e := range t {
			parts[i] = show(e)
		}
		return "[" + strings.Join(parts, ",") + "]"
	case map[string]any:
		keys := make([]string, 0, len(t))
		for k := range t {
			keys = append(keys, k)
		}
		sort.Strings(keys)
		parts := make([]string, len(keys))
		for i, k := range keys {
			parts[i] = k + ":" + show(t[k])
		}
		return "{" + strings.Join(parts, ",") + "}"
	}
	return fmt.Sprintf("%T(%v)", v, v)
}
