package c12

import (
	"strconv"
	"strings"

	"verif/internal/ref/scriptref"
)

// The check's own printer for script text. It does not use ojg's printers
// (whose parenthesisation is C14's subject). Two layouts:
//
//	full: every operator operand that is itself an operator expression is
//	      parenthesised, so the structure is explicit and no precedence or
//	      associativity rule is needed to read it;
//	min:  additionally leaves out the parentheses that every infix notation
//	      agrees on: comparisons / arithmetic below && and ||, arithmetic
//	      below a comparison, and a nested occurrence of the same && or ||.
//	      A `!` expression used as an operand is always parenthesised.

func isLogic(op string) bool { return op == "&&" || op == "||" }

func isArith(op string) bool { return op == "+" || op == "-" || op == "*" || op == "/" }

func isFunc(op string) bool {
	return op == "length" || op == "count" || op == "match" || op == "search"
}

func constText(s scriptref.VSpec) string {
	switch s.T {
	case "nil":
		return "null"
	case "bool":
		if s.B {
			return "true"
		}
		return "false"
	case "int":
		return strconv.FormatInt(s.I, 10)
	case "float":
		t := strconv.FormatFloat(s.F, 'f', -1, 64)
		if !strings.Contains(t, ".") {
			t += ".0"
		}
		return t
	case "str":
		r := strings.NewReplacer(`\`, `\\`, `'`, `\'`)
		return "'" + r.Replace(string(s.S)) + "'"
	case "nothing":
		return "Nothing"
	case "regex":
		return "/" + string(s.S) + "/"
	case "list":
		parts := make([]string, len(s.L))
		for i, e := range s.L {
			parts[i] = constText(e)
		}
		return "[" + strings.Join(parts, ",") + "]"
	}
	panic("constText: " + s.T)
}

func pathText(p *scriptref.Path) string {
	var b strings.Builder
	if p.Root {
		b.WriteByte('$')
	} else {
		b.WriteByte('@')
	}
	for _, st := range p.Steps {
		switch {
		case st.Key != nil:
			b.WriteByte('.')
			b.WriteString(string(*st.Key))
		case st.Idx != nil:
			b.WriteString("[" + strconv.Itoa(*st.Idx) + "]")
		case st.Wild:
			b.WriteString("[*]")
		case st.Desc:
			b.WriteByte('.')
		case st.Filter != nil:
			b.WriteString("[?(" + render(st.Filter, "full") + ")]")
		}
	}
	return b.String()
}

func needParens(parent string, child *scriptref.Node, mode string) bool {
	if child.Leaf() || isFunc(child.Op) {
		return false
	}
	if mode == "full" || child.Op == "!" {
		return true
	}
	switch {
	case isLogic(parent):
		return isLogic(child.Op) && child.Op != parent
	case isArith(parent) || parent == "!":
		return true
	default: // comparison-like parent
		return !isArith(child.Op)
	}
}

func operand(parent string, child *scriptref.Node, mode string) string {
	t := render(child, mode)
	if needParens(parent, child, mode) {
		return "(" + t + ")"
	}
	return t
}

// render prints n without enclosing parentheses.
func render(n *scriptref.Node, mode string) string {
	switch {
	case n.Const != nil:
		return constText(*n.Const)
	case n.Path != nil:
		return pathText(n.Path)
	}
	switch n.Op {
	case "!":
		return "!" + operand("!", n.L, mode)
	case "length", "count":
		return n.Op + "(" + render(n.L, mode) + ")"
	case "match", "search":
		return n.Op + "(" + render(n.L, mode) + ", " + render(n.R, mode) + ")"
	}
	return operand(n.Op, n.L, mode) + " " + n.Op + " " + operand(n.Op, n.R, mode)
}

// scriptText is the complete script text "( ... )".
func scriptText(n *scriptref.Node, mode string) string { return "(" + render(n, mode) + ")" }
