package c12

import (
	"fmt"

	"github.com/ohler55/ojg/jp"
	"verif/internal/core"
)

// literalSpellings: number and string literal spellings of script text that
// the printers never emit (they always sign exponents, never write a leading
// '+', …) and that therefore only hand-written text exercises. The value each
// spelling denotes is what every JSON-like number grammar says.
var literalSpellings = []struct {
	text string
	val  any
}{
	{"3e3", 3000.0}, {"1.5e3", 1500.0}, {"1E2", 100.0}, {"1e+2", 100.0}, {"1e-2", 0.01}, {"-2.5e1", -25.0}, {"1e0", 1.0}, {"1e12", 1e12},
	{"12e-1", 1.2}, {"0.5", 0.5}, {"-0.5", -0.5}, {"12", int64(12)}, {"-12", int64(-12)}, {"0", int64(0)}, {"10.25", 10.25}, {"123456789012", int64(123456789012)},
	// leading zeros are read as decimal digits (the reader accepts them), the boundary integers, zero fractions and exponents
	{"010", int64(10)}, {"-010", int64(-10)}, {"0100", int64(100)}, {"08", int64(8)}, {"009", int64(9)}, {"00", int64(0)}, {"010.5", 10.5}, {"01e1", 10.0},
	{"9223372036854775807", int64(9223372036854775807)}, {"-9223372036854775808", int64(-9223372036854775808)}, {"2.0", 2.0}, {"1e00", 1.0}, {"1e-00", 1.0}, {"1e010", 1e10}, {"0.10", 0.1}, {"0e5", 0.0},
	{"'a'", "a"}, {`"a"`, "a"}, {`'a\'b'`, "a'b"}, {`'a\\b'`, `a\b`}, {`'A'`, "A"}, {`'a\nb'`, "a\nb"}, {`'\x41'`, "A"}, {"true", true}, {"false", false}, {"null", nil},
}

type litCase struct {
	Leg  string `json:"leg"`
	Text string `json:"script"`
	Val  any    `json:"value"`
}

func matchText(text string, elem any) (got bool, err error, pv any) {
	defer func() { pv = recover() }()
	s, err := jp.NewScript(text)
	if err != nil {
		return false, err, nil
	}
	return s.Match(elem), nil, nil
}

func other(v any) any {
	switch t := v.(type) {
	case float64:
		return t + 1
	case int64:
		return t + 1
	case string:
		return t + "x"
	case bool:
		return !t
	}
	return "not-null"
}

// literalLeg checks that (@.v == <spelling>) is true exactly for the value the
// spelling denotes, on both sides of the operator.
func literalLeg(c *core.Ctx) {
	for _, l := range literalSpellings {
		for _, form := range []string{"(@.v == %s)", "(%s == @.v)", "(@.v != %s)"} {
			text := fmt.Sprintf(form, l.text)
			for _, same := range []bool{true, false} {
				v := l.val
				if !same {
					v = other(l.val)
				}
				want := same
				if form == "(@.v != %s)" {
					want = !same
				}
				got, err, pv := matchText(text, map[string]any{"v": v})
				c.Eval()
				c.Add("literal_spelling_cases", 1)
				cs := litCase{Leg: "literal", Text: text, Val: v}
				kind := fmt.Sprintf("%T", l.val)
				switch {
				case pv != nil:
					c.Fail(core.Sig("literal", "kind="+kind, "panic"), cs, len(text), "a result", fmt.Sprintf("panic: %v", pv))
				case err != nil:
					c.Fail(core.Sig("literal", "kind="+kind, "parse-error"), cs, len(text), "parses", err.Error())
				case got != want:
					c.Fail(core.Sig("literal", "kind="+kind, fmt.Sprintf("exp=%v|got=%v", want, got)), cs, len(text), fmt.Sprint(want), fmt.Sprint(got))
				default:
					c.NontrivialKey("literal:" + text)
				}
			}
		}
	}
}

func replayLiteral(c *core.Ctx, cs litCase) {
	// the expectation is recomputed from the table
	for _, l := range literalSpellings {
		for _, form := range []string{"(@.v == %s)", "(%s == @.v)", "(@.v != %s)"} {
			if fmt.Sprintf(form, l.text) != cs.Text {
				continue
			}
			for _, same := range []bool{true, false} {
				v := l.val
				if !same {
					v = other(l.val)
				}
				want := same
				if form == "(@.v != %s)" {
					want = !same
				}
				got, err, pv := matchText(cs.Text, map[string]any{"v": v})
				if pv != nil || err != nil || got != want {
					c.Fail("replay|literal", cs, 1, fmt.Sprint(want), fmt.Sprintf("%v %v %v", got, err, pv))
				}
			}
		}
	}
}

// ------------------------------------------------------------------ redundant parentheses
//
// Printed scripts never hold a pair of parentheses that is not needed, so the
// group reduction of the script reader is only ever seen by hand-written
// text. (x) is x: every base script is evaluated as written and with one or
// two pairs of parentheses put around its left operand, its right operand,
// both, and the whole; each variant has to parse and to give the base's truth
// value, through NewScript, NewFilter and the path reader.

type parenCase struct {
	Leg   string `json:"leg"`
	Base  string `json:"base_script"`
	Text  string `json:"script"`
	Entry string `json:"entry"`
	Elem  any    `json:"element"`
}

var parenAtoms = []string{"@.a", "@.b", "1", "2", "'x'", "true", "$.a", "@.c.d", "length(@.a)", "2.5"}
var parenOps = []string{"==", "!=", "<", ">=", "&&", "||", "+", "-", "*", "in", "has", "empty"}
var parenElems = []any{
	map[string]any{"a": int64(1), "b": int64(2)}, map[string]any{"a": int64(2), "b": int64(1), "c": map[string]any{"d": int64(2)}},
	map[string]any{"a": "x", "b": true}, map[string]any{"a": []any{int64(1), int64(2)}, "b": []any{}}, map[string]any{},
}

// evalParen evaluates the script text through one entry point; for the path
// forms the element is put into a one-element list and selected by the filter.
func evalParen(entry, text string, elem any) (got bool, err error, pv any) {
	defer func() { pv = recover() }()
	switch entry {
	case "NewScript":
		s, e := jp.NewScript(text)
		if e != nil {
			return false, e, nil
		}
		return s.Match(elem), nil, nil
	case "NewFilter":
		f, e := jp.NewFilter("[?" + text + "]")
		if e != nil {
			return false, e, nil
		}
		return len(jp.Expr{jp.Root(0x24), f}.Get([]any{elem})) > 0, nil, nil
	}
	x, e := jp.ParseString("$[?" + text + "]")
	if e != nil {
		return false, e, nil
	}
	return len(x.Get([]any{elem})) > 0, nil, nil
}

func parenVariants(l, op, r string) []string {
	return []string{
		"((" + l + ") " + op + " " + r + ")", "(" + l + " " + op + " (" + r + "))", "((" + l + ") " + op + " (" + r + "))",
		"(((" + l + ")) " + op + " " + r + ")", "(" + l + " " + op + " ((" + r + ")))", "((" + l + " " + op + " " + r + "))",
	}
}

func parenLeg(c *core.Ctx) {
	type tri struct{ l, op, r string }
	var bases []tri
	for _, l := range parenAtoms {
		for _, op := range parenOps {
			for _, r := range parenAtoms {
				bases = append(bases, tri{l, op, r})
			}
		}
	}
	// two comparisons under a logical operator: the operands are groups themselves
	for _, op := range []string{"&&", "||"} {
		// (a ! only on the right: the reader lets ! take everything to its right, a
		// listed finding of C14, so parentheses around a left operand that starts
		// with ! are not redundant for it)
		for _, l := range []string{"@.a == 1", "@.b > 1", "@.b"} {
			for _, r := range []string{"@.b == 2", "@.a < 2", "@.a in [1,2]", "!@.b"} {
				bases = append(bases, tri{l, op, r})
			}
		}
	}
	for _, b := range bases {
		base := "(" + b.l + " " + b.op + " " + b.r + ")"
		for _, entry := range []string{"NewScript", "NewFilter", "ParseString"} {
			for _, el := range parenElems {
				want, berr, bpv := evalParen(entry, base, el)
				c.Eval()
				if berr != nil || bpv != nil {
					continue // the base itself is not accepted (a panic is reported by the matrix / C06)
				}
				for _, v := range parenVariants(b.l, b.op, b.r) {
					got, err, pv := evalParen(entry, v, el)
					c.Eval()
					c.Add("redundant_parentheses_cases", 1)
					cs := parenCase{Leg: "parens", Base: base, Text: v, Entry: entry, Elem: el}
					switch {
					case pv != nil:
						c.Fail(core.Sig("parens", "entry="+entry, "op="+b.op, "panic"), cs, len(v), "the value of "+base, fmt.Sprintf("panic: %v", pv))
					case err != nil:
						c.Fail(core.Sig("parens", "entry="+entry, "op="+b.op, "parse-error"), cs, len(v), "parses like "+base, err.Error())
					case got != want:
						c.Fail(core.Sig("parens", "entry="+entry, "op="+b.op, fmt.Sprintf("exp=%v|got=%v", want, got)), cs, len(v), fmt.Sprint(want), fmt.Sprint(got))
					default:
						c.NontrivialKey("parens:" + v)
					}
				}
			}
		}
	}
}

func replayParen(c *core.Ctx, cs parenCase) {
	want, berr, bpv := evalParen(cs.Entry, cs.Base, cs.Elem)
	if berr != nil || bpv != nil {
		return
	}
	got, err, pv := evalParen(cs.Entry, cs.Text, cs.Elem)
	if pv != nil || err != nil || got != want {
		c.Fail("replay|parens", cs, 1, fmt.Sprint(want), fmt.Sprintf("%v %v %v", got, err, pv))
	}
}
