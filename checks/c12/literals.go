package c12

import (
	"fmt"

	"github.com/ohler55/ojg/jp"
	"verif/internal/core"
)

// literalSpellings: number and string literal spellings of script text that
// the printers never emit (they always sign exponents, never write a leading
// '+', …) and that therefore only hand-written text exercises. The value each
// spelling denotes is what every JSON-like number grammar says.
var literalSpellings = []struct {
	text string
	val  any
}{
	{"3e3", 3000.0}, {"1.5e3", 1500.0}, {"1E2", 100.0}, {"1e+2", 100.0}, {"1e-2", 0.01}, {"-2.5e1", -25.0}, {"1e0", 1.0}, {"1e12", 1e12},
	{"12e-1", 1.2}, {"0.5", 0.5}, {"-0.5", -0.5}, {"12", int64(12)}, {"-12", int64(-12)}, {"0", int64(0)}, {"10.25", 10.25}, {"123456789012", int64(123456789012)},
	{"'a'", "a"}, {`"a"`, "a"}, {`'a\'b'`, "a'b"}, {`'a\\b'`, `a\b`}, {`'A'`, "A"}, {`'a\nb'`, "a\nb"}, {`'\x41'`, "A"}, {"true", true}, {"false", false}, {"null", nil},
}

type litCase struct {
	Leg  string `json:"leg"`
	Text string `json:"script"`
	Val  any    `json:"value"`
}

func matchText(text string, elem any) (got bool, err error, pv any) {
	defer func() { pv = recover() }()
	s, err := jp.NewScript(text)
	if err != nil {
		return false, err, nil
	}
	return s.Match(elem), nil, nil
}

func other(v any) any {
	switch t := v.(type) {
	case float64:
		return t + 1
	case int64:
		return t + 1
	case string:
		return t + "x"
	case bool:
		return !t
	}
	return "not-null"
}

// literalLeg checks that (@.v == <spelling>) is true exactly for the value the
// spelling denotes, on both sides of the operator.
func literalLeg(c *core.Ctx) {
	for _, l := range literalSpellings {
		for _, form := range []string{"(@.v == %s)", "(%s == @.v)", "(@.v != %s)"} {
			text := fmt.Sprintf(form, l.text)
			for _, same := range []bool{true, false} {
				v := l.val
				if !same {
					v = other(l.val)
				}
				want := same
				if form == "(@.v != %s)" {
					want = !same
				}
				got, err, pv := matchText(text, map[string]any{"v": v})
				c.Eval()
				c.Add("literal_spelling_cases", 1)
				cs := litCase{Leg: "literal", Text: text, Val: v}
				kind := fmt.Sprintf("%T", l.val)
				switch {
				case pv != nil:
					c.Fail(core.Sig("literal", "kind="+kind, "panic"), cs, len(text), "a result", fmt.Sprintf("panic: %v", pv))
				case err != nil:
					c.Fail(core.Sig("literal", "kind="+kind, "parse-error"), cs, len(text), "parses", err.Error())
				case got != want:
					c.Fail(core.Sig("literal", "kind="+kind, fmt.Sprintf("exp=%v|got=%v", want, got)), cs, len(text), fmt.Sprint(want), fmt.Sprint(got))
				default:
					c.NontrivialKey("literal:" + text)
				}
			}
		}
	}
}

func replayLiteral(c *core.Ctx, cs litCase) {
	// the expectation is recomputed from the table
	for _, l := range literalSpellings {
		for _, form := range []string{"(@.v == %s)", "(%s == @.v)", "(@.v != %s)"} {
			if fmt.Sprintf(form, l.text) != cs.Text {
				continue
			}
			for _, same := range []bool{true, false} {
				v := l.val
				if !same {
					v = other(l.val)
				}
				want := same
				if form == "(@.v != %s)" {
					want = !same
				}
				got, err, pv := matchText(cs.Text, map[string]any{"v": v})
				if pv != nil || err != nil || got != want {
					c.Fail("replay|literal", cs, 1, fmt.Sprint(want), fmt.Sprintf("%v %v %v", got, err, pv))
				}
			}
		}
	}
}
