// Package c19 decides C19: alt.Diff, alt.Compare and alt.Match report exactly
// the real differences. Bounded-exhaustive: every base tree up to a node
// bound, every single-point (thorough: two-point) perturbation from a fixed
// catalogue, every ignore set drawn from the paths related to the perturbed
// locations, both argument orders, simple and gen form; judged against the
// small recursive reference internal/ref/diffref.
package c19

import (
	"encoding/json"
	"fmt"
	"math"
	"sort"
	"strings"
	"time"

	"github.com/ohler55/ojg/alt"
	"github.com/ohler55/ojg/gen"

	"verif/internal/core"
	"verif/internal/gens"
	"verif/internal/ref/diffref"
)

func init() {
	core.Register(&core.Check{
		ID:     "C19",
		Level:  "exploration",
		Shards: func(tier string) int { return 64 },
		Run:    run,
		Replay: replay,
		Rule: "base trees a from gens.Trees (simplest first); b = a after every catalogue perturbation at every location (thorough: also every ordered second perturbation at a later, non-nested location); " +
			"ignore sets = none, every single path that covers / is an ancestor of / is a sibling or cousin of / generalises by wildcard / lies below a perturbed or reference-divergent location, and every unordered pair of those; " +
			"each (a,b,ignores) is run as Diff and Compare in both argument orders, on []any/map[string]any trees and on their gen.Node form; Match(f,t) for every member-subset fingerprint f of a against a and every single-point b, " +
			"plus all ordered pairs of a scalar alphabet (every int/uint/float width, boundaries, strings, times, empty containers) at the root, in an array and in an object. " +
			"distinct_nontrivial = (a,b,ignore set) triples whose reference divergence set is non-empty plus (f,t) pairs the reference does not match; evaluations = calls of Diff, Compare and Match",
		Assumptions: []string{
			"diffref (plain recursion, unit-tested against hand-computed expectations) is the specification of 'equal up to numeric width and null-versus-absent object members'",
			"an integer kind against a float kind holding the same mathematical value, and instants closer than 2 ms, are left open by the statement: either answer is accepted",
			"array-length tail reading (DESIGN 2.5): a returned index at or after the end of the shorter array accounts for every later element of the longer tail",
			"a returned path is genuine when it is a prefix of (or equal to) a non-ignored divergent location; a path that stops above the divergence is accepted",
			"Match: a fingerprint array shorter than the target array, and an all-null fingerprint container against a missing target, are left open",
			"map iteration order is repeated (Compare 3x on multi-member objects), not enumerated",
		},
		Bound: func(tier string) string {
			if tier == "thorough" {
				return "trees <= 4 nodes over 8 leaves (nil,true,int64,int8,float64,float32,string,time) plus trees of 5 nodes over 4 leaves (nil,int64,float64,string), keys a,b,c: single-point perturbations with all single and paired ignore sets; trees <= 4 nodes: two-point perturbations with single ignores and cross pairs; scalar alphabet 38x38 in 3 contexts; Match over all member-subset fingerprints"
			}
			return "trees <= 4 nodes over 6 leaves (nil,true,int64,int8,float64,string) and keys a,b: single-point perturbations with all single and paired ignore sets; trees <= 3 nodes: two-point perturbations with single ignores and cross pairs; scalar alphabet 38x38 in 3 contexts; Match over all member-subset fingerprints"
		},
	})
}

// ---------------------------------------------------------------- trees

var t0 = time.Unix(1700000000, 123456789).UTC()

func leaves(quick bool) []any {
	if quick {
		return []any{nil, true, int64(1), int8(2), float64(1.5), "s"}
	}
	return []any{nil, true, int64(1), int8(2), float64(1.5), float32(2.5), "s", t0}
}

func keyset(quick bool) []string {
	if quick {
		return []string{"a", "b"}
	}
	return []string{"a", "b", "c"}
}

func nodes(v any) int {
	n := 1
	switch t := v.(type) {
	case []any:
		for _, e := range t {
			n += nodes(e)
		}
	case map[string]any:
		for _, e := range t {
			n += nodes(e)
		}
	}
	return n
}

func sortedKeys(m map[string]any) []string {
	ks := make([]string, 0, len(m))
	for k := range m {
		ks = append(ks, k)
	}
	sort.Strings(ks)
	return ks
}

// toGen converts a simple tree to gen.Node form by hand (not through alt).
func toGen(v any) gen.Node {
	switch t := v.(type) {
	case nil:
		return nil
	case bool:
		return gen.Bool(t)
	case int:
		return gen.Int(t)
	case int8:
		return gen.Int(t)
	case int16:
		return gen.Int(t)
	case int32:
		return gen.Int(t)
	case int64:
		return gen.Int(t)
	case uint:
		return gen.Int(t)
	case uint8:
		return gen.Int(t)
	case uint16:
		return gen.Int(t)
	case uint32:
		return gen.Int(t)
	case uint64:
		return gen.Int(t)
	case float32:
		return gen.Float(t)
	case float64:
		return gen.Float(t)
	case string:
		return gen.String(t)
	case time.Time:
		return gen.Time(t)
	case []any:
		a := make(gen.Array, len(t))
		for i, e := range t {
			a[i] = toGen(e)
		}
		return a
	case map[string]any:
		o := make(gen.Object, len(t))
		for k, e := range t {
			o[k] = toGen(e)
		}
		return o
	}
	panic(fmt.Sprintf("c19: toGen %T", v))
}

// genable: every leaf survives the trip to gen form with its value.
func genable(v any) bool {
	switch t := v.(type) {
	case uint64:
		return t <= math.MaxInt64
	case uint:
		return uint64(t) <= math.MaxInt64
	case []any:
		for _, e := range t {
			if !genable(e) {
				return false
			}
		}
	case map[string]any:
		for _, e := range t {
			if !genable(e) {
				return false
			}
		}
	}
	return true
}

func anyOf(n gen.Node) any {
	if n == nil {
		return nil
	}
	return n
}

// ---------------------------------------------------------------- functional edits

func ext(loc []any, e any) []any {
	n := make([]any, len(loc)+1)
	copy(n, loc)
	n[len(loc)] = e
	return n
}

// edit returns a copy of root in which the value at loc is replaced by
// f(old); del removes the member / element, ins inserts before the index (or
// adds the key) instead of replacing.
func edit(root any, loc []any, mode string, nv any) any {
	if len(loc) == 0 {
		return nv
	}
	switch t := root.(type) {
	case []any:
		i := loc[0].(int)
		if len(loc) == 1 {
			switch mode {
			case "del":
				out := make([]any, 0, len(t)-1)
				out = append(out, t[:i]...)
				return append(out, t[i+1:]...)
			case "ins":
				out := make([]any, 0, len(t)+1)
				out = append(out, t[:i]...)
				out = append(out, nv)
				return append(out, t[i:]...)
			}
		}
		out := make([]any, len(t))
		copy(out, t)
		out[i] = edit(t[i], loc[1:], mode, nv)
		return out
	case map[string]any:
		k := loc[0].(string)
		out := make(map[string]any, len(t)+1)
		for kk, e := range t {
			out[kk] = e
		}
		if len(loc) == 1 {
			switch mode {
			case "del":
				delete(out, k)
				return out
			case "ins":
				out[k] = nv
				return out
			}
		}
		out[k] = edit(t[k], loc[1:], mode, nv)
		return out
	}
	panic("c19: edit through a scalar")
}

// ---------------------------------------------------------------- perturbations

type pert struct {
	Class string
	Loc   []any
	Desc  string
	B     any
}

func kindOf(v any) string {
	switch v.(type) {
	case nil:
		return "nil"
	case bool:
		return "bool"
	case int, int8, int16, int32, int64:
		return "int"
	case uint, uint8, uint16, uint32, uint64:
		return "uint"
	case float32, float64:
		return "float"
	case string:
		return "string"
	case time.Time:
		return "time"
	case []any:
		return "array"
	case map[string]any:
		return "object"
	}
	return fmt.Sprintf("%T", v)
}

func numKind(k string) string {
	if k == "uint" {
		return "int"
	}
	return k
}

// otherValue: a different value of the same kind (nil has none).
func otherValue(v any) (any, bool) {
	switch t := v.(type) {
	case bool:
		return !t, true
	case int64:
		return t + 4, true
	case int8:
		return t + 4, true
	case float64:
		return t + 4, true
	case float32:
		return t + 4, true
	case string:
		return t + "x", true
	case time.Time:
		return t.Add(time.Hour), true
	}
	return nil, false
}

var kindReps = []any{nil, false, int64(7), float64(7.5), "k"}

func widths(v any) []any {
	switch t := v.(type) {
	case int64:
		return []any{int8(t), uint16(t), int(t)}
	case int8:
		return []any{int64(t), uint32(t)}
	case float64:
		if float64(float32(t)) == t {
			return []any{float32(t)}
		}
	case float32:
		return []any{float64(t)}
	}
	return nil
}

func intFloat(v any) (any, bool) {
	switch t := v.(type) {
	case int64:
		return float64(t), true
	case int8:
		return float64(t), true
	case float64:
		if t == math.Trunc(t) && math.Abs(t) < 1e15 {
			return int64(t), true
		}
	case float32:
		if float64(t) == math.Trunc(float64(t)) && math.Abs(float64(t)) < 1e6 {
			return int64(t), true
		}
	}
	return nil, false
}

func posName(i, n int) string {
	switch {
	case n == 1:
		return "only"
	case i == 0:
		return "first"
	case i == n-1:
		return "last"
	}
	return "middle"
}

func locStr(loc []any) string {
	if len(loc) == 0 {
		return "$"
	}
	var b strings.Builder
	for _, e := range loc {
		switch t := e.(type) {
		case nil:
			b.WriteString("[*]")
		case int:
			fmt.Fprintf(&b, "[%d]", t)
		case string:
			b.WriteString("." + t)
		}
	}
	return b.String()
}

// perturbations lists every catalogue perturbation of a at every location.
func perturbations(a any, keys []string) []pert {
	var out []pert
	add := func(class string, loc []any, desc string, b any) {
		out = append(out, pert{Class: class, Loc: loc, Desc: desc + "@" + locStr(loc), B: b})
	}
	var walk func(v any, loc []any, parent any, idx, plen int)
	walk = func(v any, loc []any, parent any, idx, plen int) {
		k := kindOf(v)
		switch parent.(type) {
		case map[string]any:
			if v == nil {
				add("nullabsent", loc, "drop-null-member", edit(a, loc, "del", nil))
			} else {
				add("member-", loc, "remove-member:"+k, edit(a, loc, "del", nil))
				// rename: the member moves to a key the object does not have (same
				// member count, different key set), with the same and with another value
				if pm, ok := parent.(map[string]any); ok {
					nk := "z"
					for _, kk := range keys {
						if _, has := pm[kk]; !has {
							nk = kk
							break
						}
					}
					ploc := append([]any{}, loc[:len(loc)-1]...)
					add("rename", loc, "rename-member:"+k, edit(edit(a, loc, "del", nil), ext(ploc, nk), "ins", v))
					add("rename", loc, "rename-member-to-null:"+k, edit(edit(a, loc, "del", nil), ext(ploc, nk), "ins", nil))
				}
			}
		case []any:
			add("elem-", loc, "remove-elem:"+posName(idx, plen), edit(a, loc, "del", nil))
		}
		switch t := v.(type) {
		case []any:
			add("cont>scalar", loc, "array>int", edit(a, loc, "set", int64(7)))
			add("cont>scalar", loc, "array>nil", edit(a, loc, "set", nil))
			add("kind", loc, "array>object", edit(a, loc, "set", map[string]any{}))
			seen := map[int]bool{}
			for _, p := range []int{0, len(t) / 2, len(t)} {
				if seen[p] {
					continue
				}
				seen[p] = true
				add("elem+", ext(loc, p), "add-elem:"+posName(p, len(t)+1), edit(a, ext(loc, p), "ins", int64(9)))
			}
			if len(t) >= 2 {
				add("elem-", ext(loc, 1), "truncate-after-first", edit(a, loc, "set", append([]any{}, t[:1]...)))
			}
			for i, e := range t {
				walk(e, ext(loc, i), v, i, len(t))
			}
		case map[string]any:
			add("cont>scalar", loc, "object>int", edit(a, loc, "set", int64(7)))
			add("cont>scalar", loc, "object>nil", edit(a, loc, "set", nil))
			add("kind", loc, "object>array", edit(a, loc, "set", []any{}))
			nk := "z"
			for _, kk := range keys {
				if _, has := t[kk]; !has {
					nk = kk
					break
				}
			}
			add("member+", ext(loc, nk), "add-member", edit(a, ext(loc, nk), "ins", int64(9)))
			add("nullabsent", ext(loc, nk), "add-null-member", edit(a, ext(loc, nk), "ins", nil))
			for _, kk := range sortedKeys(t) {
				walk(t[kk], ext(loc, kk), v, 0, len(t))
			}
		default:
			if ov, ok := otherValue(v); ok {
				add("value", loc, "value:"+k, edit(a, loc, "set", ov))
			}
			for _, r := range kindReps {
				if numKind(kindOf(r)) != numKind(k) {
					add("kind", loc, k+">"+kindOf(r), edit(a, loc, "set", r))
				}
			}
			if fv, ok := intFloat(v); ok {
				add("intfloat", loc, k+"<>"+kindOf(fv), edit(a, loc, "set", fv))
			}
			for _, w := range widths(v) {
				add("width", loc, fmt.Sprintf("%T>%T", v, w), edit(a, loc, "set", w))
			}
			add("scalar>cont", loc, k+">array", edit(a, loc, "set", []any{}))
			add("scalar>cont", loc, k+">object", edit(a, loc, "set", map[string]any{}))
		}
	}
	walk(a, nil, nil, 0, 0)
	return out
}

// locLess orders locations in pre-order (ints numerically, keys by text,
// an int before a string, a prefix before its extensions).
func locLess(x, y []any) bool {
	for i := 0; i < len(x) && i < len(y); i++ {
		xi, xInt := x[i].(int)
		yi, yInt := y[i].(int)
		switch {
		case xInt && yInt:
			if xi != yi {
				return xi < yi
			}
		case xInt != yInt:
			return xInt
		default:
			xs, ys := x[i].(string), y[i].(string)
			if xs != ys {
				return xs < ys
			}
		}
	}
	return len(x) < len(y)
}

func isPrefix(p, l []any) bool {
	if len(p) > len(l) {
		return false
	}
	for i := range p {
		if !diffref.ElemEq(p[i], l[i]) {
			return false
		}
	}
	return true
}

// ---------------------------------------------------------------- ignore paths

func ignKey(g []any) string {
	var b strings.Builder
	for _, e := range g {
		switch t := e.(type) {
		case nil:
			b.WriteString("/*")
		case int:
			fmt.Fprintf(&b, "/#%d", t)
		case string:
			b.WriteString("/." + t)
		}
	}
	return b.String()
}

// ignoreCandidates: the single ignore paths related to location loc.
func ignoreCandidates(loc []any, keys []string, into map[string][]any) {
	put := func(g []any) {
		if len(g) == 0 {
			return
		}
		into[ignKey(g)] = g
	}
	n := len(loc)
	if n == 0 {
		put([]any{nil})
		put([]any{0})
		put([]any{"a"})
		return
	}
	put(loc) // covers
	for j := 1; j < n; j++ {
		put(append([]any{}, loc[:j]...)) // ancestors
	}
	// siblings of the last element, cousins through every array index on the way
	for j := 0; j < n; j++ {
		switch t := loc[j].(type) {
		case int:
			for _, d := range []int{-1, 1} {
				if t+d >= 0 {
					g := append([]any{}, loc...)
					g[j] = t + d
					put(g)
				}
			}
		case string:
			if j == n-1 {
				for _, k := range append(append([]string{}, keys...), "z") {
					if k != t {
						g := append([]any{}, loc...)
						g[j] = k
						put(g)
						break
					}
				}
			}
		}
	}
	// wildcard generalisations: one position, all positions
	all := make([]any, n)
	for j := 0; j < n; j++ {
		g := append([]any{}, loc...)
		g[j] = nil
		put(g)
	}
	put(all)
	// below the location
	put(ext(loc, 0))
	put(ext(loc, "a"))
}

func toPaths(ign [][]any) []alt.Path {
	out := make([]alt.Path, len(ign))
	for i, g := range ign {
		out[i] = alt.Path(append([]any{}, g...))
	}
	return out
}

// ---------------------------------------------------------------- oracle

type caseT struct {
	Fam   string  `json:"fam"` // diff | match
	Form  string  `json:"form"`
	A     any     `json:"a"`
	B     any     `json:"b"`
	Ign   [][]any `json:"ign,omitempty"`
	Pert  string  `json:"pert"`
	Class string  `json:"class"`
	Call  string  `json:"call"`
}

type failure struct {
	fn   string // Diff | Compare | Match
	loc  []any  // the returned path or the divergent location the failure is about
	kind string // missed | spurious | wrong-index | compare-inconsistent:* | panic:*
	exp  string
	obs  string
}

// id identifies a failure inside one (a, b) pair independent of the ignore set.
func (f failure) id() string { return f.fn + "|" + f.kind + "@" + locStr(f.loc) }

// sig builds the signature (function, container kind at the location,
// perturbation class, ignore shape, discrepancy kind).
func (f failure) sig(pertClass string, ign [][]any) string {
	return core.Sig("fn="+f.fn, "at="+atOf(f.loc), "pert="+pertClass, "ign="+ignShape(ign, f.loc), f.kind)
}

func atOf(loc []any) string {
	if len(loc) == 0 {
		return "root"
	}
	if _, ok := loc[len(loc)-1].(int); ok {
		return "array"
	}
	return "object"
}

// ignRel names how ignore path g relates to location l: covers (g is a
// prefix of or equal to l; covers* when a wildcard was needed), below (g
// continues beneath l), sibkey (leaves l's path at an object key), sibidx-leaf
// / sibidx-deep (leaves l's path at an array index, as g's last element /
// with further elements after it), other (key against index).
func ignRel(g, l []any) string {
	wild := ""
	for j := 0; j < len(g) && j < len(l); j++ {
		if g[j] == nil {
			wild = "*"
			continue
		}
		if !diffref.ElemEq(g[j], l[j]) {
			_, gi := g[j].(int)
			_, li := l[j].(int)
			switch {
			case gi && li:
				if len(g)-j > 1 {
					return "sibidx-deep"
				}
				return "sibidx-leaf"
			case !gi && !li:
				return "sibkey"
			}
			return "other"
		}
	}
	if len(g) <= len(l) {
		return "covers" + wild
	}
	return "below"
}

func ignShape(ign [][]any, l []any) string {
	if len(ign) == 0 {
		return "none"
	}
	set := map[string]bool{}
	for _, g := range ign {
		set[ignRel(g, l)] = true
	}
	if set["sibidx-deep"] {
		// an ignore that passes through another index of an array above l and
		// continues below it: the partner only matters when it covers l
		for r := range set {
			if r != "sibidx-deep" && r != "covers" && r != "covers*" {
				delete(set, r)
			}
		}
	}
	rs := make([]string, 0, len(set))
	for r := range set {
		rs = append(rs, r)
	}
	sort.Strings(rs)
	return strings.Join(rs, "+")
}

// normalise turns a returned alt.Path into a location; the root is returned
// by ojg as the one-element path {nil}.
func normalise(p alt.Path) []any {
	if len(p) == 1 && p[0] == nil {
		return []any{}
	}
	return append([]any{}, p...)
}

func pathsStr(ps [][]any) string {
	s := make([]string, len(ps))
	for i, p := range ps {
		s[i] = locStr(p)
	}
	sort.Strings(s)
	return "[" + strings.Join(s, " ") + "]"
}

func panicKind(r any) string {
	s := fmt.Sprint(r)
	if e, ok := r.(error); ok {
		s = e.Error()
	}
	for _, k := range []string{"index out of range", "nil pointer", "slice bounds", "interface conversion", "nil map", "uncomparable", "divide by zero"} {
		if strings.Contains(s, k) {
			return strings.ReplaceAll(k, " ", "-")
		}
	}
	return "other"
}

func multiKey(v any) bool {
	switch t := v.(type) {
	case []any:
		for _, e := range t {
			if multiKey(e) {
				return true
			}
		}
	case map[string]any:
		if len(t) > 1 {
			return true
		}
		for _, e := range t {
			if multiKey(e) {
				return true
			}
		}
	}
	return false
}

type evaluator struct {
	c *core.Ctx
}

// callDiff runs Diff and Compare on one form; the inputs are built fresh.
func callDiff(form string, a, b any, ign [][]any, nCompare int) (diffs [][]any, cmps [][]any, cmpNil []bool, pan any) {
	defer func() {
		if r := recover(); r != nil {
			pan = r
		}
	}()
	var x, y any = a, b
	if form == "gen" {
		x, y = anyOf(toGen(a)), anyOf(toGen(b))
	}
	for _, p := range alt.Diff(x, y, toPaths(ign)...) {
		diffs = append(diffs, normalise(p))
	}
	for i := 0; i < nCompare; i++ {
		p := alt.Compare(x, y, toPaths(ign)...)
		cmpNil = append(cmpNil, p == nil)
		if p != nil {
			cmps = append(cmps, normalise(p))
		} else {
			cmps = append(cmps, nil)
		}
	}
	return
}

func callText(fn, form string, a, b any, ign [][]any) string {
	var gs []string
	for _, g := range ign {
		gs = append(gs, locStr(g))
	}
	s := fmt.Sprintf("%s(%s, %s", fn, gens.Show(a), gens.Show(b))
	if len(gs) > 0 {
		s += ", ignore " + strings.Join(gs, " ")
	}
	return s + ") form=" + form
}

// exists reports whether loc addresses a value in v.
func exists(v any, loc []any) bool {
	for _, e := range loc {
		switch t := v.(type) {
		case []any:
			i, ok := e.(int)
			if !ok || i < 0 || i >= len(t) {
				return false
			}
			v = t[i]
		case map[string]any:
			k, ok := e.(string)
			if !ok {
				return false
			}
			if v, ok = t[k]; !ok {
				return false
			}
		default:
			return false
		}
	}
	return true
}

// judge applies the C19 oracle for Diff and Compare to one (a, b, ignore
// set) on one form and returns what is wrong.
func judge(c *core.Ctx, form string, a, b any, deltas []diffref.Delta, ign [][]any) []failure {
	nCmp := 1
	if multiKey(a) || multiKey(b) {
		nCmp = 3
	}
	diffs, cmps, cmpNil, pan := callDiff(form, a, b, ign, nCmp)
	if c != nil {
		c.Add("evaluations", int64(1+nCmp))
	}
	if pan != nil {
		return []failure{{fn: "Diff", kind: "panic:" + panicKind(pan), exp: "no panic", obs: fmt.Sprint(pan)}}
	}
	var fails []failure
	var liveMust, live []diffref.Delta
	var liveLocs, mustLocs [][]any
	for _, d := range deltas {
		if diffref.Ignored(ign, d.Loc) {
			continue
		}
		live = append(live, d)
		liveLocs = append(liveLocs, d.Loc)
		if !d.Open {
			liveMust = append(liveMust, d)
			mustLocs = append(mustLocs, d.Loc)
		}
	}
	expTxt := "divergent and not ignored: " + pathsStr(mustLocs)
	if len(liveLocs) != len(mustLocs) {
		expTxt += " (optionally also " + pathsStr(liveLocs) + ")"
	}
	obsTxt := "Diff=" + pathsStr(diffs)
	// soundness: every returned path leads to a divergence that is not ignored
	for _, p := range diffs {
		ok := false
		if !diffref.Ignored(ign, p) {
			for _, d := range live {
				if diffref.Covers(p, d) {
					ok = true
					break
				}
			}
		}
		if ok {
			continue
		}
		kind := "spurious"
		if !exists(a, p) && !exists(b, p) {
			kind = "wrong-index" // addresses nothing in either tree
		}
		fails = append(fails, failure{fn: "Diff", loc: p, kind: kind, exp: expTxt, obs: obsTxt + ": " + locStr(p) + " is " + kind})
	}
	// completeness: every divergence that is not ignored lies under a returned path
	for _, d := range liveMust {
		ok := false
		for _, p := range diffs {
			if diffref.Covers(p, d) {
				ok = true
				break
			}
		}
		if !ok {
			fails = append(fails, failure{fn: "Diff", loc: d.Loc, kind: "missed", exp: expTxt, obs: obsTxt + ": " + locStr(d.Loc) + " is missed"})
		}
	}
	// Compare: nil iff Diff empty, else one of Diff's paths
	for i := range cmps {
		bad := ""
		switch {
		case cmpNil[i] != (len(diffs) == 0):
			bad = "nil-mismatch"
		case !cmpNil[i]:
			in := false
			for _, p := range diffs {
				if len(p) == len(cmps[i]) && isPrefix(p, cmps[i]) {
					in = true
				}
			}
			if !in {
				bad = "not-in-diff"
			}
		}
		if bad != "" {
			var l []any
			obs := "nil"
			if !cmpNil[i] {
				l, obs = cmps[i], locStr(cmps[i])
			} else if len(diffs) > 0 {
				l = diffs[0]
			}
			fails = append(fails, failure{fn: "Compare", loc: l, kind: "compare-inconsistent:" + bad,
				exp: "nil iff Diff is empty, else a member of " + obsTxt, obs: "Compare=" + obs})
			break
		}
	}
	return fails
}

func size(a, b any, ign [][]any, form string) int {
	n := 4 * (nodes(a) + nodes(b))
	for _, g := range ign {
		n += 6 + len(g)
	}
	if form == "gen" {
		n++
	}
	return n
}

func setKey(ign [][]any) string {
	ks := make([]string, len(ign))
	for i, g := range ign {
		ks[i] = ignKey(g)
	}
	sort.Strings(ks)
	return strings.Join(ks, ",")
}

// classFor names the perturbation class a failure at loc is attributed to:
// the class of the perturbation whose location shares the longest prefix
// with loc (both classes when they tie).
func classFor(loc []any, perts []pert) string {
	if len(perts) == 1 {
		return perts[0].Class
	}
	common := func(x, y []any) int {
		n := 0
		for n < len(x) && n < len(y) && diffref.ElemEq(x[n], y[n]) {
			n++
		}
		return n
	}
	best, set := -1, map[string]bool{}
	for _, p := range perts {
		switch n := common(loc, p.Loc); {
		case n > best:
			best, set = n, map[string]bool{p.Class: true}
		case n == best:
			set[p.Class] = true
		}
	}
	cs := make([]string, 0, len(set))
	for c := range set {
		cs = append(cs, c)
	}
	sort.Strings(cs)
	return strings.Join(cs, ",")
}

// pair runs every ignore set on (a,b) and (b,a), both forms. The sets come
// smallest first; a failure that already shows (same function, location and
// discrepancy) with a proper subset of the ignore set is attributed to the
// subset only, so each failure is reported under a minimal ignore set. A
// failure that needs a non-empty ignore set is caused by the ignore handling,
// not by the perturbation: its perturbation coordinate is "-".
func (e *evaluator) pair(a, b any, perts []pert, ignSets [][][]any, doGen bool) {
	c := e.c
	descs := make([]string, len(perts))
	for i, p := range perts {
		descs[i] = p.Desc
	}
	for dir := 0; dir < 2; dir++ {
		x, y := a, b
		desc := strings.Join(descs, " + ")
		if dir == 1 {
			x, y = b, a
			desc += " (swapped)"
		}
		deltas := diffref.Deltas(x, y)
		seen := map[string]map[string]bool{} // form|setKey -> failure ids
		for _, ign := range ignSets {
			if len(deltas) > 0 {
				c.Nontrivial()
			}
			simpleSigs := map[string]bool{}
			for _, form := range []string{"simple", "gen"} {
				if form == "gen" && !doGen {
					continue
				}
				fs := judge(c, form, x, y, deltas, ign)
				ids := map[string]bool{}
				seen[form+"|"+setKey(ign)] = ids
				for _, f := range fs {
					ids[f.id()] = true
					attributed := false
					if len(ign) > 0 {
						if seen[form+"|"][f.id()] {
							attributed = true
						}
						if len(ign) == 2 {
							for _, g := range ign {
								if seen[form+"|"+ignKey(g)][f.id()] {
									attributed = true
								}
							}
						}
					}
					if attributed {
						c.Add("failures_attributed_to_smaller_ignore_set", 1)
						continue
					}
					cls := "-"
					if len(ign) == 0 {
						cls = classFor(f.loc, perts)
					}
					sig := f.sig(cls, ign)
					if form == "simple" {
						simpleSigs[sig] = true
					} else if !simpleSigs[sig] {
						sig += "|form=gen-only"
					}
					c.Fail(sig, caseT{Fam: "diff", Form: form, A: gens.EncodeTree(x), B: gens.EncodeTree(y), Ign: ign, Pert: desc, Class: cls,
						Call: callText(f.fn, form, x, y, ign)}, size(x, y, ign, form), f.exp, f.obs)
				}
			}
		}
	}
}

// ignoreSets builds none + singles + pairs (crossOnly: pairs only between
// candidates that stem from different locations).
func ignoreSets(locs [][]any, keys []string, pairs string) [][][]any {
	sets := [][][]any{nil}
	groups := make([]map[string][]any, len(locs))
	all := map[string][]any{}
	for i, l := range locs {
		groups[i] = map[string][]any{}
		ignoreCandidates(l, keys, groups[i])
		for k, g := range groups[i] {
			all[k] = g
		}
	}
	ks := make([]string, 0, len(all))
	for k := range all {
		ks = append(ks, k)
	}
	sort.Strings(ks)
	for _, k := range ks {
		sets = append(sets, [][]any{all[k]})
	}
	// pairs are unordered sets, but the call takes them in an order: a pair
	// of two multi-element paths is run in both orders (only those can reach
	// the child-ignore bookkeeping twice), any other pair in sorted order.
	addPair := func(k1, k2 string) {
		if k2 < k1 {
			k1, k2 = k2, k1
		}
		x, y := all[k1], all[k2]
		sets = append(sets, [][]any{x, y})
		if len(x) > 1 && len(y) > 1 {
			sets = append(sets, [][]any{y, x})
		}
	}
	switch pairs {
	case "all":
		for i := 0; i < len(ks); i++ {
			for j := i + 1; j < len(ks); j++ {
				addPair(ks[i], ks[j])
			}
		}
	case "cross":
		var ids []string
		seen := map[string]bool{}
		for gi := 0; gi < len(groups); gi++ {
			for gj := gi + 1; gj < len(groups); gj++ {
				for ki := range groups[gi] {
					for kj := range groups[gj] {
						if ki == kj {
							continue
						}
						id := ki + "|" + kj
						if kj < ki {
							id = kj + "|" + ki
						}
						if !seen[id] {
							seen[id] = true
							ids = append(ids, id)
						}
					}
				}
			}
		}
		sort.Strings(ids)
		for _, id := range ids {
			k := strings.SplitN(id, "|", 2)
			addPair(k[0], k[1])
		}
	}
	return sets
}

func relevantLocs(perts [][]any, a, b any) [][]any {
	locs := append([][]any{}, perts...)
	seen := map[string]bool{}
	for _, l := range locs {
		seen[ignKey(l)] = true
	}
	n := 0
	for _, d := range diffref.Deltas(a, b) {
		if n >= 2 {
			break
		}
		if !seen[ignKey(d.Loc)] {
			seen[ignKey(d.Loc)] = true
			locs = append(locs, d.Loc)
			n++
		}
	}
	return locs
}

// ---------------------------------------------------------------- Match

// subFingerprints lists every fingerprint obtained from v by keeping any
// subset of the members of every object (arrays keep all their elements).
func subFingerprints(v any) []any {
	switch t := v.(type) {
	case []any:
		outs := [][]any{{}}
		for _, e := range t {
			var next [][]any
			for _, o := range outs {
				for _, s := range subFingerprints(e) {
					next = append(next, append(append([]any{}, o...), s))
				}
			}
			outs = next
		}
		res := make([]any, len(outs))
		for i, o := range outs {
			res[i] = o
		}
		return res
	case map[string]any:
		outs := []map[string]any{{}}
		for _, k := range sortedKeys(t) {
			subs := subFingerprints(t[k])
			next := append([]map[string]any{}, outs...) // member left out
			for _, o := range outs {
				for _, s := range subs {
					m := make(map[string]any, len(o)+1)
					for kk, vv := range o {
						m[kk] = vv
					}
					m[k] = s
					next = append(next, m)
				}
			}
			outs = next
		}
		res := make([]any, len(outs))
		for i, o := range outs {
			res[i] = o
		}
		return res
	}
	return []any{v}
}

func callMatch(form string, f, t any) (ok bool, pan any) {
	defer func() {
		if r := recover(); r != nil {
			pan = r
		}
	}()
	var x, y any = f, t
	if form == "gen" {
		x, y = anyOf(toGen(f)), anyOf(toGen(t))
	}
	return alt.Match(x, y), nil
}

// judgeMatch compares alt.Match with the reference; "" = agrees.
func judgeMatch(c *core.Ctx, form string, f, t any) (kind, exp, obs string) {
	want := diffref.Match(f, t)
	got, pan := callMatch(form, f, t)
	if c != nil {
		c.Eval()
	}
	switch {
	case pan != nil:
		return "panic:" + panicKind(pan), "no panic", fmt.Sprint(pan)
	case want == diffref.Equal && !got:
		return "false-negative", "true (every member of the fingerprint is matched)", "false"
	case want == diffref.Differ && got:
		return "false-positive", "false (a member of the fingerprint is not matched)", "true"
	}
	return "", "", ""
}

func matchSig(at, pertClass, sub, kind string) string {
	return core.Sig("fn=Match", "at="+at, "pert="+pertClass, "fp="+sub, kind)
}

func (e *evaluator) match(f, t any, at, pertDesc, pertClass, sub string, doGen bool) {
	c := e.c
	if diffref.Match(f, t) == diffref.Differ {
		c.Nontrivial()
	}
	simpleSigs := map[string]bool{}
	for _, form := range []string{"simple", "gen"} {
		if form == "gen" && !doGen {
			continue
		}
		n := 1
		if multiKey(f) {
			n = 3
		}
		for i := 0; i < n; i++ {
			kind, exp, obs := judgeMatch(c, form, f, t)
			if kind == "" {
				continue
			}
			sig := matchSig(at, pertClass, sub, kind)
			if form == "simple" {
				simpleSigs[sig] = true
			} else if !simpleSigs[sig] {
				sig += "|form=gen-only"
			}
			c.Fail(sig, caseT{Fam: "match", Form: form, A: gens.EncodeTree(f), B: gens.EncodeTree(t), Pert: pertDesc, Class: pertClass,
				Call: callText("Match", form, f, t, nil)}, size(f, t, nil, form), exp, obs)
		}
	}
}

// ---------------------------------------------------------------- scalar family

func scalars() []any {
	return []any{
		nil, true, false,
		int(1), int8(1), int16(1), int32(1), int64(1), uint(1), uint8(1), uint16(1), uint32(1), uint64(1),
		int64(2), float32(1), float64(1), float32(1.5), float64(1.5), float64(2.5), float32(0.1), float64(0.1),
		int64(1<<53 + 1), float64(1 << 53), int64(math.MaxInt64), float64(1 << 63), uint64(1 << 63), int64(math.MinInt64),
		uint64(math.MaxUint64), int64(-1), int8(-1),
		"", "s", "1",
		t0, t0.Add(time.Hour), t0.Add(time.Microsecond),
		[]any{}, map[string]any{},
	}
}

// scalarFamily runs every ordered pair of the scalar alphabet at the root,
// as the only array element and as the only object member. A discrepancy
// seen in all three contexts is reported once with at=any; one seen on both
// forms carries no form coordinate.
func (e *evaluator) scalarFamily() {
	c := e.c
	ss := scalars()
	ctxNames := []string{"root", "array", "object"}
	idx := 0
	for _, x := range ss {
		for _, y := range ss {
			idx++
			if !c.Mine(idx) {
				continue
			}
			rel := "equal"
			if isC(x) || isC(y) {
				if kindOf(x) != kindOf(y) {
					rel = "differ"
				}
			} else {
				rel = diffref.Scalar(x, y).String()
			}
			cls := "scalar:" + kindOf(x) + "/" + kindOf(y) + ":" + rel
			desc := fmt.Sprintf("scalar pair %s vs %s", gens.Show(x), gens.Show(y))
			forms := []string{"simple"}
			if genable(x) && genable(y) {
				forms = append(forms, "gen")
			}
			type hit struct {
				cs       caseT
				size     int
				exp, obs string
			}
			// key: fn|kind|extra -> form -> ctx -> hit
			found := map[string]map[string]map[int]hit{}
			put := func(key, form string, ctx int, h hit) {
				if found[key] == nil {
					found[key] = map[string]map[int]hit{}
				}
				if found[key][form] == nil {
					found[key][form] = map[int]hit{}
				}
				if _, dup := found[key][form][ctx]; !dup {
					found[key][form][ctx] = h
				}
			}
			for ctx := 0; ctx < 3; ctx++ {
				var a, b any = x, y
				switch ctx {
				case 1:
					a, b = []any{x}, []any{y}
				case 2:
					a, b = map[string]any{"a": x}, map[string]any{"a": y}
				}
				deltas := diffref.Deltas(a, b)
				if len(deltas) > 0 {
					c.Nontrivial()
				}
				for _, form := range forms {
					for _, f := range judge(c, form, a, b, deltas, nil) {
						put(f.fn+"|"+f.kind, form, ctx, hit{caseT{Fam: "diff", Form: form, A: gens.EncodeTree(a), B: gens.EncodeTree(b), Pert: desc, Class: cls,
							Call: callText(f.fn, form, a, b, nil)}, size(a, b, nil, form), f.exp, f.obs})
					}
					if kind, exp, obs := judgeMatch(c, form, a, b); kind != "" {
						put("Match|"+kind, form, ctx, hit{caseT{Fam: "match", Form: form, A: gens.EncodeTree(a), B: gens.EncodeTree(b), Pert: desc, Class: cls,
							Call: callText("Match", form, a, b, nil)}, size(a, b, nil, form), exp, obs})
					}
				}
			}
			for key, byForm := range found {
				parts := strings.SplitN(key, "|", 2)
				for form, byCtx := range byForm {
					suffix := ""
					if form == "gen" {
						rest := map[int]hit{}
						for ctx, h := range byCtx {
							if _, same := byForm["simple"][ctx]; !same {
								rest[ctx] = h
							}
						}
						if len(rest) == 0 {
							continue // same discrepancy on the simple form: reported there
						}
						byCtx, suffix = rest, "|form=gen-only"
					}
					emit := func(at string, h hit) {
						var sig string
						if parts[0] == "Match" {
							sig = matchSig(at, cls, "full", parts[1])
						} else {
							sig = core.Sig("fn="+parts[0], "at="+at, "pert="+cls, "ign=none", parts[1])
						}
						c.Fail(sig+suffix, h.cs, h.size, h.exp, h.obs)
					}
					if len(byCtx) == 3 {
						emit("any", byCtx[0])
						continue
					}
					for ctx, h := range byCtx {
						emit(ctxNames[ctx], h)
					}
				}
			}
		}
	}
}

func isC(v any) bool {
	switch v.(type) {
	case []any, map[string]any:
		return true
	}
	return false
}

// ---------------------------------------------------------------- run / replay

func run(c *core.Ctx) {
	e := &evaluator{c: c}
	quick := c.Quick()
	keys := keyset(quick)
	lv := leaves(quick)
	twoN := c.Pick(3, 4)
	e.scalarFamily()
	idx := 0
	sampled := 0
	var only int // > 0: only trees with exactly this many nodes
	visit := func(a any) bool {
		if only > 0 && nodes(a) != only {
			return true
		}
		idx++
		if !c.Mine(idx) {
			return true
		}
		if c.Expired("C19 tree loop") {
			return false
		}
		c.Add("base_trees", 1)
		c.Case(func() string { return "C19 base tree " + gens.Show(a) })
		ps := perturbations(a, keys)
		fps := subFingerprints(a)
		// identity pair: nothing differs, ignores must not invent anything
		e.pair(a, gens.Clone(a), []pert{{Class: "identity", Desc: "identity"}}, ignoreSets([][]any{{}}, keys, "none"), true)
		for _, f := range fps {
			sub := "subset"
			if nodes(f) == nodes(a) {
				sub = "full"
			}
			e.match(f, a, atOf(nil), "identity", "identity", sub, true)
		}
		for _, p := range ps {
			c.Add("single_point_pairs", 1)
			sets := ignoreSets(relevantLocs([][]any{p.Loc}, a, p.B), keys, "all")
			c.Add("ignore_sets", int64(len(sets)))
			e.pair(a, p.B, []pert{p}, sets, true)
			if sampled < 2 && len(p.Loc) > 1 {
				sampled++
				c.Sample(map[string]any{"a": gens.Show(a), "b": gens.Show(p.B), "perturbation": p.Desc, "ignore_sets": len(sets),
					"reference_divergences": len(diffref.Deltas(a, p.B))})
			}
			for _, f := range fps {
				sub := "subset"
				if nodes(f) == nodes(a) {
					sub = "full"
				}
				e.match(f, p.B, atOf(p.Loc), p.Desc, p.Class, sub, true)
				c.Add("match_pairs", 1)
			}
			if twoN > 0 && nodes(a) <= twoN {
				for _, q := range perturbations(p.B, keys) {
					if !locLess(p.Loc, q.Loc) || isPrefix(p.Loc, q.Loc) {
						continue
					}
					c.Add("two_point_pairs", 1)
					sets := ignoreSets([][]any{p.Loc, q.Loc}, keys, "cross")
					c.Add("ignore_sets", int64(len(sets)))
					e.pair(a, q.B, []pert{p, q}, sets, false)
				}
			}
		}
		return true
	}
	gens.Trees(4, lv, keys, visit)
	if !quick {
		// five-node trees: structure matters, leaf kinds are covered above
		only = 5
		gens.Trees(5, []any{nil, int64(1), float64(1.5), "s"}, keys, visit)
	}
}

func decodeIgn(raw [][]any) [][]any {
	out := make([][]any, len(raw))
	for i, g := range raw {
		out[i] = make([]any, len(g))
		for j, e := range g {
			switch t := e.(type) {
			case float64:
				out[i][j] = int(t)
			case string:
				out[i][j] = t
			default:
				out[i][j] = nil
			}
		}
	}
	return out
}

func replay(c *core.Ctx, raw json.RawMessage) {
	var cs caseT
	if err := json.Unmarshal(raw, &cs); err != nil {
		c.HarnessError("bad case: %v", err)
		return
	}
	a, err1 := gens.DecodeTree(cs.A)
	b, err2 := gens.DecodeTree(cs.B)
	if err1 != nil || err2 != nil {
		c.HarnessError("bad trees: %v %v", err1, err2)
		return
	}
	ign := decodeIgn(cs.Ign)
	if cs.Fam == "match" {
		for i := 0; i < 3; i++ {
			if kind, exp, obs := judgeMatch(c, cs.Form, a, b); kind != "" {
				c.Fail("replay|"+matchSig("replay", cs.Class, "replay", kind), cs, 1, exp, obs)
			}
		}
		return
	}
	deltas := diffref.Deltas(a, b)
	for i := 0; i < 3; i++ {
		for _, f := range judge(c, cs.Form, a, b, deltas, ign) {
			c.Fail("replay|"+f.sig(cs.Class, ign), cs, 1, f.exp, f.obs)
		}
	}
}
