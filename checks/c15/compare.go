package c15

import (
	"fmt"
	"reflect"
	"sort"
	"strings"
	"unicode"

	"verif/internal/gens"
	"verif/internal/ref/encref"
)

// Pseudo field indexes used for localisation.
const (
	fWhole   = -1 // the whole document (error, panic, not an object)
	fCreate  = -2 // the create-key member
	fUnknown = -3 // a member no field can account for
)

// fkey identifies one localised discrepancy of a case.
type fkey struct {
	field int
	disc  string
}

// typeInfo caches what localisation needs to know about a struct type.
type typeInfo struct {
	spec gens.StructSpec
	typ  reflect.Type
	cand map[string]int // every key field i could conceivably produce -> i
}

func lowerFirst(s string) string {
	r := []rune(s)
	r[0] = unicode.ToLower(r[0])
	return string(r)
}

func nameForms(name string) []string {
	return []string{name, lowerFirst(name), strings.ToLower(name)}
}

// embInner lists the fields of the embedded struct types, read from the types
// themselves so that the table follows internal/gens.
var embInner = func() map[string][]string {
	out := map[string][]string{}
	for _, t := range []reflect.Type{reflect.TypeOf(gens.EmbA{}), reflect.TypeOf(gens.EmbT{})} {
		for i := 0; i < t.NumField(); i++ {
			out[t.Name()] = append(out[t.Name()], t.Field(i).Name)
		}
	}
	return out
}()

func newTypeInfo(spec gens.StructSpec) *typeInfo {
	ti := &typeInfo{spec: spec, typ: spec.Type(), cand: map[string]int{}}
	for i, f := range spec {
		k := gens.Kinds[f.Kind]
		for _, n := range nameForms(spec.FieldName(i)) {
			ti.cand[n] = i
		}
		if tn := spec.TagName(i); tn != "" {
			ti.cand[tn] = i
		}
		if k.Embedded {
			for _, in := range embInner[k.EmbName] {
				for _, n := range nameForms(in) {
					ti.cand[n] = i
				}
			}
		}
	}
	return ti
}

func nodeClass(n *encref.Node) string {
	switch n.Kind {
	case 'n':
		return "null"
	case 'b':
		return "bool"
	case '#':
		return "number"
	case 's':
		return "string"
	case 'a':
		return "array"
	}
	return "object"
}

func treeClass(t any) string {
	switch t.(type) {
	case nil:
		return "null"
	case bool:
		return "bool"
	case float64:
		return "number"
	case string:
		return "string"
	case []any:
		return "array"
	case map[string]any:
		return "object"
	}
	return "other"
}

// hasAgree reports whether the subtree contains a choice all encoders have to
// make alike.
func hasAgree(n *encref.Node) bool {
	for _, m := range n.Members {
		if m.Pres == encref.OptAgree || hasAgree(m.Val) {
			return true
		}
	}
	for _, e := range n.Elems {
		if hasAgree(e) {
			return true
		}
	}
	return false
}

type failInfo struct {
	bits  uint32 // variants showing the discrepancy
	first int    // first such variant
	mem   *encref.Member
	stray string
	base  int // baseline variant for disagreements
}

// caseFails collects the discrepancies of one case.
type caseFails struct {
	set     map[fkey]*failInfo
	ref     *encref.Node
	results []result
}

func (cf *caseFails) bits(k fkey) uint32 {
	if fi := cf.set[k]; fi != nil {
		return fi.bits
	}
	return 0
}

func (cf *caseFails) add(k fkey, vi int, mem *encref.Member, stray string, base int) {
	if cf.set == nil {
		cf.set = map[fkey]*failInfo{}
	}
	fi := cf.set[k]
	if fi == nil {
		fi = &failInfo{first: vi, mem: mem, stray: stray, base: base}
		cf.set[k] = fi
	}
	fi.bits |= 1 << uint(vi)
}

// texts renders expected / observed for a reported discrepancy.
func (cf *caseFails) texts(k fkey, bits uint32) (exp, obs string) {
	fi := cf.set[k]
	if fi == nil {
		return "", ""
	}
	vi := fi.first
	for i := range cf.results {
		if bits&(1<<uint(i)) != 0 {
			vi = i
			break
		}
	}
	res := cf.results[vi]
	obs = variants[vi].String() + " -> " + res.text
	if res.fail != "" {
		obs = variants[vi].String() + " -> " + res.fail + ": " + res.msg
	}
	ref := cf.ref.String()
	switch {
	case strings.HasPrefix(k.disc, "disagree"):
		exp = "the same choice as " + variants[fi.base].String() + " -> " + cf.results[fi.base].text + " (reference " + ref + ")"
	case fi.mem != nil && k.disc == "extra":
		exp = fmt.Sprintf("no member %q; reference %s", fi.stray, ref)
	case fi.mem != nil:
		exp = fmt.Sprintf("member %q:%s; reference %s", fi.mem.Key, fi.mem.Val, ref)
	case k.disc == "extra":
		exp = fmt.Sprintf("no member %q; reference %s", fi.stray, ref)
	default:
		exp = "a document matching " + ref + "  (key? = optional but all encoders alike, key~ = optional, a|b = alternatives)"
	}
	return exp, obs
}

// compare checks every result against the reference and localises.
func (ti *typeInfo) compare(ref *encref.Node, results []result, skip func(vi int) bool) *caseFails {
	cf := &caseFails{ref: ref, results: results}
	nf := len(ti.spec)
	var passed [8]uint32 // variants whose field i is acceptable
	var uniq [12]int
	nuniq := 0
	for vi := range results {
		if skip != nil && skip(vi) {
			continue
		}
		res := &results[vi]
		if res.fail != "" {
			cf.add(fkey{fWhole, res.fail}, vi, nil, "", 0)
			continue
		}
		// same text as an earlier variant: same verdict
		dup := -1
		for _, uj := range uniq[:nuniq] {
			if results[uj].text == res.text && encoders[variants[uj].enc].isSEN == encoders[variants[vi].enc].isSEN {
				dup = uj
				break
			}
		}
		if dup >= 0 {
			db := uint32(1) << uint(dup)
			for _, fi := range cf.set {
				if fi.bits&db != 0 {
					fi.bits |= 1 << uint(vi)
				}
			}
			for i := 0; i < nf; i++ {
				if passed[i]&db != 0 {
					passed[i] |= 1 << uint(vi)
				}
			}
			continue
		}
		if nuniq < len(uniq) {
			uniq[nuniq] = vi
			nuniq++
		}
		if ref.Kind != 'o' {
			if !encref.Match(ref, res.tree) {
				cf.add(fkey{fWhole, "wrong-value:" + nodeClass(ref) + "/" + treeClass(res.tree)}, vi, nil, "", 0)
			}
			continue
		}
		m, ok := res.tree.(map[string]any)
		if !ok {
			cf.add(fkey{fWhole, "wrong-type:" + treeClass(res.tree)}, vi, nil, "", 0)
			continue
		}
		var bad [8]bool
		seen := 0
		var missing []*encref.Member
		for _, mem := range ref.Members {
			v, has := m[mem.Key]
			if !has {
				missing = append(missing, mem) // optional ones only matter when a stray key could be theirs
				continue
			}
			seen++
			if !encref.Match(mem.Val, v) {
				d := "wrong-value:" + nodeClass(mem.Val)
				if tc := treeClass(v); tc != nodeClass(mem.Val) {
					d += "/" + tc
				} else if mem.Val.Kind == 'a' || mem.Val.Kind == 'o' {
					d += "~" + encref.WhyNot(mem.Val, v) // what is wrong inside: two defects must not explain each other
				}
				f := mem.Field
				if f < 0 || f >= nf {
					f = fCreate
				} else {
					bad[f] = true
				}
				cf.add(fkey{f, d}, vi, mem, "", 0)
			}
		}
		// stray keys: members the reference does not have
		type strayT struct {
			key   string
			owner int
			used  bool
		}
		var strays []strayT
		if seen != len(m) {
			refKeys := map[string]bool{}
			for _, mem := range ref.Members {
				refKeys[mem.Key] = true
			}
			for k := range m {
				if refKeys[k] {
					continue
				}
				owner := fUnknown
				if fi, ok := ti.cand[k]; ok {
					owner = fi
				}
				strays = append(strays, strayT{key: k, owner: owner})
			}
			sort.Slice(strays, func(i, j int) bool { return strays[i].key < strays[j].key })
		}
		for _, mem := range missing {
			f := mem.Field
			if f < 0 || f >= nf {
				f = fCreate
			}
			d := "missing"
			for si := range strays {
				if strays[si].owner == f && !strays[si].used {
					// the member is there under another key: judge the key once
					// and the value under the key it has
					strays[si].used = true
					d = "wrong-key"
					if !encref.Match(mem.Val, m[strays[si].key]) {
						dv := "wrong-value:" + nodeClass(mem.Val)
						if tc := treeClass(m[strays[si].key]); tc != nodeClass(mem.Val) {
							dv += "/" + tc
						} else if mem.Val.Kind == 'a' || mem.Val.Kind == 'o' {
							dv += "~" + encref.WhyNot(mem.Val, m[strays[si].key])
						}
						cf.add(fkey{f, dv}, vi, mem, "", 0)
					}
					break
				}
			}
			if d == "missing" && mem.Pres != encref.Must {
				continue
			}
			if f >= 0 {
				bad[f] = true
			}
			cf.add(fkey{f, d}, vi, mem, "", 0)
		}
		for _, s := range strays {
			if s.used {
				continue
			}
			if s.owner >= 0 {
				bad[s.owner] = true
			}
			cf.add(fkey{s.owner, "extra"}, vi, nil, s.key, 0)
		}
		for i := 0; i < nf; i++ {
			if !bad[i] {
				passed[i] |= 1 << uint(vi)
			}
		}
	}
	if ref.Kind != 'o' {
		return cf
	}
	// agreement between the encoders where the reference leaves a choice
	for i := 0; i < nf; i++ {
		if passed[i] == 0 {
			continue
		}
		var mems []*encref.Member
		for _, mem := range ref.Members {
			if mem.Field == i {
				mems = append(mems, mem)
			}
		}
		sub := &encref.Node{Kind: 'o', Members: mems}
		if !hasAgree(sub) {
			continue
		}
		project := func(vi int) map[string]any {
			m, _ := results[vi].tree.(map[string]any)
			out := map[string]any{}
			for _, mem := range mems {
				if v, has := m[mem.Key]; has {
					out[mem.Key] = v
				}
			}
			return out
		}
		// equivalence classes under Agree; the largest is the baseline
		type class struct {
			rep  map[string]any
			mems []int
		}
		var classes []*class
		for vi := range results {
			if passed[i]&(1<<uint(vi)) == 0 {
				continue
			}
			p := project(vi)
			placed := false
			for _, c := range classes {
				if encref.Agree(sub, c.rep, p) {
					c.mems = append(c.mems, vi)
					placed = true
					break
				}
			}
			if !placed {
				classes = append(classes, &class{rep: p, mems: []int{vi}})
			}
		}
		if len(classes) < 2 {
			continue
		}
		base := classes[0]
		for _, c := range classes[1:] {
			if len(c.mems) > len(base.mems) {
				base = c
			}
		}
		for _, c := range classes {
			if c == base {
				continue
			}
			d := "disagree:value"
			switch {
			case len(c.rep) < len(base.rep):
				d = "disagree:omits"
			case len(c.rep) > len(base.rep):
				d = "disagree:keeps"
			}
			for _, vi := range c.mems {
				cf.add(fkey{i, d}, vi, nil, "", base.mems[0])
			}
		}
	}
	return cf
}
