package c15

import (
	"fmt"
	"sort"
	"strings"

	"github.com/ohler55/ojg"
	"github.com/ohler55/ojg/alt"
	"github.com/ohler55/ojg/oj"
	"github.com/ohler55/ojg/sen"

	"verif/internal/core"
)

// Cache-history leg. The per-type struct plans are cached in oj, sen and alt
// separately, keyed by (type, OmitEmpty). An action is the first use of one
// (package, target, OmitEmpty) combination; starting from empty caches every
// order of actions has to produce, for each action, the text that the action
// produces on its own in a fresh process.

// HInner is the inner type of the history leg.
type HInner struct {
	A int
	B string
}

// HOuter has a field of the inner type.
type HOuter struct {
	In HInner
	C  int
}

type action struct {
	pkg    string // oj | sen | alt
	target string // Inner | Outer | *Outer
	omit   bool
}

func (a action) String() string {
	s := a.pkg + "." + a.target
	if a.omit {
		return s + ".OmitEmpty"
	}
	return s + ".plain"
}

var actions = func() []action {
	var out []action
	for _, p := range []string{"oj", "sen", "alt"} {
		for _, t := range []string{"Inner", "Outer", "*Outer"} {
			for _, o := range []bool{false, true} {
				out = append(out, action{p, t, o})
			}
		}
	}
	return out
}()

func (a action) value() any {
	switch a.target {
	case "Inner":
		return HInner{A: 0, B: "b"}
	case "Outer":
		return HOuter{In: HInner{A: 0, B: "b"}, C: 0}
	}
	return &HOuter{In: HInner{A: 0, B: "b"}, C: 0}
}

func (a action) do() (out string) {
	defer func() {
		if r := recover(); r != nil {
			out = fmt.Sprintf("panic: %v", r)
		}
	}()
	o := ojg.DefaultOptions
	o.OmitEmpty = a.omit
	switch a.pkg {
	case "oj":
		return oj.JSON(a.value(), &o)
	case "sen":
		return sen.String(a.value(), &o)
	}
	return oj.JSON(alt.Decompose(a.value(), &o), &ojg.Options{Sort: true})
}

type histories struct {
	c     *core.Ctx
	fresh []string
	memo  map[string]string
	steps int64
}

// last runs the sequence from empty caches and returns the last action's text.
func (h *histories) last(seq []int) string {
	key := fmt.Sprint(seq)
	if s, ok := h.memo[key]; ok {
		return s
	}
	resetCaches()
	var out string
	for _, ai := range seq {
		out = actions[ai].do()
		h.steps++
	}
	resetCaches()
	if len(h.memo) > 500000 {
		h.memo = map[string]string{}
	}
	h.memo[key] = out
	return out
}

func (h *histories) check(seq []int) {
	a := seq[len(seq)-1]
	got := h.last(seq)
	if got == h.fresh[a] {
		return
	}
	// shrink: drop earlier actions while the same wrong text stays
	min := append([]int{}, seq...)
	for changed := true; changed; {
		changed = false
		for i := 0; i < len(min)-1; i++ {
			cand := append(append([]int{}, min[:i]...), min[i+1:]...)
			if h.last(cand) == got {
				min, changed = cand, true
				break
			}
		}
	}
	// the earlier actions are named by package and option only: which of the
	// three targets primed the cache is not a different defect
	var before []string
	for _, ai := range min[:len(min)-1] {
		b := actions[ai].pkg + ".plain"
		if actions[ai].omit {
			b = actions[ai].pkg + ".OmitEmpty"
		}
		if len(before) == 0 || before[len(before)-1] != b {
			before = append(before, b)
		}
	}
	sort.Strings(before)
	act := actions[a]
	omit := "plain"
	if act.omit {
		omit = "OmitEmpty"
	}
	sig := core.Sig("history", "pkg="+act.pkg, "target="+act.target, "opts="+omit, "after="+strings.Join(before, ","), "different-text")
	var txt []string
	for _, ai := range min {
		txt = append(txt, actions[ai].String())
	}
	h.c.Fail(sig, caseT{Leg: "history", Seq: min, SeqTxt: txt}, len(min), h.fresh[a], got)
}

func runHistory(c *core.Ctx, idx *int) {
	h := &histories{c: c, memo: map[string]string{}}
	for ai := range actions {
		h.fresh = append(h.fresh, h.last([]int{ai}))
	}
	// self-check: a fresh run is reproducible
	for ai := range actions {
		delete(h.memo, fmt.Sprint([]int{ai}))
		if h.last([]int{ai}) != h.fresh[ai] {
			c.HarnessError("fresh output of %s is not reproducible", actions[ai])
		}
	}
	L := c.Pick(3, 5)
	nseq := int64(0)
	stop := false
	var rec func(seq []int, used uint32, pool []int, maxLen int, everyStep bool)
	rec = func(seq []int, used uint32, pool []int, maxLen int, everyStep bool) {
		if stop {
			return
		}
		if len(seq) >= 2 && (everyStep || len(seq) <= maxLen) {
			i := *idx
			*idx++
			if c.Mine(i) {
				if c.Expired("C15 history leg") {
					stop = true
					return
				}
				nseq++
				h.check(seq)
				if nseq%997 == 1 {
					var txt []string
					for _, ai := range seq {
						txt = append(txt, actions[ai].String())
					}
					c.Sample(map[string]any{"history": txt, "last_text": h.last(seq)})
				}
			}
		}
		if len(seq) == maxLen {
			return
		}
		for _, ai := range pool {
			if used&(1<<uint(ai)) != 0 {
				continue
			}
			rec(append(seq, ai), used|1<<uint(ai), pool, maxLen, everyStep)
		}
	}
	all := make([]int, len(actions))
	for i := range all {
		all[i] = i
	}
	rec(nil, 0, all, L, false)
	// all orders inside one package (6 actions each)
	for p := 0; p < 3; p++ {
		rec(nil, 0, all[p*6:p*6+6], 6, true)
	}
	c.Add("history_sequences", nseq)
	c.Add("evaluations", h.steps)
	c.Add("history_steps", h.steps)
}

func replayHistory(c *core.Ctx, cs caseT) {
	if len(cs.Seq) == 0 {
		c.HarnessError("empty history")
		return
	}
	for _, ai := range cs.Seq {
		if ai < 0 || ai >= len(actions) {
			c.HarnessError("bad action %d", ai)
			return
		}
	}
	h := &histories{c: c, memo: map[string]string{}}
	a := cs.Seq[len(cs.Seq)-1]
	fresh := h.last([]int{a})
	got := h.last(cs.Seq)
	if got != fresh {
		c.Fail(core.Sig("replay", "history", actions[a].String(), "different-text"), cs, len(cs.Seq), fresh, got)
	}
}
