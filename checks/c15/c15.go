// Package c15 decides C15: all encoders agree on how a Go value is encoded,
// and the common tree is the one the option documentation prescribes.
//
// Value leg: struct types built with reflect.StructOf x values x the option
// product x every encoder (value passed by value and by pointer, indent 0/2),
// judged against the reference encoder encref, against each other where the
// documentation leaves a choice, and against encoding/json under GoOptions.
// History leg: all first-use orders of (package, type, OmitEmpty) actions from
// empty plan caches must give the text a fresh process gives.
package c15

import (
	"encoding/json"
	"fmt"
	"reflect"
	"runtime/debug"
	"sort"
	"strings"
	"time"

	"github.com/ohler55/ojg"
	"github.com/ohler55/ojg/alt"
	"github.com/ohler55/ojg/oj"
	"github.com/ohler55/ojg/sen"

	"verif/internal/core"
	"verif/internal/gens"
	"verif/internal/ref/encref"
)

func init() {
	core.Register(&core.Check{
		ID:    "C15",
		Level: "exploration",
		Shards: func(tier string) int {
			if tier == "thorough" {
				return 64
			}
			return 16
		},
		Run:    run,
		Replay: replay,
		Rule: "struct types = every field sequence over (22 field kinds x 6 tag classes; embedded kinds untagged) built with reflect.StructOf; per type every value vector " +
			"(zero / non-zero / nil / empty / pointer-to-zero per field), the full product of UseTags, KeyExact, OmitNil, OmitEmpty, NestEmbed, CreateKey (x BytesAs 0..2 when the type has a []byte field), " +
			"20 executions per case (8 encoders, value passed by value / by pointer, indent 0 / 2), plan caches reset per (type, OmitEmpty); plus a typed nil pointer per single-field type; " +
			"plus every first-use order of 18 cache actions up to the stated length. evaluations = executions of an ojg encoder; " +
			"distinct_nontrivial = (type, value, option) cases whose reference tree has at least one member",
		Assumptions: []string{
			"encref (internal/ref/encref, unit tested, cross-checked against encoding/json on every (type, value) under GoOptions) is the reading of options.go",
			"encoding/json parses the JSON outputs; sen.Parser parses the SEN outputs (strings in the value alphabet are SEN-safe)",
			"a struct plan depends only on (type, OmitEmpty) and the option mask, so resetting the plan caches per (type, OmitEmpty) makes every case start fresh; the history leg covers the orders",
			"BytesAs is read only when a []byte value is written, so it is varied only for types with a []byte field",
			"NestEmbed is read only for anonymous fields: types of two or more fields without an embedded field are run with NestEmbed off (single-field types get both)",
			"failures are reported at their minimal option set and minimal field sequence (a failure also present with one option or one neighbour field less is counted once, there)",
		},
		Bound: func(tier string) string {
			if tier == "thorough" {
				return fmt.Sprintf("field sequences of length 1-2 over the full alphabet (%d letters) with all value vectors, every one-field type also through a pointer to a pointer, length 3", len(gens.FieldAlphabet(gens.AllKinds()))) + "  over the thinned alphabet (12 kinds x 3 tags) with {first,last} values; 64 or 192 option vectors; cache histories: all sequences of distinct actions up to length 5 plus all 720 orders per package"
			}
			return fmt.Sprintf("field sequences of length 1-2 over the full alphabet (%d letters) with all value vectors, every one-field type also through a pointer to a pointer", len(gens.FieldAlphabet(gens.AllKinds()))) + "; 64 or 192 option vectors; cache histories: all sequences of distinct actions up to length 3 plus all 720 orders per package"
		},
	})
}

// option mask bits
const (
	bUseTags = 1 << iota
	bKeyExact
	bOmitNil
	bOmitEmpty
	bNestEmbed
	bCreateKey
	nBits       = 6
	bytesShift  = 6
	bTimeFormat = 1 << 8 // only used by the encoding/json leg
)

var bitNames = []string{"UseTags", "KeyExact", "OmitNil", "OmitEmpty", "NestEmbed", "CreateKey"}

func maskName(m int) string {
	var parts []string
	for i, n := range bitNames {
		if m&(1<<uint(i)) != 0 {
			parts = append(parts, n)
		}
	}
	switch (m >> bytesShift) & 3 {
	case 1:
		parts = append(parts, "BytesAsBase64")
	case 2:
		parts = append(parts, "BytesAsArray")
	}
	if m&bTimeFormat != 0 {
		parts = append(parts, "TimeFormat")
	}
	if len(parts) == 0 {
		return "-"
	}
	return strings.Join(parts, "+")
}

func optsOf(m int) (*ojg.Options, *encref.Opts) {
	o := ojg.DefaultOptions
	o.UseTags = m&bUseTags != 0
	o.KeyExact = m&bKeyExact != 0
	o.OmitNil = m&bOmitNil != 0
	o.OmitEmpty = m&bOmitEmpty != 0
	o.NestEmbed = m&bNestEmbed != 0
	e := &encref.Opts{UseTags: o.UseTags, KeyExact: o.KeyExact, OmitNil: o.OmitNil, OmitEmpty: o.OmitEmpty, NestEmbed: o.NestEmbed}
	if m&bCreateKey != 0 {
		o.CreateKey, e.CreateKey = "^", "^"
	}
	switch (m >> bytesShift) & 3 {
	case 1:
		o.BytesAs, e.BytesAs = ojg.BytesAsBase64, 1
	case 2:
		o.BytesAs, e.BytesAs = ojg.BytesAsArray, 2
	default:
		o.BytesAs, e.BytesAs = ojg.BytesAsString, 0
	}
	if m&bTimeFormat != 0 {
		o.TimeFormat, e.TimeFormat = time.RFC3339Nano, time.RFC3339Nano
	}
	return &o, e
}

// submasks lists the masks one step below m in the option lattice.
func submasks(m int) []int {
	var out []int
	for i := 0; i < nBits; i++ {
		if m&(1<<uint(i)) != 0 {
			out = append(out, m&^(1<<uint(i)))
		}
	}
	if (m>>bytesShift)&3 != 0 {
		out = append(out, m&^(3<<bytesShift))
	}
	if m&bTimeFormat != 0 {
		out = append(out, m&^bTimeFormat)
	}
	return out
}

func resetCaches() {
	oj.VerifResetCaches()
	sen.VerifResetCaches()
	alt.VerifResetCaches()
}

func hasKind(spec gens.StructSpec, name string) bool {
	for _, f := range spec {
		if gens.Kinds[f.Kind].Name == name {
			return true
		}
	}
	return false
}

// masksFor lists the option vectors of a type in lattice order (every
// submask before its supermasks), OmitEmpty-off group first.
func masksFor(spec gens.StructSpec) (off, on []int) {
	nb := 1
	if hasKind(spec, "bytes") {
		nb = 3
	}
	nest := len(spec) == 1
	for _, f := range spec {
		if gens.Kinds[f.Kind].Embedded {
			nest = true
		}
	}
	for b := 0; b < nb; b++ {
		for m := 0; m < 1<<nBits; m++ {
			if !nest && m&bNestEmbed != 0 {
				continue
			}
			full := m | b<<bytesShift
			if m&bOmitEmpty != 0 {
				on = append(on, full)
			} else {
				off = append(off, full)
			}
		}
	}
	sort.Ints(off)
	sort.Ints(on)
	return
}

// caseT is what a replay needs.
type caseT struct {
	Leg    string           `json:"leg"` // value | niltop | history
	Spec   []gens.FieldSpec `json:"spec,omitempty"`
	Type   string           `json:"type,omitempty"`
	Vals   []int            `json:"vals,omitempty"`
	Values []string         `json:"values,omitempty"`
	Mask   int              `json:"mask"`
	Opts   string           `json:"opts,omitempty"`
	Field  int              `json:"field"`
	Disc   string           `json:"disc,omitempty"`
	Encs   []string         `json:"encoders,omitempty"`
	Seq    []int            `json:"seq,omitempty"`
	SeqTxt []string         `json:"seq_text,omitempty"`
}

type explorer struct {
	c      *core.Ctx
	r      runner
	subMem map[string]*caseFails
	tinfo  map[string]*typeInfo
	std    int64
}

func (ex *explorer) info(spec gens.StructSpec) *typeInfo {
	k := fmt.Sprint([]gens.FieldSpec(spec))
	ti := ex.tinfo[k]
	if ti == nil {
		ti = newTypeInfo(spec)
		ex.tinfo[k] = ti
	}
	return ti
}

// runCase executes every variant of one (type, values, mask) case.
func (ex *explorer) runCase(ti *typeInfo, vals []int, mask int) *caseFails {
	o, eo := optsOf(mask)
	results := make([]result, len(variants))
	ptr := ti.spec.NewValueOf(ti.typ, vals)
	for vi, vr := range variants {
		results[vi] = ex.r.exec(vr, ptr, o)
	}
	// the reference sees a value of its own, so an encoder that modified its
	// argument cannot hide behind a modified expectation
	ref := encref.EncodeValue(ti.spec.NewValueOf(ti.typ, vals).Elem(), eo)
	cf := ti.compare(ref, results, nil)
	if len(ti.spec) == 1 && len(cf.set) == 0 && mask&(bOmitNil|bOmitEmpty|bCreateKey) == 0 {
		// every encoder is right for *T (so no open finding is involved): **T next.
		// The omit options and CreateKey are left out: the fall-back that handles
		// the extra indirection applies them twice (when it decomposes and when it
		// writes the decomposed tree), which is the subject of the open OmitEmpty
		// findings; naming, tags, embedding and BytesAs must come out the same.
		ex.ptrPtr(ti, vals, mask, o, results)
	}
	return cf
}

// ptrPtr: a pointer to a pointer to the struct denotes the same value as the
// pointer: every encoder must give the same tree for **T as for *T (one-field
// types only; the fall-back paths that handle the extra indirection are
// separate pieces of code that have to pass the options on).
func (ex *explorer) ptrPtr(ti *typeInfo, vals []int, mask int, o *ojg.Options, results []result) {
	for vi, vr := range variants {
		if !vr.ptr || results[vi].fail != "" {
			continue
		}
		p := ti.spec.NewValueOf(ti.typ, vals)
		pp := reflect.New(p.Type())
		pp.Elem().Set(p)
		e := &encoders[vr.enc]
		opts := *o
		opts.Indent = vr.indent
		var text string
		var err error
		pv := func() (r any) {
			defer func() { r = recover() }()
			text, err = e.run(pp.Interface(), &opts)
			return nil
		}()
		ex.r.evals++
		obs := ""
		switch {
		case pv != nil:
			obs = fmt.Sprintf("panic: %v", pv)
		case err != nil:
			obs = "error: " + err.Error()
		default:
			tree, perr := ex.r.parse(text, e.isSEN)
			if perr != nil {
				obs = "invalid output: " + text
			} else if !reflect.DeepEqual(tree, results[vi].tree) {
				obs = text
			}
		}
		if obs != "" {
			cs := caseT{Leg: "value", Spec: ti.spec, Type: ti.spec.String(), Vals: vals, Mask: mask, Opts: maskName(mask), Disc: "pointer-to-pointer-differs", Encs: []string{e.name}}
			ex.c.Fail(core.Sig("value", "enc="+e.name, "pointer-to-pointer-differs", "tag="+gens.Tags[ti.spec[0].Tag].Name, "class="+gens.Kinds[ti.spec[0].Kind].Class,
				"opts="+maskName(mask), fmt.Sprintf("indent=%d", vr.indent)), cs, 10,
				"the tree written for the pointer: "+results[vi].text, obs)
		}
	}
}

// subCase evaluates a simpler type in isolation (fresh caches before and after).
func (ex *explorer) subCase(spec gens.StructSpec, vals []int, mask int) *caseFails {
	key := fmt.Sprint([]gens.FieldSpec(spec), vals, mask)
	if cf, ok := ex.subMem[key]; ok {
		return cf
	}
	resetCaches()
	cf := ex.runCase(ex.info(spec), vals, mask)
	resetCaches()
	if len(ex.subMem) > 100000 {
		ex.subMem = map[string]*caseFails{}
	}
	ex.subMem[key] = cf
	return cf
}

func without(spec gens.StructSpec, vals []int, j int) (gens.StructSpec, []int) {
	s := append(gens.StructSpec{}, spec[:j]...)
	s = append(s, spec[j+1:]...)
	v := append([]int{}, vals[:j]...)
	v = append(v, vals[j+1:]...)
	return s, v
}

func tagCoarse(t int) string {
	switch gens.Tags[t].Name {
	case "name,omitempty", ",omitempty":
		return "omitempty"
	case "name":
		return "name"
	}
	return gens.Tags[t].Name
}

func variantLabels(bits uint32) (encs []string, label, addr, indent string) {
	set := map[string]bool{}
	val, ptr, i0, i2 := false, false, false, false
	for vi, vr := range variants {
		if bits&(1<<uint(vi)) == 0 {
			continue
		}
		e := encoders[vr.enc]
		set[e.name] = true
		if vr.ptr {
			ptr = true
		} else {
			val = true
		}
		if e.indent {
			if vr.indent == 0 {
				i0 = true
			} else {
				i2 = true
			}
		}
	}
	for n := range set {
		encs = append(encs, n)
	}
	sort.Strings(encs)
	addr = "any"
	if val != ptr {
		addr = map[bool]string{true: "value", false: "pointer"}[val]
	}
	indent = "any"
	switch {
	case i0 && !i2:
		indent = "0"
	case i2 && !i0:
		indent = "2"
	case !i0 && !i2:
		indent = "-"
	}
	return encs, encLabel(set), addr, indent
}

func popcount(m int) int {
	n := 0
	for ; m != 0; m &= m - 1 {
		n++
	}
	return n
}

func sum(a []int) int {
	n := 0
	for _, x := range a {
		n += x
	}
	return n
}

// shrink simplifies a minimal, unexplained discrepancy along the enumeration
// order while the same discrepancy (same key, at least one of the same
// variants) stays: neighbour kind -> int, neighbour tag -> none, neighbour
// value -> zero, then the same for the field itself. The shrunk case is a real
// failing case; its coordinates make the signature.
func (ex *explorer) shrink(ti *typeInfo, vals []int, mask int, k fkey, bits uint32, cf *caseFails) (gens.StructSpec, []int, int, *caseFails) {
	intKind := gens.KindIndex("int")
	spec := append(gens.StructSpec{}, ti.spec...)
	vs := append([]int{}, vals...)
	try := func(s gens.StructSpec, v []int) bool {
		if !s.Valid() {
			return false
		}
		c := ex.subCase(s, v, mask)
		if c.bits(k)&bits == 0 {
			return false
		}
		spec, vs, cf = s, v, c
		return true
	}
	simplify := func(j int) {
		for changed := true; changed; {
			changed = false
			if spec[j].Tag != 0 {
				s2 := append(gens.StructSpec{}, spec...)
				s2[j].Tag = 0
				changed = try(s2, vs) || changed
			}
			if spec[j].Kind != intKind {
				s2 := append(gens.StructSpec{}, spec...)
				s2[j].Kind = intKind
				v2 := append([]int{}, vs...)
				if v2[j] != 0 {
					v2[j] = 1
				}
				changed = try(s2, v2) || changed
			}
			if vs[j] != 0 {
				v2 := append([]int{}, vs...)
				v2[j] = 0
				changed = try(spec, v2) || changed
			}
		}
	}
	for j := range spec {
		if j != k.field {
			simplify(j)
		}
	}
	if k.field >= 0 {
		simplify(k.field)
	}
	// the simpler type may need fewer options
	for again := true; again; {
		again = false
		for _, sm := range submasks(mask) {
			if c := ex.subCase(spec, vs, sm); c.bits(k)&bits != 0 {
				mask, cf, again = sm, c, true
				break
			}
		}
	}
	return spec, vs, mask, cf
}

// report turns one minimal, unexplained discrepancy into a failure.
func (ex *explorer) report(leg string, ti *typeInfo, vals []int, mask int, k fkey, bits uint32, cf *caseFails) {
	spec, vs := ti.spec, vals
	if leg == "value" {
		spec, vs, mask, cf = ex.shrink(ti, vals, mask, k, bits, cf)
		bits &= cf.bits(k)
	}
	encs, label, addr, indent := variantLabels(bits)
	desc := func(j int) string {
		f := spec[j]
		return gens.Kinds[f.Kind].Class + ":" + tagCoarse(f.Tag) + ":" + gens.Kinds[f.Kind].Vals[vs[j]].Name
	}
	field, nb := "-", "none"
	var nbs []string
	for j := range spec {
		switch {
		case j == k.field:
			field = desc(j)
		case k.field >= 0 && j < k.field:
			nbs = append(nbs, "before:"+desc(j))
		case k.field >= 0:
			nbs = append(nbs, "after:"+desc(j))
		default:
			nbs = append(nbs, desc(j))
		}
	}
	switch {
	case leg == "niltop":
		field, nbs = "nil-struct-pointer", nil
	case k.field == fCreate:
		field = "createkey"
	case k.field == fUnknown:
		field = "unknown-key"
	case k.field == fWhole:
		field = "document"
	}
	if len(nbs) > 0 {
		nb = strings.Join(nbs, ",")
	}
	sig := core.Sig(leg, "enc="+label, k.disc, "opts="+maskName(mask), "pass="+addr, "indent="+indent, "field="+field, "with="+nb)
	cs := caseT{Leg: leg, Spec: spec, Type: spec.String(), Vals: vs, Mask: mask, Opts: maskName(mask), Field: k.field, Disc: k.disc, Encs: encs}
	if leg == "value" {
		cs.Values = spec.ValueNames(vs)
	}
	size := len(spec)*1000 + popcount(mask)*10 + sum(vs)
	exp, obs := cf.texts(k, bits)
	ex.c.Fail(sig, cs, size, exp, obs)
}

// exploreType runs the whole option lattice for every value vector of a type.
func (ex *explorer) exploreType(spec gens.StructSpec, fullVals bool) {
	c := ex.c
	ti := ex.info(spec)
	choices := spec.ValueChoices(fullVals)
	off, on := masksFor(spec)
	fails := make([]map[int]*caseFails, len(choices))
	for i := range fails {
		fails[i] = map[int]*caseFails{}
	}
	for gi, group := range [][]int{off, on} {
		for ci, vals := range choices {
			resetCaches()
			for _, mask := range group {
				c.Case(func() string { return fmt.Sprintf("%s vals=%v mask=%s", spec, vals, maskName(mask)) })
				cf := ex.runCase(ti, vals, mask)
				if len(cf.ref.Members) > 0 {
					c.Nontrivial()
				}
				if cf.set != nil {
					ex.judge(ti, vals, mask, cf, fails[ci])
					cf.results, cf.ref = nil, nil // only the verdicts are needed for the lattice
					fails[ci][mask] = cf
				}
			}
			if gi == 0 {
				ex.stdLeg(ti, vals)
			}
		}
	}
}

// judge filters the discrepancies of one case down to the minimal unexplained
// ones and reports them.
func (ex *explorer) judge(ti *typeInfo, vals []int, mask int, cf *caseFails, lattice map[int]*caseFails) {
	keys := make([]fkey, 0, len(cf.set))
	for k := range cf.set {
		keys = append(keys, k)
	}
	sort.Slice(keys, func(i, j int) bool {
		if keys[i].field != keys[j].field {
			return keys[i].field < keys[j].field
		}
		return keys[i].disc < keys[j].disc
	})
	for _, k := range keys {
		bits := cf.bits(k)
		ex.c.Add("failing_executions", int64(popcount(int(bits))))
		soft := strings.HasPrefix(k.disc, "disagree")
		for _, sm := range submasks(mask) {
			if sub := lattice[sm]; sub != nil {
				bits &^= sub.bits(k)
				if soft {
					// a disagreement on a field that already fails with one option
					// less is the same story told differently
					for sk := range sub.set {
						if sk.field == k.field {
							bits = 0
						}
					}
				}
			}
		}
		if bits == 0 {
			continue
		}
		// explained by a type with one field less?
		if len(ti.spec) > 1 {
			for j := range ti.spec {
				if j == k.field {
					continue
				}
				s, v := without(ti.spec, vals, j)
				sk := k
				if k.field > j {
					sk.field--
				}
				bits &^= ex.subCase(s, v, mask).bits(sk)
				if bits == 0 {
					break
				}
			}
			if bits == 0 {
				continue
			}
		}
		ex.c.Add("minimal_failing_cases", 1)
		ex.report("value", ti, vals, mask, k, bits, cf)
	}
}

// stdLeg cross-checks the reference against encoding/json under GoOptions and,
// for types with a time.Time field, runs the encoders under GoOptions plus
// TimeFormat RFC3339Nano (the rendering encoding/json uses).
func (ex *explorer) stdLeg(ti *typeInfo, vals []int) {
	mask := bUseTags | bKeyExact | 1<<bytesShift
	isTime := hasKind(ti.spec, "time")
	if isTime {
		mask |= bTimeFormat
	}
	_, eo := optsOf(mask)
	v := ti.spec.NewValue(vals)
	b, err := json.Marshal(v.Elem().Interface())
	if err != nil {
		ex.c.HarnessError("encoding/json fails on %s %v: %v", ti.spec, vals, err)
		return
	}
	var tree any
	if err = json.Unmarshal(b, &tree); err != nil {
		ex.c.HarnessError("encoding/json output unparseable: %s", b)
		return
	}
	ex.std++
	ref := encref.EncodeValue(v.Elem(), eo)
	if !encref.Match(ref, tree) {
		ex.c.HarnessError("encref %s does not accept encoding/json's %s for %s", ref, b, ti.spec)
		return
	}
	if len(ex.c.Report().Samples) < 2 {
		ex.c.Sample(map[string]any{"type": ti.spec.String(), "values": ti.spec.ValueNames(vals), "encoding_json": string(b), "reference_under_GoOptions": ref.String()})
	}
	if !isTime {
		return // the GoOptions vector is part of the lattice
	}
	o := ojg.GoOptions
	o.TimeFormat = time.RFC3339Nano
	results := make([]result, len(variants))
	for vi, vr := range variants {
		results[vi] = ex.r.exec(vr, ti.spec.NewValue(vals), &o)
	}
	cf := ti.compare(ref, results, nil)
	// only the time field is new here (single-field types suffice); everything
	// else is judged in the lattice
	for k, fi := range cf.set {
		if k.field < 0 || gens.Kinds[ti.spec[k.field].Kind].Name != "time" || len(ti.spec) > 1 {
			continue
		}
		ex.c.Add("minimal_failing_cases", 1)
		ex.report("stdtime", ti, vals, mask, k, fi.bits, cf)
	}
}

// nilTop passes (*T)(nil) to every encoder: "a nil pointer anywhere encodes as
// null instead of failing".
func (ex *explorer) nilTop(spec gens.StructSpec) {
	ti := ex.info(spec)
	ref := &encref.Node{Kind: 'n'}
	lattice := map[int]*caseFails{}
	off, on := masksFor(spec)
	resetCaches()
	for _, mask := range append(off, on...) {
		o, _ := optsOf(mask)
		results := make([]result, len(variants))
		for vi, vr := range variants {
			if vr.ptr {
				continue
			}
			results[vi] = ex.r.execNilTop(vr, spec.Type(), o)
		}
		cf := ti.compare(ref, results, func(vi int) bool { return variants[vi].ptr })
		lattice[mask] = cf
		for k, fi := range cf.set {
			bits := fi.bits
			for _, sm := range submasks(mask) {
				if sub := lattice[sm]; sub != nil {
					bits &^= sub.bits(k)
				}
			}
			if bits != 0 {
				ex.c.Add("minimal_failing_cases", 1)
				ex.report("niltop", ti, []int{0}, mask, k, bits, cf)
			}
		}
	}
}

func run(c *core.Ctx) {
	debug.SetGCPercent(400)
	if c.Shard == 0 {
		namingLeg(c)
	}
	ex := &explorer{c: c, subMem: map[string]*caseFails{}, tinfo: map[string]*typeInfo{}}
	idx := 0
	nTypes := int64(0)
	alpha := gens.FieldAlphabet(gens.AllKinds())
	stop := false
	each := func(alpha []gens.FieldSpec, n int, full bool) {
		gens.Specs(alpha, n, func(_ int, s gens.StructSpec) {
			i := idx
			idx++
			if stop || !c.Mine(i) {
				return
			}
			if c.Expired(fmt.Sprintf("C15 value leg, %d-field types", n)) {
				stop = true
				return
			}
			nTypes++
			if n == 1 {
				ex.nilTop(s)
			}
			ex.exploreType(s, full)
			if nTypes%7 == 1 {
				c.Sample(map[string]any{"type": s.String(), "values": len(s.ValueChoices(full))})
			}
			if len(ex.tinfo) > 5000 {
				ex.tinfo = map[string]*typeInfo{}
				gens.ForgetTypes()
			}
		})
	}
	each(alpha, 1, true)
	each(alpha, 2, true)
	// kinds of value no plan builder has a branch of its own for (maps with integer keys, maps of
	// strings with an empty one): one-field types
	each(gens.FieldAlphabet(gens.ExtraKinds()), 1, true)
	if !c.Quick() {
		var thin []gens.FieldSpec
		for _, k := range gens.ThinKinds() {
			if gens.Kinds[k].Embedded {
				thin = append(thin, gens.FieldSpec{Kind: k})
				continue
			}
			for _, t := range gens.ThinTags {
				thin = append(thin, gens.FieldSpec{Kind: k, Tag: t})
			}
		}
		each(thin, 3, false)
	}
	c.Add("struct_types", nTypes)
	c.Add("evaluations", ex.r.evals)
	c.Add("reference_cross_checks_against_encoding_json", ex.std)
	if !stop {
		runHistory(c, &idx)
	}
}

func replay(c *core.Ctx, raw json.RawMessage) {
	var nc namingCase
	if err := json.Unmarshal(raw, &nc); err == nil && nc.Leg == "naming" {
		replayNaming(c, nc)
		return
	}
	var cs caseT
	if err := json.Unmarshal(raw, &cs); err != nil {
		c.HarnessError("bad case: %v", err)
		return
	}
	ex := &explorer{c: c, subMem: map[string]*caseFails{}, tinfo: map[string]*typeInfo{}}
	switch cs.Leg {
	case "history":
		replayHistory(c, cs)
	case "niltop":
		spec := gens.StructSpec(cs.Spec)
		ti := ex.info(spec)
		resetCaches()
		var o *ojg.Options
		o, _ = optsOf(cs.Mask)
		results := make([]result, len(variants))
		for vi, vr := range variants {
			if !vr.ptr {
				results[vi] = ex.r.execNilTop(vr, spec.Type(), o)
			}
		}
		cf := ti.compare(&encref.Node{Kind: 'n'}, results, func(vi int) bool { return variants[vi].ptr })
		k := fkey{cs.Field, cs.Disc}
		if cf.bits(k) != 0 {
			exp, obs := cf.texts(k, cf.bits(k))
			c.Fail(core.Sig("replay", "niltop", cs.Disc), cs, 1, exp, obs)
		}
	default:
		spec := gens.StructSpec(cs.Spec)
		if !spec.Valid() || len(cs.Vals) != len(spec) {
			c.HarnessError("bad case spec")
			return
		}
		ti := ex.info(spec)
		resetCaches()
		var cf *caseFails
		if cs.Mask&bTimeFormat != 0 {
			_, eo := optsOf(cs.Mask)
			o := ojg.GoOptions
			o.TimeFormat = time.RFC3339Nano
			results := make([]result, len(variants))
			for vi, vr := range variants {
				results[vi] = ex.r.exec(vr, spec.NewValue(cs.Vals), &o)
			}
			cf = ti.compare(encref.EncodeValue(spec.NewValue(cs.Vals).Elem(), eo), results, nil)
		} else {
			cf = ex.runCase(ti, cs.Vals, cs.Mask)
		}
		resetCaches()
		k := fkey{cs.Field, cs.Disc}
		if cf.bits(k) != 0 {
			_, label, _, _ := variantLabels(cf.bits(k))
			exp, obs := cf.texts(k, cf.bits(k))
			c.Fail(core.Sig("replay", "value", "enc="+label, cs.Disc), cs, 1, exp, obs)
		}
	}
}
