package c15

import (
	"bytes"
	"encoding/json"
	"fmt"
	"reflect"
	"runtime"
	"strings"

	"github.com/ohler55/ojg"
	"github.com/ohler55/ojg/alt"
	"github.com/ohler55/ojg/oj"
	"github.com/ohler55/ojg/pretty"
	"github.com/ohler55/ojg/sen"
)

// encoder is one way of turning a Go value into text (or a tree).
type encoder struct {
	name   string
	group  string // oj | sen | pretty | alt
	indent bool   // has an Indent dimension
	isSEN  bool
	// run returns the produced text. Returned errors and panics that the
	// entry point lets escape are classified by the caller.
	run func(v any, o *ojg.Options) (string, error)
}

// sameJSON: two texts denote the same tree (the members of a Go map are
// written in whatever order the map yields them, so two calls may differ in that).
func sameJSON(a, b []byte) bool {
	var x, y any
	if json.Unmarshal(a, &x) != nil || json.Unmarshal(b, &y) != nil {
		return false
	}
	return reflect.DeepEqual(x, y)
}

var encoders = []encoder{
	{"oj.JSON", "oj", true, false, func(v any, o *ojg.Options) (string, error) {
		return oj.JSON(v, o), nil
	}},
	{"oj.Marshal", "oj", true, false, func(v any, o *ojg.Options) (string, error) {
		b, err := oj.Marshal(v, o)
		return string(b), err
	}},
	{"oj.Write", "oj", true, false, func(v any, o *ojg.Options) (string, error) {
		var b bytes.Buffer
		err := oj.Write(&b, v, o)
		// the same call with a buffer that is flushed at every opportunity, and at
		// every seventh byte: what reaches the io.Writer is the text, whatever the limit
		for _, lim := range []int{1, 7} {
			if err != nil {
				break
			}
			o2 := *o
			o2.WriteLimit = lim
			var b2 bytes.Buffer
			if err2 := oj.Write(&b2, v, &o2); err2 != nil {
				return b2.String(), fmt.Errorf("with WriteLimit %d: %v", lim, err2)
			} else if b2.String() != b.String() && !sameJSON(b2.Bytes(), b.Bytes()) {
				return b2.String(), fmt.Errorf("with WriteLimit %d the io.Writer received %q instead of %q", lim, b2.String(), b.String())
			}
		}
		return b.String(), err
	}},
	{"oj.Writer", "oj", true, false, func(v any, o *ojg.Options) (string, error) {
		wr := oj.Writer{Options: *o}
		return wr.JSON(v), nil
	}},
	{"sen.String", "sen", true, true, func(v any, o *ojg.Options) (string, error) {
		return sen.String(v, o), nil
	}},
	{"pretty.JSON", "pretty", false, false, func(v any, o *ojg.Options) (string, error) {
		return pretty.JSON(v, o), nil
	}},
	// "alt.Decompose followed by writing ... under the same options"; Sort only
	// fixes the member order of the text
	{"alt.Decompose", "alt", false, false, func(v any, o *ojg.Options) (string, error) {
		tree := alt.Decompose(v, o)
		wo := *o
		wo.Sort = true
		return oj.JSON(tree, &wo), nil
	}},
	{"alt.Alter", "alt", false, false, func(v any, o *ojg.Options) (string, error) {
		tree := alt.Alter(v, o)
		wo := *o
		wo.Sort = true
		return oj.JSON(tree, &wo), nil
	}},
}

// variant is one execution: encoder x (value passed by value | by pointer) x indent.
type variant struct {
	enc    int
	ptr    bool
	indent int
}

func (v variant) String() string {
	s := encoders[v.enc].name
	if v.ptr {
		s += "(&v"
	} else {
		s += "(v"
	}
	if encoders[v.enc].indent {
		s += fmt.Sprintf(",indent=%d", v.indent)
	}
	return s + ")"
}

// variants: oj.JSON and sen.String get the full (pass x indent) square; the
// other three oj entry points share the writer code and get two opposite
// corners each; pretty and alt have no indent dimension.
var variants = func() []variant {
	var out []variant
	for i, e := range encoders {
		switch e.name {
		case "oj.JSON", "sen.String":
			out = append(out, variant{i, false, 0}, variant{i, false, 2}, variant{i, true, 0}, variant{i, true, 2})
		case "oj.Marshal":
			out = append(out, variant{i, false, 0}, variant{i, true, 2})
		case "oj.Write":
			out = append(out, variant{i, true, 0}, variant{i, false, 2})
		case "oj.Writer":
			out = append(out, variant{i, false, 2}, variant{i, true, 0})
		default:
			out = append(out, variant{i, false, 0}, variant{i, true, 0})
		}
	}
	return out
}()

// result of one execution.
type result struct {
	fail string // "" | error | panic:<kind> | invalid-output
	msg  string
	text string
	tree any // normalised: nil, bool, float64, string, []any, map[string]any
}

func panicKind(r any) string {
	if re, ok := r.(runtime.Error); ok {
		msg := re.Error()
		msg = strings.TrimPrefix(msg, "runtime error: ")
		for _, k := range []string{"index out of range", "slice bounds out of range", "nil pointer dereference", "invalid memory address", "integer divide by zero", "interface conversion", "assignment to entry in nil map"} {
			if strings.Contains(msg, k) {
				return strings.ReplaceAll(k, " ", "-")
			}
		}
		return "runtime-error"
	}
	s := fmt.Sprint(r)
	switch {
	case strings.Contains(s, "indirection through nil pointer to embedded struct"):
		return "reflect-nil-embedded-pointer"
	case strings.Contains(s, "unaddressable"):
		return "reflect-unaddressable"
	case strings.HasPrefix(s, "reflect"):
		return "reflect"
	}
	return "other"
}

type parseMemo struct {
	text string
	sen  bool
	tree any
	err  error
}

// runner executes variants and parses their output; identical consecutive
// texts are parsed once.
type runner struct {
	memo  [4]parseMemo
	nmemo int
	evals int64
}

func (r *runner) parse(text string, isSEN bool) (any, error) {
	for i := range r.memo {
		m := &r.memo[i]
		if m.text == text && m.sen == isSEN && m.text != "" {
			return m.tree, m.err
		}
	}
	var tree any
	var err error
	if isSEN {
		var p sen.Parser
		tree, err = p.Parse([]byte(text))
		if err == nil {
			tree = normalize(tree)
		}
	} else {
		dec := json.NewDecoder(strings.NewReader(text))
		if err = dec.Decode(&tree); err == nil && dec.More() {
			err = fmt.Errorf("trailing data")
		}
	}
	m := &r.memo[r.nmemo%len(r.memo)]
	r.nmemo++
	*m = parseMemo{text, isSEN, tree, err}
	return tree, err
}

// normalize maps a parsed SEN tree onto the encoding/json shapes.
func normalize(v any) any {
	switch t := v.(type) {
	case nil, bool, string, float64:
		return t
	case int64:
		return float64(t)
	case []any:
		for i, e := range t {
			t[i] = normalize(e)
		}
		return t
	case map[string]any:
		for k, e := range t {
			t[k] = normalize(e)
		}
		return t
	}
	return fmt.Sprintf("<%T>", v)
}

// exec runs one variant on the value held by ptr (a pointer to the struct).
func (r *runner) exec(vr variant, ptr reflect.Value, o *ojg.Options) (res result) {
	e := &encoders[vr.enc]
	opts := *o
	opts.Indent = vr.indent
	var arg any
	if vr.ptr {
		arg = ptr.Interface()
	} else {
		arg = ptr.Elem().Interface()
	}
	r.evals++
	defer func() {
		if rec := recover(); rec != nil {
			res = result{fail: "panic:" + panicKind(rec), msg: fmt.Sprint(rec)}
		}
	}()
	text, err := e.run(arg, &opts)
	if err != nil {
		return result{fail: "error", msg: err.Error(), text: text}
	}
	if text == "" {
		return result{fail: "error", msg: "empty output (the entry point swallowed a panic)"}
	}
	tree, perr := r.parse(text, e.isSEN)
	if perr != nil {
		return result{fail: "invalid-output", msg: perr.Error(), text: text}
	}
	return result{text: text, tree: tree}
}

// execNilTop passes a typed nil pointer as the value.
func (r *runner) execNilTop(vr variant, t reflect.Type, o *ojg.Options) (res result) {
	e := &encoders[vr.enc]
	opts := *o
	opts.Indent = vr.indent
	r.evals++
	defer func() {
		if rec := recover(); rec != nil {
			res = result{fail: "panic:" + panicKind(rec), msg: fmt.Sprint(rec)}
		}
	}()
	text, err := e.run(reflect.Zero(reflect.PtrTo(t)).Interface(), &opts)
	if err != nil {
		return result{fail: "error", msg: err.Error(), text: text}
	}
	if text == "" {
		return result{fail: "error", msg: "empty output (the entry point swallowed a panic)"}
	}
	tree, perr := r.parse(text, e.isSEN)
	if perr != nil {
		return result{fail: "invalid-output", msg: perr.Error(), text: text}
	}
	return result{text: text, tree: tree}
}

// encLabel names a set of encoders compactly and deterministically.
func encLabel(set map[string]bool) string {
	var parts []string
	ojAll := set["oj.JSON"] && set["oj.Marshal"] && set["oj.Write"] && set["oj.Writer"]
	if ojAll {
		parts = append(parts, "oj")
	}
	for _, e := range encoders {
		if !set[e.name] || (ojAll && e.group == "oj") {
			continue
		}
		if e.group == "alt" && set["alt.Decompose"] && set["alt.Alter"] {
			if e.name == "alt.Decompose" {
				parts = append(parts, "alt")
			}
			continue
		}
		parts = append(parts, e.name)
	}
	return strings.Join(parts, "+")
}
