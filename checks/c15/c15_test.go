package c15

import (
	"encoding/json"
	"testing"

	"verif/internal/gens"
	"verif/internal/ref/encref"
)

func spec(parts ...string) gens.StructSpec {
	var s gens.StructSpec
	for i := 0; i+1 < len(parts); i += 2 {
		k := gens.KindIndex(parts[i])
		tg := -1
		for ti, tc := range gens.Tags {
			if tc.Name == parts[i+1] {
				tg = ti
			}
		}
		if k < 0 || tg < 0 {
			panic("bad spec")
		}
		s = append(s, gens.FieldSpec{Kind: k, Tag: tg})
	}
	return s
}

func fake(texts ...string) []result {
	out := make([]result, len(variants))
	for i := range out {
		t := texts[0]
		if i < len(texts) {
			t = texts[i]
		}
		var tree any
		if err := json.Unmarshal([]byte(t), &tree); err != nil {
			out[i] = result{fail: "invalid-output", msg: err.Error(), text: t}
			continue
		}
		out[i] = result{text: t, tree: tree}
	}
	return out
}

// The localisation is tested on hand-made encoder outputs, independent of ojg.
func TestCompareLocalises(t *testing.T) {
	sp := spec("int", "none", "[]int", "name")
	ti := newTypeInfo(sp)
	ref := encref.EncodeValue(sp.NewValue([]int{0, 0}).Elem(), &encref.Opts{UseTags: true, KeyExact: true})
	// reference: {"Ab":0,"x1":[]|null}
	cases := []struct {
		text string
		want []fkey
	}{
		{`{"Ab":0,"x1":[]}`, nil},
		{`{"Ab":0,"x1":null}`, nil},
		{`{"x1":[]}`, []fkey{{0, "missing"}}},
		{`{"ab":0,"x1":[]}`, []fkey{{0, "wrong-key"}}},
		{`{"Ab":"0","x1":[]}`, []fkey{{0, "wrong-value:number/string"}}},
		{`{"Ab":1,"x1":[]}`, []fkey{{0, "wrong-value:number"}}},
		{`{"Ab":0,"x1":[],"FieldTwo":[]}`, []fkey{{1, "extra"}}},
		{`{"Ab":0,"x1":[],"zzz":1}`, []fkey{{fUnknown, "extra"}}},
		{`[1]`, []fkey{{fWhole, "wrong-type:array"}}},
		{`{"Ab":0`, []fkey{{fWhole, "invalid-output"}}},
	}
	for _, c := range cases {
		cf := ti.compare(ref, fake(c.text), nil)
		if len(cf.set) != len(c.want) {
			t.Errorf("%s: got %v want %v", c.text, keys(cf), c.want)
			continue
		}
		for _, k := range c.want {
			if cf.bits(k) == 0 {
				t.Errorf("%s: got %v want %v", c.text, keys(cf), c.want)
			}
		}
	}
}

func keys(cf *caseFails) []fkey {
	var out []fkey
	for k := range cf.set {
		out = append(out, k)
	}
	return out
}

// Where the reference leaves a choice the encoders have to agree.
func TestCompareAgreement(t *testing.T) {
	sp := spec("int", "none")
	ti := newTypeInfo(sp)
	ref := encref.EncodeValue(sp.NewValue([]int{0}).Elem(), &encref.Opts{KeyExact: true, OmitEmpty: true})
	// reference: {"Ab"?:0}
	all := ti.compare(ref, fake(`{"Ab":0}`), nil)
	if len(all.set) != 0 {
		t.Errorf("unanimous keep must pass: %v", keys(all))
	}
	none := ti.compare(ref, fake(`{}`), nil)
	if len(none.set) != 0 {
		t.Errorf("unanimous omit must pass: %v", keys(none))
	}
	texts := make([]string, len(variants))
	for i := range texts {
		texts[i] = `{}`
	}
	texts[len(texts)-1] = `{"Ab":0}`
	mixed := ti.compare(ref, fake(texts...), nil)
	if mixed.bits(fkey{0, "disagree:keeps"}) != 1<<uint(len(variants)-1) {
		t.Errorf("minority keeping must be reported: %v", keys(mixed))
	}
}

func TestLattice(t *testing.T) {
	m := bUseTags | bOmitNil | 2<<bytesShift
	subs := submasks(m)
	if len(subs) != 3 {
		t.Fatalf("submasks of %s: %v", maskName(m), subs)
	}
	if maskName(m) != "UseTags+OmitNil+BytesAsArray" {
		t.Errorf("mask name %s", maskName(m))
	}
	off, on := masksFor(spec("bytes", "none"))
	if len(off) != 96 || len(on) != 96 {
		t.Errorf("bytes type must get 192 option vectors, got %d+%d", len(off), len(on))
	}
	off, on = masksFor(spec("int", "none", "int", "none"))
	if len(off)+len(on) != 32 {
		t.Errorf("pair without embedded field: NestEmbed fixed, want 32 vectors, got %d", len(off)+len(on))
	}
}
