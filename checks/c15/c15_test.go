package c15

import (
	"fmt"
	"sort"
	"testing"

	"verif/internal/core"
	"verif/internal/gens"
)

func explore(t *testing.T, spec gens.StructSpec) map[string]*core.Failure {
	t.Helper()
	c := core.NewCtx("quick", 0, 1, 0, 0)
	ex := &explorer{c: c, subMem: map[string]*caseFails{}, tinfo: map[string]*typeInfo{}}
	ex.exploreType(spec, true)
	return c.Failures()
}

func dump(t *testing.T, fs map[string]*core.Failure) {
	var sigs []string
	for s := range fs {
		sigs = append(sigs, s)
	}
	sort.Strings(sigs)
	for _, s := range sigs {
		f := fs[s]
		t.Logf("%d %s\n   case %s\n   exp %s\n   obs %s", f.Count, s, f.Case, f.Exp, f.Obs)
	}
}

func spec(parts ...string) gens.StructSpec {
	var s gens.StructSpec
	for i := 0; i+1 < len(parts); i += 2 {
		k := gens.KindIndex(parts[i])
		tg := -1
		for ti, tc := range gens.Tags {
			if tc.Name == parts[i+1] {
				tg = ti
			}
		}
		if k < 0 || tg < 0 {
			panic(fmt.Sprint("bad spec ", parts))
		}
		s = append(s, gens.FieldSpec{Kind: k, Tag: tg})
	}
	return s
}

func TestDebugOne(t *testing.T) {
	dump(t, explore(t, spec("bytes", "none", "int", ",omitempty")))
}
