package c15

import (
	"fmt"
	"reflect"
	"sort"
	"strings"

	"github.com/ohler55/ojg"
	"github.com/ohler55/ojg/alt"
	"github.com/ohler55/ojg/oj"
	"github.com/ohler55/ojg/pretty"
	"github.com/ohler55/ojg/sen"
	"verif/internal/core"
)

// namingNames are exported field names of every length class and casing
// pattern the key-naming rules of the three plan builders distinguish.
var namingNames = []string{"A", "Ab", "AB", "Abc", "ABC", "URL", "IDs", "AbC", "ABc", "Abcd", "ABCD", "URLs", "AbCd", "X1", "X12", "Ab_c", "ABCDE"}

type namingCase struct {
	Leg   string `json:"leg"`
	Name  string `json:"field"`
	Opts  string `json:"opts"`
	Embed bool   `json:"embedded"`
}

func namingOpts() map[string]*ojg.Options {
	return map[string]*ojg.Options{
		"default":          {Sort: true},
		"KeyExact":         {Sort: true, KeyExact: true},
		"UseTags":          {Sort: true, UseTags: true},
		"UseTags+KeyExact": {Sort: true, UseTags: true, KeyExact: true},
		"OmitEmpty":        {Sort: true, OmitEmpty: true},
	}
}

func keysOf(v any) string {
	m, ok := v.(map[string]any)
	if !ok {
		return fmt.Sprintf("<%T>", v)
	}
	var ks []string
	for k, e := range m {
		if inner, isMap := e.(map[string]any); isMap {
			k += "{" + keysOf(inner) + "}"
		}
		ks = append(ks, k)
	}
	sort.Strings(ks)
	return strings.Join(ks, ",")
}

func namingRun(name, optName string, embed bool) (keys map[string]string) {
	o := namingOpts()[optName]
	fields := []reflect.StructField{{Name: name, Type: reflect.TypeOf(0)}}
	t := reflect.StructOf(fields)
	if embed { // the same field reached through a nested struct value
		t = reflect.StructOf([]reflect.StructField{{Name: "Outer", Type: t}, {Name: name, Type: reflect.TypeOf("")}})
	}
	pv := reflect.New(t)
	if embed {
		pv.Elem().Field(0).Field(0).SetInt(1)
		pv.Elem().Field(1).SetString("s")
	} else {
		pv.Elem().Field(0).SetInt(1)
	}
	keys = map[string]string{}
	try := func(enc string, f func() any) {
		defer func() {
			if p := recover(); p != nil {
				keys[enc] = fmt.Sprintf("panic: %v", p)
			}
		}()
		keys[enc] = keysOf(f())
	}
	for _, pass := range []struct {
		label string
		v     any
	}{{"ptr", pv.Interface()}, {"val", pv.Elem().Interface()}} {
		v := pass.v
		try("oj.JSON/"+pass.label, func() any { return oj.MustParseString(oj.JSON(v, o)) })
		try("oj.Marshal/"+pass.label, func() any {
			b, err := oj.Marshal(v, o)
			if err != nil {
				panic(err)
			}
			return oj.MustParse(b)
		})
		try("sen.String/"+pass.label, func() any { return sen.MustParse([]byte(sen.String(v, o))) })
		try("pretty.JSON/"+pass.label, func() any { return oj.MustParseString(pretty.JSON(v, o)) })
		try("alt.Decompose/"+pass.label, func() any { return alt.Decompose(v, o) })
	}
	return keys
}

// namingLeg: whatever the key-naming rule is for a field name, every encoder
// must apply the same one under the same options (agreement only: the
// documentation fixes the first character, the code also lower-cases short
// names entirely, and either is accepted as long as all encoders do it).
func namingLeg(c *core.Ctx) {
	for _, name := range namingNames {
		for optName := range namingOpts() {
			for _, embed := range []bool{false, true} {
				keys := namingRun(name, optName, embed)
				c.Eval()
				c.Add("naming_cases", 1)
				distinct := map[string][]string{}
				for enc, k := range keys {
					distinct[k] = append(distinct[k], enc)
				}
				if len(distinct) > 1 {
					var parts []string
					for k, encs := range distinct {
						sort.Strings(encs)
						parts = append(parts, k+" <- "+strings.Join(encs, " "))
					}
					sort.Strings(parts)
					lenClass := "len>3"
					if len(name) <= 3 {
						lenClass = fmt.Sprintf("len=%d", len(name))
					}
					inner := "all-upper"
					if strings.ToUpper(name) != name {
						inner = "mixed"
					}
					c.Fail(core.Sig("naming", "disagree", lenClass, "case="+inner, "opts="+optName, fmt.Sprintf("nested=%v", embed)),
						namingCase{Leg: "naming", Name: name, Opts: optName, Embed: embed}, len(name), "one key spelling from every encoder", strings.Join(parts, " | "))
				} else {
					c.NontrivialKey("naming:" + name + optName)
				}
			}
		}
	}
}

func replayNaming(c *core.Ctx, cs namingCase) {
	keys := namingRun(cs.Name, cs.Opts, cs.Embed)
	distinct := map[string]bool{}
	for _, k := range keys {
		distinct[k] = true
	}
	if len(distinct) > 1 {
		c.Fail("replay|naming", cs, 1, "one spelling", fmt.Sprint(keys))
	}
}
