// Package c07 decides C07: a reused parser / validator / tokenizer / writer,
// and the pooled instances behind the package-level functions, behave like
// fresh ones whatever calls came before.
//
// The long-lived instance is the state machine and API calls are the
// alphabet. Every call sequence up to the depth bound is executed on one
// instance (replayed from a fresh instance for every sequence); the last call
// is also executed on a fresh instance with the same public configuration and
// the two results (value, error text incl. line:column, bytes written) must
// be equal. Values returned earlier in the history are re-inspected after
// every later call, and every input buffer is overwritten after the call
// that consumed it.
package c07

import (
	"bytes"
	"encoding/json"
	"errors"
	"fmt"
	"io"
	"reflect"
	"runtime"
	"runtime/debug"
	"sort"
	"strings"
	"unsafe"

	"github.com/ohler55/ojg"
	"github.com/ohler55/ojg/gen"
	"github.com/ohler55/ojg/oj"
	"github.com/ohler55/ojg/pretty"
	"github.com/ohler55/ojg/sen"
	"verif/internal/core"
	"verif/internal/mach"
	"verif/internal/snap"
)

func init() {
	core.Register(&core.Check{
		ID:     "C07",
		Level:  "model_checking",
		Shards: func(tier string) int { return len(kinds()) * subShards },
		Run:    run,
		Replay: replay,
		Rule: "states = distinct canonical snapshots of the long-lived instance (private fields included) reached by call sequences; transitions = calls executed on the reused instance, each re-executed on a fresh instance; " +
			"every sequence of calls from the per-kind alphabet up to the depth bound is explored (no sampling); distinct_nontrivial = sequences whose last call follows at least one failed / aborted / differently configured call",
		Assumptions: []string{"exported configuration fields (Reuse, OnlyOne, Options) are part of the call's arguments: the fresh instance gets the same values",
			"buffers documented as reused (MustJSON, MustSEN, Encode) and maps returned while Reuse is set are exempt from the 'returned values stay unchanged' clause",
			"pooled functions: the pools are emptied (two GC cycles) before every sequence and before the fresh comparison run"},
		Bound: func(tier string) string {
			if tier == "thorough" {
				return "all call sequences of length <= 4 per instance kind (alphabets of 10-30 calls); <= 3 for the pooled package-level functions (alphabets of 45 calls)"
			}
			return "all call sequences of length <= 3 per instance kind (alphabets of 10-30 calls); <= 2 for the pooled package-level functions (alphabets of 45 calls)"
		},
	})
}

const subShards = 2

// result of one call
type result struct {
	text  string // canonical text of value + error
	watch []any  // returned values that must stay unchanged afterwards
	alias bool   // the returned value changed when the input buffer was overwritten
	abort bool   // the call failed / aborted (used for the non-trivial count)
}

type op struct {
	name  string
	class string
	run   func(inst any) result
}

type kind struct {
	name   string
	pooled bool
	fresh  func(like any) any // like == nil: brand new; else copy the exported configuration
	ops    []op
}

// ------------------------------------------------------------------ helpers

// errText renders an error; the error values themselves are collected so that
// exec can hold on to them: an error is a returned value like any other and
// must read the same after later calls.
func errText(err error) string {
	if err == nil {
		return "<nil>"
	}
	seenErrs = append(seenErrs, err)
	return err.Error()
}

var seenErrs []error

func scribble(b []byte) {
	for i := range b {
		b[i] = 0xAA
	}
}

type failReader struct {
	data []byte
	n    int
	done bool
}

var errRead = errors.New("injected read failure")

func (r *failReader) Read(p []byte) (int, error) {
	if r.done {
		return 0, errRead
	}
	r.done = true
	return copy(p, r.data[:r.n]), nil
}

type failWriter struct{ after int }

var errWrite = errors.New("injected write failure")

func (w *failWriter) Write(p []byte) (int, error) {
	if w.after <= 0 {
		return 0, errWrite
	}
	w.after--
	return len(p), nil
}

type badMarshaler struct{}

func (badMarshaler) MarshalJSON() ([]byte, error) { return nil, errors.New("marshal refused") }

type panicSimplifier struct{}

func (panicSimplifier) Simplify() any { panic("simplify refused") }

type sample struct {
	A int
	B string
	C []int
}

func guard(f func() result) (r result) {
	defer func() {
		if p := recover(); p != nil {
			r = result{text: fmt.Sprintf("PANIC: %v", p), abort: true}
		}
	}()
	return f()
}

// parseOp builds an op that parses text through call and checks aliasing.
func parseOp(name, class, text string, call func(inst any, buf []byte) (any, error)) op {
	return op{name: name, class: class, run: func(inst any) result {
		return guard(func() result {
			buf := []byte(text)
			v, err := call(inst, buf)
			before := mach.Canon(v)
			scribble(buf)
			after := mach.Canon(v)
			return result{text: before + " / " + errText(err), watch: []any{v}, alias: before != after, abort: err != nil}
		})
	}}
}

var validDocs = []struct{ class, text string }{
	{"scalar", `17`}, {"array", `[1,"a",true,null]`}, {"object", `{"a":{"b":[1,2]},"c":"x"}`},
	{"big", `[123456789012345678901234,0.5,-3]`}, {"escapes", `["aA\n\"","😀"]`}, {"uescapes", `{"k\u0041":"x\u0041y\u00e9","n":null,"t":true,"f":false}`},
	// past the capacities an instance starts with (maps of 8, stacks of 16, token buffers of 32):
	// what has grown once stays with the instance
	{"wide", `{"k0":0,"k1":1,"k2":2,"k3":3,"k4":4,"k5":5,"k6":6,"k7":7,"k8":8}`},
	{"deep", strings.Repeat(`[{"a":`, 9) + `["0123456789abcdefghijklmnopqrstuvwxyz\n0123456789",1]` + strings.Repeat(`}]`, 9)},
}

var invalidDocs = []struct{ class, text string }{
	{"in-string", `["abc`}, {"in-uescape", `["\u00`}, {"in-number", `[-`}, {"in-frac", `[1.5e`}, {"key-pending", `{"a"`},
	{"after-colon", `{"a":`}, {"after-comma", "[1,\n"}, {"in-literal", `[tru`}, {"bad-char", "[1,\n  x]"}, {"extra", `1 2`}, {"deep-open", `[[{"a":[`},
	{"deeper-open", strings.Repeat(`[{"a":`, 9) + `["0123456789abcdefghijklmnopqrstuvwxyz\n01234`},
}

// ------------------------------------------------------------------ kinds

func kinds() []*kind {
	ks := []*kind{ojParser(), ojValidator(), ojTokenizer(), genParser(), senParser(), senTokenizer(), ojWriter(), senWriter(), prettyWriter(), pooledOj(), pooledSen()}
	// the parsers again from another initial state: an instance created with Reuse
	// set (histories that need Reuse on first are one call shorter from there)
	for _, k := range []*kind{ojParser(), genParser(), senParser()} {
		base := k.fresh
		k.name += "{Reuse:true}"
		k.fresh = func(like any) any {
			inst := base(like)
			if like == nil {
				reflect.ValueOf(inst).Elem().FieldByName("Reuse").SetBool(true)
			}
			return inst
		}
		ks = append(ks, k)
	}
	return ks
}

func ojParser() *kind {
	k := &kind{name: "oj.Parser", fresh: func(like any) any {
		p := &oj.Parser{}
		if l, ok := like.(*oj.Parser); ok {
			p.Reuse = l.Reuse
		}
		return p
	}}
	P := func(inst any) *oj.Parser { return inst.(*oj.Parser) }
	for _, d := range validDocs {
		d := d
		k.ops = append(k.ops, parseOp("Parse:"+d.class, "valid", d.text, func(i any, b []byte) (any, error) { return P(i).Parse(b) }))
	}
	k.ops = append(k.ops, parseOp("ParseReader:object", "valid", validDocs[2].text, func(i any, b []byte) (any, error) { return P(i).ParseReader(bytes.NewReader(b)) }))
	// every per-call option has its own reset in the reader entry point: the
	// document on which the option shows, read through the reader with and without it
	k.ops = append(k.ops,
		parseOp("ParseReader:big", "valid", validDocs[3].text, func(i any, b []byte) (any, error) { return P(i).ParseReader(bytes.NewReader(b)) }),
		parseOp("ParseReader:numconv-string", "config", validDocs[3].text, func(i any, b []byte) (any, error) {
			return P(i).ParseReader(bytes.NewReader(b), ojg.NumConvString)
		}))
	for _, d := range invalidDocs {
		d := d
		k.ops = append(k.ops, parseOp("Parse:"+d.class, "invalid", d.text, func(i any, b []byte) (any, error) { return P(i).Parse(b) }))
	}
	k.ops = append(k.ops,
		parseOp("ParseReader:read-fails", "aborted", `{"a":[1,2,`, func(i any, b []byte) (any, error) { return P(i).ParseReader(&failReader{data: b, n: len(b)}) }),
		parseOp("Parse:multi-chan", "config", `{"a":1} {"b":{"c":[2]}}`, func(i any, b []byte) (any, error) {
			ch := make(chan any, 8)
			_, err := P(i).Parse(b, ch)
			close(ch)
			var docs []any
			for v := range ch {
				docs = append(docs, v)
			}
			return docs, err
		}),
		parseOp("Parse:multi-callback", "config", `1 [2] {"a":3}`, func(i any, b []byte) (any, error) {
			var docs []any
			_, err := P(i).Parse(b, func(v any) { docs = append(docs, v) })
			return docs, err
		}),
		parseOp("Parse:multi-callback-bool-invalid", "config", `1 [2 x`, func(i any, b []byte) (any, error) {
			var docs []any
			_, err := P(i).Parse(b, func(v any) bool { docs = append(docs, v); return false })
			return docs, err
		}),
		parseOp("Parse:multi-chan", "config", `1 [2]`, func(i any, b []byte) (any, error) {
			ch := make(chan any, 8)
			_, err := P(i).Parse(b, ch)
			close(ch)
			var docs []any
			for v := range ch {
				docs = append(docs, v)
			}
			return docs, err
		}),
		parseOp("Parse:numconv-float", "config", validDocs[3].text, func(i any, b []byte) (any, error) { return P(i).Parse(b, ojg.NumConvFloat64) }),
		parseOp("Parse:numconv-string", "config", validDocs[3].text, func(i any, b []byte) (any, error) { return P(i).Parse(b, ojg.NumConvString) }),
		parseOp("Parse:bad-option", "aborted", `[1]`, func(i any, b []byte) (any, error) { return P(i).Parse(b, 5) }),
		parseOp("Unmarshal:struct", "config", `{"a":3,"b":"x","c":[1,2]}`, func(i any, b []byte) (any, error) {
			var s sample
			err := P(i).Unmarshal(b, &s)
			return fmt.Sprintf("%+v", s), err
		}),
		// every entry point also on malformed text: its error path has to put back what it changed
		parseOp("Unmarshal:malformed", "invalid", `{"a":3,"b":`, func(i any, b []byte) (any, error) {
			var s sample
			err := P(i).Unmarshal(b, &s)
			return fmt.Sprintf("%+v", s), err
		}),
		parseOp("Unmarshal:wrong-type", "invalid", `{"a":"not a number"}`, func(i any, b []byte) (any, error) {
			var s sample
			err := P(i).Unmarshal(b, &s)
			return fmt.Sprintf("%+v", s), err
		}),
		op{name: "set:Reuse=true", class: "config", run: func(i any) result { P(i).Reuse = true; return result{text: "ok"} }},
		op{name: "set:Reuse=false", class: "config", run: func(i any) result { P(i).Reuse = false; return result{text: "ok"} }},
	)
	return k
}

func ojValidator() *kind {
	k := &kind{name: "oj.Validator", fresh: func(like any) any {
		p := &oj.Validator{OnlyOne: true}
		if l, ok := like.(*oj.Validator); ok {
			p.OnlyOne = l.OnlyOne
		}
		return p
	}}
	V := func(inst any) *oj.Validator { return inst.(*oj.Validator) }
	call := func(i any, b []byte) (any, error) { return nil, V(i).Validate(b) }
	for _, d := range validDocs {
		k.ops = append(k.ops, parseOp("Validate:"+d.class, "valid", d.text, call))
	}
	for _, d := range invalidDocs {
		k.ops = append(k.ops, parseOp("Validate:"+d.class, "invalid", d.text, call))
	}
	k.ops = append(k.ops,
		parseOp("ValidateReader:object", "valid", validDocs[2].text, func(i any, b []byte) (any, error) { return nil, V(i).ValidateReader(bytes.NewReader(b)) }),
		parseOp("ValidateReader:bad-char", "invalid", "[1,\n  x]", func(i any, b []byte) (any, error) { return nil, V(i).ValidateReader(bytes.NewReader(b)) }),
		parseOp("ValidateReader:read-fails", "aborted", `{"a":[1,2,`, func(i any, b []byte) (any, error) {
			return nil, V(i).ValidateReader(&failReader{data: b, n: len(b)})
		}),
		op{name: "set:OnlyOne=false", class: "config", run: func(i any) result { V(i).OnlyOne = false; return result{text: "ok"} }},
		op{name: "set:OnlyOne=true", class: "config", run: func(i any) result { V(i).OnlyOne = true; return result{text: "ok"} }},
	)
	return k
}

func tokCall(parse func(b []byte, h oj.TokenHandler) error) func(i any, b []byte) (any, error) {
	return func(i any, b []byte) (any, error) {
		rec := &mach.Rec{}
		err := parse(b, rec)
		return strings.Join(rec.Events, " "), err
	}
}

func ojTokenizer() *kind {
	k := &kind{name: "oj.Tokenizer", fresh: func(like any) any {
		t := &oj.Tokenizer{}
		t.OnlyOne = true
		if l, ok := like.(*oj.Tokenizer); ok {
			t.OnlyOne = l.OnlyOne
		}
		return t
	}}
	T := func(inst any) *oj.Tokenizer { return inst.(*oj.Tokenizer) }
	for _, d := range validDocs {
		k.ops = append(k.ops, parseOp("Parse:"+d.class, "valid", d.text, func(i any, b []byte) (any, error) { return tokCall(T(i).Parse)(i, b) }))
	}
	for _, d := range invalidDocs {
		k.ops = append(k.ops, parseOp("Parse:"+d.class, "invalid", d.text, func(i any, b []byte) (any, error) { return tokCall(T(i).Parse)(i, b) }))
	}
	k.ops = append(k.ops,
		parseOp("Load:object", "valid", validDocs[2].text, func(i any, b []byte) (any, error) {
			return tokCall(func(b []byte, h oj.TokenHandler) error { return T(i).Load(bytes.NewReader(b), h) })(i, b)
		}),
		parseOp("Load:read-fails", "aborted", `{"a":[1,2,`, func(i any, b []byte) (any, error) {
			return tokCall(func(b []byte, h oj.TokenHandler) error { return T(i).Load(&failReader{data: b, n: len(b)}, h) })(i, b)
		}),
		op{name: "set:OnlyOne=false", class: "config", run: func(i any) result { T(i).OnlyOne = false; return result{text: "ok"} }},
		op{name: "set:OnlyOne=true", class: "config", run: func(i any) result { T(i).OnlyOne = true; return result{text: "ok"} }},
	)
	return k
}

func genParser() *kind {
	k := &kind{name: "gen.Parser", fresh: func(like any) any {
		p := &gen.Parser{}
		if l, ok := like.(*gen.Parser); ok {
			p.Reuse = l.Reuse
		}
		return p
	}}
	P := func(inst any) *gen.Parser { return inst.(*gen.Parser) }
	parse := func(i any, b []byte) (any, error) {
		n, err := P(i).Parse(b)
		if n == nil {
			return nil, err
		}
		return n, err
	}
	for _, d := range validDocs {
		k.ops = append(k.ops, parseOp("Parse:"+d.class, "valid", d.text, parse))
	}
	for _, d := range invalidDocs {
		k.ops = append(k.ops, parseOp("Parse:"+d.class, "invalid", d.text, parse))
	}
	k.ops = append(k.ops,
		parseOp("ParseReader:object", "valid", validDocs[2].text, func(i any, b []byte) (any, error) {
			n, err := P(i).ParseReader(bytes.NewReader(b))
			if n == nil {
				return nil, err
			}
			return n, err
		}),
		parseOp("ParseReader:big", "valid", validDocs[3].text, func(i any, b []byte) (any, error) {
			n, err := P(i).ParseReader(bytes.NewReader(b))
			if n == nil {
				return nil, err
			}
			return n, err
		}),
		parseOp("ParseReader:read-fails", "aborted", `{"a":[1,2,`, func(i any, b []byte) (any, error) {
			n, err := P(i).ParseReader(&failReader{data: b, n: len(b)})
			if n == nil {
				return nil, err
			}
			return n, err
		}),
		parseOp("Parse:multi-chan", "config", `{"a":1} {"b":{"c":[2]}}`, func(i any, b []byte) (any, error) {
			ch := make(chan gen.Node, 8)
			_, err := P(i).Parse(b, ch)
			close(ch)
			var docs []any
			for v := range ch {
				docs = append(docs, v)
			}
			return docs, err
		}),
		parseOp("Parse:multi-callback", "config", `1 [2] {"a":3}`, func(i any, b []byte) (any, error) {
			var docs []any
			_, err := P(i).Parse(b, func(v gen.Node) { docs = append(docs, v) })
			return docs, err
		}),
		parseOp("Parse:bad-option", "aborted", `[1]`, func(i any, b []byte) (any, error) {
			n, err := P(i).Parse(b, 5)
			if n == nil {
				return nil, err
			}
			return n, err
		}),
		op{name: "set:Reuse=true", class: "config", run: func(i any) result { P(i).Reuse = true; return result{text: "ok"} }},
		op{name: "set:Reuse=false", class: "config", run: func(i any) result { P(i).Reuse = false; return result{text: "ok"} }},
	)
	return k
}

var senValid = []struct{ class, text string }{
	{"token", `abc`}, {"array", `[1 a true null]`}, {"object", `{a:{b:[1 2]} c:x}`}, {"json", `{"a":{"b":[1,2]},"c":"x"}`},
	{"big", `[123456789012345678901234 0.5]`}, {"concat", `{a:"x" + "y"}`}, {"single-quote", `['it' "s"]`}, {"comment", "[1 // c\n 2 /* d */ 3]"},
}

var senInvalid = []struct{ class, text string }{
	{"in-string", `["abc`}, {"in-single-quote", `['abc`}, {"in-uescape", `["\u00`}, {"in-number", `[-`}, {"key-pending", `{a`}, {"after-colon", `{a:`},
	{"after-plus", `["x" +`}, {"plus-only", `+`}, {"in-token", `[tru`}, {"in-comment", `[1 /* x`}, {"bad-close", `[1}`}, {"deep-open", `[[{a:[`},
}

func senParser() *kind {
	k := &kind{name: "sen.Parser", fresh: func(like any) any {
		p := &sen.Parser{}
		if l, ok := like.(*sen.Parser); ok {
			p.Reuse = l.Reuse
		}
		// a token function that keeps what it is given (what a parser hands out it must not take back)
		p.AddTokenFunc("list", func(args ...any) any { return args })
		return p
	}}
	P := func(inst any) *sen.Parser { return inst.(*sen.Parser) }
	k.ops = append(k.ops,
		parseOp("Parse:token-function", "valid", `[list(1 2 3) x]`, func(i any, b []byte) (any, error) { return P(i).Parse(b) }),
		parseOp("ParseReader:token-function", "valid", `list(1 [2] "s")`, func(i any, b []byte) (any, error) { return P(i).ParseReader(bytes.NewReader(b)) }))
	for _, d := range senValid {
		k.ops = append(k.ops, parseOp("Parse:"+d.class, "valid", d.text, func(i any, b []byte) (any, error) { return P(i).Parse(b) }))
	}
	for _, d := range senInvalid {
		k.ops = append(k.ops, parseOp("Parse:"+d.class, "invalid", d.text, func(i any, b []byte) (any, error) { return P(i).Parse(b) }))
	}
	k.ops = append(k.ops,
		parseOp("ParseReader:object", "valid", senValid[2].text, func(i any, b []byte) (any, error) { return P(i).ParseReader(bytes.NewReader(b)) }),
		parseOp("ParseReader:big", "valid", senValid[4].text, func(i any, b []byte) (any, error) { return P(i).ParseReader(bytes.NewReader(b)) }),
		parseOp("ParseReader:numconv-string", "config", senValid[4].text, func(i any, b []byte) (any, error) {
			return P(i).ParseReader(bytes.NewReader(b), ojg.NumConvString)
		}),
		parseOp("ParseReader:concat", "valid", senValid[5].text, func(i any, b []byte) (any, error) { return P(i).ParseReader(bytes.NewReader(b)) }),
		parseOp("ParseReader:read-fails", "aborted", `{a:[1 2 "x" +`, func(i any, b []byte) (any, error) { return P(i).ParseReader(&failReader{data: b, n: len(b)}) }),
		parseOp("Parse:multi-chan", "config", `{a:1} {b:{c:[2]}}`, func(i any, b []byte) (any, error) {
			ch := make(chan any, 8)
			_, err := P(i).Parse(b, ch)
			close(ch)
			var docs []any
			for v := range ch {
				docs = append(docs, v)
			}
			return docs, err
		}),
		parseOp("Parse:multi-callback", "config", `1 [2] {a:3}`, func(i any, b []byte) (any, error) {
			var docs []any
			_, err := P(i).Parse(b, func(v any) { docs = append(docs, v) })
			return docs, err
		}),
		parseOp("Parse:numconv-string", "config", senValid[4].text, func(i any, b []byte) (any, error) { return P(i).Parse(b, ojg.NumConvString) }),
		parseOp("Unmarshal:struct", "config", `{a:3 b:x c:[1 2]}`, func(i any, b []byte) (any, error) {
			var s sample
			err := P(i).Unmarshal(b, &s)
			return fmt.Sprintf("%+v", s), err
		}),
		parseOp("Unmarshal:malformed", "invalid", `{a:3 b:`, func(i any, b []byte) (any, error) {
			var s sample
			err := P(i).Unmarshal(b, &s)
			return fmt.Sprintf("%+v", s), err
		}),
		op{name: "set:Reuse=true", class: "config", run: func(i any) result { P(i).Reuse = true; return result{text: "ok"} }},
		op{name: "set:Reuse=false", class: "config", run: func(i any) result { P(i).Reuse = false; return result{text: "ok"} }},
	)
	return k
}

func senTokenizer() *kind {
	k := &kind{name: "sen.Tokenizer", fresh: func(like any) any {
		t := &sen.Tokenizer{OnlyOne: true}
		if l, ok := like.(*sen.Tokenizer); ok {
			t.OnlyOne = l.OnlyOne
		}
		return t
	}}
	T := func(inst any) *sen.Tokenizer { return inst.(*sen.Tokenizer) }
	for _, d := range senValid {
		k.ops = append(k.ops, parseOp("Parse:"+d.class, "valid", d.text, func(i any, b []byte) (any, error) { return tokCall(T(i).Parse)(i, b) }))
	}
	for _, d := range senInvalid {
		k.ops = append(k.ops, parseOp("Parse:"+d.class, "invalid", d.text, func(i any, b []byte) (any, error) { return tokCall(T(i).Parse)(i, b) }))
	}
	k.ops = append(k.ops,
		parseOp("Load:object", "valid", senValid[2].text, func(i any, b []byte) (any, error) {
			return tokCall(func(b []byte, h oj.TokenHandler) error { return T(i).Load(bytes.NewReader(b), h) })(i, b)
		}),
		parseOp("Load:read-fails", "aborted", `{a:[1 2 `, func(i any, b []byte) (any, error) {
			return tokCall(func(b []byte, h oj.TokenHandler) error { return T(i).Load(&failReader{data: b, n: len(b)}, h) })(i, b)
		}),
		op{name: "set:OnlyOne=false", class: "config", run: func(i any) result { T(i).OnlyOne = false; return result{text: "ok"} }},
	)
	return k
}

// values written by the writer ops
func writeValues() []struct {
	class string
	v     any
} {
	return []struct {
		class string
		v     any
	}{
		{"scalar", 17}, {"nil-slice", []any(nil)}, {"array", []any{1, "a<b", nil, true}}, {"object", map[string]any{"b": []any{1.5, nil, map[string]any{"a": map[string]any{}}, ""}}},
		{"struct", &sample{A: 1, B: "x"}}, {"long", strings.Repeat("abcdefghij", 40)}, {"gen", gen.Object{"x": gen.Array{gen.Int(1), nil}}},
	}
}

func failing() []struct {
	class string
	v     any
} {
	return []struct {
		class string
		v     any
	}{{"bad-marshaler", []any{1, badMarshaler{}, 2}}, {"panic-simplifier", []any{map[string]any{"a": 1}, panicSimplifier{}}}, {"chan", []any{"x", make(chan int)}}}
}

func ojWriter() *kind {
	k := &kind{name: "oj.Writer", fresh: func(like any) any {
		w := &oj.Writer{Options: ojg.DefaultOptions}
		if l, ok := like.(*oj.Writer); ok {
			w.Options = l.Options
		}
		return w
	}}
	W := func(inst any) *oj.Writer { return inst.(*oj.Writer) }
	for _, v := range append(writeValues(), failing()...) {
		v := v
		k.ops = append(k.ops,
			op{name: "JSON:" + v.class, class: "write", run: func(i any) result {
				return guard(func() result { s := W(i).JSON(v.v); return result{text: s, watch: []any{s}, abort: s == ""} })
			}},
		)
	}
	for _, v := range []int{2, 3, 5} {
		v := writeValues()[v]
		k.ops = append(k.ops, op{name: "Write:" + v.class, class: "write", run: func(i any) result {
			return guard(func() result {
				var b bytes.Buffer
				err := W(i).Write(&b, v.v)
				return result{text: b.String() + " / " + errText(err), abort: err != nil}
			})
		}})
	}
	k.ops = append(k.ops,
		op{name: "Write:writer-fails", class: "aborted", run: func(i any) result {
			return guard(func() result {
				err := W(i).Write(&failWriter{}, writeValues()[5].v)
				return result{text: errText(err), abort: true}
			})
		}},
		op{name: "MustJSON:bad-marshaler", class: "aborted", run: func(i any) result {
			return guard(func() result { return result{text: string(W(i).MustJSON(failing()[0].v))} })
		}},
		op{name: "Marshal(v,wr):object", class: "config", run: func(i any) result {
			return guard(func() result {
				out, err := oj.Marshal(writeValues()[3].v, W(i))
				return result{text: string(out) + " / " + errText(err), watch: []any{out}}
			})
		}},
		op{name: "Marshal(v,wr):chan", class: "aborted", run: func(i any) result {
			return guard(func() result {
				out, err := oj.Marshal(failing()[2].v, W(i))
				return result{text: string(out) + " / " + errText(err), abort: true}
			})
		}},
		op{name: "JSON(v,wr):array", class: "config", run: func(i any) result {
			return guard(func() result { s := oj.JSON(writeValues()[2].v, W(i)); return result{text: s, watch: []any{s}} })
		}},
		// one option at a time (what a writer derives from its options must follow each of them)
		op{name: "set:Sort", class: "config", run: func(i any) result { W(i).Sort = true; return result{text: "ok"} }},
		op{name: "set:Indent=2", class: "config", run: func(i any) result { W(i).Indent = 2; return result{text: "ok"} }},
		op{name: "set:Tab", class: "config", run: func(i any) result { W(i).Tab = true; return result{text: "ok"} }},
		op{name: "set:Indent=0,OmitNil", class: "config", run: func(i any) result { W(i).Indent, W(i).OmitNil = 0, true; return result{text: "ok"} }},
		op{name: "set:WriteLimit=8", class: "config", run: func(i any) result { W(i).WriteLimit = 8; return result{text: "ok"} }},
		// an object with two members: its text is fixed only when Sort is set (otherwise the members are compared as a set)
		op{name: "JSON:two-members", class: "write", run: func(i any) result {
			return guard(func() result { return result{text: membersText(W(i).JSON(twoMembers()), W(i).Sort)} })
		}},
		op{name: "Write:two-members", class: "write", run: func(i any) result {
			return guard(func() result {
				var b bytes.Buffer
				err := W(i).Write(&b, twoMembers())
				return result{text: membersText(b.String(), W(i).Sort) + " / " + errText(err), abort: err != nil}
			})
		}},
	)
	return k
}

func twoMembers() any { return map[string]any{"b": 1, "a": []any{map[string]any{"d": true, "c": nil}}} }

// membersText is the text itself when the writer sorts, else the text with its
// lines and members put in order (map order is not fixed without Sort).
func membersText(s string, sorted bool) string {
	if sorted {
		return s
	}
	b := []byte(s)
	sort.Slice(b, func(i, j int) bool { return b[i] < b[j] })
	return "unsorted:" + string(b)
}

func senWriter() *kind {
	k := &kind{name: "sen.Writer", fresh: func(like any) any {
		w := &sen.Writer{Options: ojg.DefaultOptions}
		if l, ok := like.(*sen.Writer); ok {
			w.Options = l.Options
		}
		return w
	}}
	W := func(inst any) *sen.Writer { return inst.(*sen.Writer) }
	for _, v := range append(writeValues(), failing()...) {
		v := v
		k.ops = append(k.ops, op{name: "SEN:" + v.class, class: "write", run: func(i any) result {
			return guard(func() result { s := W(i).SEN(v.v); return result{text: s, watch: []any{s}, abort: s == ""} })
		}})
	}
	for _, v := range []int{2, 3} {
		v := writeValues()[v]
		k.ops = append(k.ops, op{name: "Write:" + v.class, class: "write", run: func(i any) result {
			return guard(func() result {
				var b bytes.Buffer
				err := W(i).Write(&b, v.v)
				return result{text: b.String() + " / " + errText(err), abort: err != nil}
			})
		}})
	}
	k.ops = append(k.ops,
		op{name: "Write:writer-fails", class: "aborted", run: func(i any) result {
			return guard(func() result {
				err := W(i).Write(&failWriter{}, writeValues()[5].v)
				return result{text: errText(err), abort: true}
			})
		}},
		op{name: "String(v,wr):array", class: "config", run: func(i any) result {
			return guard(func() result { s := sen.String(writeValues()[2].v, W(i)); return result{text: s, watch: []any{s}} })
		}},
		op{name: "set:Sort", class: "config", run: func(i any) result { W(i).Sort = true; return result{text: "ok"} }},
		op{name: "set:Indent=2", class: "config", run: func(i any) result { W(i).Indent = 2; return result{text: "ok"} }},
		op{name: "set:Tab", class: "config", run: func(i any) result { W(i).Tab = true; return result{text: "ok"} }},
		op{name: "set:Indent=0,OmitNil", class: "config", run: func(i any) result { W(i).Indent, W(i).OmitNil = 0, true; return result{text: "ok"} }},
		op{name: "set:WriteLimit=8", class: "config", run: func(i any) result { W(i).WriteLimit = 8; return result{text: "ok"} }},
		op{name: "SEN:two-members", class: "write", run: func(i any) result {
			return guard(func() result { return result{text: membersText(W(i).SEN(twoMembers()), W(i).Sort)} })
		}},
		op{name: "Write:two-members", class: "write", run: func(i any) result {
			return guard(func() result {
				var b bytes.Buffer
				err := W(i).Write(&b, twoMembers())
				return result{text: membersText(b.String(), W(i).Sort) + " / " + errText(err), abort: err != nil}
			})
		}},
	)
	return k
}

func prettyWriter() *kind {
	k := &kind{name: "pretty.Writer", fresh: func(like any) any {
		w := &pretty.Writer{Options: ojg.DefaultOptions, Width: 40, MaxDepth: 3}
		if l, ok := like.(*pretty.Writer); ok {
			w.Options, w.Width, w.MaxDepth, w.Align, w.SEN = l.Options, l.Width, l.MaxDepth, l.Align, l.SEN
		}
		return w
	}}
	W := func(inst any) *pretty.Writer { return inst.(*pretty.Writer) }
	for _, v := range append(writeValues(), failing()...) {
		v := v
		k.ops = append(k.ops,
			op{name: "Encode:" + v.class, class: "write", run: func(i any) result {
				return guard(func() result { s := string(W(i).Encode(v.v)); return result{text: s, abort: s == ""} })
			}},
		)
	}
	for _, v := range []int{2, 3} {
		v := writeValues()[v]
		k.ops = append(k.ops,
			op{name: "Marshal:" + v.class, class: "write", run: func(i any) result {
				return guard(func() result {
					out, err := W(i).Marshal(v.v)
					return result{text: string(out) + " / " + errText(err), watch: []any{out}, abort: err != nil}
				})
			}},
			op{name: "Write:" + v.class, class: "write", run: func(i any) result {
				return guard(func() result {
					var b bytes.Buffer
					err := W(i).Write(&b, v.v)
					return result{text: b.String() + " / " + errText(err), abort: err != nil}
				})
			}},
		)
	}
	k.ops = append(k.ops,
		op{name: "Write:writer-fails", class: "aborted", run: func(i any) result {
			return guard(func() result {
				err := W(i).Write(&failWriter{}, writeValues()[5].v)
				return result{text: errText(err), abort: true}
			})
		}},
		op{name: "set:SEN,Align", class: "config", run: func(i any) result { W(i).SEN, W(i).Align = true, true; return result{text: "ok"} }},
		op{name: "set:Width=10", class: "config", run: func(i any) result { W(i).Width = 10; return result{text: "ok"} }},
	)
	return k
}

// pooled package-level functions: inst is unused; "fresh" means "pools emptied"
func pooledOj() *kind {
	k := &kind{name: "oj.pooled", pooled: true, fresh: func(any) any { return nil }}
	for _, d := range validDocs {
		k.ops = append(k.ops, parseOp("Parse:"+d.class, "valid", d.text, func(_ any, b []byte) (any, error) { return oj.Parse(b) }))
	}
	for _, d := range invalidDocs {
		k.ops = append(k.ops, parseOp("Parse:"+d.class, "invalid", d.text, func(_ any, b []byte) (any, error) { return oj.Parse(b) }))
	}
	k.ops = append(k.ops,
		parseOp("Load:object", "valid", validDocs[2].text, func(_ any, b []byte) (any, error) { return oj.Load(bytes.NewReader(b)) }),
		parseOp("Load:big", "valid", validDocs[3].text, func(_ any, b []byte) (any, error) { return oj.Load(bytes.NewReader(b)) }),
		parseOp("Load:numconv-string", "config", validDocs[3].text, func(_ any, b []byte) (any, error) { return oj.Load(bytes.NewReader(b), ojg.NumConvString) }),
		parseOp("Load:read-fails", "aborted", `{"a":[1,2,`, func(_ any, b []byte) (any, error) { return oj.Load(&failReader{data: b, n: len(b)}) }),
		parseOp("Parse:multi-callback", "config", `1 [2] {"a":3}`, func(_ any, b []byte) (any, error) {
			var docs []any
			_, err := oj.Parse(b, func(v any) { docs = append(docs, v) })
			return docs, err
		}),
		parseOp("Parse:numconv-string", "config", validDocs[3].text, func(_ any, b []byte) (any, error) { return oj.Parse(b, ojg.NumConvString) }),
		parseOp("Parse:bad-option", "aborted", `[1]`, func(_ any, b []byte) (any, error) { return oj.Parse(b, 5) }),
		parseOp("Unmarshal:struct", "config", `{"a":3,"b":"x","c":[1,2]}`, func(_ any, b []byte) (any, error) {
			var s sample
			err := oj.Unmarshal(b, &s)
			return fmt.Sprintf("%+v", s), err
		}),
		parseOp("Unmarshal:malformed", "invalid", `{"a":3,"b":`, func(_ any, b []byte) (any, error) {
			var s sample
			err := oj.Unmarshal(b, &s)
			return fmt.Sprintf("%+v", s), err
		}),
	)
	for _, v := range append(writeValues(), failing()...) {
		v := v
		k.ops = append(k.ops,
			op{name: "JSON:" + v.class, class: "write", run: func(any) result {
				return guard(func() result { s := oj.JSON(v.v); return result{text: s, watch: []any{s}, abort: s == ""} })
			}},
			op{name: "Marshal:" + v.class, class: "write", run: func(any) result {
				return guard(func() result {
					out, err := oj.Marshal(v.v)
					return result{text: string(out) + " / " + errText(err), watch: []any{out}, abort: err != nil}
				})
			}},
		)
	}
	k.ops = append(k.ops,
		op{name: "Write:object", class: "write", run: func(any) result {
			return guard(func() result {
				var b bytes.Buffer
				err := oj.Write(&b, writeValues()[3].v)
				return result{text: b.String() + " / " + errText(err)}
			})
		}},
		op{name: "Write:writer-fails", class: "aborted", run: func(any) result {
			return guard(func() result { return result{text: errText(oj.Write(&failWriter{}, writeValues()[5].v)), abort: true} })
		}},
	)
	return k
}

func pooledSen() *kind {
	k := &kind{name: "sen.pooled", pooled: true, fresh: func(any) any { return nil }}
	for _, d := range senValid {
		k.ops = append(k.ops, parseOp("Parse:"+d.class, "valid", d.text, func(_ any, b []byte) (any, error) { return sen.Parse(b) }))
	}
	for _, d := range senInvalid {
		k.ops = append(k.ops, parseOp("Parse:"+d.class, "invalid", d.text, func(_ any, b []byte) (any, error) { return sen.Parse(b) }))
	}
	k.ops = append(k.ops,
		parseOp("ParseReader:object", "valid", senValid[2].text, func(_ any, b []byte) (any, error) { return sen.ParseReader(bytes.NewReader(b)) }),
		parseOp("ParseReader:big", "valid", senValid[4].text, func(_ any, b []byte) (any, error) { return sen.ParseReader(bytes.NewReader(b)) }),
		parseOp("ParseReader:numconv-string", "config", senValid[4].text, func(_ any, b []byte) (any, error) { return sen.ParseReader(bytes.NewReader(b), ojg.NumConvString) }),
		parseOp("Parse:numconv-string", "config", senValid[4].text, func(_ any, b []byte) (any, error) { return sen.Parse(b, ojg.NumConvString) }),
		parseOp("ParseReader:read-fails", "aborted", `{a:[1 2 "x" +`, func(_ any, b []byte) (any, error) { return sen.ParseReader(&failReader{data: b, n: len(b)}) }),
		parseOp("Unmarshal:struct", "config", `{a:3 b:x c:[1 2]}`, func(_ any, b []byte) (any, error) {
			var s sample
			err := sen.Unmarshal(b, &s)
			return fmt.Sprintf("%+v", s), err
		}),
		parseOp("Unmarshal:malformed", "invalid", `{a:3 b:`, func(_ any, b []byte) (any, error) {
			var s sample
			err := sen.Unmarshal(b, &s)
			return fmt.Sprintf("%+v", s), err
		}),
	)
	for _, v := range append(writeValues(), failing()...) {
		v := v
		k.ops = append(k.ops,
			op{name: "String:" + v.class, class: "write", run: func(any) result {
				return guard(func() result { s := sen.String(v.v); return result{text: s, watch: []any{s}, abort: s == ""} })
			}},
			op{name: "Bytes:" + v.class, class: "write", run: func(any) result {
				return guard(func() result { b := sen.Bytes(v.v); return result{text: string(b)} }) // documented: the buffer is reused by the next write
			}},
		)
	}
	k.ops = append(k.ops,
		op{name: "Write:object", class: "write", run: func(any) result {
			return guard(func() result {
				var b bytes.Buffer
				err := sen.Write(&b, writeValues()[3].v)
				return result{text: b.String() + " / " + errText(err)}
			})
		}},
		op{name: "Write:writer-fails", class: "aborted", run: func(any) result {
			return guard(func() result { return result{text: errText(sen.Write(&failWriter{}, writeValues()[5].v)), abort: true} })
		}},
	)
	return k
}

// ------------------------------------------------------------------ search

type caseT struct {
	Kind string   `json:"kind"`
	Ops  []string `json:"ops"`
}

func flushPools() {
	runtime.GC()
	runtime.GC()
}

func watchText(vs []any) string {
	var b strings.Builder
	for _, v := range vs {
		switch t := v.(type) {
		case []byte:
			b.WriteString(string(t))
		case string:
			b.WriteString(t)
		case error:
			b.WriteString("error: " + t.Error() + " " + snap.DumpValue(reflect.ValueOf(t)))
		default:
			b.WriteString(mach.Canon(v))
		}
		b.WriteByte(0)
	}
	return b.String()
}

// exec runs the sequence on one instance and judges its last call.
func exec(c *core.Ctx, k *kind, seq []int, states map[string]struct{}) {
	if k.pooled {
		flushPools()
	}
	inst := k.fresh(nil)
	type held struct {
		vs    []any
		text  string
		from  string
		reuse bool
	}
	var earlier []held
	names := make([]string, len(seq))
	for i, oi := range seq {
		names[i] = k.ops[oi].name
	}
	nontrivial := false
	for i, oi := range seq {
		o := k.ops[oi]
		last := i == len(seq)-1
		var like any
		if last && !k.pooled {
			like = k.fresh(inst) // configuration as it is before the call
		}
		reuseSet := snap.Bool(inst, "Reuse")
		seenErrs = nil
		r := o.run(inst)
		for _, e := range seenErrs {
			r.watch = append(r.watch, e)
		}
		// (the channel form switches Reuse off for the call: what it delivers is not exempt)
		reuseSet = reuseSet && snap.Bool(inst, "Reuse")
		c.Add("transitions", 1)
		c.Eval()
		if !last && (r.abort || o.class == "config") {
			nontrivial = true
		}
		cs := caseT{Kind: k.name, Ops: names[:i+1]}
		if r.alias {
			c.Fail(core.Sig("kind="+k.name, "aliases-input", "call="+o.name), cs, len(seq)*100, "returned value independent of the input buffer", "value changed when the input buffer was overwritten")
		}
		// earlier returned values must be unchanged
		for _, h := range earlier {
			if h.reuse {
				continue
			}
			if now := watchText(h.vs); now != h.text {
				c.Fail(core.Sig("kind="+k.name, "returned-value-mutated", "returned-by="+family(h.from), "mutated-by="+family(o.name)), cs, len(seq)*100+i, h.text, now)
			}
		}
		if len(r.watch) > 0 {
			earlier = append(earlier, held{vs: r.watch, text: watchText(r.watch), from: o.name, reuse: reuseSet})
		}
		if states != nil && inst != nil {
			states[snap.DumpSkip(inst, "tmp", "runeBytes", "buf", "maps", "stack", "w", "handler", "cb", "resultChan")] = struct{}{}
		}
		if last {
			var fr result
			if k.pooled {
				flushPools()
				fr = o.run(nil)
			} else {
				fr = o.run(like)
			}
			c.Add("traces_validated_against_impl", 1)
			c.Eval()
			if fr.text != r.text {
				culprit := "after=-"
				if i > 0 {
					culprit = "after=" + k.ops[seq[i-1]].class
				}
				if !k.pooled {
					culprit = "field=" + localise(k, seq, fr.text)
				}
				c.Fail(core.Sig("kind="+k.name, "differs-from-fresh", "call="+o.name, culprit), cs, len(seq)*100+i, fr.text, r.text)
			}
		}
	}
	if nontrivial {
		c.Nontrivial()
	}
}

// localise names the private field that carries the history: the prefix of the
// sequence is replayed on a new instance, and each of its fields in turn is
// transplanted into a fresh instance; the fields whose transplant alone makes
// the last call differ from the fresh result are the culprits.
func localise(k *kind, seq []int, freshText string) string {
	dirty := k.fresh(nil)
	for _, oi := range seq[:len(seq)-1] {
		k.ops[oi].run(dirty)
	}
	dv := reflect.ValueOf(dirty).Elem()
	var culprits []string
	var walk func(t reflect.Type, path []int, prefix string)
	walk = func(t reflect.Type, path []int, prefix string) {
		for fi := 0; fi < t.NumField(); fi++ {
			f := t.Field(fi)
			idx := append(append([]int{}, path...), fi)
			if f.Anonymous && f.Type.Kind() == reflect.Struct && !f.IsExported() {
				walk(f.Type, idx, prefix+f.Name+".")
				continue
			}
			probe := k.fresh(dirty)
			src := dv.FieldByIndex(idx)
			dst := reflect.ValueOf(probe).Elem().FieldByIndex(idx)
			src = reflect.NewAt(src.Type(), unsafe.Pointer(src.UnsafeAddr())).Elem()
			dst = reflect.NewAt(dst.Type(), unsafe.Pointer(dst.UnsafeAddr())).Elem()
			if snap.DumpValue(src) == snap.DumpValue(dst) && f.Type.Kind() != reflect.Func {
				continue
			}
			dst.Set(src)
			if r := k.ops[seq[len(seq)-1]].run(probe); r.text != freshText {
				culprits = append(culprits, prefix+f.Name)
			}
		}
	}
	walk(dv.Type(), nil, "")
	if len(culprits) == 0 {
		return "(no single field)"
	}
	return strings.Join(culprits, "+")
}

// opClass drops the data class of a call name where the family is what matters.
func opClass(name string) string { return name }

// family is the call name without its data class ("Parse:object" -> "Parse").
func family(name string) string {
	if i := strings.IndexByte(name, ':'); i > 0 {
		return name[:i]
	}
	return name
}

func run(c *core.Ctx) {
	ks := kinds()
	k := ks[c.Shard/subShards]
	sub := c.Shard % subShards
	depth := c.Pick(3, 4)
	if k.pooled {
		debug.SetGCPercent(-1) // no spontaneous GC: the pools are emptied only by flushPools
		depth = c.Pick(2, 3)   // every sequence costs four GC cycles to empty the pools
	}
	states := map[string]struct{}{}
	n := len(k.ops)
	var rec func(seq []int) bool
	count := 0
	rec = func(seq []int) bool {
		if len(seq) > 0 {
			exec(c, k, seq, states)
			count++
			if count == 200 {
				names := make([]string, len(seq))
				for i, oi := range seq {
					names[i] = k.ops[oi].name
				}
				c.Sample(map[string]any{"kind": k.name, "history": names})
			}
		}
		if len(seq) == depth {
			return true
		}
		for i := 0; i < n; i++ {
			if len(seq) == 0 && i%subShards != sub {
				continue
			}
			if len(seq) <= 1 && c.Expired("C07 "+k.name) {
				return false
			}
			if !rec(append(seq, i)) {
				return false
			}
		}
		return true
	}
	rec(nil)
	c.Add("states", int64(len(states))+1)
}

func replay(c *core.Ctx, raw json.RawMessage) {
	var cs caseT
	if err := json.Unmarshal(raw, &cs); err != nil {
		c.HarnessError("bad case: %v", err)
		return
	}
	for _, k := range kinds() {
		if k.name != cs.Kind {
			continue
		}
		var seq []int
		for _, name := range cs.Ops {
			found := -1
			for i, o := range k.ops {
				if o.name == name {
					found = i
				}
			}
			if found < 0 {
				c.HarnessError("unknown op %q", name)
				return
			}
			seq = append(seq, found)
		}
		for i := 1; i <= len(seq); i++ {
			exec(c, k, seq[:i], nil)
		}
	}
}

var _ = io.EOF
