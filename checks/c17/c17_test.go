package c17

import (
	"reflect"
	"testing"

	"github.com/ohler55/ojg/jp"

	"verif/internal/gens"
)

func TestScannerAndWriter(t *testing.T) {
	for _, c := range [][2]string{{"json", `{"x":[1,2,{}],"a":{"a":null,"x":true}}`}, {"sen", `[[1 2][2]{x:2}1 {a:1 x:1}]`},
		{"sen", `{x:[1 2 {}] a:{a:null x:true}}`}, {"json", `1`}, {"json", `[]`}, {"sen", `{}`}} {
		form, text := c[0], c[1]
		d, err := newDocFromText(form, text)
		if err != nil {
			t.Fatalf("%s: %v", text, err)
		}
		if got := d.ord.text(form); got != text {
			t.Errorf("%s rendered as %s", text, got)
		}
	}
	d, _ := newDocFromText("json", `{"x":[1,2],"a":3}`)
	if d.ord.keys[0] != "x" || d.byLoc[`."a"`].pos != "\x02" || d.byLoc[`."x"[1]`].pos != "\x01\x02" {
		t.Errorf("member order not taken from the text: %v", d.ord.keys)
	}
	for _, tree := range gens.PathData(3) {
		for _, form := range []string{"json", "sen"} {
			if lib, own := libraryText(form, tree), fromTree(tree, false).text(form); lib != own {
				t.Errorf("%s: library %s, harness %s", form, lib, own)
			}
		}
	}
}

func TestOutermostAndOrder(t *testing.T) {
	got := outermost([]string{"\x02", "\x01\x01"}, []string{"\x01", "\x02\x01", "\x02"})
	if !reflect.DeepEqual(got, []string{"\x01", "\x02"}) {
		t.Errorf("outermost: %q", got)
	}
}

func TestOracleOnKnownCases(t *testing.T) {
	// `$[1:2]` on [10,20,30,40] selects $[1] only; `$[-1]` selects $[3];
	// `$..a` on a nested object reports the outer member only; two targets in
	// a descending-key-order text come in text order.
	for _, c := range []struct {
		doc     string
		targets []gens.JPExpr
		want    string
	}{
		{`[10,20,30,40]`, []gens.JPExpr{{gens.JPSimple("root"), gens.JPSlice(1, 2)}}, `[$[1]=20]`},
		{`[10,20,30,40]`, []gens.JPExpr{{gens.JPSimple("root"), gens.JPNth(-1)}}, `[$[3]=40]`},
		{`{"a":{"a":1},"x":{"a":2}}`, []gens.JPExpr{{gens.JPSimple("root"), gens.JPSimple("desc"), gens.JPChild("a")}}, `[$."a"={"a":1} $."x"."a"=2]`},
		{`{"x":1,"a":[2,3]}`, []gens.JPExpr{{gens.JPSimple("root"), gens.JPChild("a"), gens.JPNth(0)}, {gens.JPSimple("root"), gens.JPChild("x")}, {gens.JPSimple("root"), gens.JPChild("a")}},
			`[$."x"=1 $."a"=[2,3]]`},
	} {
		d, err := newDocFromText("json", c.doc)
		if err != nil {
			t.Fatal(err)
		}
		alts := make([][][]string, len(c.targets))
		for i, x := range c.targets {
			alts[i], _, _ = d.targetAlts(x)
		}
		var seqs [][]*nodeInfo
		for _, s := range expectedSeqs(alts) {
			seqs = append(seqs, d.nodes(s))
		}
		if got := showExp(seqs); got != c.want {
			t.Errorf("%s: expected sequence %s, want %s", c.doc, got, c.want)
		}
	}
}

func TestClassify(t *testing.T) {
	d, _ := newDocFromText("json", `[[1],2]`)
	exp := []*nodeInfo{d.byLoc["[0]"], d.byLoc["[1]"]}
	mk := func(items ...any) *result {
		r := &result{}
		for i := 0; i < len(items); i += 2 {
			r.cbs = append(r.cbs, cb{path: items[i].(jp.Expr), val: items[i+1]})
		}
		return r
	}
	one := []any{int64(1)}
	for _, c := range []struct {
		r    *result
		want []string
	}{
		{mk(jp.R().N(0), one), []string{"missing"}},
		{mk(jp.R().N(0), one, jp.R().N(0), int64(2)), []string{"wrong-path"}},                   // index not advanced
		{mk(jp.R().N(0), one, jp.R().N(1), int64(2), jp.R().N(1), int64(2)), []string{"extra"}}, // reported twice
		{mk(jp.R().N(1), int64(2), jp.R().N(0), one), []string{"order"}},
		{mk(jp.R().N(0), one, jp.R().N(1), int64(3)), []string{"wrong-value"}},
		{mk(jp.R().N(0).N(0), int64(1), jp.R().N(1), int64(2)), []string{"missing"}}, // fragment of the missing $[0]
		{mk(jp.R().N(0), one, jp.R().N(1), int64(2), jp.R().N(0).W(), one), []string{"wrong-path"}},
	} {
		if matches(exp, c.r) {
			t.Errorf("%s accepted", showObs(c.r))
		}
		if got := classify(d, exp, c.r); !reflect.DeepEqual(got, c.want) {
			t.Errorf("%s classified %v, want %v", showObs(c.r), got, c.want)
		}
	}
	if !matches(exp, mk(jp.R().N(0), one, jp.R().N(1), 2.0)) {
		t.Errorf("numbers compare by value")
	}
	// the root swallowing everything is an extra callback, not two missing ones
	if got := classify(d, exp, mk(jp.R(), []any{one, int64(2)})); !reflect.DeepEqual(got, []string{"extra"}) {
		t.Errorf("swallowed: %v", got)
	}
}
