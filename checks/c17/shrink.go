package c17

import (
	"github.com/ohler55/ojg/jp"

	"verif/internal/gens"
	"verif/internal/ref/scriptref"
)

// A failing case is shrunk before it is classified so that one root cause
// gives a handful of signatures: fewer targets, shorter and simpler targets,
// smaller document, as long as the case still shows the same kind of
// discrepancy through the same entry point. The signature is taken from the
// shrunk case and the shrunk case is the recorded witness.

type state struct {
	targets []gens.JPExpr
	ord     *onode
	ex      execSpec
}

func (w *worker) docFor(form string, ord *onode) *docInfo {
	text := ord.text(form)
	key := form + "\x00" + text
	if d, ok := w.docMemo[key]; ok {
		return d
	}
	if len(w.docMemo) > 20000 {
		w.docMemo = map[string]*docInfo{}
	}
	d, err := newDoc(form, text, ord)
	if err != nil {
		w.c.HarnessError("shrinking: %v", err)
		d = nil
	}
	w.docMemo[key] = d
	return d
}

// prepare computes the accepted callback sequences and builds the targets.
func (w *worker) prepare(st state, di *docInfo) (seqs [][]*nodeInfo, xs []jp.Expr, ok bool) {
	defer func() {
		if r := recover(); r != nil {
			w.c.HarnessError("building %v: %v", targetsKey(st.targets), r)
			ok = false
		}
	}()
	alts := make([][][]string, len(st.targets))
	for i, t := range st.targets {
		a, open, err := di.targetAlts(t)
		if err != nil {
			w.c.HarnessError("%v", err)
			return nil, nil, false
		}
		if open {
			return nil, nil, false
		}
		alts[i] = a
	}
	for _, s := range expectedSeqs(alts) {
		seqs = append(seqs, di.nodes(s))
	}
	xs = make([]jp.Expr, len(st.targets))
	for i, t := range st.targets {
		xs[i] = t.Build()
	}
	return seqs, xs, true
}

// kindsOf executes the state (for a split chunking: every split position
// until one fails) and returns the kinds of discrepancy and the split used.
func (w *worker) kindsOf(st state, di *docInfo) (kinds []string) {
	kinds, _ = w.kindsAt(st, di)
	return kinds
}

func (w *worker) kindsAt(st state, di *docInfo) (kinds []string, k int) {
	if di == nil {
		return nil, 0
	}
	seqs, xs, ok := w.prepare(st, di)
	if !ok {
		return nil, 0
	}
	if orderCapable(di, st.targets) {
		if varies, _ := w.repeated(di, xs, seqs, ofRepsShrink); varies {
			return []string{objectFilter}, st.ex.K
		}
	}
	try := func(ex execSpec) []string {
		r := runExecData(ex, di.text, di.data, ex.chunks(len(di.text)), xs)
		w.evals++
		if matchAny(seqs, &r) < 0 {
			return classify(di, seqs[0], &r)
		}
		return nil
	}
	if st.ex.Chunk != "split" {
		return try(st.ex), 0
	}
	for k = 1; k < len(di.text); k++ {
		ex := st.ex
		ex.K = k
		if ks := try(ex); ks != nil {
			return ks, k
		}
	}
	return nil, 0
}

// chunkDep reports whether the observations of the document differ between
// the executions of its text. A difference only counts when both
// executions are each reproducible (a filter walking a Go map is not).
func (w *worker) chunkDep(st state, di *docInfo) bool {
	if di == nil {
		return false
	}
	_, xs, ok := w.prepare(st, di)
	if !ok {
		return false
	}
	var first *result
	var fex execSpec
	for _, ex := range di.execList(2) {
		r := runExecData(ex.execSpec, di.text, di.data, ex.cks, xs)
		w.evals++
		if first == nil {
			rr := r
			first, fex = &rr, ex.execSpec
			continue
		}
		if !sameObs(first, &r) && w.reproducible(fex, di, xs, first) && w.reproducible(ex.execSpec, di, xs, &r) {
			return true
		}
	}
	return false
}

func (w *worker) reproducible(ex execSpec, di *docInfo, xs []jp.Expr, want *result) bool {
	for i := 0; i < 3; i++ {
		r := runExec(ex, di.text, ex.chunks(len(di.text)), xs)
		w.evals++
		if !sameObs(want, &r) {
			return false
		}
	}
	return true
}

func (w *worker) exhibits(st state, kind string) (bool, int) {
	di := w.docFor(st.ex.form(), st.ord)
	if kind == chunkDependent {
		return w.chunkDep(st, di), st.ex.K
	}
	ks, k := w.kindsAt(st, di)
	for _, have := range ks {
		if have == kind {
			return true, k
		}
	}
	return false, 0
}

func (w *worker) minimise(st state, kind string) state {
	key := kind + "|" + st.ex.label() + "|" + targetsKey(st.targets) + "|" + st.ord.text("json")
	if m, ok := w.memo[key]; ok {
		return m
	}
	if len(w.memo) > 300000 {
		w.memo = map[string]state{}
	}
	res := st
	for _, cand := range candidates(st) {
		if ok, k := w.exhibits(cand, kind); ok {
			cand.ex.K = k
			res = w.minimise(cand, kind)
			break
		}
	}
	w.memo[key] = res
	return res
}

var (
	leaf1 = &onode{kind: 'l', leaf: int64(1)}
	leaf2 = &onode{kind: 'l', leaf: int64(2)}
)

func (o *onode) withKid(i int, k *onode) *onode {
	n := &onode{kind: o.kind, keys: o.keys, kids: append([]*onode{}, o.kids...)}
	n.kids[i] = k
	return n
}

func (o *onode) withoutKid(i int) *onode {
	n := &onode{kind: o.kind}
	for j, k := range o.kids {
		if j == i {
			continue
		}
		n.kids = append(n.kids, k)
		if o.kind == 'o' {
			n.keys = append(n.keys, o.keys[j])
		}
	}
	return n
}

// edits lists every tree obtained by one reduction inside o: a member
// deleted, a member replaced by the leaf 1, or an edit further down.
func edits(o *onode) []*onode {
	var out []*onode
	for i, k := range o.kids {
		out = append(out, o.withoutKid(i))
		if !(k.kind == 'l' && k.leaf == int64(1)) {
			out = append(out, o.withKid(i, leaf1))
		}
		if k.kind != 'l' {
			out = append(out, o.withKid(i, leaf2))
		}
		for _, v := range edits(k) {
			out = append(out, o.withKid(i, v))
		}
	}
	return out
}

func dropFrag(t gens.JPExpr, j int) gens.JPExpr {
	out := make(gens.JPExpr, 0, len(t)-1)
	out = append(out, t[:j]...)
	return append(out, t[j+1:]...)
}

func withFrag(t gens.JPExpr, j int, f gens.JPFrag) gens.JPExpr {
	out := append(gens.JPExpr{}, t...)
	out[j] = f
	return out
}

func withTarget(ts []gens.JPExpr, i int, t gens.JPExpr) []gens.JPExpr {
	out := append([]gens.JPExpr{}, ts...)
	out[i] = t
	return out
}

// simpler lists simpler fragments: first of the same family, then the plain
// index / member fragments a selecting fragment can stand for.
func simpler(f gens.JPFrag) []gens.JPFrag {
	var out []gens.JPFrag
	plain := func() {
		out = append(out, gens.JPNth(0), gens.JPNth(1), gens.JPChild("a"), gens.JPChild("x"))
	}
	switch f.K {
	case "nth":
		switch {
		case f.N < -1:
			out = append(out, gens.JPNth(-1))
		case f.N > 0:
			out = append(out, gens.JPNth(0))
		}
	case "child":
		if f.Key != "a" {
			out = append(out, gens.JPChild("a"))
		}
	case "union":
		if len(f.U) == 1 {
			if f.U[0].S != nil {
				out = append(out, gens.JPFrag{K: "child", Key: scriptref.QS(*f.U[0].S)})
			} else {
				out = append(out, gens.JPNth(int(*f.U[0].I)))
			}
			break
		}
		for i := range f.U {
			g := gens.JPFrag{K: "union"}
			g.U = append(g.U, f.U[:i]...)
			g.U = append(g.U, f.U[i+1:]...)
			out = append(out, g)
		}
		plain()
	case "slice":
		if len(f.S) > 2 && f.S[2] != 1 {
			out = append(out, gens.JPSlice(f.S[0], f.S[1]))
		}
		if !(len(f.S) == 1 && f.S[0] == 1) {
			out = append(out, gens.JPSlice(1))
		}
		plain()
	case "wild":
		plain()
	case "filter":
		if eq2 := gens.FilterScripts()[2]; fragKey(gens.JPFilter(eq2)) != fragKey(f) {
			out = append(out, gens.JPFilter(eq2)) // @ == 2
		}
	}
	return out
}

func candidates(st state) []state {
	var out []state
	add := func(ts []gens.JPExpr, ord *onode) { out = append(out, state{targets: ts, ord: ord, ex: st.ex}) }
	// fewer targets
	if len(st.targets) > 1 {
		for i := range st.targets {
			ts := append([]gens.JPExpr{}, st.targets[:i]...)
			add(append(ts, st.targets[i+1:]...), st.ord)
		}
	}
	// first fragment of every target dropped together with the document level it walks
	long := len(st.ord.kids) > 0
	for _, t := range st.targets {
		if len(t) < 3 {
			long = false
		}
	}
	if long {
		ts := make([]gens.JPExpr, len(st.targets))
		for i, t := range st.targets {
			ts[i] = dropFrag(t, 1)
		}
		for _, k := range st.ord.kids {
			add(ts, k)
		}
	}
	// shorter / simpler targets
	for i, t := range st.targets {
		if len(t) > 2 {
			for j := 1; j < len(t); j++ {
				add(withTarget(st.targets, i, dropFrag(t, j)), st.ord)
			}
		}
		for j := 1; j < len(t); j++ {
			for _, f := range simpler(t[j]) {
				add(withTarget(st.targets, i, withFrag(t, j, f)), st.ord)
			}
		}
	}
	// smaller document
	if !(st.ord.kind == 'l' && st.ord.leaf == int64(1)) {
		add(st.targets, leaf1)
	}
	if st.ord.kind != 'l' {
		add(st.targets, leaf2)
	}
	for _, k := range st.ord.kids {
		add(st.targets, k)
	}
	for _, e := range edits(st.ord) {
		add(st.targets, e)
	}
	return out
}
