// Package c17 decides C17: the streaming matchers (oj.Match, oj.MatchString,
// oj.MatchLoad, sen.Match, sen.MatchString, sen.MatchLoad) invoke the callback
// once for each outermost location the targets select, in document order, with
// the normalised path and the value that parsing the whole document and
// evaluating the path gives, whatever the chunking of a streamed input.
//
// Bounded-exhaustive: every document of the shared path corpus (as JSON and as
// SEN text, objects in ascending and in descending key order) x every single
// target of the shared path alphabet (<= 2 fragments; thorough: + 3 fragments
// with a descent or a trailing filter) and every ordered pair of targets over
// a thinned alphabet x every entry point x chunkings {whole, 1-byte, every
// 2-split}. The oracle is parse-the-whole-text + internal/ref/pathref.
package c17

import (
	"encoding/json"
	"fmt"
	"io"
	"reflect"
	"runtime/debug"
	"sort"
	"strconv"
	"strings"

	"github.com/ohler55/ojg/jp"
	"github.com/ohler55/ojg/oj"
	"github.com/ohler55/ojg/sen"

	"verif/internal/core"
	"verif/internal/gens"
	"verif/internal/ref/pathref"
	"verif/internal/ref/scriptref"
)

func init() {
	core.Register(&core.Check{
		ID:     "C17",
		Level:  "exploration",
		Shards: func(string) int { return 16 },
		Run:    run,
		Replay: replay,
		Rule: "one case = (document text pair JSON+SEN with a fixed member order, ordered list of 1 or 2 targets); every case is executed through " +
			"every entry point and chunking of its level; distinct_nontrivial = cases whose expected callback sequence is non-empty (the reference " +
			"selects at least one location); evaluations = calls of a Match* entry point (shrinking of failing cases included)",
		Assumptions: []string{
			"pathref (unit-tested, shares no code with ojg) is the meaning of a target path; scriptref decides the filter scripts; where they leave a result open (slice readings, undetermined filter verdicts) every reading is accepted or the case is skipped and counted",
			"oj.Parse / sen.Parse of the whole text give the document the statement refers to (C02/C03 are their checks); the harness' own scanner is cross-checked against them on every document and only supplies the member order of the text",
			"oj.JSON(Sort) / sen.String(Sort) and the harness' own writer produce the same text for key-sorted documents (asserted per document); the descending-order texts come from the harness' writer only",
			"the callback copies the path it is given and deep-copies the value at the time of the call",
		},
		Bound: bound,
	})
}

func bound(tier string) string {
	thorough := tier == "thorough"
	pl := newPlan(thorough)
	nsmall := 0
	for _, s := range pl.small {
		if s {
			nsmall++
		}
	}
	n := 3
	if thorough {
		n = 4
	}
	b := fmt.Sprintf("documents: gens.PathData(%d) as JSON (= oj.JSON Sort) and SEN (= sen.String Sort) text plus the descending-key-order texts of every document with a "+
		"multi-member object = %d text pairs; single targets: all %d paths of <= 2 fragments over gens.Paths(false) (%d fragments, a filter only as the last fragment) "+
		"x oj.Match, oj.MatchString, oj.MatchLoad{whole, 1-byte, every 2-split, an empty read first / in the middle / before io.EOF, io.EOF with the data}, sen.Match, sen.MatchString, sen.MatchLoad{the same}",
		n, len(pl.docs), len(pl.singles), len(pl.a.Frags))
	if thorough {
		b += fmt.Sprintf("; all %d paths of 3 fragments that hold a descent or end in a filter x oj.Match, sen.Match (a failing case is re-run through every entry); "+
			"the %d such paths over the thinned alphabet x every entry with chunkings {whole, 1-byte}", len(pl.threes), len(pl.thin3))
	} else {
		b += fmt.Sprintf(" (2-fragment targets on texts longer than %d bytes: chunkings {whole, 1-byte} only)", quickSplitLen)
	}
	b += fmt.Sprintf("; target pairs: every ordered pair of distinct targets among the %d paths of <= 2 fragments over a thinned alphabet of %d fragments on the %d texts of PathData(3)",
		len(pl.pairsBig), len(pairFrags(pl.a, thorough)), nsmall)
	if thorough {
		b += fmt.Sprintf(" and among the %d paths over %d fragments on the other %d texts", len(pl.pairsSml), len(pairFrags(pl.a, false)), len(pl.docs)-nsmall)
	}
	b += " x every entry with chunkings {whole, 1-byte} (pairs in which neither target selects anything by the reference: oj.Match and sen.Match only)"
	return b
}

// ------------------------------------------------------------------ target space

func isFilter(a *gens.PathAlphabet, i int) bool { return a.Class[i] == "filter" }

// singleTargets lists the fragment index sequences of the single targets:
// every sequence of <= 2 fragments; with three also the sequences of 3
// fragments that hold a descent or end in a filter. A filter is only allowed
// as the last fragment (the statement covers trailing filters only). only
// restricts the alphabet (nil: all fragments).
func singleTargets(a *gens.PathAlphabet, three bool, only []int) [][]int {
	var out [][]int
	k := 2
	if three {
		k = 3
	}
	var allowed map[int]bool
	if only != nil {
		allowed = map[int]bool{}
		for _, i := range only {
			allowed[i] = true
		}
	}
	a.EachPath(k, func(idx []int) bool {
		desc := false
		for j, i := range idx {
			if allowed != nil && !allowed[i] {
				return true
			}
			if isFilter(a, i) && j != len(idx)-1 {
				return true
			}
			if a.Class[i] == "desc" {
				desc = true
			}
		}
		if len(idx) == 3 && !desc && !isFilter(a, idx[2]) {
			return true
		}
		out = append(out, append([]int{}, idx...))
		return true
	})
	// two descents in one target (four fragments): the matcher shifts the path
	// under the first descent and has to let the second stand for zero levels
	if only == nil {
		desc := -1
		var steps []int
		for i, f := range a.Frags {
			switch {
			case a.Class[i] == "desc":
				desc = i
			case a.Class[i] == "wild":
				steps = append(steps, i)
			case a.Class[i] == "child" && (f.Key == "a" || f.Key == "x"):
				steps = append(steps, i)
			case a.Class[i] == "nth" && f.N == 0:
				steps = append(steps, i)
			}
		}
		if desc >= 0 {
			for _, x := range steps {
				for _, y := range steps {
					out = append(out, []int{desc, x, desc, y})
				}
			}
		}
	}
	// shortest first so that the cheap cases come first within a document
	sort.SliceStable(out, func(i, j int) bool { return len(out[i]) < len(out[j]) })
	return out
}

// pairFrags picks the thinned alphabet of the pair space out of gens.Paths.
func pairFrags(a *gens.PathAlphabet, thorough bool) []int {
	want := []gens.JPFrag{
		gens.JPChild("a"), gens.JPChild("x"),
		gens.JPNth(-1), gens.JPNth(0), gens.JPNth(1),
		gens.JPSimple("wild"), gens.JPSimple("desc"),
		gens.JPUnion("a", "x"), gens.JPUnion(1, 0),
		gens.JPSlice(1), gens.JPSlice(0, 2),
	}
	filters := []int{0, 2}
	if thorough {
		want = append(want, gens.JPNth(-2),
			gens.JPUnion("a"), gens.JPUnion(0), gens.JPUnion(-1, "a"), gens.JPUnion("x", 2, "a", 0),
			gens.JPSlice(-1), gens.JPSlice(0, -1), gens.JPSlice(0, gens.MaxEnd, 2), gens.JPSlice(0, gens.MaxEnd, -1))
		filters = nil
		for i := range gens.FilterScripts() {
			filters = append(filters, i)
		}
	}
	var out []int
	nf := 0
	for i, f := range a.Frags {
		if a.Class[i] == "filter" {
			for _, w := range filters {
				if w == nf {
					out = append(out, i)
				}
			}
			nf++
			continue
		}
		for _, w := range want {
			if reflect.DeepEqual(f, w) {
				out = append(out, i)
				break
			}
		}
	}
	return out
}

func pairTargets(a *gens.PathAlphabet, thorough bool) [][]int {
	fr := pairFrags(a, thorough)
	var out [][]int
	for _, i := range fr {
		out = append(out, []int{i})
	}
	for _, i := range fr {
		if isFilter(a, i) {
			continue
		}
		for _, j := range fr {
			out = append(out, []int{i, j})
		}
	}
	return out
}

// fragKind is the signature label of one fragment.
func fragKind(f gens.JPFrag) string {
	switch f.K {
	case "nth":
		if f.N < 0 {
			return "nth-neg"
		}
	case "union":
		for _, m := range f.U {
			if m.I != nil && *m.I < 0 {
				return "union-neg"
			}
		}
	case "filter":
		if usesRoot(f.F) {
			return "filter-root" // the script has a $-rooted operand
		}
	case "slice":
		if len(f.S) > 2 {
			switch {
			case f.S[2] == 0:
				return "slice-step0"
			case f.S[2] < 0:
				return "slice-negstep"
			case f.S[2] > 1:
				return "slice-step"
			}
		}
	}
	return f.K
}

func usesRoot(n *scriptref.Node) bool {
	if n == nil {
		return false
	}
	if n.Path != nil {
		if n.Path.Root {
			return true
		}
		for _, st := range n.Path.Steps {
			if usesRoot(st.Filter) {
				return true
			}
		}
	}
	return usesRoot(n.L) || usesRoot(n.R)
}

func targetKind(x gens.JPExpr) string {
	var parts []string
	for _, f := range x {
		if f.K == "root" {
			continue
		}
		k := fragKind(f)
		if k == "filter-root" {
			// what $ means inside the script cannot depend on the fragments in
			// front of the filter: one label for the whole family
			return k
		}
		parts = append(parts, k)
	}
	if len(parts) == 0 {
		return "root"
	}
	return strings.Join(parts, ".")
}

func targetsKind(ts []gens.JPExpr) string {
	parts := make([]string, len(ts))
	for i, t := range ts {
		parts[i] = targetKind(t)
	}
	sort.Strings(parts) // the order of the targets is not part of the signature
	return strings.Join(parts, "+")
}

var filterText = map[*scriptref.Node]string{}

func fragKey(f gens.JPFrag) string {
	switch f.K {
	case "child":
		return "c" + strconv.Quote(string(f.Key))
	case "nth":
		return "n" + strconv.Itoa(f.N)
	case "union":
		var b strings.Builder
		b.WriteByte('u')
		for _, m := range f.U {
			if m.S != nil {
				b.WriteString(strconv.Quote(string(*m.S)))
			} else {
				b.WriteString(strconv.FormatInt(*m.I, 10))
			}
			b.WriteByte(',')
		}
		return b.String()
	case "slice":
		return "s" + fmt.Sprint(f.S)
	case "filter":
		if s, ok := filterText[f.F]; ok {
			return s
		}
		raw, _ := json.Marshal(f.F)
		filterText[f.F] = "f" + string(raw)
		return filterText[f.F]
	}
	return f.K
}

func targetKey(x gens.JPExpr) string {
	var b strings.Builder
	for _, f := range x {
		b.WriteString(fragKey(f))
		b.WriteByte(';')
	}
	return b.String()
}

func targetsKey(ts []gens.JPExpr) string {
	var b strings.Builder
	for _, t := range ts {
		b.WriteString(targetKey(t))
		b.WriteByte('|')
	}
	return b.String()
}

// targetText is the readable form (messages only).
func targetText(x gens.JPExpr) (s string) {
	defer func() {
		if r := recover(); r != nil {
			s = "<" + targetKey(x) + ">"
		}
	}()
	return x.Build().String()
}

func targetsText(ts []gens.JPExpr) []string {
	out := make([]string, len(ts))
	for i, t := range ts {
		out[i] = targetText(t)
	}
	return out
}

// needsVariants: only slices with a step other than 1 have open readings.
func needsVariants(x gens.JPExpr) bool {
	for _, f := range x {
		if f.K == "slice" && len(f.S) > 2 && f.S[2] != 1 {
			return true
		}
	}
	return false
}

func hasFilter(ts []gens.JPExpr) bool {
	for _, t := range ts {
		for _, f := range t {
			if f.K == "filter" {
				return true
			}
		}
	}
	return false
}

// ------------------------------------------------------------------ oracle

// targetAlts returns, per accepted reading, the sorted position keys of the
// locations the target selects in the document (distinct readings only).
func (d *docInfo) targetAlts(x gens.JPExpr) (alts [][]string, open bool, err error) {
	vs := pathref.Variants[:1]
	if needsVariants(x) {
		vs = pathref.Variants
	}
	seen := map[string]bool{}
	for _, v := range vs {
		r := pathref.SelectSpec(x, d.parsed, v)
		if r.Open {
			open = true
		}
		set := map[string]bool{}
		for _, h := range r.Hits {
			ni := d.byLoc[locKey(h.Loc)]
			if ni == nil {
				return nil, false, fmt.Errorf("reference selected %v which is no location of %s", h.Loc, d.text)
			}
			set[ni.pos] = true
		}
		ps := make([]string, 0, len(set))
		for p := range set {
			ps = append(ps, p)
		}
		sort.Strings(ps)
		key := strings.Join(ps, "\xff")
		if !seen[key] {
			seen[key] = true
			alts = append(alts, ps)
		}
	}
	return alts, open, nil
}

// outermost merges sorted position lists, drops duplicates and every
// location below another selected location; the result is in document order
// (position keys compare like the text positions of the locations).
func outermost(lists ...[]string) []string {
	var all []string
	for _, l := range lists {
		all = append(all, l...)
	}
	sort.Strings(all)
	var out []string
	for _, p := range all {
		if n := len(out); n > 0 && strings.HasPrefix(p, out[n-1]) {
			continue // the same location again, or a location inside the previous one
		}
		out = append(out, p)
	}
	return out
}

// expectedSeqs combines the readings of every target.
func expectedSeqs(alts [][][]string) [][]string {
	var out [][]string
	seen := map[string]bool{}
	pick := make([][]string, len(alts))
	var rec func(i int)
	rec = func(i int) {
		if i == len(alts) {
			seq := outermost(pick...)
			key := strings.Join(seq, "\xff")
			if !seen[key] {
				seen[key] = true
				out = append(out, seq)
			}
			return
		}
		for _, a := range alts[i] {
			pick[i] = a
			rec(i + 1)
		}
	}
	rec(0)
	return out
}

func (d *docInfo) nodes(seq []string) []*nodeInfo {
	out := make([]*nodeInfo, len(seq))
	for i, p := range seq {
		out[i] = d.byPos[p]
	}
	return out
}

// ------------------------------------------------------------------ execution

type execSpec struct {
	Entry string `json:"entry"`           // oj.Match oj.MatchString oj.MatchLoad sen.Match sen.MatchString sen.MatchLoad
	Chunk string `json:"chunk,omitempty"` // whole | bytes | split (MatchLoad only)
	K     int    `json:"k,omitempty"`     // split: length of the first chunk
}

func (e execSpec) label() string {
	if e.Chunk == "" {
		return e.Entry
	}
	return e.Entry + "/" + e.Chunk
}

func (e execSpec) form() string {
	if strings.HasPrefix(e.Entry, "sen.") {
		return "sen"
	}
	return "json"
}

func (e execSpec) chunks(n int) []int {
	switch e.Chunk {
	case "whole":
		return []int{n}
	case "bytes":
		out := make([]int, n)
		for i := range out {
			out[i] = 1
		}
		return out
	case "split":
		return []int{e.K, n - e.K}
	// the reader's other lawful answers: a chunk of length 0 is one empty read
	// (0, nil); "eof-with-data" delivers io.EOF together with the only chunk
	case "empty-first":
		return []int{0, n}
	case "empty-mid":
		return []int{n / 2, 0, n - n/2}
	case "empty-last":
		return []int{n, 0}
	case "eof-with-data":
		return []int{n}
	}
	return nil
}

// execItem is an execution with its label and chunk lengths precomputed.
type execItem struct {
	execSpec
	lab string
	cks []int
}

// execList lists the executions of a document text at a level:
// 0 = the []byte entry only, 1 = all entries with whole and 1-byte chunking,
// 2 = level 1 plus every 2-split.
func (d *docInfo) execList(level int) []execItem {
	if d.execs == nil {
		d.execs = map[int][]execItem{}
	}
	if l, ok := d.execs[level]; ok {
		return l
	}
	pkg := "oj."
	if d.form == "sen" {
		pkg = "sen."
	}
	specs := []execSpec{{Entry: pkg + "Match"}}
	if level >= 1 {
		specs = append(specs, execSpec{Entry: pkg + "MatchString"}, execSpec{Entry: pkg + "MatchLoad", Chunk: "whole"}, execSpec{Entry: pkg + "MatchLoad", Chunk: "bytes"})
		for _, ck := range []string{"empty-first", "empty-mid", "empty-last", "eof-with-data"} {
			specs = append(specs, execSpec{Entry: pkg + "MatchLoad", Chunk: ck})
		}
	}
	if level >= 2 {
		for k := 1; k < len(d.text); k++ {
			specs = append(specs, execSpec{Entry: pkg + "MatchLoad", Chunk: "split", K: k})
		}
	}
	l := make([]execItem, len(specs))
	for i, e := range specs {
		l[i] = execItem{execSpec: e, lab: e.label(), cks: e.chunks(len(d.text))}
	}
	d.execs[level] = l
	return l
}

// chunkReader hands out exactly the chunks the harness chose, then EOF.
type chunkReader struct {
	data []byte
	lens []int
	i    int
	off  int
	bad  bool
	// eofWithLast: io.EOF comes together with the last chunk
	eofWithLast bool
}

func (r *chunkReader) Read(p []byte) (int, error) {
	if r.i < len(r.lens) && r.lens[r.i] == 0 {
		r.i++
		return 0, nil // an empty read: nothing happened
	}
	if r.i >= len(r.lens) {
		return 0, io.EOF
	}
	n := r.lens[r.i]
	if n > len(p) || r.off+n > len(r.data) {
		r.bad = true
		return 0, io.ErrShortBuffer
	}
	copy(p, r.data[r.off:r.off+n])
	r.off += n
	r.i++
	if r.eofWithLast && r.i == len(r.lens) {
		return n, io.EOF
	}
	return n, nil
}

type cb struct {
	path jp.Expr
	val  any
}

type result struct {
	cbs   []cb
	err   error
	pan   any
	rdBad bool
}

// runExec executes one entry point. The callback copies the path (the
// handler reuses its slice) and the value as they are at the time of the call.
func runExec(e execSpec, text string, chunks []int, targets []jp.Expr) (r result) {
	return runExecData(e, text, []byte(text), chunks, targets)
}

func runExecData(e execSpec, text string, data []byte, chunks []int, targets []jp.Expr) (r result) {
	onData := func(p jp.Expr, v any) {
		cp := make(jp.Expr, len(p))
		copy(cp, p)
		r.cbs = append(r.cbs, cb{path: cp, val: gens.Clone(v)})
	}
	var rd *chunkReader
	defer func() {
		if p := recover(); p != nil {
			r.pan = p
		}
		if rd != nil && rd.bad {
			r.rdBad = true
		}
	}()
	switch e.Entry {
	case "oj.Match":
		r.err = oj.Match(data, onData, targets...)
	case "oj.MatchString":
		r.err = oj.MatchString(text, onData, targets...)
	case "oj.MatchLoad":
		rd = &chunkReader{data: data, lens: chunks, eofWithLast: e.Chunk == "eof-with-data"}
		r.err = oj.MatchLoad(rd, onData, targets...)
	case "sen.Match":
		r.err = sen.Match(data, onData, targets...)
	case "sen.MatchString":
		r.err = sen.MatchString(text, onData, targets...)
	case "sen.MatchLoad":
		rd = &chunkReader{data: data, lens: chunks, eofWithLast: e.Chunk == "eof-with-data"}
		r.err = sen.MatchLoad(rd, onData, targets...)
	default:
		panic("c17: unknown entry " + e.Entry)
	}
	return r
}

// pathEq compares a received path with a normalised location: an optional
// leading Root or At, then Child / non-negative Nth fragments only.
func pathEq(p jp.Expr, loc pathref.Loc) bool {
	if len(p) > 0 {
		switch p[0].(type) {
		case jp.Root, jp.At:
			p = p[1:]
		}
	}
	if len(p) != len(loc) {
		return false
	}
	for i, f := range p {
		switch t := f.(type) {
		case jp.Child:
			if s, ok := loc[i].(string); !ok || s != string(t) {
				return false
			}
		case jp.Nth:
			if n, ok := loc[i].(int); !ok || n != int(t) {
				return false
			}
		default:
			return false
		}
	}
	return true
}

// obsPath renders a received path canonically; normal is false when it is
// not a normalised path.
func obsPath(p jp.Expr) (s string, normal bool) {
	var b strings.Builder
	b.WriteByte('$')
	normal = true
	for i, f := range p {
		switch t := f.(type) {
		case jp.Root, jp.At:
			if i != 0 {
				normal = false
				fmt.Fprintf(&b, "?%T", f)
			}
		case jp.Child:
			b.WriteByte('.')
			b.WriteString(strconv.Quote(string(t)))
		case jp.Nth:
			if t < 0 {
				normal = false
			}
			b.WriteByte('[')
			b.WriteString(strconv.Itoa(int(t)))
			b.WriteByte(']')
		default:
			normal = false
			fmt.Fprintf(&b, "?%T", f)
		}
	}
	return b.String(), normal
}

func matches(seq []*nodeInfo, r *result) bool {
	if r.pan != nil || r.err != nil || len(seq) != len(r.cbs) {
		return false
	}
	for i, ni := range seq {
		if !pathEq(r.cbs[i].path, ni.loc) || !valEq(r.cbs[i].val, ni.val) {
			return false
		}
	}
	return true
}

func matchAny(seqs [][]*nodeInfo, r *result) int {
	for i, s := range seqs {
		if matches(s, r) {
			return i
		}
	}
	return -1
}

func sameObs(a, b *result) bool {
	if (a.pan != nil) != (b.pan != nil) || (a.err != nil) != (b.err != nil) || len(a.cbs) != len(b.cbs) {
		return false
	}
	for i := range a.cbs {
		pa, _ := obsPath(a.cbs[i].path)
		pb, _ := obsPath(b.cbs[i].path)
		if pa != pb || !valEq(a.cbs[i].val, b.cbs[i].val) {
			return false
		}
	}
	return true
}

const (
	chunkDependent = "chunk-dependent"
	// objectFilter is the one discrepancy kind of the cases in which the
	// implementation may walk a Go map (a filter target on a document with a
	// multi-member object): what exactly goes wrong there can depend on the map
	// iteration order, so such a failure is not classified further and a
	// signature never depends on map order.
	objectFilter = "object-filter"
	// repetitions of the []byte entry made for such a case
	ofReps       = 32
	ofRepsCheap  = 4  // 3-fragment targets over the full alphabet
	ofRepsShrink = 96 // while shrinking and replaying (few states, memoised)
)

// quickSplitLen: in the quick tier the 2-fragment targets get every 2-split
// only on texts up to this length (1-fragment targets: on every text).
const quickSplitLen = 24

func orderCapable(di *docInfo, targets []gens.JPExpr) bool {
	return di.multiKey && hasFilter(targets)
}

// repeated runs the []byte entry of the text n times and reports whether the
// observations differ between the executions (varies) and whether some
// execution does not give an accepted callback sequence (fails).
func (w *worker) repeated(di *docInfo, xs []jp.Expr, seqs [][]*nodeInfo, n int) (varies, fails bool) {
	ex := di.execList(0)[0]
	var first *result
	for i := 0; i < n; i++ {
		r := runExecData(ex.execSpec, di.text, di.data, ex.cks, xs)
		w.evals++
		if matchAny(seqs, &r) < 0 {
			fails = true
		}
		if first == nil {
			rr := r
			first = &rr
		} else if !varies && !sameObs(first, &r) {
			varies = true
		}
	}
	return varies, fails
}

// classify names every kind of discrepancy between the expected sequence and
// the observation:
//
//	panic:<kind> | error:<kind>
//	missing      an expected location was not reported
//	wrong-value  an expected location was reported with another value
//	order        expected locations were reported in another order
//	wrong-path   a callback whose path is not a normalised path, or whose
//	             (path, value) is not a (location, value) of the document while
//	             its value is that of a location that is missing
//	extra        any other callback that is not expected (including a second
//	             callback for the same location)
func classify(d *docInfo, exp []*nodeInfo, r *result) []string {
	if r.pan != nil {
		return []string{"panic:" + gens.JPPanicKind(r.pan)}
	}
	if r.err != nil {
		return []string{"error:" + gens.JPPanicKind(r.err)}
	}
	idx := map[string]int{}
	for i, ni := range exp {
		idx[ni.path] = i
	}
	used := make([]bool, len(exp))
	var extras []int
	kinds := map[string]bool{}
	last := -1
	for oi, o := range r.cbs {
		ps, normal := obsPath(o.path)
		ei, ok := idx[ps]
		if !normal || !ok || used[ei] {
			extras = append(extras, oi)
			continue
		}
		used[ei] = true
		if !valEq(o.val, exp[ei].val) {
			kinds["wrong-value"] = true
		}
		if ei < last {
			kinds["order"] = true
		}
		last = ei
	}
	var missing []int
	for i, u := range used {
		if !u {
			missing = append(missing, i)
		}
	}
	var realExtras []*nodeInfo // unexpected callbacks that are a real (location, value) of the document
	for _, oi := range extras {
		ps, normal := obsPath(r.cbs[oi].path)
		if !normal {
			kinds["wrong-path"] = true
			continue
		}
		if ni := d.byLoc[ps[1:]]; ni != nil && valEq(ni.val, r.cbs[oi].val) {
			realExtras = append(realExtras, ni)
			continue
		}
		paired := false
		for mi, ei := range missing {
			if ei >= 0 && valEq(r.cbs[oi].val, exp[ei].val) {
				missing[mi] = -1
				paired = true
				break
			}
		}
		if paired {
			kinds["wrong-path"] = true
		} else {
			kinds["extra"] = true
		}
	}
	// One defect, one kind: an expected location that lies inside an
	// unexpected callback was swallowed by it (the defect is the extra
	// callback); an unexpected callback that lies inside a missing expected
	// location is a fragment of it (the defect is the missing outer location).
	inside := func(inner, outer *nodeInfo) bool {
		return len(inner.pos) > len(outer.pos) && strings.HasPrefix(inner.pos, outer.pos)
	}
	for mi, ei := range missing {
		if ei < 0 {
			continue
		}
		for _, x := range realExtras {
			if inside(exp[ei], x) {
				missing[mi] = -2
				kinds["extra"] = true
				break
			}
		}
	}
	for _, x := range realExtras {
		fragment := false
		for _, ei := range missing {
			if ei >= 0 && inside(x, exp[ei]) {
				fragment = true
				break
			}
		}
		if !fragment {
			kinds["extra"] = true
		}
	}
	for _, ei := range missing {
		if ei >= 0 {
			kinds["missing"] = true
		}
	}
	out := make([]string, 0, len(kinds))
	for k := range kinds {
		out = append(out, k)
	}
	sort.Strings(out)
	if len(out) == 0 {
		out = append(out, "unclassified")
	}
	return out
}

func showExp(seqs [][]*nodeInfo) string {
	var alts []string
	for _, s := range seqs {
		parts := make([]string, len(s))
		for i, ni := range s {
			parts[i] = ni.path + "=" + show(ni.val)
		}
		alts = append(alts, "["+strings.Join(parts, " ")+"]")
	}
	return strings.Join(alts, " or ")
}

func showObs(r *result) string {
	parts := make([]string, len(r.cbs))
	for i, o := range r.cbs {
		p, _ := obsPath(o.path)
		parts[i] = p + "=" + show(o.val)
	}
	s := "[" + strings.Join(parts, " ") + "]"
	if r.pan != nil {
		s += fmt.Sprintf(" then panic: %v", r.pan)
	}
	if r.err != nil {
		s += fmt.Sprintf(" then error: %v", r.err)
	}
	return s
}

// ------------------------------------------------------------------ cases

type caseT struct {
	Targets []gens.JPExpr `json:"targets"`
	Paths   []string      `json:"paths"` // readable form of the targets (informational)
	Doc     string        `json:"doc"`
	Form    string        `json:"form"` // json | sen
	Exec    execSpec      `json:"exec"`
	Chunks  []int         `json:"chunks,omitempty"`
	Kind    string        `json:"kind"`
}

type document struct {
	ord *onode
	js  *docInfo
	sn  *docInfo
}

func (d *document) info(form string) *docInfo {
	if form == "sen" {
		return d.sn
	}
	return d.js
}

type docSpec struct {
	tree any
	rev  bool
}

// buildDocs lists the documents: the corpus with members in ascending key
// order and, for documents holding a multi-member object, also in descending
// key order (so that "document order" is told apart from "key order").
func buildDocs(n int) []docSpec {
	var out []docSpec
	for _, t := range gens.PathData(n) {
		out = append(out, docSpec{tree: t})
		if gens.HasMultiKeyMap(t) {
			out = append(out, docSpec{tree: t, rev: true})
		}
	}
	return out
}

type worker struct {
	c     *core.Ctx
	a     *gens.PathAlphabet
	evals int64
	// shrinking
	memo    map[string]state
	docMemo map[string]*docInfo
	// explained-by-singles memo of the current document
	singleFail map[string]bool
}

func (w *worker) makeDocument(ds docSpec) (*document, error) {
	ord := fromTree(ds.tree, ds.rev)
	d := &document{ord: ord}
	for _, form := range []string{"json", "sen"} {
		text := ord.text(form)
		if !ds.rev {
			if lib := libraryText(form, ds.tree); lib != text {
				return nil, fmt.Errorf("the %s writer renders %s, the harness %s", form, lib, text)
			}
		}
		di, err := newDoc(form, text, ord)
		if err != nil {
			return nil, err
		}
		if form == "sen" {
			d.sn = di
		} else {
			d.js = di
		}
	}
	return d, nil
}

type failing struct {
	ex   execSpec
	form string
}

// runCase executes one case at a level and reports what fails.
func (w *worker) runCase(d *document, targets []gens.JPExpr, alts [][][]string, level int, sample bool) {
	c := w.c
	seqPos := expectedSeqs(alts)
	nontrivial := false
	for _, s := range seqPos {
		if len(s) > 0 {
			nontrivial = true
		}
	}
	if nontrivial {
		c.Nontrivial()
	} else if len(targets) > 1 {
		level = 0
	}
	xs := make([]jp.Expr, len(targets))
	for i, t := range targets {
		xs[i] = t.Build()
	}
	capable := orderCapable(d.js, targets)
	var byKind map[string][]failing
	fail := func(kind string, f failing) {
		if byKind == nil {
			byKind = map[string][]failing{}
		}
		byKind[kind] = append(byKind[kind], f)
	}
	var lists [][]execItem
	nexec := 0
	{
		for _, form := range []string{"json", "sen"} {
			di := d.info(form)
			seqs := make([][]*nodeInfo, len(seqPos))
			for i, s := range seqPos {
				seqs[i] = di.nodes(s)
			}
			var first *result
			var firstEx execSpec
			firstAlt := -1
			list := di.execList(level)
			escalated := false
			for i := 0; i < len(list); i++ {
				ex := &list[i]
				r := runExecData(ex.execSpec, di.text, di.data, ex.cks, xs)
				w.evals++
				nexec++
				if r.rdBad {
					c.HarnessError("chunk reader misuse on %q %v", di.text, ex.execSpec)
				}
				alt := matchAny(seqs, &r)
				if alt < 0 {
					for _, k := range classify(di, seqs[0], &r) {
						fail(k, failing{ex.execSpec, form})
					}
					if level == 0 && !escalated { // learn which entries are affected
						escalated = true
						list = di.execList(1)
					}
				}
				if capable {
					continue // no chunking comparison: differences may come from map order
				}
				if first == nil {
					rr := r
					first, firstEx, firstAlt = &rr, ex.execSpec, alt
				} else if (alt < 0 || alt != firstAlt) && !sameObs(first, &r) &&
					w.reproducible(firstEx, di, xs, first) && w.reproducible(ex.execSpec, di, xs, &r) {
					fail(chunkDependent, failing{ex.execSpec, form})
				}
			}
			lists = append(lists, list)
			if capable && level == 0 && byKind == nil {
				// only two executions so far: a few more (every execution is an
				// independent draw of the map iteration order)
				if _, fails := w.repeated(di, xs, seqs, ofRepsCheap); fails {
					fail(objectFilter, failing{list[0].execSpec, form})
				}
			}
		}
	}
	if sample && nontrivial {
		c.Sample(map[string]any{"targets": targetsText(targets), "json": d.js.text, "sen": d.sn.text,
			"expected": showExp([][]*nodeInfo{d.js.nodes(seqPos[0])}), "executions": nexec})
	}
	if byKind == nil {
		return
	}
	c.Add("failing_cases", 1)
	kinds := make([]string, 0, len(byKind))
	for k := range byKind {
		kinds = append(kinds, k)
	}
	sort.Strings(kinds)
	f0 := byKind[kinds[0]][0]
	if len(targets) > 1 && w.explainedBySingles(d, targets, f0) {
		c.Add("pair_failures_explained_by_a_failing_single_target", 1)
		return
	}
	if len(targets) == 1 && w.explainedByPrefix(d, targets[0], f0) {
		c.Add("failures_explained_by_a_failing_prefix_of_the_target", 1)
		return
	}
	if capable {
		// Do identical executions disagree (Go map order)? Then the case gets
		// one kind, whatever the symptoms of the individual executions.
		for _, form := range []string{"json", "sen"} {
			di := d.info(form)
			seqs := make([][]*nodeInfo, len(seqPos))
			for i, s := range seqPos {
				seqs[i] = di.nodes(s)
			}
			if varies, _ := w.repeated(di, xs, seqs, ofReps); varies {
				byKind = map[string][]failing{objectFilter: {{di.execList(0)[0].execSpec, form}}}
				kinds = []string{objectFilter}
				break
			}
		}
	}
	ran := map[string]bool{}
	for _, l := range lists {
		for i := range l {
			ran[l[i].lab] = true
		}
	}
	for _, kind := range kinds {
		fl := byKind[kind]
		st := w.minimise(state{targets: targets, ord: d.ord, ex: fl[0].ex}, kind)
		entries := summarise(fl, ran)
		if kind != objectFilter {
			// a case whose executions vary with the map order may have slipped
			// through the repetitions above: look again at the smallest form
			if di := w.docFor(st.ex.form(), st.ord); di != nil && orderCapable(di, st.targets) {
				if ks := w.kindsOf(st, di); len(ks) == 1 && ks[0] == objectFilter {
					kind = objectFilter
				}
			}
		}
		if capable || kind == objectFilter {
			entries = "*" // which executions fail may depend on the map order (the handler is shared by all)
		}
		w.report(st, kind, entries)
	}
}

// summarise names the failing entry points in absolute terms: "*" = every
// execution of the case; otherwise per package "oj.*" / "sen.*" (every
// execution of the package), "oj.MatchLoad" (only reader executions, i.e.
// chunking matters) or "oj.some".
func summarise(fl []failing, ran map[string]bool) string {
	failed := map[string]bool{}
	for _, f := range fl {
		failed[f.ex.label()] = true
	}
	var parts []string
	every := true
	for _, pkg := range []string{"oj.", "sen."} {
		all, none, loadOnly := true, true, true
		for l := range ran {
			if !strings.HasPrefix(l, pkg) {
				continue
			}
			if failed[l] {
				none = false
				if !strings.Contains(l, "MatchLoad") {
					loadOnly = false
				}
			} else {
				all = false
			}
		}
		if !all {
			every = false
		}
		switch {
		case none:
		case all:
			parts = append(parts, pkg+"*")
		case loadOnly:
			parts = append(parts, pkg+"MatchLoad")
		default:
			parts = append(parts, pkg+"some")
		}
	}
	if every {
		return "*"
	}
	return strings.Join(parts, "+")
}

// explainedBySingles: a failure of a target pair is only reported when each
// of its targets alone passes on the same document and execution; otherwise
// the single-target case already reports the defect.
func (w *worker) explainedBySingles(d *document, targets []gens.JPExpr, f failing) bool {
	for _, t := range targets {
		if w.singleFails(d, t, f) || w.explainedByPrefix(d, t, f) {
			return true
		}
	}
	return false
}

func (w *worker) singleFails(d *document, t gens.JPExpr, f failing) bool {
	key := f.ex.label() + "|" + strconv.Itoa(f.ex.K) + "|" + targetKey(t)
	bad, ok := w.singleFail[key]
	if !ok {
		bad = len(w.kindsOf(state{targets: []gens.JPExpr{t}, ord: d.ord, ex: f.ex}, d.info(f.form))) > 0
		w.singleFail[key] = bad
	}
	return bad
}

// explainedByPrefix: a failure of a target is attributed to its shortest
// failing prefix: when the target cut after one of its leading fragments
// already fails on the same document and execution, that shorter target's own
// case reports the defect.
func (w *worker) explainedByPrefix(d *document, t gens.JPExpr, f failing) bool {
	for n := 2; n < len(t); n++ { // t[0] is the root
		if t[n-1].K == "desc" {
			continue // a prefix that ends in a bare descent is another kind of target, not a simpler form of this one
		}
		if w.singleFails(d, t[:n:n], f) {
			return true
		}
	}
	return false
}

func (w *worker) report(st state, kind, entries string) {
	di := w.docFor(st.ex.form(), st.ord)
	if di == nil {
		return
	}
	sig := core.Sig(entries, targetsKind(st.targets), st.ord.shape(), kind)
	if kind == objectFilter {
		// shrinking under "identical executions disagree" is weak: the signature
		// only keeps whether a $-rooted script is involved
		label := "filter"
		for _, t := range st.targets {
			if targetKind(t) == "filter-root" {
				label = "filter-root"
			}
		}
		sig = core.Sig("*", label, "-", kind)
	}
	nfr := 0
	for _, t := range st.targets {
		nfr += len(t)
	}
	size := len(di.text) + 8*nfr + 20*(len(st.targets)-1)
	if st.ex.Chunk != "" {
		size += 2
	}
	cs := caseT{Targets: st.targets, Paths: targetsText(st.targets), Doc: di.text, Form: di.form, Exec: st.ex,
		Chunks: st.ex.chunks(len(di.text)), Kind: kind}
	exp, obs := w.describe(st, di, kind)
	w.c.Fail(sig, cs, size, exp, obs)
}

// describe re-executes the (shrunk) case for the message texts.
func (w *worker) describe(st state, di *docInfo, kind string) (string, string) {
	seqs, xs, ok := w.prepare(st, di)
	if !ok {
		return "?", "?"
	}
	if kind == chunkDependent {
		var parts []string
		for _, ex := range di.execList(2) {
			r := runExecData(ex.execSpec, di.text, di.data, ex.cks, xs)
			w.evals++
			parts = append(parts, ex.lab+":"+showObs(&r))
		}
		return "the same callbacks for every chunking: " + showExp(seqs), strings.Join(dedupe(parts), "; ")
	}
	if kind == objectFilter || orderCapable(di, st.targets) {
		var parts []string
		ex := di.execList(0)[0]
		for i := 0; i < ofRepsShrink; i++ {
			r := runExecData(ex.execSpec, di.text, di.data, ex.cks, xs)
			w.evals++
			parts = append(parts, showObs(&r))
		}
		parts = dedupe(parts)
		sort.Strings(parts)
		return showExp(seqs), "over repeated executions: " + strings.Join(parts, " / ") + "  targets " +
			strings.Join(targetsText(st.targets), " ") + " on " + di.text + " via " + ex.lab
	}
	r := runExec(st.ex, di.text, st.ex.chunks(len(di.text)), xs)
	w.evals++
	return showExp(seqs), showObs(&r) + "  targets " + strings.Join(targetsText(st.targets), " ") + " on " + di.text + " via " + st.ex.label()
}

func dedupe(in []string) []string {
	seen := map[string]bool{}
	var out []string
	for _, s := range in {
		if !seen[s] {
			seen[s] = true
			out = append(out, s)
		}
	}
	return out
}

// ------------------------------------------------------------------ run

// plan is the case space of a tier (shared by run and bound).
type plan struct {
	a        *gens.PathAlphabet
	docs     []docSpec
	small    []bool  // document belongs to gens.PathData(3)
	singles  [][]int // <= 2 fragments, full alphabet: every entry and chunking
	threes   [][]int // thorough: 3 fragments with a descent or a trailing filter, full alphabet: []byte entries only
	thin3    [][]int // thorough: the same over the thinned alphabet: every entry, chunkings whole and 1-byte
	pairsBig [][]int // pair targets used on the small documents
	pairsSml [][]int // pair targets used on the other documents (thorough)
}

func newPlan(thorough bool) *plan {
	p := &plan{a: gens.Paths(false)}
	n := 3
	if thorough {
		n = 4
	}
	p.docs = buildDocs(n)
	small := map[string]bool{}
	for _, ds := range buildDocs(3) {
		small[fromTree(ds.tree, ds.rev).text("json")] = true
	}
	for _, ds := range p.docs {
		p.small = append(p.small, small[fromTree(ds.tree, ds.rev).text("json")])
	}
	all := singleTargets(p.a, thorough, nil)
	for _, idx := range all {
		if len(idx) <= 2 {
			p.singles = append(p.singles, idx)
		} else {
			p.threes = append(p.threes, idx)
		}
	}
	p.pairsBig = pairTargets(p.a, thorough)
	if thorough {
		p.pairsSml = pairTargets(p.a, false)
		for _, idx := range singleTargets(p.a, true, pairFrags(p.a, true)) {
			if len(idx) == 3 {
				p.thin3 = append(p.thin3, idx)
			}
		}
	}
	return p
}

func run(c *core.Ctx) {
	// the implementation allocates a read buffer per call: trade memory for fewer collections
	defer debug.SetGCPercent(debug.SetGCPercent(400))
	thorough := !c.Quick()
	pl := newPlan(thorough)
	w := &worker{c: c, a: pl.a, memo: map[string]state{}, docMemo: map[string]*docInfo{}}
	counts := map[string]int64{}
	defer func() {
		c.Add("evaluations", w.evals)
		for k, v := range counts {
			c.Add(k, v)
		}
	}()
	item := 0
	single := func(di int, d *document, list [][]int, level func(idx []int) int, what string) bool {
		for ti, idx := range list {
			item++
			if !c.Mine(item) {
				continue
			}
			if ti%256 == 0 && c.Expired("C17 "+what) {
				return false
			}
			x := w.a.Expr(idx)
			alts, open, err := d.js.targetAlts(x)
			if err != nil {
				c.HarnessError("%v", err)
				continue
			}
			if open {
				counts["cases_skipped_filter_verdict_open"]++
				continue
			}
			counts[what+"_cases"]++
			c.Case(func() string { return fmt.Sprintf("%s %v on %s", what, targetText(x), d.js.text) })
			w.runCase(d, []gens.JPExpr{x}, [][][]string{alts}, level(idx), (di*7919+ti)%4999 == 0)
		}
		return true
	}
	for di, ds := range pl.docs {
		d, err := w.makeDocument(ds)
		if err != nil {
			c.HarnessError("document %d: %v", di, err)
			continue
		}
		w.singleFail = map[string]bool{}
		if c.Shard == 0 {
			counts["documents"]++ // every shard walks every document: count them once
		}
		ok := single(di, d, pl.singles, func(idx []int) int {
			if !thorough && len(idx) > 1 && len(d.js.text) > quickSplitLen {
				return 1
			}
			return 2
		}, "single_target")
		ok = ok && single(di, d, pl.threes, func([]int) int { return 0 }, "single_target_3_fragments")
		ok = ok && single(di, d, pl.thin3, func([]int) int { return 1 }, "single_target_3_fragments_thinned_alphabet")
		if !ok {
			return
		}
		// ordered target pairs
		pts := pl.pairsBig
		if !pl.small[di] {
			pts = pl.pairsSml
		}
		var ptExpr []gens.JPExpr
		var pAlts [][][]string
		var pOpen []bool
		for ai := range pts {
			item++
			if !c.Mine(item) {
				continue
			}
			if c.Expired("C17 target pairs") {
				return
			}
			if pAlts == nil {
				ptExpr = make([]gens.JPExpr, len(pts))
				pAlts = make([][][]string, len(pts))
				pOpen = make([]bool, len(pts))
				for i, idx := range pts {
					ptExpr[i] = w.a.Expr(idx)
					var err error
					if pAlts[i], pOpen[i], err = d.js.targetAlts(ptExpr[i]); err != nil {
						c.HarnessError("%v", err)
						pOpen[i] = true
					}
				}
			}
			if pOpen[ai] {
				continue
			}
			for bi := range pts {
				if bi == ai {
					continue
				}
				if pOpen[bi] {
					counts["cases_skipped_filter_verdict_open"]++
					continue
				}
				counts["target_pair_cases"]++
				w.runCase(d, []gens.JPExpr{ptExpr[ai], ptExpr[bi]}, [][][]string{pAlts[ai], pAlts[bi]}, 1, (ai*131+bi)%3001 == 0 && di%5 == 0)
			}
		}
	}
}

// ------------------------------------------------------------------ replay

func replay(c *core.Ctx, raw json.RawMessage) {
	var cs caseT
	if err := json.Unmarshal(raw, &cs); err != nil {
		c.HarnessError("bad case: %v", err)
		return
	}
	w := &worker{c: c, a: gens.Paths(false), memo: map[string]state{}, docMemo: map[string]*docInfo{}}
	di, err := newDocFromText(cs.Form, cs.Doc)
	if err != nil {
		c.HarnessError("%v", err)
		return
	}
	st := state{targets: cs.Targets, ord: di.ord, ex: cs.Exec}
	seqs, xs, ok := w.prepare(st, di)
	if !ok {
		c.HarnessError("replay: the expectation of the case is open")
		return
	}
	size := len(cs.Doc)
	if cs.Kind == chunkDependent {
		var first *result
		for _, ex := range di.execList(2) {
			r := runExecData(ex.execSpec, di.text, di.data, ex.cks, xs)
			c.Eval()
			if first == nil {
				rr := r
				first = &rr
			} else if !sameObs(first, &r) {
				c.Fail("replay|"+chunkDependent, cs, size, "the same callbacks for every chunking", ex.lab+": "+showObs(&r)+" but "+showObs(first))
				return
			}
		}
		return
	}
	chunks := cs.Chunks
	if chunks == nil {
		chunks = cs.Exec.chunks(len(cs.Doc))
	}
	if orderCapable(di, cs.Targets) {
		if varies, fails := w.repeated(di, xs, seqs, ofRepsShrink); varies || fails {
			c.Fail("replay|"+objectFilter, cs, size, showExp(seqs), "some of the repeated executions report other callbacks")
		}
		return
	}
	r := runExec(cs.Exec, cs.Doc, chunks, xs)
	c.Eval()
	if matchAny(seqs, &r) >= 0 {
		return
	}
	for _, k := range classify(di, seqs[0], &r) {
		c.Fail("replay|"+k, cs, size, showExp(seqs), showObs(&r))
	}
}
