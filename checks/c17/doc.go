package c17

import (
	"encoding/json"
	"fmt"
	"sort"
	"strconv"
	"strings"

	"github.com/ohler55/ojg"
	"github.com/ohler55/ojg/oj"
	"github.com/ohler55/ojg/sen"

	"verif/internal/ref/pathref"
)

// ------------------------------------------------------------------ ordered documents
//
// "Document order" is the order of the TEXT. The harness therefore keeps its
// own ordered form of every document: it is obtained from the text by a small
// scanner of its own (only the order of the members is taken from it; the
// values the oracle uses come from oj.Parse / sen.Parse of the whole text, as
// the statement says) and the two are cross-checked.

type onode struct {
	kind byte // 'l' leaf, 'a' array, 'o' object
	leaf any
	keys []string // member keys in text order (objects)
	kids []*onode
}

// fromTree orders the members of every object by key (rev: descending).
func fromTree(v any, rev bool) *onode {
	switch t := v.(type) {
	case []any:
		n := &onode{kind: 'a'}
		for _, e := range t {
			n.kids = append(n.kids, fromTree(e, rev))
		}
		return n
	case map[string]any:
		n := &onode{kind: 'o'}
		for k := range t {
			n.keys = append(n.keys, k)
		}
		sort.Strings(n.keys)
		if rev {
			for i, j := 0, len(n.keys)-1; i < j; i, j = i+1, j-1 {
				n.keys[i], n.keys[j] = n.keys[j], n.keys[i]
			}
		}
		for _, k := range n.keys {
			n.kids = append(n.kids, fromTree(t[k], rev))
		}
		return n
	}
	return &onode{kind: 'l', leaf: v}
}

func (o *onode) plain() any {
	switch o.kind {
	case 'a':
		out := make([]any, len(o.kids))
		for i, k := range o.kids {
			out[i] = k.plain()
		}
		return out
	case 'o':
		out := make(map[string]any, len(o.kids))
		for i, k := range o.kids {
			out[o.keys[i]] = k.plain()
		}
		return out
	}
	return o.leaf
}

func (o *onode) size() int {
	n := 1
	for _, k := range o.kids {
		n += k.size()
	}
	return n
}

func bareKey(k string) bool {
	if k == "" {
		return false
	}
	for i := 0; i < len(k); i++ {
		c := k[i]
		if !('a' <= c && c <= 'z' || 'A' <= c && c <= 'Z' || c == '_' || (i > 0 && '0' <= c && c <= '9')) {
			return false
		}
	}
	return k != "null" && k != "true" && k != "false"
}

// render writes the document in the harness' own layout: exactly what
// oj.JSON(Sort) / sen.String(Sort) produce for key-sorted documents (checked
// once per document in newDoc) but with the member order the onode states.
func (o *onode) render(form string, b *strings.Builder) {
	switch o.kind {
	case 'a':
		b.WriteByte('[')
		for i, k := range o.kids {
			if i > 0 {
				if form != "sen" {
					b.WriteByte(',')
				} else if o.kids[i-1].kind == 'l' { // sen.String puts no separator after a closing bracket inside an array
					b.WriteByte(' ')
				}
			}
			k.render(form, b)
		}
		b.WriteByte(']')
	case 'o':
		b.WriteByte('{')
		for i, k := range o.kids {
			if i > 0 {
				if form == "sen" {
					b.WriteByte(' ')
				} else {
					b.WriteByte(',')
				}
			}
			if form == "sen" && bareKey(o.keys[i]) {
				b.WriteString(o.keys[i])
			} else {
				b.WriteString(strconv.Quote(o.keys[i]))
			}
			b.WriteByte(':')
			k.render(form, b)
		}
		b.WriteByte('}')
	default:
		switch t := o.leaf.(type) {
		case nil:
			b.WriteString("null")
		case bool:
			b.WriteString(strconv.FormatBool(t))
		case int64:
			b.WriteString(strconv.FormatInt(t, 10))
		case float64:
			b.WriteString(strconv.FormatFloat(t, 'g', -1, 64))
		case string:
			b.WriteString(strconv.Quote(t))
		default:
			b.WriteString(fmt.Sprint(t))
		}
	}
}

func (o *onode) text(form string) string {
	var b strings.Builder
	o.render(form, &b)
	return b.String()
}

// shape is the document's shape class for signatures: kind of the root,
// flat (members are leaves) or nested, and whether some container holds more
// than one member.
func (o *onode) shape() string {
	depth, wide := 0, false
	var walk func(n *onode, d int)
	walk = func(n *onode, d int) {
		if d > depth {
			depth = d
		}
		if len(n.kids) > 1 {
			wide = true
		}
		for _, k := range n.kids {
			walk(k, d+1)
		}
	}
	walk(o, 0)
	kind := map[byte]string{'l': "leaf", 'a': "arr", 'o': "obj"}[o.kind]
	if o.kind == 'l' {
		return kind
	}
	if len(o.kids) == 0 {
		return kind + ":empty"
	}
	w, n := "w1", "flat"
	if wide {
		w = "w2+"
	}
	if depth > 1 {
		n = "nested"
	}
	return kind + ":" + n + ":" + w
}

// ------------------------------------------------------------------ the harness' own scanner

type scanner struct {
	s string
	i int
}

func (p *scanner) ws() {
	for p.i < len(p.s) {
		switch p.s[p.i] {
		case ' ', '\t', '\n', '\r', ',':
			p.i++
		default:
			return
		}
	}
}

func (p *scanner) quoted() (string, error) {
	q := p.s[p.i]
	j := p.i + 1
	for j < len(p.s) && p.s[j] != q {
		if p.s[j] == '\\' {
			return "", fmt.Errorf("escape at %d not supported by the harness scanner", j)
		}
		j++
	}
	if j >= len(p.s) {
		return "", fmt.Errorf("unterminated string at %d", p.i)
	}
	out := p.s[p.i+1 : j]
	p.i = j + 1
	return out, nil
}

func (p *scanner) token() string {
	j := p.i
	for j < len(p.s) && !strings.ContainsRune(" \t\n\r,:[]{}\"'", rune(p.s[j])) {
		j++
	}
	out := p.s[p.i:j]
	p.i = j
	return out
}

func (p *scanner) value() (*onode, error) {
	p.ws()
	if p.i >= len(p.s) {
		return nil, fmt.Errorf("unexpected end")
	}
	switch c := p.s[p.i]; c {
	case '[':
		p.i++
		n := &onode{kind: 'a'}
		for {
			p.ws()
			if p.i >= len(p.s) {
				return nil, fmt.Errorf("array not closed")
			}
			if p.s[p.i] == ']' {
				p.i++
				return n, nil
			}
			k, err := p.value()
			if err != nil {
				return nil, err
			}
			n.kids = append(n.kids, k)
		}
	case '{':
		p.i++
		n := &onode{kind: 'o'}
		for {
			p.ws()
			if p.i >= len(p.s) {
				return nil, fmt.Errorf("object not closed")
			}
			if p.s[p.i] == '}' {
				p.i++
				return n, nil
			}
			var key string
			var err error
			if p.s[p.i] == '"' || p.s[p.i] == '\'' {
				key, err = p.quoted()
			} else if key = p.token(); key == "" {
				err = fmt.Errorf("key expected at %d", p.i)
			}
			if err != nil {
				return nil, err
			}
			p.ws()
			if p.i >= len(p.s) || p.s[p.i] != ':' {
				return nil, fmt.Errorf("colon expected at %d", p.i)
			}
			p.i++
			k, err := p.value()
			if err != nil {
				return nil, err
			}
			for _, have := range n.keys {
				if have == key {
					return nil, fmt.Errorf("duplicate key %q (outside the check's document language)", key)
				}
			}
			n.keys = append(n.keys, key)
			n.kids = append(n.kids, k)
		}
	case '"', '\'':
		s, err := p.quoted()
		return &onode{kind: 'l', leaf: s}, err
	}
	tok := p.token()
	switch tok {
	case "":
		return nil, fmt.Errorf("value expected at %d", p.i)
	case "null":
		return &onode{kind: 'l'}, nil
	case "true":
		return &onode{kind: 'l', leaf: true}, nil
	case "false":
		return &onode{kind: 'l', leaf: false}, nil
	}
	if n, err := strconv.ParseInt(tok, 10, 64); err == nil {
		return &onode{kind: 'l', leaf: n}, nil
	}
	if f, err := strconv.ParseFloat(tok, 64); err == nil {
		return &onode{kind: 'l', leaf: f}, nil
	}
	return &onode{kind: 'l', leaf: tok}, nil
}

func scanOrdered(text string) (*onode, error) {
	p := &scanner{s: text}
	n, err := p.value()
	if err != nil {
		return nil, err
	}
	p.ws()
	if p.i != len(p.s) {
		return nil, fmt.Errorf("trailing text at %d", p.i)
	}
	return n, nil
}

// ------------------------------------------------------------------ values

func num(v any) (float64, bool) {
	switch t := v.(type) {
	case int64:
		return float64(t), true
	case int:
		return float64(t), true
	case int32:
		return float64(t), true
	case uint64:
		return float64(t), true
	case float64:
		return t, true
	case float32:
		return float64(t), true
	case json.Number:
		f, err := strconv.ParseFloat(string(t), 64)
		return f, err == nil
	}
	return 0, false
}

// valEq is deep equality with numbers compared by value.
func valEq(a, b any) bool {
	switch ta := a.(type) {
	case nil:
		return b == nil
	case bool:
		tb, ok := b.(bool)
		return ok && ta == tb
	case string:
		tb, ok := b.(string)
		return ok && ta == tb
	case []any:
		tb, ok := b.([]any)
		if !ok || len(ta) != len(tb) {
			return false
		}
		for i := range ta {
			if !valEq(ta[i], tb[i]) {
				return false
			}
		}
		return true
	case map[string]any:
		tb, ok := b.(map[string]any)
		if !ok || len(ta) != len(tb) {
			return false
		}
		for k, e := range ta {
			o, has := tb[k]
			if !has || !valEq(e, o) {
				return false
			}
		}
		return true
	}
	fa, oka := num(a)
	fb, okb := num(b)
	return oka && okb && fa == fb
}

// show renders a value with sorted keys (for messages only).
func show(v any) string {
	switch t := v.(type) {
	case []any:
		parts := make([]string, len(t))
		for i, e := range t {
			parts[i] = show(e)
		}
		return "[" + strings.Join(parts, ",") + "]"
	case map[string]any:
		keys := make([]string, 0, len(t))
		for k := range t {
			keys = append(keys, k)
		}
		sort.Strings(keys)
		parts := make([]string, len(keys))
		for i, k := range keys {
			parts[i] = strconv.Quote(k) + ":" + show(t[k])
		}
		return "{" + strings.Join(parts, ",") + "}"
	case nil:
		return "null"
	case string:
		return strconv.Quote(t)
	}
	return fmt.Sprint(v)
}

// ------------------------------------------------------------------ document info

type nodeInfo struct {
	pos  string      // one byte per step: the position of the member in the text
	loc  pathref.Loc // normalised location
	path string      // canonical text of loc
	val  any         // value in the parsed document
}

type docInfo struct {
	form     string // json | sen
	text     string
	ord      *onode
	parsed   any
	byLoc    map[string]*nodeInfo
	byPos    map[string]*nodeInfo
	multiKey bool // holds an object with two or more members
	execs    map[int][]execItem
	data     []byte // the text as bytes (shared by the executions, never written by the harness)
}

func locKey(loc pathref.Loc) string {
	var b strings.Builder
	for _, s := range loc {
		switch t := s.(type) {
		case string:
			b.WriteByte('.')
			b.WriteString(strconv.Quote(t))
		case int:
			b.WriteByte('[')
			b.WriteString(strconv.Itoa(t))
			b.WriteByte(']')
		default:
			fmt.Fprintf(&b, "?%T", s)
		}
	}
	return b.String()
}

func parseWhole(form, text string) (any, error) {
	if form == "sen" {
		return sen.Parse([]byte(text))
	}
	return oj.Parse([]byte(text))
}

// newDocFromText builds the oracle's view of a document from its text.
func newDocFromText(form, text string) (*docInfo, error) {
	ord, err := scanOrdered(text)
	if err != nil {
		return nil, fmt.Errorf("harness scanner: %v", err)
	}
	return newDoc(form, text, ord)
}

func newDoc(form, text string, ord *onode) (d *docInfo, err error) {
	defer func() {
		if r := recover(); r != nil {
			err = fmt.Errorf("whole-document parse panicked: %v", r)
		}
	}()
	parsed, perr := parseWhole(form, text)
	if perr != nil {
		return nil, fmt.Errorf("whole-document parse failed: %v", perr)
	}
	if !valEq(parsed, ord.plain()) {
		return nil, fmt.Errorf("%s parse of %s gives %s, the harness scanner %s", form, text, show(parsed), show(ord.plain()))
	}
	d = &docInfo{form: form, text: text, data: []byte(text), ord: ord, parsed: parsed, byLoc: map[string]*nodeInfo{}, byPos: map[string]*nodeInfo{}}
	var walk func(o *onode, v any, pos []byte, loc pathref.Loc)
	walk = func(o *onode, v any, pos []byte, loc pathref.Loc) {
		ni := &nodeInfo{pos: string(pos), loc: append(pathref.Loc{}, loc...), val: v}
		ni.path = "$" + locKey(ni.loc)
		d.byLoc[locKey(ni.loc)] = ni
		d.byPos[ni.pos] = ni
		switch o.kind {
		case 'a':
			a := v.([]any)
			for i, k := range o.kids {
				walk(k, a[i], append(pos, byte(i+1)), append(loc, i))
			}
		case 'o':
			m := v.(map[string]any)
			if len(o.kids) > 1 {
				d.multiKey = true
			}
			for i, k := range o.kids {
				walk(k, m[o.keys[i]], append(pos, byte(i+1)), append(loc, o.keys[i]))
			}
		}
	}
	walk(ord, parsed, nil, nil)
	return d, nil
}

// libraryText renders with the library writers (Sort on).
func libraryText(form string, tree any) string {
	if form == "sen" {
		return sen.String(tree, &ojg.Options{Sort: true})
	}
	return oj.JSON(tree, &ojg.Options{Sort: true})
}
