package c11

import (
	"testing"

	"verif/internal/core"
	"verif/internal/gens"
)

func TestDbg(t *testing.T) {
	i := func(n int) any { return int64(n) }
	sub := []any{map[string]any{"x": i(1)}, map[string]any{"x": i(2)}}
	whole := []any{map[string]any{"a": []any{i(1)}}, map[string]any{"a": []any{i(2), i(1)}, "x": i(2)}, sub}
	c := core.NewCtx("quick", 0, 1, 0, 0)
	for _, cs := range []struct {
		spec gens.JPExpr
		d    any
	}{
		{gens.JPExpr{gens.JPSimple("root"), gens.JPSimple("wild"), gens.JPSlice(-2, -5, -3)}, whole},
		{gens.JPExpr{gens.JPSimple("root"), gens.JPSlice(-2, -5, -3)}, sub},
	} {
		tr := newTree(cs.d)
		x := cs.spec.Build()
		for _, r := range tr.reprs {
			t.Logf("%s on %s (%T): Get=%s Has=%v", x, r.Name, r.Value, showAll(x.Get(r.Value)), x.Has(r.Value))
		}
		fs, _ := examine(c, cs.spec, x, tr, nil)
		for _, f := range fs {
			t.Logf("   finding %+v", f)
		}
	}
}
