// Package c11 decides C11: every JSONPath evaluator and every data
// representation agrees with Expr.Get.
//
// For every path of the shared fragment alphabet (not ending in a bare
// descent) and every document of the corpus, Get on the simple form is the
// reference (as the property says). On every representation of the document
// (simple, gen nodes, typed slices, Go arrays, structs, pointers to structs,
// the harness's ordered Keyed collections in every key order, Indexed
// collections) the check runs Get, Has, First, FirstFound, Locate (max 0, 1,
// 2), Expr.Walk and, on gen data, GetNodes and FirstNode, and compares them
// with Get on the same representation and with Get on the simple form.
// Locations are compared with the reference evaluator pathref wherever Get
// itself agrees with pathref (otherwise that comparison is skipped and
// counted: the disagreement is C05's subject).
package c11

import (
	"encoding/json"
	"fmt"
	"reflect"
	"runtime/debug"
	"sort"
	"strings"

	"github.com/ohler55/ojg/gen"
	"github.com/ohler55/ojg/jp"

	"verif/internal/core"
	"verif/internal/gens"
	"verif/internal/ref/pathref"
)

const nShards = 16

func init() {
	core.Register(&core.Check{
		ID:     "C11",
		Level:  "exploration",
		Shards: func(string) int { return nShards },
		Run:    run,
		Replay: replay,
		Rule: "one case = (path, document): every sequence of <= k fragments after $ over the shared fragment alphabet that does not end in a bare descent x every document of the corpus; " +
			"each case is executed on every representation of the document that differs from the simple form and through every evaluator; documents holding an object with two or more members are executed twice (Go map order). " +
			"distinct_nontrivial = (path, document) pairs for which Get on the simple form selects at least one element; evaluations = calls of an ojg evaluator",
		Assumptions: []string{
			"Get on the simple form is the reference, as the property says; whether Get itself is right is C05",
			"locations come from pathref (unit-tested reference evaluator) and are only used when Get agrees with one of pathref's readings",
			"results are compared as multisets; order is only demanded of First / FirstNode (== Get[0]), GetNodes and of Get across representations, and only when it is defined: no descent, and no wildcard or filter applied to an object with two or more members",
			"the representation builders and Canon (internal/gens/reprs.go) are the harness's own reflect code; reflect is trusted",
			"a failing case is shrunk (proper prefix; rest of the path on each element the first fragment selects) before it is classified; a failure that a shorter case reproduces is reported there only",
		},
		Bound: func(tier string) string {
			wide, thin := len(gens.Paths(true).Frags), len(gens.Paths(false).Frags)
			d3, d4 := len(gens.PathData(3)), len(gens.PathData(4))
			if tier == "thorough" {
				return fmt.Sprintf("wide alphabet (%d fragments) k<=2 on the %d documents of PathData(4) (all trees <=4 nodes + hand-made larger ones); thinned alphabet (%d fragments) k=3 on the %d documents of PathData(3) that are nested at least 2 deep (on flatter ones a third fragment has nothing to apply to; they are covered with k<=2); ", wide, d4, thin, len(gens.DeepDocs(gens.PathData(3), 2))) + reprBound
			}
			return fmt.Sprintf("wide alphabet (%d fragments) k<=2 on the %d documents of PathData(3) (all trees <=3 nodes + hand-made larger ones); ", wide, d3) + reprBound
		},
	})
}

const reprBound = "representations simple, gen, typed slices, Go arrays, struct values, pointers to structs, Keyed in every key order, Indexed; " +
	"evaluators Get, Has, First, FirstFound, Locate(0|1|2), Expr.Walk, GetNodes, FirstNode"

type caseT struct {
	Path gens.JPExpr `json:"path"`
	Text string      `json:"path_text"`
	Data any         `json:"data"`
	Repr string      `json:"repr"`
	Eval string      `json:"evaluator"`
	Kind string      `json:"kind"`
}

// ------------------------------------------------------------------ documents

type tree struct {
	simple any
	reprs  []gens.Repr
	multi  bool
	raw    any
	text   string
}

func newTree(v any) *tree {
	return &tree{simple: v, reprs: gens.Reprs(v), multi: gens.HasMultiKeyMap(v)}
}

func (t *tree) encoded() any {
	if t.raw == nil {
		t.raw = gens.EncodeTree(t.simple)
	}
	return t.raw
}

func (t *tree) show() string {
	if t.text == "" {
		t.text = gens.Show(t.simple)
	}
	return t.text
}

// ------------------------------------------------------------------ identity and comparison

func ptrOf(v any) uintptr { return reflect.ValueOf(v).Pointer() }

// same reports whether two results are the same element: the same container
// object where that can be told (simple, gen, Keyed, Indexed), equal values
// otherwise.
func same(a, b any) bool {
	switch ta := a.(type) {
	case nil:
		return b == nil
	case int64:
		tb, ok := b.(int64)
		return ok && ta == tb
	case gen.Int:
		tb, ok := b.(gen.Int)
		return ok && ta == tb
	case []any:
		tb, ok := b.([]any)
		return ok && len(ta) == len(tb) && (len(ta) == 0 || &ta[0] == &tb[0])
	case gen.Array:
		tb, ok := b.(gen.Array)
		return ok && len(ta) == len(tb) && (len(ta) == 0 || &ta[0] == &tb[0])
	case map[string]any:
		tb, ok := b.(map[string]any)
		return ok && ptrOf(ta) == ptrOf(tb)
	case gen.Object:
		tb, ok := b.(gen.Object)
		return ok && ptrOf(ta) == ptrOf(tb)
	case *gens.OrdKeyed:
		tb, ok := b.(*gens.OrdKeyed)
		return ok && ta == tb
	case *gens.OrdIndexed:
		tb, ok := b.(*gens.OrdIndexed)
		return ok && ta == tb
	}
	if a != nil && b != nil && reflect.TypeOf(a) != reflect.TypeOf(b) {
		return false
	}
	return reflect.DeepEqual(gens.Canon(a), gens.Canon(b))
}

// matchMulti reports whether a and b are equal as multisets under eq.
func matchMulti(a, b []any, eq func(x, y any) bool) bool {
	if len(a) != len(b) {
		return false
	}
	if len(a) == 1 {
		return eq(a[0], b[0])
	}
	used := make([]bool, len(b))
outer:
	for _, x := range a {
		for j, y := range b {
			if !used[j] && eq(x, y) {
				used[j] = true
				continue outer
			}
		}
		return false
	}
	return true
}

func deepEq(x, y any) bool { return reflect.DeepEqual(x, y) }

func canonAll(vs []any) []any {
	out := make([]any, len(vs))
	for i, v := range vs {
		out[i] = gens.Canon(v)
	}
	return out
}

// cmpLists compares a result list with the reference list (both in simple
// form): "" when equal (as a sequence when ordered, as a multiset otherwise).
func cmpLists(got, want []any, ordered bool) string {
	if len(got) == len(want) {
		seq := true
		for i := range got {
			if !reflect.DeepEqual(got[i], want[i]) {
				seq = false
				break
			}
		}
		if seq {
			return ""
		}
		if matchMulti(got, want, deepEq) {
			if ordered {
				return "order"
			}
			return ""
		}
		return "wrong-elements"
	}
	if len(got) < len(want) {
		return "missing"
	}
	return "extra"
}

func showAll(vs []any) string {
	parts := make([]string, len(vs))
	for i, v := range vs {
		parts[i] = gens.Show(gens.Canon(v))
	}
	return "[" + strings.Join(parts, " ") + "]"
}

func sameStrings(a, b []string) bool {
	if len(a) != len(b) {
		return false
	}
	for i := range a {
		if a[i] != b[i] {
			return false
		}
	}
	return true
}

// ------------------------------------------------------------------ guarded evaluator calls

type evalRes struct {
	vals  []any     // Get / GetNodes / the elements of Walk
	paths []jp.Expr // Locate / Walk
	one   any       // First / FirstFound / FirstNode
	flag  bool      // Has / FirstFound
	pv    any       // recovered panic
}

func guard(c *core.Ctx, fn func(r *evalRes)) (r evalRes) {
	defer func() {
		if p := recover(); p != nil {
			r = evalRes{pv: p}
		}
	}()
	c.Eval()
	fn(&r)
	return
}

func doGet(c *core.Ctx, x jp.Expr, data any) evalRes {
	return guard(c, func(r *evalRes) { r.vals = x.Get(data) })
}

// ------------------------------------------------------------------ locations

func lowerFirst(s string) string {
	if s != "" && 'A' <= s[0] && s[0] <= 'Z' {
		return string(s[0]+'a'-'A') + s[1:]
	}
	return s
}

// locOf resolves a located path on the simple form of the document and
// renders it as a location key. neg reports an un-normalised (negative)
// index in the path.
func locOf(p jp.Expr, simple any, lower bool) (key string, neg, ok bool) {
	cur := simple
	loc := make([]any, 0, len(p))
	for _, f := range p {
		switch tf := f.(type) {
		case jp.Root, jp.At, jp.Bracket:
		case jp.Child:
			k := string(tf)
			if lower {
				k = lowerFirst(k)
			}
			m, isMap := cur.(map[string]any)
			if !isMap {
				return "", neg, false
			}
			v, has := m[k]
			if !has {
				return "", neg, false
			}
			cur = v
			loc = append(loc, k)
		case jp.Nth:
			a, isArr := cur.([]any)
			if !isArr {
				return "", neg, false
			}
			i := int(tf)
			if i < 0 {
				neg = true
				i += len(a)
			}
			if i < 0 || len(a) <= i {
				return "", neg, false
			}
			cur = a[i]
			loc = append(loc, i)
		default:
			return "", neg, false
		}
	}
	return gens.LocKey(loc), neg, true
}

// refLocs returns, for every pathref reading that agrees with Get's result on
// the simple form, the sorted location keys (nil when none agrees or a filter
// verdict is open).
func refLocs(spec gens.JPExpr, simple any, gs []any, ordered bool) [][]string {
	vs := pathref.Variants[:1]
	for _, f := range spec {
		if f.K == "slice" {
			if _, _, sp := gens.SliceParts(f); sp != 1 {
				vs = pathref.Variants
			}
		}
	}
	var out [][]string
	for _, v := range vs {
		r := pathref.SelectSpec(spec, simple, v)
		if r.Open {
			return nil
		}
		want := make([]any, len(r.Hits))
		for i, h := range r.Hits {
			want[i] = h.Value
		}
		if cmpLists(gs, want, ordered) != "" {
			continue
		}
		keys := make([]string, len(r.Hits))
		for i, h := range r.Hits {
			keys[i] = gens.LocKey(h.Loc)
		}
		sort.Strings(keys)
		dup := false
		for _, o := range out {
			if sameStrings(o, keys) {
				dup = true
			}
		}
		if !dup {
			out = append(out, keys)
		}
	}
	return out
}

// ------------------------------------------------------------------ findings

type finding struct {
	eval, repr, kind string
	exp, obs         string
}

type only struct{ eval, family, kind string }

func (o *only) wantsRepr(name string) bool { return o == nil || o.family == gens.ReprFamily(name) }
func (o *only) wantsEval(e string) bool    { return o == nil || o.eval == e }

type examiner struct {
	c      *core.Ctx
	spec   gens.JPExpr
	x      jp.Expr
	t      *tree
	only   *only
	out    []finding
	gs     []any // Get on the simple form
	gsc    []any // canonical (it is simple already)
	order  bool  // order is defined: see ordered()
	orderK bool
	locs   [][]string
	locsK  bool // locs computed
}

func (e *examiner) add(eval, repr, kind, exp, obs string) {
	e.out = append(e.out, finding{eval, repr, kind, exp, obs})
}

func (e *examiner) panicked(eval, repr string, pv any) {
	e.add(eval, repr, "panic:"+gens.JPPanicKind(pv), "a result", fmt.Sprintf("panic: %v", pv))
}

// ordered reports whether the order of the results is defined: the path has
// no descent and no wildcard or filter is applied to an object with two or
// more members (a union lists its members, a child selects one).
func (e *examiner) ordered() bool {
	if e.orderK {
		return e.order
	}
	e.orderK = true
	e.order = orderDefined(e.spec, e.t)
	return e.order
}

func orderDefined(spec gens.JPExpr, t *tree) bool {
	if spec.HasFrag("desc") {
		return false
	}
	if !t.multi {
		return true
	}
	for i := 1; i < len(spec); i++ {
		if k := spec[i].K; k != "wild" && k != "filter" {
			continue
		}
		nodes := []pathref.Hit{{Value: t.simple}}
		if i > 1 {
			nodes = pathref.SelectSpec(spec[:i], t.simple, pathref.Variants[0]).Hits
		}
		for _, n := range nodes {
			if m, ok := n.Value.(map[string]any); ok && len(m) > 1 {
				return false
			}
		}
	}
	return true
}

func (e *examiner) referenceLocs() [][]string {
	if !e.locsK {
		e.locsK = true
		e.locs = refLocs(e.spec, e.t.simple, e.gs, e.ordered())
		if e.locs == nil {
			e.c.Add("location_comparison_skipped_get_disagrees_with_pathref", 1)
		}
	}
	return e.locs
}

// examine runs every evaluator on every representation and returns the
// disagreements; nontrivial = Get selects something on the simple form.
func examine(c *core.Ctx, spec gens.JPExpr, x jp.Expr, t *tree, o *only) (out []finding, nontrivial bool) {
	e := &examiner{c: c, spec: spec, x: x, t: t, only: o}
	g := doGet(c, x, t.simple)
	if g.pv != nil {
		c.Add("get_on_simple_form_panicked_case_left_to_C05", 1)
		return nil, false
	}
	e.gs, e.gsc = g.vals, g.vals
	for _, r := range t.reprs {
		if r.Name == "embstruct" && !nameLookupOnly(spec) {
			continue // promoted fields are a matter of lookup by name; what a wildcard, descent or filter sees of an embedded struct is not fixed
		}
		if o.wantsRepr(r.Name) {
			e.repr(r)
		}
	}
	return e.out, len(g.vals) > 0
}

func (e *examiner) repr(r gens.Repr) {
	c, x, o := e.c, e.x, e.only
	simple := r.Name == "simple"
	lower := strings.HasSuffix(gens.ReprFamily(r.Name), "struct")
	gr := e.gs
	if !simple {
		g := doGet(c, x, r.Value)
		if g.pv != nil {
			if o.wantsEval("Get") {
				e.panicked("Get", r.Name, g.pv)
			}
			return
		}
		gr = g.vals
	}
	var has, ff, loc0, walk, gn, fn evalRes
	skipLocate := false
	if o.wantsEval("Has") {
		has = guard(c, func(res *evalRes) { res.flag = x.Has(r.Value) })
	}
	if o.wantsEval("First") {
		ff = guard(c, func(res *evalRes) { res.one, res.flag = x.FirstFound(r.Value) })
	}
	if o.wantsEval("Locate") {
		if zeroStepLocateHangs && hasZeroStep(e.spec) && reflective(r.Name) {
			// Locate does not return here on the current tree (reported once by
			// hangProbe); the call cannot be made in-process.
			c.Add("locate_calls_skipped_zero_step_slice_on_reflected_slice_does_not_terminate", 1)
			skipLocate = true
		} else {
			loc0 = guard(c, func(res *evalRes) { res.paths = x.Locate(r.Value, 0) })
		}
	}
	if o.wantsEval("Walk") {
		walk = guard(c, func(res *evalRes) {
			x.Walk(r.Value, func(p jp.Expr, nodes []any) {
				res.paths = append(res.paths, append(jp.Expr{}, p...))
				res.vals = append(res.vals, nodes[len(nodes)-1])
			})
		})
	}
	node, isGen := r.Value.(gen.Node)
	if isGen && o.wantsEval("GetNodes") {
		gn = guard(c, func(res *evalRes) {
			for _, n := range x.GetNodes(node) {
				res.vals = append(res.vals, n)
			}
		})
	}
	if isGen && o.wantsEval("FirstNode") {
		fn = guard(c, func(res *evalRes) {
			if n := x.FirstNode(node); n != nil {
				res.one, res.flag = n, true
			}
		})
		for _, g := range gr {
			// a selected null is the nil gen.Node: FirstNode returns it as it returns nothing
			if fn.pv == nil && !fn.flag && isNull(g) {
				fn.flag = true
			}
		}
	}
	if len(gr) == 0 && len(e.gs) == 0 && !has.flag && !ff.flag && len(loc0.paths) == 0 && len(walk.paths) == 0 && len(gn.vals) == 0 && !fn.flag &&
		has.pv == nil && ff.pv == nil && loc0.pv == nil && walk.pv == nil && gn.pv == nil && fn.pv == nil {
		return // nothing selected anywhere
	}
	// Get on this representation against Get on the simple form
	if !simple && o.wantsEval("Get") {
		if k := cmpLists(canonAll(gr), e.gsc, false); k != "" || len(gr) > 1 && e.ordered() && cmpLists(canonAll(gr), e.gsc, true) != "" {
			if k == "" {
				k = "order"
			}
			e.add("Get", r.Name, k, "Get on the simple form: "+showAll(e.gs), showAll(gr))
		}
	}
	// Has
	if o.wantsEval("Has") {
		switch {
		case has.pv != nil:
			e.panicked("Has", r.Name, has.pv)
		case has.flag && len(gr) == 0:
			e.add("Has", r.Name, "extra", "false (Get is empty)", "true")
		case !has.flag && len(gr) > 0:
			e.add("Has", r.Name, "missing", "true (Get returns "+showAll(gr)+")", "false")
		}
	}
	// First / FirstFound
	if o.wantsEval("First") {
		e.first("First", r.Name, ff, gr, true)
		if ff.pv == nil {
			// First is FirstFound without the flag; on map-order dependent
			// cases the two calls may legitimately pick different members.
			f1 := guard(c, func(res *evalRes) { res.one = x.First(r.Value) })
			f1.flag = f1.one != nil
			for _, g := range gr {
				// a selected null: First returns nil for it as it does for nothing
				if f1.one == nil && isNull(g) {
					f1.flag = true
				}
			}
			if n := len(e.out); n == 0 || e.out[n-1].eval != "First" || e.out[n-1].repr != r.Name {
				e.first("First", r.Name, f1, gr, true)
			}
		}
	}
	if isGen && o.wantsEval("FirstNode") {
		e.first("FirstNode", r.Name, fn, gr, false)
	}
	if isGen && o.wantsEval("GetNodes") {
		switch {
		case gn.pv != nil:
			e.panicked("GetNodes", r.Name, gn.pv)
		case !matchMulti(gn.vals, gr, same):
			k := cmpLists(canonAll(gn.vals), canonAll(gr), false)
			if k == "" {
				k = "wrong-elements" // equal values but not the same nodes
			}
			e.add("GetNodes", r.Name, k, "Get: "+showAll(gr), showAll(gn.vals))
		case len(gr) > 1 && e.ordered() && cmpLists(canonAll(gn.vals), canonAll(gr), true) != "":
			e.add("GetNodes", r.Name, "order", "Get: "+showAll(gr), showAll(gn.vals))
		}
	}
	if o.wantsEval("Locate") && !skipLocate {
		if loc0.pv != nil {
			e.panicked("Locate", r.Name, loc0.pv)
		} else {
			keys, good := e.located("Locate", r, lower, loc0.paths, nil, gr)
			if good {
				e.locateMax(r, lower, keys)
			}
		}
	}
	if o.wantsEval("Walk") {
		if walk.pv != nil {
			e.panicked("Walk", r.Name, walk.pv)
		} else {
			e.located("Walk", r, lower, walk.paths, walk.vals, gr)
		}
	}
}

// first checks FirstFound / FirstNode against Get on the same representation.
func isNull(v any) bool {
	if v == nil {
		return true
	}
	rv := reflect.ValueOf(v)
	switch rv.Kind() {
	case reflect.Ptr, reflect.Interface, reflect.Map, reflect.Slice:
		return rv.IsNil()
	}
	return false
}

func (e *examiner) first(eval, repr string, ff evalRes, gr []any, identity bool) {
	switch {
	case ff.pv != nil:
		e.panicked(eval, repr, ff.pv)
	case ff.flag && len(gr) == 0:
		e.add(eval, repr, "extra", "nothing (Get is empty)", gens.Show(gens.Canon(ff.one)))
	case !ff.flag && len(gr) > 0:
		e.add(eval, repr, "missing", "a member of "+showAll(gr), "nothing")
	case ff.flag:
		member := false
		for _, g := range gr {
			if same(ff.one, g) {
				member = true
				break
			}
		}
		if !member {
			e.add(eval, repr, "wrong-elements", "a member of "+showAll(gr), gens.Show(gens.Canon(ff.one)))
		} else if !same(ff.one, gr[0]) && e.ordered() {
			e.add(eval, repr, "order", "Get[0] = "+gens.Show(gens.Canon(gr[0])), gens.Show(gens.Canon(ff.one)))
		}
	}
}

// located checks the paths reported by Locate or Walk: each is Normal(), its
// own Get yields exactly one element, those elements are Get's results, and
// the locations are the reference locations. It returns the sorted location
// keys and whether everything was in order.
func (e *examiner) located(eval string, r gens.Repr, lower bool, paths []jp.Expr, elems []any, gr []any) ([]string, bool) {
	var (
		got    = make([]any, 0, len(paths))
		keys   = make([]string, 0, len(paths))
		negIdx bool
	)
	for i, p := range paths {
		if !p.Normal() {
			e.add(eval, r.Name, "not-normal", "a path of root, child and index fragments", p.String())
			return nil, false
		}
		g := doGet(e.c, p, r.Value)
		if len(p) == 0 {
			g = evalRes{vals: []any{r.Value}} // Walk leaves the root out of its paths: the empty path is the document
		}
		if g.pv != nil || len(g.vals) != 1 {
			e.add(eval, r.Name, "wrong-path", "a path whose own Get yields exactly one element", fmt.Sprintf("%s yields %d elements (panic: %v)", p, len(g.vals), g.pv))
			return nil, false
		}
		if elems != nil && !same(elems[i], g.vals[0]) {
			e.add(eval, r.Name, "wrong-path", "the element handed to the callback is the one at the reported path "+p.String(),
				gens.Show(gens.Canon(elems[i]))+" but the path holds "+gens.Show(gens.Canon(g.vals[0])))
			return nil, false
		}
		got = append(got, g.vals[0])
		key, neg, ok := locOf(p, e.t.simple, lower)
		if !ok {
			e.add(eval, r.Name, "wrong-path", "a location of the document", p.String())
			return nil, false
		}
		negIdx = negIdx || neg
		keys = append(keys, key)
	}
	if !matchMulti(got, gr, same) {
		k := "wrong-path"
		switch {
		case len(got) < len(gr):
			k = "missing"
		case len(got) > len(gr):
			k = "extra"
		}
		e.add(eval, r.Name, k, "paths to Get's results "+showAll(gr), fmt.Sprintf("%v -> %s", paths, showAll(got)))
		return nil, false
	}
	sort.Strings(keys)
	if refs := e.referenceLocs(); refs != nil {
		okLoc := false
		for _, ref := range refs {
			if sameStrings(ref, keys) {
				okLoc = true
			}
		}
		if !okLoc {
			e.add(eval, r.Name, "wrong-path", "locations "+strings.Join(refs[0], " "), strings.Join(keys, " "))
			return nil, false
		}
	}
	if negIdx {
		e.add(eval, r.Name, "not-normal:negative-index", "normalised paths (non-negative indexes, as Locate reports them)", fmt.Sprint(paths))
		return keys, false
	}
	return keys, true
}

// locateMax checks Locate(data, m) for m = 1, 2: min(m, total) paths, each
// one of the paths Locate(data, 0) reports.
func (e *examiner) locateMax(r gens.Repr, lower bool, all []string) {
	for m := 1; m <= 2; m++ {
		lm := guard(e.c, func(res *evalRes) { res.paths = e.x.Locate(r.Value, m) })
		if lm.pv != nil {
			e.panicked("Locate", r.Name, lm.pv)
			return
		}
		want := m
		if len(all) < want {
			want = len(all)
		}
		switch {
		case len(lm.paths) > want:
			e.add("Locate", r.Name, "max-exceeded", fmt.Sprintf("Locate(data, %d) returns %d of the %d paths", m, want, len(all)), fmt.Sprintf("%d paths %v", len(lm.paths), lm.paths))
			return
		case len(lm.paths) < want:
			e.add("Locate", r.Name, "max-short", fmt.Sprintf("Locate(data, %d) returns %d of the %d paths", m, want, len(all)), fmt.Sprintf("%d paths %v", len(lm.paths), lm.paths))
			return
		}
		rest := append([]string{}, all...)
		for _, p := range lm.paths {
			key, _, ok := locOf(p, e.t.simple, lower)
			found := false
			for i, k := range rest {
				if ok && k == key {
					rest = append(rest[:i], rest[i+1:]...)
					found = true
					break
				}
			}
			if !found {
				e.add("Locate", r.Name, "max-wrong-path", "a sub-multiset of "+strings.Join(all, " "), fmt.Sprint(lm.paths))
				return
			}
		}
	}
}

// ------------------------------------------------------------------ non-termination probe

// zeroStepLocateHangs is set by hangProbe when Locate on a slice or array
// reached by reflection loops forever for a slice fragment with step 0 (the
// reflection branch of Slice.locate lacks the step == 0 exit the other
// branches have). Such a call cannot be made in-process, so the defect is
// detected with a bounded max, reported, and the calls are skipped (counted).
var zeroStepLocateHangs bool

func hasZeroStep(spec gens.JPExpr) bool {
	for _, f := range spec {
		if f.K == "slice" {
			if _, _, sp := gens.SliceParts(f); sp == 0 {
				return true
			}
		}
	}
	return false
}

func reflective(repr string) bool {
	switch gens.ReprFamily(repr) {
	case "typed", "array", "pstruct":
		return true
	}
	return false
}

// hangProbe calls Locate with max = 4 for $[1:0:0] on []int64{1,2,3}: a step
// of 0 selects nothing, so any returned path shows the loop that never ends
// when max is 0.
func hangProbe(c *core.Ctx, reportIt bool) {
	spec := gens.JPExpr{gens.JPSimple("root"), gens.JPSlice(1, 0, 0)}
	data := []any{int64(1), int64(2), int64(3)}
	res := guard(c, func(r *evalRes) { r.paths = spec.Build().Locate(gens.ToTyped(data), 4) })
	if res.pv == nil && len(res.paths) == 0 {
		return
	}
	zeroStepLocateHangs = true
	if reportIt {
		t := newTree(data)
		cs := caseT{Path: spec, Text: spec.Build().String(), Data: t.encoded(), Repr: "typed", Eval: "Locate", Kind: "does-not-terminate"}
		c.Fail(core.Sig("Locate", "slice", "reflect", "pos=last", gens.FragBound(spec[1], data), "does-not-terminate"), cs, 2000,
			"no path (a step of 0 selects nothing; Get returns nothing)",
			fmt.Sprintf("Locate(data, 4) returns %d paths %v (panic: %v); with max 0 the loop never ends", len(res.paths), res.paths, res.pv))
	}
}

// ------------------------------------------------------------------ shrinking and classification

var subtrees = map[string]*tree{}

// nameLookupOnly: the path consists of child, index and union fragments.
func nameLookupOnly(spec gens.JPExpr) bool {
	for _, f := range spec[1:] {
		if f.K != "child" && f.K != "nth" && f.K != "union" {
			return false
		}
	}
	return true
}

func subtree(v any) *tree {
	k := gens.Show(v)
	if t, ok := subtrees[k]; ok {
		return t
	}
	t := newTree(v)
	if len(subtrees) < 4096 {
		subtrees[k] = t
	}
	return t
}

func reproduces(c *core.Ctx, spec gens.JPExpr, t *tree, f finding) (finding, bool) {
	o := &only{eval: f.eval, family: gens.ReprFamily(f.repr), kind: f.kind}
	rounds := 1
	if t.multi {
		rounds = 3 // the outcome may depend on the map order the evaluator meets
	}
	x := spec.Build()
	for i := 0; i < rounds; i++ {
		fs, _ := examine(c, spec, x, t, o)
		for _, g := range fs {
			if g.eval == f.eval && g.kind == f.kind {
				return g, true
			}
		}
	}
	return finding{}, false
}

// shrink looks for a shorter case with the same (evaluator, representation
// family, discrepancy). explained = a proper prefix of the path already fails
// on the same document (that case is enumerated on its own).
func shrink(c *core.Ctx, spec gens.JPExpr, t *tree, f finding, depth int) (gens.JPExpr, *tree, finding, bool) {
	n := len(spec) - 1 // fragments after the root
	for j := 1; j < n; j++ {
		pre := spec[:j+1]
		if pre[j].K == "desc" {
			continue
		}
		if _, ok := reproduces(c, pre, t, f); ok {
			return nil, nil, f, true
		}
	}
	if n >= 2 && depth < 4 {
		rest := append(gens.JPExpr{gens.JPSimple("root")}, spec[2:]...)
		seen := map[string]bool{}
		for _, h := range pathref.SelectSpec(spec[:2], t.simple, pathref.Variants[0]).Hits {
			if kind, _ := gens.NodeKind(h.Value); kind == "scalar" {
				continue
			}
			st := subtree(h.Value)
			if seen[st.show()] {
				continue
			}
			seen[st.show()] = true
			if g, ok := reproduces(c, rest, st, f); ok {
				return shrink(c, rest, st, g, depth+1)
			}
		}
	}
	return spec, t, f, false
}

// filterBlamed decides, for an unshrinkable case that ends in a $-rooted
// filter, whether the filter is at fault: it is not when the same case with a
// wildcard in its place fails in the same way.
func filterBlamed(c *core.Ctx, spec gens.JPExpr, t *tree, f finding) bool {
	if len(spec) <= 2 || !spec[len(spec)-1].RootFilter() {
		return false
	}
	alt := append(append(gens.JPExpr{}, spec[:len(spec)-1]...), gens.JPSimple("wild"))
	_, same := reproduces(c, alt, t, f)
	return !same
}

func signature(spec gens.JPExpr, t *tree, f finding, filterBlamed bool) string {
	if len(spec) == 1 {
		return core.Sig(f.eval, "no-fragment:"+spec[0].K, gens.ReprClass(f.repr), f.kind)
	}
	f1 := spec[1]
	if last := spec[len(spec)-1]; len(spec) > 2 && last.RootFilter() && filterBlamed {
		// a $-rooted filter cannot be re-rooted by the shrinker: such cases are
		// keyed by the filter, whatever precedes it
		return core.Sig(f.eval, "filter-with-$", gens.ReprClass(f.repr), "pos=last", "-", f.kind)
	}
	parts := []string{f.eval, f1.K, gens.ReprClass(f.repr)}
	if len(spec) == 2 {
		parts = append(parts, "pos=last", gens.FragBound(f1, t.simple))
	} else {
		parts = append(parts, "pos=inner", gens.FragBound(f1, t.simple), "then="+spec[2].K)
	}
	return core.Sig(append(parts, f.kind)...)
}

func report(c *core.Ctx, spec gens.JPExpr, t *tree, fs []finding) {
	onSimple := map[string]bool{}
	for _, f := range fs {
		if f.repr == "simple" {
			onSimple[f.eval+"|"+f.kind] = true
		}
	}
	done := map[string]bool{}
	for _, f := range fs {
		if f.repr != "simple" && onSimple[f.eval+"|"+f.kind] {
			c.Add("failures_on_other_representations_that_the_simple_form_shows_too", 1)
			continue
		}
		key := f.eval + "|" + gens.ReprClass(f.repr) + "|" + f.kind
		if done[key] {
			continue // another representation evaluated by the same code
		}
		done[key] = true
		s, st, g, explained := shrink(c, spec, t, f, 0)
		if explained {
			c.Add("failures_reproduced_by_a_proper_prefix_reported_there", 1)
			continue
		}
		if g.repr != "simple" {
			// the shrunk case may fail on the simple form as well (the original
			// did not, e.g. because of the map order it met): key it there
			if gs, ok := reproduces(c, s, st, finding{eval: g.eval, repr: "simple", kind: g.kind}); ok {
				g = gs
			}
		}
		x := s.Build()
		if clampedStartReading(c, s, x, st, g) {
			// known finding (shared with C05): Locate / Walk clamp the start of a
			// negative-step slice that lies beyond the array, Get selects nothing.
			cs := caseT{Path: s, Text: x.String(), Data: st.encoded(), Repr: g.repr, Eval: g.eval, Kind: "negative-step-start-clamped"}
			c.Fail(core.Sig(g.eval, "negative-step-start-clamped"), cs, len(s)*1000+len(st.show()), g.exp, g.obs+"   ["+g.eval+" of "+x.String()+" on "+g.repr+" form of "+st.show()+"]")
			continue
		}
		if startElementReading(c, s, x, st, g) {
			// known finding: Has / First read a slice over a reflected slice or array
			// as the element at its start. Only cases whose outcome is what that
			// reading prescribes are keyed here.
			cs := caseT{Path: s, Text: x.String(), Data: st.encoded(), Repr: g.repr, Eval: g.eval, Kind: "slice-read-as-start-element"}
			c.Fail(core.Sig(g.eval, "slice-read-as-start-element-by-reflection"), cs, len(s)*1000+len(st.show()), g.exp, g.obs+"   ["+g.eval+" of "+x.String()+" on "+g.repr+" form of "+st.show()+"]")
			continue
		}
		cs := caseT{Path: s, Text: x.String(), Data: st.encoded(), Repr: g.repr, Eval: g.eval, Kind: g.kind}
		size := len(s)*1000 + len(st.show()) + reprPenalty(g.repr)
		c.Fail(signature(s, st, g, filterBlamed(c, s, st, g)), cs, size, g.exp, g.obs+"   ["+g.eval+" of "+x.String()+" on "+g.repr+" form of "+st.show()+"]")
	}
}

// startElementReading reports whether Has or First, failing against Get on a
// representation reached by reflection, returns what Get returns for the path
// in which every slice fragment is replaced by the index of its start.
func startElementReading(c *core.Ctx, spec gens.JPExpr, x jp.Expr, t *tree, f finding) bool {
	if (f.eval != "Has" && f.eval != "First") || gens.ReprClass(f.repr) != "reflect" || !spec.HasFrag("slice") {
		return false
	}
	var at []int // positions of the slice fragments
	for i, fr := range spec {
		if fr.K == "slice" {
			at = append(at, i)
		}
	}
	for _, r := range t.reprs {
		if r.Name != f.repr {
			continue
		}
		has := guard(c, func(res *evalRes) { res.flag = x.Has(r.Value) })
		ff := guard(c, func(res *evalRes) { res.one, res.flag = x.FirstFound(r.Value) })
		if has.pv != nil || ff.pv != nil {
			return false
		}
		// which slices meet a reflected container depends on the data: any
		// non-empty subset of them read as start elements may explain the result
		for mask := 1; mask < 1<<len(at); mask++ {
			alt := append(gens.JPExpr{}, spec...)
			for j, i := range at {
				if mask&(1<<j) != 0 {
					start := 0
					if len(spec[i].S) > 0 {
						start = spec[i].S[0]
					}
					alt[i] = gens.JPNth(start)
				}
			}
			want := doGet(c, alt.Build(), r.Value)
			if want.pv != nil {
				continue
			}
			if f.eval == "Has" {
				if has.flag == (len(want.vals) > 0) {
					return true
				}
				continue
			}
			if ff.flag != (len(want.vals) > 0) {
				continue
			}
			if !ff.flag {
				return true
			}
			for _, g := range want.vals {
				if same(ff.one, g) {
					return true
				}
			}
		}
		return false
	}
	return false
}

// clampedStartReading reports whether Locate or Walk, failing against Get on
// the simple form, report exactly the locations of the pathref reading that
// clamps out-of-range slice bounds (Python), for a path with a negative-step
// slice. Get agrees with the unclamped reading there (C05 finding).
func clampedStartReading(c *core.Ctx, spec gens.JPExpr, x jp.Expr, t *tree, f finding) bool {
	if (f.eval != "Locate" && f.eval != "Walk") || f.repr != "simple" {
		return false
	}
	neg := false
	for _, fr := range spec {
		if fr.K == "slice" {
			if _, _, sp := gens.SliceParts(fr); sp < 0 {
				neg = true
			}
		}
	}
	if !neg {
		return false
	}
	var res evalRes
	if f.eval == "Locate" {
		res = guard(c, func(r *evalRes) { r.paths = x.Locate(t.simple, 0) })
	} else {
		res = guard(c, func(r *evalRes) {
			x.Walk(t.simple, func(p jp.Expr, _ []any) { r.paths = append(r.paths, append(jp.Expr{}, p...)) })
		})
	}
	if res.pv != nil {
		return false
	}
	got := make([]string, 0, len(res.paths))
	for _, p := range res.paths {
		k, _, ok := locOf(p, t.simple, false)
		if !ok {
			return false
		}
		got = append(got, k)
	}
	sort.Strings(got)
	for _, v := range pathref.Variants {
		if !v.Clamp {
			continue
		}
		r := pathref.SelectSpec(spec, t.simple, v)
		if r.Open {
			continue
		}
		keys := make([]string, len(r.Hits))
		for i, h := range r.Hits {
			keys[i] = gens.LocKey(h.Loc)
		}
		sort.Strings(keys)
		if sameStrings(got, keys) {
			return true
		}
	}
	return false
}

func reprPenalty(name string) int {
	switch gens.ReprFamily(name) {
	case "simple":
		return 0
	case "gen":
		return 1
	}
	return 2
}

// ------------------------------------------------------------------ driver

func judge(c *core.Ctx, spec gens.JPExpr, x jp.Expr, t *tree) {
	rounds := 1
	if t.multi {
		rounds = 2
	}
	for i := 0; i < rounds; i++ {
		fs, nontrivial := examine(c, spec, x, t, nil)
		if i == 0 && nontrivial {
			c.Nontrivial()
		}
		if len(fs) > 0 {
			report(c, spec, t, fs)
			return
		}
	}
}

func run(c *core.Ctx) {
	type pass struct {
		alpha *gens.PathAlphabet
		k     int
		minK  int
		data  []any
	}
	var passes []pass
	if c.Quick() {
		passes = []pass{{gens.Paths(true), 2, 1, gens.PathData(3)}, {gens.WidePaths(), 3, 1, gens.WideDocs()}}
	} else {
		passes = []pass{{gens.Paths(true), 2, 1, gens.PathData(4)}, {gens.Paths(false), 3, 3, gens.DeepDocs(gens.PathData(3), 2)}, {gens.WidePaths(), 3, 1, gens.WideDocs()}}
	}
	// ojg's evaluators allocate a 64-slot stack per call; the live heap is tiny,
	// so collect rarely.
	defer debug.SetGCPercent(debug.SetGCPercent(3200))
	hangProbe(c, c.Shard == 0)
	n := 0
	for pi, p := range passes {
		trees := make([]*tree, len(p.data))
		for i, d := range p.data {
			trees[i] = newTree(d)
			c.Add(fmt.Sprintf("pass%d_representations", pi+1), int64(len(trees[i].reprs)))
		}
		c.Add(fmt.Sprintf("pass%d_documents", pi+1), int64(len(trees)))
		stop := false
		if pi == 0 && c.Shard == 0 {
			// the paths of no fragment at all: $ and @ select the document itself
			for _, head := range []string{"root", "at"} {
				spec := gens.JPExpr{gens.JPSimple(head)}
				x := spec.Build()
				c.Add("paths", 1)
				for _, t := range trees {
					judge(c, spec, x, t)
				}
			}
		}
		p.alpha.EachPath(p.k, func(idx []int) bool {
			if len(idx) < p.minK || p.alpha.Class[idx[len(idx)-1]] == "desc" {
				return true
			}
			n++
			if !c.Mine(n) {
				return true
			}
			if n%1024 == c.Shard && c.Expired("C11 paths") {
				stop = true
				return false
			}
			spec := p.alpha.Expr(idx)
			x := spec.Build()
			c.Add("paths", 1)
			c.Case(func() string { return x.String() })
			for _, t := range trees {
				judge(c, spec, x, t)
			}
			if n%9973 == 0 {
				c.Sample(map[string]any{"path": x.String(), "documents": len(trees), "example_document": trees[len(trees)-3].show(),
					"representations": reprNames(trees[len(trees)-3])})
			}
			return true
		})
		if stop {
			return
		}
	}
}

func reprNames(t *tree) []string {
	var out []string
	for _, r := range t.reprs {
		out = append(out, r.Name)
	}
	return out
}

func replay(c *core.Ctx, raw json.RawMessage) {
	var cs caseT
	if err := json.Unmarshal(raw, &cs); err != nil {
		c.HarnessError("bad case: %v", err)
		return
	}
	data, err := gens.DecodeTree(cs.Data)
	if err != nil {
		c.HarnessError("bad data: %v", err)
		return
	}
	hangProbe(c, false)
	if cs.Kind == "does-not-terminate" {
		hangProbe(c, true)
		return
	}
	t := newTree(data)
	for i := 0; i < 3; i++ {
		fs, _ := examine(c, cs.Path, cs.Path.Build(), t, &only{eval: cs.Eval, family: gens.ReprFamily(cs.Repr)})
		for _, f := range fs {
			if f.eval == cs.Eval && cs.Kind == "negative-step-start-clamped" {
				if clampedStartReading(c, cs.Path, cs.Path.Build(), t, f) {
					c.Fail(core.Sig(f.eval, "negative-step-start-clamped"), cs, len(cs.Path), f.exp, f.obs)
					return
				}
				continue
			}
			if f.eval == cs.Eval && cs.Kind == "slice-read-as-start-element" {
				if startElementReading(c, cs.Path, cs.Path.Build(), t, f) {
					c.Fail(core.Sig(f.eval, "slice-read-as-start-element-by-reflection"), cs, len(cs.Path), f.exp, f.obs)
					return
				}
				continue
			}
			if f.eval == cs.Eval && (cs.Kind == "" || f.kind == cs.Kind) {
				c.Fail(signature(cs.Path, t, f, filterBlamed(c, cs.Path, t, f)), cs, len(cs.Path), f.exp, f.obs)
				return
			}
		}
	}
}
