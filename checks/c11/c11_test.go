package c11

import (
	"os"
	"sort"
	"strconv"
	"testing"
	"time"

	"verif/internal/core"
)

// TestSlice runs one narrow shard of the quick tier (development aid: profile
// with go test -cpuprofile).
func TestSlice(t *testing.T) {
	n := 400
	if s := os.Getenv("C11_SLICE"); s != "" {
		n, _ = strconv.Atoi(s)
	}
	c := core.NewCtx("quick", 1, n, 0, 100*time.Second)
	t0 := time.Now()
	run(c)
	r := c.Report()
	t.Logf("%.1fs counters=%v fails=%d", time.Since(t0).Seconds(), r.Counters, len(r.Fails))
	var sigs []string
	for s := range r.Fails {
		sigs = append(sigs, s)
	}
	sort.Strings(sigs)
	for _, s := range sigs {
		f := r.Fails[s]
		t.Logf("%6d %s\n      exp: %s\n      obs: %s", f.Count, s, f.Exp, f.Obs)
	}
}
