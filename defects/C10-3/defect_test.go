// goes into sen/
package sen_test

import (
	"math"
	"testing"

	"github.com/ohler55/ojg/sen"
)

// math.MinInt64 is a legal int64; the writer prints it as
// -9223372036854775808 but the parser returns a json.Number for it.
func TestDefectMinInt64ComesBackAsJSONNumber(t *testing.T) {
	v := []any{int64(math.MinInt64)}
	text := sen.String(v)
	got, err := sen.Parse([]byte(text))
	if err != nil {
		t.Fatalf("sen.Parse(%q) failed: %s", text, err)
	}
	a, _ := got.([]any)
	if len(a) != 1 {
		t.Fatalf("sen.Parse(%q) = %#v", text, got)
	}
	if i, ok := a[0].(int64); !ok || i != math.MinInt64 {
		t.Errorf("sen.Parse(%q)[0] is %T(%v), expected int64(%d)", text, a[0], a[0], int64(math.MinInt64))
	}
}
