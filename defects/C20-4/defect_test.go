// goes into asm/
package asm_test

import (
	"testing"

	"github.com/ohler55/ojg/asm"
	"github.com/ohler55/ojg/sen"
)

// include: "Returns true if a list first argument includes the second
// argument." The members are compared with the Go == of two interfaces, not
// with the equality of the eq function. A member that is an array or an
// object makes Go raise "comparing uncomparable type" (Execute returns that
// runtime error), and numbers that eq calls equal (2.5e0 and 2.5, 2.0 and 2)
// are only found when their Go types agree.
func TestDefectIncludeUsesGoInterfaceEquality(t *testing.T) {
	for _, c := range []struct{ plan, expect string }{
		{`[[set $.asm [include [[1] [2]] [2]]]]`, "true"},
		{`[[set $.asm [include [[1] [2]] [3]]]]`, "false"},
		{`[[set $.asm [include [{a:1} {b:2}] {b:2}]]]`, "true"},
		{`[[set $.asm [include [a [1]] b]]]`, "false"},
		{`[[set $.asm [and [eq 2.0 2] [include [1 2.0 3] 2]]]]`, "true"},
	} {
		p := asm.NewPlan(sen.MustParse([]byte(c.plan)).([]any))
		root := map[string]any{}
		if err := p.Execute(root); err != nil {
			t.Errorf("%s: expected %s, got error %q", c.plan, c.expect, err)
			continue
		}
		if out := sen.String(root["asm"]); out != c.expect {
			t.Errorf("%s: expected %s, got %s", c.plan, c.expect, out)
		}
	}
}
