// goes into jp/
package jp_test

import (
	"runtime"
	"strings"
	"testing"

	"github.com/ohler55/ojg/jp"
)

// A filter fragment followed by a script ("proc") fragment: "[?(@.x)]" ends
// in ")]" and so does "[(@.length-1)]". Whatever the parser thinks of the
// proc fragment (valid, or an error because no script compiler is set) it
// has to say so through its error result, not by way of a slice bounds fault.
func TestDefectProcAfterFilterSliceBounds(t *testing.T) {
	const src = "$[?(@.x)][(@.length-1)]"

	_, err := jp.ParseString(src)
	if err != nil && strings.Contains(err.Error(), "runtime error") {
		t.Errorf("jp.ParseString(%q) reported a runtime fault as its error: %s", src, err)
	}
	func() {
		defer func() {
			if r := recover(); r != nil {
				if re, ok := r.(runtime.Error); ok {
					t.Errorf("jp.MustParseString(%q) panicked with a runtime fault instead of a parse error: %v", src, re)
				}
			}
		}()
		_ = jp.MustParseString(src)
	}()
	// The same with the earlier ")]" inside a quoted key.
	const src2 = "$[')]'][(1)]"
	if _, err = jp.ParseString(src2); err != nil && strings.Contains(err.Error(), "runtime error") {
		t.Errorf("jp.ParseString(%q) reported a runtime fault as its error: %s", src2, err)
	}
}
