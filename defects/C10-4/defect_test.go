// goes into sen/
package sen_test

import (
	"testing"

	"github.com/ohler55/ojg/sen"
)

// A float64 between 1e-4 and 1e-1 is written without an exponent, so its
// shortest form can have 18 or more digits after the point although it has at
// most 17 significant digits. The parser counts fraction digits, not
// significant ones, and returns such a number as a json.Number.
func TestDefectSmallFloatComesBackAsJSONNumber(t *testing.T) {
	for _, v := range []float64{0.000188602592428761, 0.012345678901234567} {
		text := sen.String(v)
		got, err := sen.Parse([]byte(text))
		if err != nil {
			t.Fatalf("sen.Parse(%q) failed: %s", text, err)
		}
		if f, ok := got.(float64); !ok || f != v {
			t.Errorf("sen.Parse(sen.String(%v)): text %q came back as %T(%v), expected float64", v, text, got, got)
		}
	}
}
