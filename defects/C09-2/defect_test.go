// goes into oj/
package oj_test

import (
	"errors"
	"io"
	"testing"

	"github.com/ohler55/ojg/oj"
)

type c09TwoReads struct {
	parts [][]byte
}

func (r *c09TwoReads) Read(p []byte) (int, error) {
	if len(r.parts) == 0 {
		return 0, io.EOF
	}
	n := copy(p, r.parts[0])
	r.parts = r.parts[1:]
	return n, nil
}

// NOTE: the witness starts with a UTF-8 BOM, which the quantifier of C09
// excludes; kept because the position depends on the chunking of the stream.
// oj.ValidateReader rebases the newline offset by the whole first buffer,
// BOM included, although the offsets in that buffer were counted after the
// BOM, so every column in a later buffer of the first line is 3 too large.
func TestDefectC09ValidateReaderBOMRebase(t *testing.T) {
	src := "\xef\xbb\xbf[1,x"
	want := oj.Validate([]byte(src)) // unexpected character 'x' at 1:4
	var wpe *oj.ParseError
	if !errors.As(want, &wpe) {
		t.Fatalf("oj.Validate: %v", want)
	}
	one := oj.ValidateReader(&c09TwoReads{parts: [][]byte{[]byte(src)}})
	two := oj.ValidateReader(&c09TwoReads{parts: [][]byte{[]byte(src[:6]), []byte(src[6:])}})
	for name, err := range map[string]error{"one read": one, "two reads (6+1 bytes)": two} {
		var pe *oj.ParseError
		if !errors.As(err, &pe) {
			t.Fatalf("%s: %v", name, err)
		}
		if pe.Line != wpe.Line || pe.Column != wpe.Column {
			t.Errorf("oj.ValidateReader with %s reported %d:%d, oj.Validate %d:%d",
				name, pe.Line, pe.Column, wpe.Line, wpe.Column)
		}
	}
	// the parser's reader variant gets it right
	_, lerr := oj.Load(&c09TwoReads{parts: [][]byte{[]byte(src[:6]), []byte(src[6:])}})
	var lpe *oj.ParseError
	if !errors.As(lerr, &lpe) || lpe.Line != wpe.Line || lpe.Column != wpe.Column {
		t.Errorf("oj.Load: %v", lerr)
	}
}
