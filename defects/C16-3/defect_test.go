// goes into oj/
package oj_test

import (
	"reflect"
	"testing"

	"github.com/ohler55/ojg/alt"
	"github.com/ohler55/ojg/oj"
)

type c16Flag bool

type c16Settings struct {
	Name    string
	Enabled c16Flag
	Flags   []c16Flag
}

// TestDefectNamedBoolField: a field whose type is a named bool type must
// round trip like named string and named int types do.
func TestDefectNamedBoolField(t *testing.T) {
	in := &c16Settings{Name: "x", Enabled: true, Flags: []c16Flag{true, false}}

	b, err := oj.Marshal(in)
	if err != nil {
		t.Fatalf("marshal: %v", err)
	}
	var out c16Settings
	if err = oj.Unmarshal(b, &out); err != nil {
		t.Errorf("oj.Unmarshal(%s): %v", b, err)
	} else if !reflect.DeepEqual(&out, in) {
		t.Errorf("oj.Unmarshal(%s): got %#v, want %#v", b, out, *in)
	}

	var out2 c16Settings
	if _, err = alt.Recompose(alt.Decompose(in), &out2); err != nil {
		t.Errorf("alt.Recompose(alt.Decompose(v)): %v", err)
	} else if !reflect.DeepEqual(&out2, in) {
		t.Errorf("alt.Recompose(alt.Decompose(v)): got %#v, want %#v", out2, *in)
	}
}
