// goes into asm/
package asm_test

import (
	"strings"
	"testing"

	"github.com/ohler55/ojg/asm"
	"github.com/ohler55/ojg/sen"
)

// include is documented as "Returns true if a list first argument includes
// the second argument". A list or a map is a legal plan value, so asking
// whether a list of lists includes a list has to give true, false or a
// proper error, never a comparison fault.
func TestDefectIncludeUncomparable(t *testing.T) {
	for _, src := range []string{
		"[set $.asm [include [[1]] [1]]]",
		"[set $.asm [include [{a:1}] {a:1}]]",
	} {
		plan, ok := sen.MustParse([]byte(src)).([]any)
		if !ok {
			t.Fatalf("%s is not a list", src)
		}
		p := asm.NewPlan(plan)
		root := map[string]any{"src": map[string]any{}}
		err := p.Execute(root)
		if err != nil && strings.Contains(err.Error(), "runtime error") {
			t.Errorf("%s: Execute reported a runtime fault as its error: %s", src, err)
		}
	}
}
