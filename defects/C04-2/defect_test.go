// goes into pretty/
package pretty_test

import (
	"math"
	"testing"

	"github.com/ohler55/ojg/oj"
	"github.com/ohler55/ojg/pretty"
)

// An unsigned integer above math.MaxInt64 is written as a negative number by
// the pretty writer (the oj writers write it correctly).
func TestDefectPrettyUint64Wraps(t *testing.T) {
	for _, v := range []any{uint64(math.MaxUint64), uint64(1) << 63, uint(math.MaxUint64)} {
		want := oj.JSON(v)
		if got := pretty.JSON(v); got != want {
			t.Errorf("pretty.JSON(%T(%d)) = %s, want %s", v, v, got, want)
		}
		want = "[" + want + "]"
		if got := pretty.JSON([]any{v}); got != want {
			t.Errorf("pretty.JSON([]any{%T(%d)}) = %s, want %s", v, v, got, want)
		}
	}
}
