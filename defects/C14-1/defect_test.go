// goes into jp/
package jp_test

import (
	"fmt"
	"testing"

	"github.com/ohler55/ojg/jp"
)

// A script that is just a path, built with jp.Get(x).Script(), prints as
// "(@.a)". Parsing that text gives a script that prints as
// "(@.a exists true)" and selects different elements.
func TestDefectGetScriptRoundTrip(t *testing.T) {
	orig := jp.Get(jp.A().C("a")).Script()
	text := orig.String() // (@.a)

	again, err := jp.NewScript(text)
	if err != nil {
		t.Fatalf("the printed script %s does not parse: %s", text, err)
	}
	if again.String() != text {
		t.Errorf("printed %s, parsed and printed again %s", text, again.String())
	}
	data := []any{
		map[string]any{"a": true},
		map[string]any{"a": 1},
		map[string]any{"b": 1},
	}
	want := fmt.Sprintf("%v", orig.Eval([]any{}, data))
	got := fmt.Sprintf("%v", again.Eval([]any{}, data))
	if want != got {
		t.Errorf("script %s selects %s, the script parsed from its text selects %s", text, want, got)
	}
}
