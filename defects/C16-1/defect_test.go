// goes into alt/
package alt_test

import (
	"image"
	"reflect"
	"testing"

	"github.com/ohler55/ojg/alt"
)

// Point shares its short name with image.Point (other package, other fields).
type Point struct {
	Lat float64
	Lon float64
}

type c16Shape struct {
	Center any // interface-typed: needs the create key
}

type c16Picture struct {
	Origin image.Point
}

// TestDefectShortNameTakenOverByLaterType: a type registered explicitly for a
// create key must keep being the type that the create key names, whatever
// other types the same recomposer has recomposed in between.
func TestDefectShortNameTakenOverByLaterType(t *testing.T) {
	r := alt.MustNewRecomposer("type", map[any]alt.RecomposeFunc{&Point{}: nil})

	orig := &c16Shape{Center: &Point{Lat: 1.5, Lon: 2.5}}
	data := alt.Decompose(orig) // {type: c16Shape, center: {type: Point, lat: 1.5, lon: 2.5}}

	var before c16Shape
	if _, err := r.Recompose(data, &before); err != nil {
		t.Fatalf("first recompose: %v", err)
	}
	if !reflect.DeepEqual(&before, orig) {
		t.Fatalf("first recompose: got %#v, want %#v", before.Center, orig.Center)
	}

	// An unrelated target type whose field type happens to be called Point too.
	var pic c16Picture
	if _, err := r.Recompose(map[string]any{"origin": map[string]any{"x": 3, "y": 4}}, &pic); err != nil {
		t.Fatalf("recompose of the unrelated type: %v", err)
	}

	var after c16Shape
	if _, err := r.Recompose(data, &after); err != nil {
		t.Fatalf("second recompose: %v", err)
	}
	if !reflect.DeepEqual(&after, orig) {
		t.Fatalf("the same data recomposed into the same target type after an image.Point was seen: got %#v, want %#v",
			after.Center, orig.Center)
	}
}

// The same take over makes a registered RecomposeFunc be forgotten.
func TestDefectShortNameTakenOverFuncForgotten(t *testing.T) {
	calls := 0
	r := alt.MustNewRecomposer("type", map[any]alt.RecomposeFunc{
		&Point{}: func(m map[string]any) (any, error) {
			calls++
			return &Point{Lat: 42, Lon: 42}, nil
		},
	})
	var p Point
	if _, err := r.Recompose(map[string]any{"lat": 1.0, "lon": 2.0}, &p); err != nil || calls != 1 {
		t.Fatalf("first recompose: err=%v calls=%d", err, calls)
	}
	var ip image.Point
	if _, err := r.Recompose(map[string]any{"x": 3, "y": 4}, &ip); err != nil {
		t.Fatalf("recompose of image.Point: %v", err)
	}
	p = Point{}
	if _, err := r.Recompose(map[string]any{"lat": 1.0, "lon": 2.0}, &p); err != nil {
		t.Fatalf("second recompose: %v", err)
	}
	if calls != 2 || p.Lat != 42 {
		t.Fatalf("registered RecomposeFunc not used after image.Point was recomposed: calls=%d p=%#v", calls, p)
	}
}
