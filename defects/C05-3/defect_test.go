// goes into jp/
package jp_test

import (
	"testing"

	"github.com/ohler55/ojg/jp"
	"github.com/ohler55/ojg/oj"
)

// A trailing descent selects the node it starts from and all its descendants
// ($.. on 1 is [1], $[0].. on [[2]] is [2,[2]]). That must not depend on which
// kind of fragment selected the start node.
func TestDefectTrailingDescentScalarSelf(t *testing.T) {
	one := oj.MustParseString(`[1]`)

	// Reference points that already hold: the descent keeps the start node.
	if got := oj.JSON(jp.MustParseString(`$..`).Get(int64(1))); got != `[1]` {
		t.Fatalf("$.. on 1: expected [1], got %s", got)
	}
	if got := oj.JSON(jp.MustParseString(`$[0]..`).Get(oj.MustParseString(`[[2]]`))); got != `[2,[2]]` {
		t.Fatalf("$[0].. on [[2]]: expected [2,[2]], got %s", got)
	}
	byFilter := oj.JSON(jp.MustParseString(`$[?(@ == 1)]..`).Get(one))
	if byFilter != `[1]` {
		t.Fatalf("$[?(@ == 1)].. on [1]: expected [1], got %s", byFilter)
	}
	// Every one of these selects the element 1 of [1] (or of {"a":1}) and then
	// applies the same trailing descent.
	for _, c := range []struct {
		src  string
		data any
	}{
		{src: `$[0]..`, data: one},
		{src: `$[-1]..`, data: one},
		{src: `$[*]..`, data: one},
		{src: `$[0,0]..`, data: one},
		{src: `$[0:1]..`, data: one},
		{src: `$.a..`, data: oj.MustParseString(`{"a":1}`)},
		{src: `$..[0]..`, data: one},
	} {
		got := oj.JSON(jp.MustParseString(c.src).Get(c.data))
		expect := byFilter
		if c.src == `$[0,0]..` {
			expect = `[1,1]`
		}
		if got != expect {
			t.Errorf("%s on %s: expected %s as for $[?(@ == 1)].. and $.., got %s", c.src, oj.JSON(c.data), expect, got)
		}
	}
}
