// goes into oj/
package oj_test

import (
	"encoding/json"
	"fmt"
	"testing"

	"github.com/ohler55/ojg"
	"github.com/ohler55/ojg/alt"
	"github.com/ohler55/ojg/oj"
	"github.com/ohler55/ojg/sen"
)

type Defect2Count int

type defect2Holder struct {
	Defect2Count // embedded type that is not a struct
	Z            int
}

// An embedded (anonymous) field whose type is not a struct - a named int,
// string, map, slice or interface - is legal Go and encoding/json writes it as
// a member named after the type. The plan builders call NumField on it, the
// first encoding fails, and the half-built plan stays in the cache so the
// second encoding of the same type silently writes {}.
func TestDefectEmbeddedNonStruct(t *testing.T) {
	v := &defect2Holder{Defect2Count: 3, Z: 2}
	want, _ := json.Marshal(v) // {"Defect2Count":3,"Z":2}

	first := oj.JSON(v, &ojg.Options{UseTags: true, KeyExact: true, Sort: true})
	second := oj.JSON(v, &ojg.Options{UseTags: true, KeyExact: true, Sort: true})
	if first != string(want) {
		t.Errorf("oj.JSON first call = %q, want %q", first, want)
	}
	if second != string(want) {
		t.Errorf("oj.JSON second call = %q, want %q", second, want)
	}
	if first != second {
		t.Errorf("oj.JSON gives %q and then %q for the same value and options", first, second)
	}
	if got := sen.String(v, &ojg.GoOptions); got != "{Defect2Count:3 Z:2}" {
		t.Errorf("sen.String = %q, want {Defect2Count:3 Z:2}", got)
	}
	func() {
		defer func() {
			if r := recover(); r != nil {
				t.Errorf("alt.Decompose panics: %v", r)
			}
		}()
		if got := fmt.Sprint(alt.Decompose(v, &ojg.GoOptions)); got != "map[Defect2Count:3 Z:2]" {
			t.Errorf("alt.Decompose = %s, want map[Defect2Count:3 Z:2]", got)
		}
	}()
}
