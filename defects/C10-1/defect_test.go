// goes into sen/
package sen_test

import (
	"math"
	"testing"

	"github.com/ohler55/ojg/sen"
)

// The eight largest int64 values (9223372036854775800 .. 9223372036854775807)
// are written as plain digits by sen.String but sen.Parse hands them back as a
// json.Number instead of an int64, so the tree read back is not equal to the
// tree written. The negative counterpart (-9223372036854775807) and the very
// same digits fed through the byte-at-a-time path come back as int64.
func TestDefectMaxInt64ComesBackAsJSONNumber(t *testing.T) {
	for _, v := range []int64{math.MaxInt64, 9223372036854775800} {
		text := sen.String(v)
		got, err := sen.Parse([]byte(text))
		if err != nil {
			t.Fatalf("sen.Parse(%q) failed: %s", text, err)
		}
		i, ok := got.(int64)
		if !ok || i != v {
			t.Errorf("sen.Parse(sen.String(int64(%d))): text %q came back as %T(%v), expected int64(%d)", v, text, got, got, v)
		}
	}
}
