// goes into sen/
package sen_test

import (
	"fmt"
	"strings"
	"testing"

	"github.com/ohler55/ojg/sen"
)

// A TokenFunc is handed a window into the parser's own value stack
// (tf(p.stack[start:]...)), so a function that returns (or keeps) its argument
// list hands out memory the parser goes on writing to: the value returned by
// one parse is altered by the next call on the same Parser, and by the stack
// wipe at the end of Parse itself.
func TestDefectTokenFuncArgsAliasParserStack(t *testing.T) {
	list := func(args ...any) any { return args }

	var p sen.Parser
	p.AddTokenFunc("list", list)
	v, err := p.ParseReader(strings.NewReader("list(1 2 3)"))
	if err != nil {
		t.Fatal(err)
	}
	before := fmt.Sprintf("%v", v)
	if before != "[1 2 3]" {
		t.Fatalf("first result: got %s, want [1 2 3]", before)
	}
	// A later, unrelated call on the same parser.
	if _, err = p.Parse([]byte("[a b c d e f]")); err != nil {
		t.Fatal(err)
	}
	if after := fmt.Sprintf("%v", v); after != before {
		t.Errorf("value returned by the first call was altered by the second call: was %s, now %s", before, after)
	}

	// Same cause seen within one call: Parse wipes its stack before returning.
	var q sen.Parser
	q.AddTokenFunc("list", list)
	v, err = q.Parse([]byte("[list(1 2 3)]"))
	if err != nil {
		t.Fatal(err)
	}
	if got := fmt.Sprintf("%v", v); got != "[[1 2 3]]" {
		t.Errorf("Parse([list(1 2 3)]): got %s, want [[1 2 3]]", got)
	}
}
