// goes into alt/
package alt_test

import (
	"reflect"
	"testing"

	"github.com/ohler55/ojg"
	"github.com/ohler55/ojg/alt"
	"github.com/ohler55/ojg/oj"
)

// A nil []any (or nil map[string]any) is a legal simple value that oj.Marshal
// writes as null. gen.Array.Simplify, gen.Array.Dup, GenAlter and Alter keep
// it nil, but Generify and Decompose/Dup replace it by an empty non-nil
// container, so the copy is not equal to the original and is written
// differently.
func TestDefectNilContainerBecomesEmpty(t *testing.T) {
	keep := &ojg.Options{}
	var ns []any
	orig := []any{ns}

	wantText, _ := oj.Marshal(orig) // [null]

	dup := alt.Dup(orig, keep)
	if !reflect.DeepEqual(orig, dup) {
		t.Errorf("Dup: %#v != %#v", dup, orig)
	}
	if got, _ := oj.Marshal(dup); string(got) != string(wantText) {
		t.Errorf("Dup: copy is written as %s, original as %s", got, wantText)
	}
	simp := alt.Generify(orig, keep).Simplify()
	if !reflect.DeepEqual(orig, simp) {
		t.Errorf("Generify+Simplify: %#v != %#v", simp, orig)
	}
	if got, _ := oj.Marshal(alt.Generify(orig, keep)); string(got) != string(wantText) {
		t.Errorf("Generify: gen tree is written as %s, simple original as %s", got, wantText)
	}
	// the in place variant of the same conversion keeps the nil
	if alt2 := alt.GenAlter([]any{ns}, keep).Alter(); !reflect.DeepEqual(orig, alt2) {
		t.Errorf("GenAlter+Alter: %#v != %#v", alt2, orig)
	}
}
