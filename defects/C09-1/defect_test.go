// goes into oj/
package oj_test

import (
	"bytes"
	"errors"
	"testing"

	"github.com/ohler55/ojg/gen"
	"github.com/ohler55/ojg/oj"
)

// A BOM-less text longer than three bytes whose first byte is 0xEF is rejected
// by the []byte entry points with a fixed "expected BOM at 1:3" that is not a
// ParseError, while the reader entry points report the offending byte at 1:1.
func TestDefectC09LeadingEFNotBOM(t *testing.T) {
	for _, src := range []string{"\xefnull", "\xef\xbb[]"} {
		// The reader variant is the reference: 0xEF cannot start a JSON text.
		_, rerr := oj.Load(bytes.NewReader([]byte(src)))
		var rpe *oj.ParseError
		if !errors.As(rerr, &rpe) {
			t.Fatalf("%q: oj.Load did not return a *oj.ParseError: %v", src, rerr)
		}
		if rpe.Line != 1 || rpe.Column != 1 {
			t.Fatalf("%q: oj.Load reported %d:%d, expected 1:1", src, rpe.Line, rpe.Column)
		}
		check := func(name string, err error) {
			t.Helper()
			if err == nil {
				t.Errorf("%q: %s accepted the input", src, name)
				return
			}
			var pe *oj.ParseError
			var ge *gen.ParseError
			switch {
			case errors.As(err, &pe):
				if pe.Line != rpe.Line || pe.Column != rpe.Column {
					t.Errorf("%q: %s reported %d:%d, reader variant %d:%d", src, name, pe.Line, pe.Column, rpe.Line, rpe.Column)
				}
			case errors.As(err, &ge):
				if ge.Line != rpe.Line || ge.Column != rpe.Column {
					t.Errorf("%q: %s reported %d:%d, reader variant %d:%d", src, name, ge.Line, ge.Column, rpe.Line, rpe.Column)
				}
			default:
				t.Errorf("%q: %s returned %T %q without Line/Column; reader variant says %d:%d",
					src, name, err, err.Error(), rpe.Line, rpe.Column)
			}
		}
		_, err := oj.Parse([]byte(src))
		check("oj.Parse", err)
		check("oj.Validate", oj.Validate([]byte(src)))
		check("oj.Tokenize", oj.Tokenize([]byte(src), &oj.ZeroHandler{}))
		var gp gen.Parser
		_, err = gp.Parse([]byte(src))
		check("gen.Parser.Parse", err)
	}
}
