// goes into oj/
package oj_test

import (
	"testing"

	"github.com/ohler55/ojg/oj"
)

type c08Level int

// c08Plain and c08Shared have the same shape. The only difference is that
// c08Shared is also the type of a by-value field of c08Holder.
type c08Plain struct{ L c08Level }
type c08Shared struct{ L c08Level }
type c08Holder struct{ S c08Shared }

// The field plan of a struct type is cached per type, but what goes into the
// plan depends on who asked for it first: a plan built while building the plan
// of an enclosing struct (by-value field) is built with embedded=true and is
// then also handed to callers that write a pointer to that struct.
func TestDefectStructPlanDependsOnFirstCaller(t *testing.T) {
	alone, err := oj.Marshal(&c08Plain{L: 3})
	if err != nil || string(alone) != `{"L":3}` {
		t.Fatalf("control: %q %v", alone, err)
	}
	// Some other caller (another goroutine in real life) writes a value of a
	// type that has c08Shared as a field.
	_, _ = oj.Marshal(&c08Holder{})

	after, err := oj.Marshal(&c08Shared{L: 3})
	if err != nil || string(after) != string(alone) {
		t.Errorf("oj.Marshal(&c08Shared{L: 3}) after an unrelated call: %q, %v; the same call on a type nobody else touched: %q",
			after, err, alone)
	}
	if s := oj.JSON(&c08Shared{L: 3}); s != `{"l":3}` {
		t.Errorf("oj.JSON(&c08Shared{L: 3}) after an unrelated call: %q, want %q", s, `{"l":3}`)
	}
}
