// goes into jp/
package jp_test

import (
	"testing"

	"github.com/ohler55/ojg/jp"
)

// match(path, regex) is documented (oj filter help, RFC 9535) as true only
// when the regex matches the entirety of the string. With an alternation the
// anchors that are added bind to the first and last alternative only.
func TestDefectMatchAlternationNotEntireString(t *testing.T) {
	s := jp.MustNewScript("match(@, 'a|b')")
	for _, c := range []struct {
		v      string
		expect bool
	}{
		{"a", true},
		{"b", true},
		{"ab", false},
		{"ax", false},
		{"xb", false},
	} {
		if got := s.Match(c.v); got != c.expect {
			t.Errorf("match(@, 'a|b') on %q: expected %v, got %v", c.v, c.expect, got)
		}
	}
	got := jp.MustParseString("$[?match(@, 'a|b')]").Get([]any{"a", "ab", "xb", "c"})
	if len(got) != 1 || got[0] != "a" {
		t.Errorf("$[?match(@, 'a|b')] expected [a], got %v", got)
	}
}
