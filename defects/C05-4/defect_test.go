// goes into jp/
package jp_test

import (
	"testing"

	"github.com/ohler55/ojg/jp"
	"github.com/ohler55/ojg/oj"
)

// Get reaches the members of a typed map by key; the wildcard, the descent and
// a filter have to see the very same members.
func TestDefectTypedMapMembers(t *testing.T) {
	data := map[string]any{
		"m": map[string]string{"k": "v"},
		"n": map[string]map[string]int{"x": {"k": 3}},
	}
	for _, c := range []struct{ src, expect string }{
		// what already works: child and union by key
		{src: `$.m.k`, expect: `["v"]`},
		{src: `$.m['k']`, expect: `["v"]`},
		{src: `$.n.x.k`, expect: `[3]`},
		// the same members through the other fragment kinds
		{src: `$.m.*`, expect: `["v"]`},
		{src: `$.m[*]`, expect: `["v"]`},
		{src: `$.n.*.k`, expect: `[3]`},
		{src: `$.n..k`, expect: `[3]`},
		{src: `$.m[?(@ == 'v')]`, expect: `["v"]`},
		{src: `$.n[?(@.k == 3)].k`, expect: `[3]`},
	} {
		got := oj.JSON(jp.MustParseString(c.src).Get(data), &oj.Options{Sort: true})
		if got != c.expect {
			t.Errorf("%s: expected %s, got %s", c.src, c.expect, got)
		}
	}
	// Walk does enumerate them.
	var walked []string
	jp.MustParseString(`$.m.*`).Walk(data, func(p jp.Expr, _ []any) { walked = append(walked, p.String()) })
	if len(walked) != 1 {
		t.Errorf("Walk $.m.*: expected one visit, got %v", walked)
	}
}
