// goes into jp/
package jp_test

import (
	"reflect"
	"testing"

	"github.com/ohler55/ojg/jp"
)

// A script that is just a path is an existence test (CHANGELOG 1.20.2: "A
// script of `@.x` is now read correctly as `@.x exists true`"). The same text
// as a filter is not: the filter only selects elements where the value at the
// path is the boolean true, so Script.Match(v) and membership of v in the
// result of the corresponding filter differ.
func TestDefectBarePathFilterIsNotExistenceTest(t *testing.T) {
	data := []any{
		map[string]any{"a": int64(1)},
		map[string]any{"a": true},
		map[string]any{"b": int64(1)},
	}
	s := jp.MustNewScript("@.a")
	for _, path := range []string{"$[?@.a]", "$[?(@.a)]"} {
		got := jp.MustParseString(path).Get(data)
		for _, v := range data {
			member := false
			for _, g := range got {
				if reflect.DeepEqual(g, v) {
					member = true
				}
			}
			if m := s.Match(v); m != member {
				t.Errorf("Script(%q).Match(%v) = %v but membership in %s result %v is %v", "@.a", v, m, path, got, member)
			}
		}
	}
}
