// goes into alt/
package alt_test

import (
	"testing"

	"github.com/ohler55/ojg/alt"
	"github.com/ohler55/ojg/gen"
)

// Diff, Compare and Match of gen data must give the same answer for two
// leaves whether the leaves are the root or wrapped in a container, and the
// same answer as for the simple form of the same data. gen.Int(1) and
// gen.Float(1) are the same inside a container (and int64(1) and float64(1)
// are the same everywhere), but are different when they are the root.
func TestDefectC19GenRootIntVersusFloat(t *testing.T) {
	// Controls: the simple form and the wrapped gen form agree that 1 == 1.0.
	if d := alt.Diff(int64(1), float64(1)); len(d) != 0 {
		t.Fatalf("control: Diff(int64(1), float64(1)) = %v", d)
	}
	if d := alt.Diff(gen.Array{gen.Int(1)}, gen.Array{gen.Float(1)}); len(d) != 0 {
		t.Fatalf("control: Diff([Int 1], [Float 1]) = %v", d)
	}
	if !alt.Match(gen.Array{gen.Int(1)}, gen.Array{gen.Float(1)}) {
		t.Fatalf("control: Match([Int 1], [Float 1]) = false")
	}
	if d := alt.Diff(gen.Int(1), gen.Float(1)); len(d) != 0 {
		t.Errorf("Diff(gen.Int(1), gen.Float(1)) = %#v, expected no difference as for the simple form and the nested form", d)
	}
	if c := alt.Compare(gen.Float(1), gen.Int(1)); c != nil {
		t.Errorf("Compare(gen.Float(1), gen.Int(1)) = %#v, expected nil", c)
	}
	if !alt.Match(gen.Int(1), gen.Float(1)) {
		t.Errorf("Match(gen.Int(1), gen.Float(1)) = false, expected true as for Match(int64(1), float64(1))")
	}
}
