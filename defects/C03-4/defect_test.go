// goes into sen/
package sen_test

import (
	"reflect"
	"strings"
	"testing"
	"testing/iotest"

	"github.com/ohler55/ojg/sen"
)

// Whatever the verdict on a comma between a key and its colon (or between a
// '+' and the string it appends), it must not depend on how the reader chunks
// the input. After a newline the parser looks ahead and skips everything the
// table of the *trailing space* mode skips (which includes ','), whatever
// mode it is in; without look-ahead (newline last in its buffer) the comma is
// judged by the current mode and is an error.
func TestDefectSenNewlineLookAheadSkipsCommaInAnyMode(t *testing.T) {
	for _, src := range []string{"{\"a\"\n,:1}", "[\"a\" +\n,\"b\"]"} {
		vw, ew := sen.Parse([]byte(src))
		vr, er := sen.ParseReader(strings.NewReader(src))
		v1, e1 := sen.ParseReader(iotest.OneByteReader(strings.NewReader(src)))
		if (ew == nil) != (e1 == nil) || (ew == nil && !reflect.DeepEqual(vw, v1)) {
			t.Errorf("%q: sen.Parse = (%#v, %v), sen.ParseReader with 1-byte reads = (%#v, %v)", src, vw, ew, v1, e1)
		}
		if (er == nil) != (e1 == nil) || (er == nil && !reflect.DeepEqual(vr, v1)) {
			t.Errorf("%q: sen.ParseReader in one read = (%#v, %v), with 1-byte reads = (%#v, %v)", src, vr, er, v1, e1)
		}
	}
}
