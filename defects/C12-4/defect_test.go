// goes into jp/
package jp_test

import (
	"math"
	"testing"

	"github.com/ohler55/ojg/jp"
)

// Numbers compare by value. A uint64 (or uint on 64 bit) above MaxInt64 is
// normalised with int64(x), which wraps to a negative number, so the largest
// unsigned values compare as less than zero.
func TestDefectUint64AboveMaxInt64ComparesNegative(t *testing.T) {
	big := uint64(math.MaxUint64)

	if !jp.MustNewScript("@ > 0").Match(big) {
		t.Errorf("@ > 0 should match uint64(%d)", big)
	}
	if jp.MustNewScript("@ < 0").Match(big) {
		t.Errorf("@ < 0 should not match uint64(%d)", big)
	}
	if jp.MustNewScript("@ == -1").Match(big) {
		t.Errorf("@ == -1 should not match uint64(%d)", big)
	}
	// the same through a filter and the child lookup short cut
	data := []any{map[string]any{"n": uint64(1) << 63}, map[string]any{"n": uint64(1)}}
	if got := jp.MustParseString("$[?(@.n > 1)]").Get(data); len(got) != 1 {
		t.Errorf("$[?(@.n > 1)] should select the element with n = 1<<63, got %v", got)
	}
}
