// goes into oj/
package oj_test

import (
	"testing"

	"github.com/ohler55/ojg"
	"github.com/ohler55/ojg/alt"
	"github.com/ohler55/ojg/oj"
	"github.com/ohler55/ojg/pretty"
	"github.com/ohler55/ojg/sen"
)

// OmitNil "skips the writing of nil values in an object". An empty string is
// not nil: a struct field, alt.Decompose, pretty.JSON and the indented writers
// of oj and sen all keep it, but the tight (Indent 0) map writers of oj and
// sen drop an empty string member of a typed map when only OmitNil is set.
func TestDefectOmitNilDropsEmptyStringInTightMap(t *testing.T) {
	v := struct {
		S string
		M map[string]string
	}{M: map[string]string{"a": ""}}
	opt := ojg.Options{OmitNil: true, Sort: true}
	want := `{"m":{"a":""},"s":""}`

	if got := oj.JSON(alt.Decompose(&v, &opt), &opt); got != want {
		t.Fatalf("alt.Decompose then oj.JSON = %s, want %s", got, want)
	}
	if got := pretty.JSON(&v, &opt); got != `{"m": {"a": ""}, "s": ""}` {
		t.Fatalf("pretty.JSON = %s", got)
	}
	ind := opt
	ind.Indent = 1
	if got := oj.JSON(&v, &ind); got != "{\n \"m\": {\n  \"a\": \"\"\n },\n \"s\": \"\"\n}" {
		t.Fatalf("oj.JSON indented = %s", got)
	}
	if got := oj.JSON(&v, &opt); got != want {
		t.Errorf("oj.JSON tight = %s, want %s", got, want)
	}
	if got := sen.String(&v, &opt); got != `{m:{a:""} s:""}` {
		t.Errorf("sen.String tight = %s, want {m:{a:\"\"} s:\"\"}", got)
	}
	if got := oj.JSON(map[string]string{"a": ""}, &opt); got != `{"a":""}` {
		t.Errorf("oj.JSON(map[string]string{\"a\": \"\"}) tight = %s, want {\"a\":\"\"}", got)
	}
}
