// goes into jp/
package jp_test

import (
	"fmt"
	"testing"

	"github.com/ohler55/ojg/gen"
	"github.com/ohler55/ojg/jp"
)

// Set through a nil map (a legal Go value for a map[string]any or gen.Object
// member, Get just selects nothing in it) must be reported as an error or
// succeed, it must not panic: Set/SetOne have no recover.
func TestDefectC13SetIntoNilMapPanics(t *testing.T) {
	set := func(data any, path string) (err error, panicked any) {
		defer func() { panicked = recover() }()
		err = jp.MustParseString(path).Set(data, 1)
		return
	}
	for i, c := range []struct {
		data any
		path string
	}{
		{data: map[string]any{"a": map[string]any(nil)}, path: "$.a.b"},
		{data: map[string]any(nil), path: "$.b"},
		{data: []any{map[string]any(nil)}, path: "$[*]['b']"},
		{data: []any{map[string]any(nil)}, path: "$[0].b.c"},
		{data: gen.Object{"a": gen.Object(nil)}, path: "$.a.b"},
	} {
		x := jp.MustParseString(c.path)
		if got := x.Get(c.data); len(got) != 0 {
			t.Fatalf("%d: Get(%s) expected nothing, got %v", i, c.path, got)
		}
		err, p := set(c.data, c.path)
		if p != nil {
			t.Errorf("%d: %s.Set(%#v, 1) panicked: %v", i, c.path, c.data, p)
			continue
		}
		if err == nil {
			if got := x.Get(c.data); len(got) != 1 || fmt.Sprint(got[0]) != "1" {
				t.Errorf("%d: %s.Set returned no error but Get returns %v", i, c.path, got)
			}
		}
	}
}
