// goes into pretty/
package pretty_test

import (
	"bytes"
	"encoding/json"
	"reflect"
	"testing"

	"github.com/ohler55/ojg"
	"github.com/ohler55/ojg/oj"
	"github.com/ohler55/ojg/pretty"
)

// OmitEmpty drops the members whose value is an empty string, slice or map.
// ojg.Options documents that "maps with all empty members will not be skipped
// on writing", and the oj writers keep such a member as {}. The pretty writer
// drops the whole member once the omission has emptied the map.
func TestDefectPrettyOmitEmptyCascades(t *testing.T) {
	data := map[string]any{
		"a": map[string]any{"b": ""},
		"c": int64(1),
	}
	want := map[string]any{
		"a": map[string]any{},
		"c": float64(1),
	}
	check := func(label, out string) {
		var got any
		if err := json.Unmarshal([]byte(out), &got); err != nil {
			t.Fatalf("%s: not valid JSON: %s: %s", label, err, out)
		}
		if !reflect.DeepEqual(want, got) {
			t.Errorf("%s: member \"a\" (a map that is not empty) must be kept as {}: got %s", label, out)
		}
	}
	// the oj writer agrees with the documentation
	check("oj.JSON", oj.JSON(data, &ojg.Options{OmitEmpty: true, Sort: true}))

	check("pretty.JSON", pretty.JSON(data, &ojg.Options{OmitEmpty: true}))

	var b bytes.Buffer
	if err := pretty.WriteJSON(&b, data, &ojg.Options{OmitEmpty: true}); err != nil {
		t.Fatal(err)
	}
	check("pretty.WriteJSON", b.String())

	// the same with OmitNil emptying the inner map
	data = map[string]any{
		"a": map[string]any{"b": nil},
		"c": int64(1),
	}
	check("oj.JSON nil", oj.JSON(data, &ojg.Options{OmitNil: true, OmitEmpty: true, Sort: true}))
	check("pretty.JSON nil", pretty.JSON(data, &ojg.Options{OmitNil: true, OmitEmpty: true}))
}
