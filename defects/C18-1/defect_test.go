// goes into alt/
package alt_test

import (
	"reflect"
	"testing"

	"github.com/ohler55/ojg"
	"github.com/ohler55/ojg/alt"
)

// Decompose (and its alias Dup) is documented to return a deep copy "leaving
// the original data unchanged". With a Converter in the options the original
// tree is rewritten in place before it is copied.
func TestDefectDecomposeConverterMutatesOriginal(t *testing.T) {
	orig := []any{
		"2021-01-02T03:04:05Z",
		map[string]any{"t": "2021-01-02T03:04:05Z"},
	}
	want := []any{
		"2021-01-02T03:04:05Z",
		map[string]any{"t": "2021-01-02T03:04:05Z"},
	}
	conv := alt.TimeRFC3339Converter
	_ = alt.Decompose(orig, &ojg.Options{Converter: &conv})

	if !reflect.DeepEqual(want, orig) {
		t.Fatalf("Decompose changed its input:\n  before: %#v\n  after:  %#v", want, orig)
	}
}
