// goes into jp/
package jp_test

import (
	"testing"

	"github.com/ohler55/ojg/jp"
	"github.com/ohler55/ojg/oj"
)

func getOrPanic(x jp.Expr, data any) (out string) {
	defer func() {
		if r := recover(); r != nil {
			out = "PANIC: " + oj.JSON(r)
			if e, ok := r.(error); ok {
				out = "PANIC: " + e.Error()
			}
		}
	}()
	return oj.JSON(x.Get(data))
}

// A slice with a very large step selects just its start element, in the last
// position as well as in the middle of a path.
func TestDefectSliceStepOverflow(t *testing.T) {
	data := oj.MustParseString(`[{"a":1},{"a":2},{"a":3}]`)

	for _, c := range []struct{ src, expect string }{
		// positive step, last fragment: i += step wraps to a negative index
		{src: `$[1:3:9223372036854775807]`, expect: `[{"a":2}]`},
		{src: `$[1:3:9223372036854775807].a`, expect: `[2]`}, // passes, the inner copy rounds instead of adding
		// negative step, inner fragment: i -= step wraps to a negative index
		{src: `$[2:0:-9223372036854775807]`, expect: `[{"a":3}]`}, // passes
		{src: `$[2:0:-9223372036854775807].a`, expect: `[3]`},
	} {
		if got := getOrPanic(jp.MustParseString(c.src), data); got != c.expect {
			t.Errorf("%s: expected %s, got %s", c.src, c.expect, got)
		}
	}
	// Same with an expression that is built instead of parsed.
	if got := getOrPanic(jp.R().S(1, 3, int(^uint(0)>>1)), data); got != `[{"a":2}]` {
		t.Errorf("built: expected [{\"a\":2}], got %s", got)
	}
}
