// goes into oj/
package oj_test

import (
	"bytes"
	"testing"

	"github.com/ohler55/ojg/gen"
	"github.com/ohler55/ojg/oj"
)

// A UTF-8 BOM is optional and an empty input means "no document" (no error).
// So a BOM followed by nothing must be treated like the empty input and like
// a BOM followed by whitespace: no error. All five front-ends reject it.
func TestDefectBOMOnly(t *testing.T) {
	type frontEnd struct {
		name string
		f    func(b []byte) error
	}
	fes := []frontEnd{
		{"oj.Parse", func(b []byte) error { _, err := oj.Parse(b); return err }},
		{"oj.Load", func(b []byte) error { _, err := oj.Load(bytes.NewReader(b)); return err }},
		{"oj.Parser.ParseReader", func(b []byte) error { _, err := (&oj.Parser{}).ParseReader(bytes.NewReader(b)); return err }},
		{"oj.Validator.Validate", func(b []byte) error { return (&oj.Validator{OnlyOne: true}).Validate(b) }},
		{"oj.Tokenizer.Parse", func(b []byte) error {
			tk := oj.Tokenizer{}
			tk.OnlyOne = true
			return tk.Parse(b, &oj.ZeroHandler{})
		}},
		{"gen.Parser.Parse", func(b []byte) error { _, err := (&gen.Parser{}).Parse(b); return err }},
		{"gen.Parser.ParseReader", func(b []byte) error { _, err := (&gen.Parser{}).ParseReader(bytes.NewReader(b)); return err }},
	}
	for _, fe := range fes {
		// The neighbours that fix the expectation: all accepted today.
		for _, ok := range []string{"", " ", "\xef\xbb\xbf ", "\xef\xbb\xbf\n", "\xef\xbb\xbf1"} {
			if err := fe.f([]byte(ok)); err != nil {
				t.Errorf("%s: %q unexpectedly rejected: %v", fe.name, ok, err)
			}
		}
		if err := fe.f([]byte("\xef\xbb\xbf")); err != nil {
			t.Errorf("%s: a BOM followed by nothing is rejected (%v) while the empty input and BOM+whitespace are accepted", fe.name, err)
		}
	}
}
