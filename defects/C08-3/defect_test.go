// goes into alt/
package alt_test

import (
	"fmt"
	"testing"

	"github.com/ohler55/ojg/alt"
)

// Two distinct types that have the same package path and the same name, which
// is legal for types declared inside functions.
func c08NewA() any {
	type Rec struct{ A int }
	return &Rec{}
}

func c08NewB() any {
	type Rec struct{ B int }
	return &Rec{}
}

// Both types are registered before any Recompose call, yet every Recompose into
// one of them rewrites the registry (composers map) of the Recomposer: a data
// race with any concurrent Recompose on the same Recomposer, and visible even
// sequentially because a lookup by create key changes its answer.
func TestDefectRegisteredTypesStillRewriteRegistry(t *testing.T) {
	rec := alt.MustNewRecomposer("type", nil)
	if err := rec.RegisterComposer(c08NewA(), nil); err != nil {
		t.Fatal(err)
	}
	if err := rec.RegisterComposer(c08NewB(), nil); err != nil {
		t.Fatal(err)
	}
	byKey := func() string {
		v, err := rec.Recompose(map[string]any{"type": "Rec", "A": 1, "B": 2})
		return fmt.Sprintf("%+v %v", v, err)
	}
	before := byKey()
	// Another caller recomposes its own data into the other registered type.
	if _, err := rec.Recompose(map[string]any{"A": 5}, c08NewA()); err != nil {
		t.Fatal(err)
	}
	after := byKey()
	if before != after {
		t.Errorf("the same Recompose call gives %s before and %s after another caller's Recompose: the registry was written during Recompose",
			before, after)
	}
}
