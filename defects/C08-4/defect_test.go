// goes into alt/
package alt_test

import (
	"fmt"
	"testing"

	"github.com/ohler55/ojg/alt"
)

type c08Item struct{ N int }

type c08Catalog struct {
	Groups map[string][]c08Item
}

// Registering a type registers the struct types of its fields as well (direct,
// pointer, slice, array and map fields), so that a Recomposer can be shared
// once its types are registered. The walk stops after one container level:
// c08Item in map[string][]c08Item is not registered, and the first Recompose
// calls register it on the fly, writing the unsynchronised registry while
// other goroutines read it. The write is visible without the race detector
// because a create-key lookup changes its answer.
func TestDefectNestedFieldTypeNotRegistered(t *testing.T) {
	rec := alt.MustNewRecomposer("type", map[any]alt.RecomposeFunc{&c08Catalog{}: nil})
	byKey := func() string {
		v, err := rec.Recompose(map[string]any{"type": "c08Item", "N": 1})
		return fmt.Sprintf("%T %v", v, err)
	}
	before := byKey()
	var c c08Catalog
	src := map[string]any{"Groups": map[string]any{"a": []any{map[string]any{"N": 1}}}}
	if _, err := rec.Recompose(src, &c); err != nil {
		t.Fatal(err)
	}
	after := byKey()
	if before != after {
		t.Errorf("the same Recompose call gives a %s before and a %s after recomposing the registered type: the registry was written during Recompose",
			before, after)
	}
}
