// goes into oj/
package oj_test

import (
	"encoding/json"
	"fmt"
	"testing"
	"time"

	"github.com/ohler55/ojg"
	"github.com/ohler55/ojg/alt"
	"github.com/ohler55/ojg/oj"
	"github.com/ohler55/ojg/pretty"
	"github.com/ohler55/ojg/sen"
)

type defect1Int int

// A field whose type is a named type of a basic kind (type X int, time.Duration,
// ...) makes every encoder fail when the struct is not addressable (passed by
// value, or held by value in a field of another struct): the reflective field
// functions assert the basic type on the interface value.
func TestDefectNamedBasicFieldByValue(t *testing.T) {
	type S struct{ A defect1Int }
	v := S{A: 1}
	want, _ := json.Marshal(v) // {"A":1}

	// by pointer everything is fine
	if got := oj.JSON(&v, &ojg.GoOptions); got != string(want) {
		t.Fatalf("by pointer: oj.JSON = %q, want %q", got, want)
	}
	// by value
	if got := oj.JSON(v, &ojg.GoOptions); got != string(want) {
		t.Errorf("by value: oj.JSON = %q, want %q", got, want)
	}
	if got := sen.String(v, &ojg.GoOptions); got != "{A:1}" {
		t.Errorf("by value: sen.String = %q, want {A:1}", got)
	}
	if got := pretty.JSON(v, &ojg.GoOptions); got != `{"A": 1}` {
		t.Errorf("by value: pretty.JSON = %q, want {\"A\": 1}", got)
	}
	func() {
		defer func() {
			if r := recover(); r != nil {
				t.Errorf("by value: alt.Decompose panics: %v", r)
			}
		}()
		if got := fmt.Sprint(alt.Decompose(v, &ojg.GoOptions)); got != "map[A:1]" {
			t.Errorf("by value: alt.Decompose = %s, want map[A:1]", got)
		}
	}()
	// a nested struct value is not addressable either, even under a pointer
	type W struct{ In struct{ D time.Duration } }
	w := &W{}
	w.In.D = 5
	wantW, _ := json.Marshal(w) // {"In":{"D":5}}
	if got := oj.JSON(w, &ojg.GoOptions); got != string(wantW) {
		t.Errorf("nested: oj.JSON = %q, want %q", got, wantW)
	}
}
