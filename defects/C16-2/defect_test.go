// goes into oj/
package oj_test

import (
	"testing"

	"github.com/ohler55/ojg/oj"
)

type c16Counter struct {
	N int64
}

// TestDefectUnmarshalInt64LosesPrecision: every int64 must survive
// oj.Marshal followed by oj.Unmarshal.
func TestDefectUnmarshalInt64LosesPrecision(t *testing.T) {
	for _, n := range []int64{1<<53 + 1, -9223372036854775807} {
		in := c16Counter{N: n}
		b, err := oj.Marshal(&in)
		if err != nil {
			t.Fatalf("marshal: %v", err)
		}
		var out c16Counter
		if err = oj.Unmarshal(b, &out); err != nil {
			t.Fatalf("unmarshal of %s: %v", b, err)
		}
		if out != in {
			t.Errorf("oj.Unmarshal(%s): got N=%d, want %d", b, out.N, in.N)
		}
	}
}
