// goes into oj/
package oj_test

import (
	"fmt"
	"testing"

	"github.com/ohler55/ojg/oj"
)

type c08WithIface struct {
	fmt.Stringer // embedded interface, nil here
	A            int
}

// The same call on the same value must give the same answer whoever called
// first. Building the field plan of this type panics (reported as an error to
// the first caller), but the half-built, empty plan stays in the struct cache
// and every later caller silently gets "{}" with a nil error.
func TestDefectFailedPlanStaysCached(t *testing.T) {
	first, err1 := oj.Marshal(&c08WithIface{A: 2})
	second, err2 := oj.Marshal(&c08WithIface{A: 2})
	if string(first) != string(second) || (err1 == nil) != (err2 == nil) {
		t.Errorf("first call: %q, %v; second identical call: %q, %v", first, err1, second, err2)
	}
}
