// goes into alt/
package alt_test

import (
	"strings"
	"testing"

	"github.com/ohler55/ojg/alt"
)

type DefectEmb struct {
	E string
}

type defectHolder struct {
	*DefectEmb // an embedded pointer to a struct, as encoding/json supports
	A          int
}

type DefectCount int

type defectHolder2 struct {
	DefectCount // an embedded named non-struct type
	A           int
}

// Recomposing plain parsed data into a user struct that embeds a pointer (or
// any non-struct type) has to either work or give an error about the type; it
// must not trip over a reflect misuse fault while indexing the fields.
func TestDefectRecomposeEmbeddedNonStruct(t *testing.T) {
	src := map[string]any{"A": 1}

	var h defectHolder
	_, err := alt.Recompose(src, &h)
	if err != nil && (strings.Contains(err.Error(), "reflect:") || strings.Contains(err.Error(), "runtime error")) {
		t.Errorf("Recompose into a struct with an embedded *struct reported a fault as its error: %s", err)
	}
	var h2 defectHolder2
	_, err = alt.Recompose(src, &h2)
	if err != nil && (strings.Contains(err.Error(), "reflect:") || strings.Contains(err.Error(), "runtime error")) {
		t.Errorf("Recompose into a struct with an embedded named int reported a fault as its error: %s", err)
	}
	func() {
		defer func() {
			if r := recover(); r != nil {
				if _, ok := r.(error); !ok {
					t.Errorf("MustRecompose panicked with a %T (%v), not with an error", r, r)
				}
			}
		}()
		var h3 defectHolder
		_ = alt.MustRecompose(src, &h3)
	}()
}
