// goes into pretty/
package pretty_test

import (
	"reflect"
	"testing"

	"github.com/ohler55/ojg/pretty"
	"github.com/ohler55/ojg/sen"
)

// With the align option on and a depth limit of 4 or more, an array of rows in
// which one row holds an object and another row holds an array at the same
// position loses the innermost members of the array: the 5 is not written.
func TestDefectAlignDropsMembersWhenColumnKindsDiffer(t *testing.T) {
	v := []any{
		[]any{map[string]any{"a": int64(1)}},
		[]any{[]any{[]any{int64(5)}}},
	}
	text := pretty.SEN(v, 80.4, true) // width 80, max depth 4, align
	got, err := sen.Parse([]byte(text))
	if err != nil {
		t.Fatalf("sen.Parse(%q) failed: %s", text, err)
	}
	if !reflect.DeepEqual(got, v) {
		t.Errorf("pretty.SEN(v, 80.4, true) wrote %q which reads back as %s, expected %s", text, sen.String(got), sen.String(v))
	}
}
