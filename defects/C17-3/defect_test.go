// goes into oj/
package oj_test

import (
	"fmt"
	"testing"

	"github.com/ohler55/ojg"
	"github.com/ohler55/ojg/jp"
	"github.com/ohler55/ojg/oj"
)

// With the documented package default ojg.DefaultNumConvMethod set to
// NumConvFloat64 the parsers turn a number too big for an int64 into a
// float64, the streaming matcher still hands out (and filters on) a
// json.Number.
func TestDefectMatchIgnoresDefaultNumConv(t *testing.T) {
	ojg.DefaultNumConvMethod = ojg.NumConvFloat64
	defer func() { ojg.DefaultNumConvMethod = ojg.NumConvNone }()

	doc := `[123456789012345678901234567890]`
	parsed, err := oj.ParseString(doc)
	if err != nil {
		t.Fatal(err)
	}
	for _, target := range []string{"$[0]", "$[?(@ > 5)]"} {
		x := jp.MustParseString(target)
		var want []string
		for _, loc := range x.Locate(parsed, 0) {
			v := loc.First(parsed)
			want = append(want, fmt.Sprintf("%s=%T %v", loc, v, v))
		}
		var got []string
		err = oj.MatchString(doc, func(p jp.Expr, v any) { got = append(got, fmt.Sprintf("%s=%T %v", p, v, v)) }, x)
		if err != nil {
			t.Fatal(err)
		}
		if fmt.Sprint(want) != fmt.Sprint(got) {
			t.Errorf("%s: parse-then-locate gives %v, Match gives %v", target, want, got)
		}
	}
}
