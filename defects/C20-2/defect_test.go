// goes into asm/
package asm_test

import (
	"testing"

	"github.com/ohler55/ojg/asm"
	"github.com/ohler55/ojg/sen"
)

// append is described as "Appends the second argument to the first argument
// which must be an array." Two appends to the same array must give two
// independent results. appendEval returns the Go append() of the evaluated
// list, so when the list has spare capacity (a list built by the list, split,
// each or getall functions usually has, as has any Go-built root) both results
// share one backing array and the second append overwrites the last element
// of the first result.
func TestDefectAppendResultsShareBackingArray(t *testing.T) {
	// only plan functions, root parsed from text
	p := asm.NewPlan(sen.MustParse([]byte(`[
      [set $.asm.l [list 1 2 3]]
      [set $.asm.a [append $.asm.l 4]]
      [set $.asm.b [append $.asm.l 5]]
    ]`)).([]any))
	root := map[string]any{"src": map[string]any{}}
	if err := p.Execute(root); err != nil {
		t.Fatal(err)
	}
	out := sen.String(root["asm"], &sen.Options{Sort: true})
	if out != `{a:[1 2 3 4] b:[1 2 3 5] l:[1 2 3]}` {
		t.Errorf("expected {a:[1 2 3 4] b:[1 2 3 5] l:[1 2 3]}, got %s", out)
	}

	// a source list with spare capacity in the root
	list := make([]any, 0, 8)
	list = append(list, int64(1), int64(2))
	p = asm.NewPlan(sen.MustParse([]byte(`[
      [set $.asm.a [append $.src.list x]]
      [set $.asm.b [append $.src.list y]]
    ]`)).([]any))
	root = map[string]any{"src": map[string]any{"list": list}}
	if err := p.Execute(root); err != nil {
		t.Fatal(err)
	}
	out = sen.String(root["asm"], &sen.Options{Sort: true})
	if out != `{a:[1 2 x] b:[1 2 y]}` {
		t.Errorf("expected {a:[1 2 x] b:[1 2 y]}, got %s", out)
	}
}
