// goes into oj/
package oj_test

import (
	"reflect"
	"testing"

	"github.com/ohler55/ojg/alt"
	"github.com/ohler55/ojg/oj"
)

// A document with a storage id ("_id") and a public id ("id").
type c16Doc struct {
	Id *string `json:"_id,omitempty"`
	ID *string `json:"id,omitempty"`
}

type c16Pair struct {
	AB *int
	Ab *int
}

// TestDefectOneMemberFillsTwoFields: a member of the encoded object belongs
// to exactly one field; a field whose own key is absent must stay zero.
func TestDefectOneMemberFillsTwoFields(t *testing.T) {
	s := "x"
	in := &c16Doc{ID: &s}
	b, err := oj.Marshal(in) // {"id":"x"}
	if err != nil {
		t.Fatalf("marshal: %v", err)
	}
	var out c16Doc
	if err = oj.Unmarshal(b, &out); err != nil {
		t.Fatalf("oj.Unmarshal(%s): %v", b, err)
	}
	if !reflect.DeepEqual(&out, in) {
		t.Errorf("oj.Unmarshal(%s): Id=%v ID=%v, want Id=nil ID=\"x\"", b, deref(out.Id), deref(out.ID))
	}

	one := 1
	in2 := &c16Pair{Ab: &one}
	d := alt.Decompose(in2) // {type: c16Pair, ab: 1}
	var out2 c16Pair
	if _, err = alt.Recompose(d, &out2); err != nil {
		t.Fatalf("alt.Recompose(%v): %v", d, err)
	}
	if !reflect.DeepEqual(&out2, in2) {
		t.Errorf("alt.Recompose(%v): AB set=%t Ab set=%t, want AB nil and Ab=1", d, out2.AB != nil, out2.Ab != nil)
	}
}

func deref(p *string) any {
	if p == nil {
		return nil
	}
	return *p
}
