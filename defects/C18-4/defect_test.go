// goes into alt/
package alt_test

import (
	"reflect"
	"testing"

	"github.com/ohler55/ojg"
	"github.com/ohler55/ojg/alt"
)

// The same []any appearing twice in simple data (a legal Go value, written by
// every writer as [[1,"abc"],[1,"abc"]]) is destroyed by the in place
// conversion: the second visit reads elements that the first visit already
// overwrote with gen.Node interface words through the unsafe cast.
// (The mirror image, gen.Array{x, x}.Alter() with x a gen.Array, dies with an
// unrecoverable SIGSEGV, so it is not exercised here.)
func TestDefectGenAlterSharedSlice(t *testing.T) {
	keep := &ojg.Options{}
	x := []any{int64(1), "abc"}
	v := []any{x, x}

	want := []any{[]any{int64(1), "abc"}, []any{int64(1), "abc"}}

	g := alt.GenAlter(v, keep)
	if s := g.Simplify(); !reflect.DeepEqual(want, s) {
		t.Fatalf("GenAlter lost the values: got %s, want [[1,\"abc\"],[1,\"abc\"]]", g.String())
	}
}
