// goes into sen/
package sen_test

import (
	"reflect"
	"strings"
	"testing"

	"github.com/ohler55/ojg/oj"
	"github.com/ohler55/ojg/sen"
)

type d3Handler struct {
	oj.ZeroHandler
	depth int
	docs  []any
}

func (h *d3Handler) Int(v int64) {
	if h.depth == 0 {
		h.docs = append(h.docs, v)
	}
}
func (h *d3Handler) ArrayStart() { h.depth++ }
func (h *d3Handler) ArrayEnd() {
	h.depth--
	if h.depth == 0 {
		h.docs = append(h.docs, []any{})
	}
}

// A number at the top level that is directly followed by a comment or by the
// opening bracket of the next document is never handed off by sen.Parser:
// the value (or the document after it) is lost without an error, for the
// []byte and the io.Reader entry point alike. sen.Tokenize delivers all of
// them.
func TestDefectSenParserTopLevelNumberBeforeCommentOrBracket(t *testing.T) {
	// single document followed by a comment
	v, err := sen.Parse([]byte("1//c"))
	if err != nil || v != int64(1) {
		t.Errorf("sen.Parse(\"1//c\") = (%#v, %v), expected 1 (sen.Tokenize delivers Int(1))", v, err)
	}
	v, err = sen.ParseReader(strings.NewReader("1//c"))
	if err != nil || v != int64(1) {
		t.Errorf("sen.ParseReader(\"1//c\") = (%#v, %v), expected 1", v, err)
	}
	// multi-document mode, sequence of documents
	for _, src := range []string{"1//c\n2", "8[]"} {
		var docs []any
		_, err = sen.Parse([]byte(src), func(x any) { docs = append(docs, x) })
		h := &d3Handler{}
		terr := sen.Tokenize([]byte(src), h)
		if (err == nil) != (terr == nil) || !reflect.DeepEqual(docs, h.docs) {
			t.Errorf("%q: sen.Parse with callback delivered %#v (%v), sen.Tokenize delivered %#v (%v)", src, docs, err, h.docs, terr)
		}
	}
}
