// goes into oj/
package oj_test

import (
	"encoding/json"
	"math"
	"math/big"
	"testing"

	"github.com/ohler55/ojg/gen"
	"github.com/ohler55/ojg/oj"
	"github.com/ohler55/ojg/sen"
)

type defect1Handler struct {
	oj.ZeroHandler
	got any
}

func (h *defect1Handler) Int(v int64)     { h.got = v }
func (h *defect1Handler) Float(v float64) { h.got = v }
func (h *defect1Handler) Number(v string) { h.got = json.Number(v) }

// The valid JSON number 1e309 (any literal above MaxFloat64 whose exponent is
// at most 1022) must come back as a value that denotes 1e309: no int64 and no
// float64 can, so only a json.Number / gen.Big with the same digits will do
// (which is what the parsers already return for 1e1023). Instead every parser
// and tokenizer returns float64 +Inf, which is not a number at all and which
// oj.JSON then writes as the invalid text "+Inf".
func TestDefectHugeExponentBecomesInf(t *testing.T) {
	const lit = "1e309"
	want, _ := new(big.Rat).SetString(lit)

	check := func(name string, v any, err error) {
		t.Helper()
		if err != nil {
			t.Errorf("%s: unexpected error %v", name, err)
			return
		}
		var text string
		switch tv := v.(type) {
		case float64:
			if math.IsInf(tv, 0) || math.IsNaN(tv) {
				t.Errorf("%s: %s parsed as float64 %v, the numeric value of the text is lost", name, lit, tv)
			} else {
				t.Errorf("%s: %s parsed as float64 %v", name, lit, tv)
			}
			return
		case gen.Float:
			t.Errorf("%s: %s parsed as gen.Float %v, the numeric value of the text is lost", name, lit, float64(tv))
			return
		case json.Number:
			text = string(tv)
		case gen.Big:
			text = string(tv)
		default:
			t.Errorf("%s: %s parsed as %T %v", name, lit, v, v)
			return
		}
		got, ok := new(big.Rat).SetString(text)
		if !ok || got.Cmp(want) != 0 {
			t.Errorf("%s: %s parsed as %q which does not denote the same number", name, lit, text)
		}
	}

	v, err := oj.Parse([]byte(lit))
	check("oj.Parse", v, err)

	gp := gen.Parser{}
	gv, err := gp.Parse([]byte(lit))
	check("gen.Parser.Parse", gv, err)

	v, err = sen.Parse([]byte(lit))
	check("sen.Parse", v, err)

	h := &defect1Handler{}
	err = oj.Tokenize([]byte(lit), h)
	check("oj.Tokenize", h.got, err)

	h = &defect1Handler{}
	err = sen.Tokenize([]byte(lit), h)
	check("sen.Tokenize", h.got, err)
}
