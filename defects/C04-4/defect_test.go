// goes into pretty/
package pretty_test

import (
	"strings"
	"testing"

	"github.com/ohler55/ojg/pretty"
)

// With Align, when the same column of the rows of an array holds an object in
// one row and an array in another, the elements of the nested array are
// silently lost: the 7 below is never written. (This is not the known
// trailing-comma fault of alignMap; the loss is in the row that holds only
// arrays, and it stays when that fault is repaired.)
func TestDefectAlignMixedColumnLosesElements(t *testing.T) {
	data := []any{
		[]any{map[string]any{"a": int64(1)}},
		[]any{[]any{[]any{int64(7)}}},
	}
	out := pretty.JSON(data, true, 80.5) // align, width 80, depth 5
	if !strings.Contains(out, "7") {
		t.Errorf("the element 7 of the second row is lost: %s", out)
	}
	if !strings.Contains(out, "[[[7]]]") {
		t.Errorf("second row must be written as [[[7]]]: %s", out)
	}

	// the same with object rows
	data = []any{
		map[string]any{"k": map[string]any{"a": int64(1)}},
		map[string]any{"k": []any{map[string]any{"b": int64(7)}}},
	}
	out = pretty.JSON(data, true, 80.5)
	if !strings.Contains(out, "7") {
		t.Errorf("the member b: 7 of the second row is lost: %s", out)
	}
}
