// goes into jp/
package jp_test

import (
	"fmt"
	"testing"

	"github.com/ohler55/ojg/jp"
)

// A path inside a filter that starts with a child instead of @ or $ is
// evaluated relative to the current element, exactly like @.a, but it is
// printed as the bare name, which the equation parser does not read.
func TestDefectRelativePathInFilter(t *testing.T) {
	x := jp.R().F(jp.Eq(jp.Get(jp.C("a")), jp.ConstInt(1)))
	data := []any{map[string]any{"a": 1}, map[string]any{"a": 2}}
	want := fmt.Sprintf("%v", x.Get(data))
	if want != "[map[a:1]]" { // the built expression works
		t.Fatalf("the built path selects %s", want)
	}
	text := x.String() // $[?(a == 1)]
	y, err := jp.ParseString(text)
	if err != nil {
		t.Fatalf("the printed path %s does not parse: %s", text, err)
	}
	if y.String() != text {
		t.Errorf("printed %s, parsed and printed again %s", text, y.String())
	}
	if got := fmt.Sprintf("%v", y.Get(data)); want != got {
		t.Errorf("path %s selects %s, the path parsed from its text selects %s", text, want, got)
	}
}
