// goes into alt/
package alt_test

import (
	"encoding/json"
	"reflect"
	"testing"

	"github.com/ohler55/ojg"
	"github.com/ohler55/ojg/alt"
	"github.com/ohler55/ojg/gen"
	"github.com/ohler55/ojg/oj"
)

// oj.Parser represents a number that does not fit an int64 or float64 as a
// json.Number. That simple value does not survive any of the conversions: it
// comes back as a plain string.
func TestDefectBigNumberBecomesString(t *testing.T) {
	keep := &ojg.Options{} // OmitNil false, nothing is dropped

	v, err := oj.ParseString(`[123456789012345678901234567890]`)
	if err != nil {
		t.Fatal(err)
	}
	if _, ok := v.([]any)[0].(json.Number); !ok {
		t.Fatalf("precondition: parser should give a json.Number, got %T", v.([]any)[0])
	}
	if d := alt.Dup(v, keep); !reflect.DeepEqual(v, d) {
		t.Errorf("Dup: element is a %T, original is a %T", d.([]any)[0], v.([]any)[0])
	}
	g := alt.Generify(v, keep)
	if s := g.Simplify(); !reflect.DeepEqual(v, s) {
		t.Errorf("Generify+Simplify: element is a %T, original is a %T", s.([]any)[0], v.([]any)[0])
	}
	// and the trip through the simple form is not lossless for the gen tree either
	if g2 := alt.Generify(g.Simplify(), keep); !reflect.DeepEqual(g, g2) {
		t.Errorf("Simplify+Generify: element is a %T, original is a %T", g2.(gen.Array)[0], g.(gen.Array)[0])
	}
	if a := alt.Alter(v, keep); !reflect.DeepEqual(json.Number("123456789012345678901234567890"), a.([]any)[0]) {
		t.Errorf("Alter: element is a %T, was a json.Number", a.([]any)[0])
	}
}
