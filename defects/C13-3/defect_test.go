// goes into jp/
package jp_test

import (
	"testing"

	"github.com/ohler55/ojg/jp"
)

type defectC13Tagged struct {
	Name string `json:"n"`
}

// Get resolves a struct member by field name or json tag, Set and Modify
// only by field name: the location Get selects is silently left unchanged.
func TestDefectC13JsonTagSetModify(t *testing.T) {
	x := jp.MustParseString("$.n")

	d := &defectC13Tagged{Name: "x"}
	if got := x.Get(d); len(got) != 1 || got[0] != "x" {
		t.Fatalf("Get: %v", got)
	}
	if err := x.Set(d, "y"); err != nil {
		t.Fatalf("Set: %v", err)
	}
	if got := x.First(d); got != "y" {
		t.Errorf("after $.n Set 'y' without error Get returns %v (struct %+v)", got, *d)
	}

	d = &defectC13Tagged{Name: "x"}
	calls := 0
	_, err := x.Modify(d, func(e any) (any, bool) { calls++; return "z", true })
	if err != nil {
		t.Fatalf("Modify: %v", err)
	}
	if got := x.First(d); calls != 1 || got != "z" {
		t.Errorf("after $.n Modify (modifier called %d times, no error) Get returns %v (struct %+v)", calls, got, *d)
	}

	// wrapped in simple data, as one member of a union
	w := map[string]any{"s": &defectC13Tagged{Name: "x"}}
	x = jp.MustParseString("$.s['n']")
	if err := x.Set(w, "y"); err != nil {
		t.Fatalf("Set: %v", err)
	}
	if got := x.First(w); got != "y" {
		t.Errorf("after $.s['n'] Set 'y' without error Get returns %v", got)
	}
}
