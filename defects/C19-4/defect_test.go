// goes into alt/
package alt_test

import (
	"testing"
	"time"

	"github.com/ohler55/ojg/alt"
)

type c19Event struct {
	Name string
	When *time.Time
}

// Two different times behind pointers are a genuine difference, as they are
// when given by value, but Diff, Compare and Match do not see it.
func TestDefectC19PointerToTime(t *testing.T) {
	t0 := time.Date(2020, 1, 1, 0, 0, 0, 0, time.UTC)
	t1 := t0.Add(24 * time.Hour)

	// Control: by value the times differ.
	if d := alt.Diff([]any{t0}, []any{t1}); len(d) != 1 {
		t.Fatalf("control: %v", d)
	}
	if d := alt.Diff(&t0, &t1); len(d) == 0 {
		t.Errorf("Diff(&t0, &t1) is empty for times a day apart")
	}
	a := map[string]any{"when": &t0}
	b := map[string]any{"when": &t1}
	if d := alt.Diff(a, b); len(d) != 1 {
		t.Errorf("Diff({when: &t0}, {when: &t1}) = %v, expected [when]", d)
	}
	if c := alt.Compare(a, b); c == nil {
		t.Errorf("Compare({when: &t0}, {when: &t1}) = nil, expected when")
	}
	if alt.Match(a, b) {
		t.Errorf("Match({when: &t0}, {when: &t1}) = true, expected false")
	}
	if d := alt.Diff(c19Event{Name: "x", When: &t0}, c19Event{Name: "x", When: &t1}); len(d) != 1 {
		t.Errorf("Diff(struct with When: &t0, struct with When: &t1) = %v, expected [when]", d)
	}
}
