// goes into asm/
package asm_test

import (
	"testing"

	"github.com/ohler55/ojg/asm"
	"github.com/ohler55/ojg/sen"
)

// The same plan on the same root document must give the same result on every
// run. A get (jp.First) or getall (jp.Get) with a wildcard over an object
// walks a Go map in its random order, so the assembled output changes from
// run to run. (set and del with "$.x.*" pick a random member the same way.)
func TestDefectWildcardOverObjectNotDeterministic(t *testing.T) {
	const src = `{a:1 b:2 c:3 d:4 e:5 f:6 g:7 h:8}`
	for _, planText := range []string{
		`[[set $.asm [get "$.src.*"]]]`,
		`[[set $.asm [getall "$.src.*"]]]`,
	} {
		p := asm.NewPlan(sen.MustParse([]byte(planText)).([]any))
		var first string
		for i := 0; i < 200; i++ {
			root := map[string]any{"src": sen.MustParse([]byte(src))}
			if err := p.Execute(root); err != nil {
				t.Fatalf("%s: %s", planText, err)
			}
			out := sen.String(root["asm"], &sen.Options{Sort: true})
			if i == 0 {
				first = out
			} else if out != first {
				t.Errorf("%s on %s: run 0 gave %s, run %d gave %s", planText, src, first, i, out)
				break
			}
		}
	}
}
