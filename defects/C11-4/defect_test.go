// goes into jp/
package jp_test

import (
	"fmt"
	"sort"
	"testing"

	"github.com/ohler55/ojg/jp"
)

// A typed map reached by reflection: a child fragment finds its members in
// every evaluator, a wildcard or a filter finds them only in Expr.Walk (and
// Remove); Get, First, Has and Locate select nothing.
func TestDefectWildcardTypedMap(t *testing.T) {
	data := map[string]int{"a": 1, "b": 2}
	simple := map[string]any{"a": 1, "b": 2} // the same data as a plain map

	if got := jp.MustParseString("$.a").Get(data); fmt.Sprint(got) != "[1]" {
		t.Fatalf("$.a: Get = %v", got)
	}
	for _, path := range []string{"$.*", "$[?(@ > 0)]", "$..[?(@ > 1)]"} {
		x := jp.MustParseString(path)
		expect := x.Get(simple)
		sortInts(expect)

		walked := []any{}
		x.Walk(data, func(_ jp.Expr, nodes []any) { walked = append(walked, nodes[len(nodes)-1]) })
		sortInts(walked)
		if fmt.Sprint(walked) != fmt.Sprint(expect) {
			t.Fatalf("%s: Walk visits %v, expected %v", path, walked, expect)
		}
		got := x.Get(data)
		sortInts(got)
		if fmt.Sprint(got) != fmt.Sprint(walked) {
			t.Errorf("%s: Get = %v but Walk visits %v (Get on map[string]any = %v)", path, got, walked, expect)
		}
		if has := x.Has(data); has != (0 < len(walked)) {
			t.Errorf("%s: Has = %v but Walk visits %v", path, has, walked)
		}
		if locs := x.Locate(data, 0); len(locs) != len(walked) {
			t.Errorf("%s: Locate = %v but Walk visits %v", path, locs, walked)
		}
	}
}

func sortInts(a []any) {
	sort.Slice(a, func(i, j int) bool {
		iv, _ := a[i].(int)
		jv, _ := a[j].(int)
		return iv < jv
	})
}
