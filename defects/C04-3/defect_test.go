// goes into oj/
package oj_test

import (
	"bytes"
	"fmt"
	"testing"

	"github.com/ohler55/ojg"
	"github.com/ohler55/ojg/gen"
	"github.com/ohler55/ojg/oj"
)

// OmitEmpty must drop the object members whose value is an empty string,
// array or object. The oj writers only recognise the simple types string,
// []any and map[string]any, so a gen value that is a member of a
// map[string]any is kept although it is empty (the same values are dropped
// when the parent is a gen.Object, and by the pretty writer).
func TestDefectOmitEmptyIgnoresGenMembers(t *testing.T) {
	data := map[string]any{
		"a": gen.String(""),
		"b": gen.Array{},
		"c": gen.Object{},
		"d": int64(1),
	}
	// reference: the same tree, all gen
	genData := gen.Object{
		"a": gen.String(""),
		"b": gen.Array{},
		"c": gen.Object{},
		"d": gen.Int(1),
	}
	for _, opt := range []ojg.Options{
		{OmitEmpty: true, Sort: true},
		{OmitEmpty: true, Sort: false},
		{OmitEmpty: true, Sort: true, Indent: 2},
		{OmitEmpty: true, Sort: false, Indent: 2},
	} {
		label := fmt.Sprintf("Sort=%v Indent=%d", opt.Sort, opt.Indent)
		o := opt
		want := oj.JSON(genData, &o) // {"d":1}
		o = opt
		if got := oj.JSON(data, &o); got != want {
			t.Errorf("oj.JSON %s: got %s, want %s", label, got, want)
		}
		o = opt
		if got, err := oj.Marshal(data, &o); err != nil || string(got) != want {
			t.Errorf("oj.Marshal %s: got %s (%v), want %s", label, got, err, want)
		}
		o = opt
		var b bytes.Buffer
		if err := oj.Write(&b, data, &o); err != nil || b.String() != want {
			t.Errorf("oj.Write %s: got %s (%v), want %s", label, b.String(), err, want)
		}
	}
}
