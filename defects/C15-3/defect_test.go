// goes into oj/
package oj_test

import (
	"encoding/json"
	"testing"

	"github.com/ohler55/ojg"
	"github.com/ohler55/ojg/alt"
	"github.com/ohler55/ojg/oj"
	"github.com/ohler55/ojg/pretty"
	"github.com/ohler55/ojg/sen"
)

// A map whose key type is not a string kind (map[int]T, map[bool]T, ...):
// alt.Decompose and pretty.JSON write the key as its text ("1"), as
// encoding/json does, but the map writers of oj and sen use
// reflect.Value.String(), which for a non-string value is the placeholder
// "<int Value>" - every member gets the same key.
func TestDefectMapNonStringKey(t *testing.T) {
	v := struct{ M map[int]string }{M: map[int]string{1: "a"}}
	want, _ := json.Marshal(&v) // {"M":{"1":"a"}}

	opt := ojg.GoOptions
	opt.HTMLUnsafe = true // keep < and > readable in the failure text
	dec := oj.JSON(alt.Decompose(&v, &opt), &opt)
	if dec != string(want) {
		t.Fatalf("alt.Decompose then oj.JSON = %s, want %s", dec, want)
	}
	if got := pretty.JSON(&v, &opt); got != `{"M": {"1": "a"}}` {
		t.Fatalf("pretty.JSON = %s", got)
	}
	if got := oj.JSON(&v, &opt); got != string(want) {
		t.Errorf("oj.JSON = %s, want %s", got, want)
	}
	ind := opt
	ind.Indent = 1
	if got := oj.JSON(&v, &ind); got != "{\n \"M\": {\n  \"1\": \"a\"\n }\n}" {
		t.Errorf("oj.JSON indented = %s", got)
	}
	if got := sen.String(&v, &opt); got != `{M:{"1":a}}` && got != `{M:{1:a}}` {
		t.Errorf("sen.String = %s, want {M:{\"1\":a}}", got)
	}
	// top level map as well
	if got := oj.JSON(map[int]int{7: 1}, &opt); got != `{"7":1}` {
		t.Errorf("oj.JSON(map[int]int{7: 1}) = %s, want {\"7\":1}", got)
	}
}
