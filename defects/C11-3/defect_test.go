// goes into jp/
package jp_test

import (
	"fmt"
	"testing"

	"github.com/ohler55/ojg/jp"
)

// Locate reports the matches of a filter over a list in reverse order, so
// Locate(data, 1) is the location of the last match and not of what First
// returns; Get, First and Expr.Walk all go from the front.
func TestDefectLocateFilterOrder(t *testing.T) {
	data := []any{1, 2, 3}
	x := jp.MustParseString("$[?(@ > 0)]")

	got := x.Get(data)
	if fmt.Sprint(got) != "[1 2 3]" {
		t.Fatalf("Get = %v", got)
	}
	walked := []string{}
	x.Walk(data, func(p jp.Expr, _ []any) { walked = append(walked, "$"+p.String()) })
	if fmt.Sprint(walked) != "[$[0] $[1] $[2]]" {
		t.Fatalf("Walk = %v", walked)
	}
	// Every location read back individually, in the order Locate reports them,
	// must give the results of Get.
	viaLocate := []any{}
	locs := x.Locate(data, 0)
	for _, loc := range locs {
		viaLocate = append(viaLocate, loc.Get(data)...)
	}
	if fmt.Sprint(viaLocate) != fmt.Sprint(got) {
		t.Errorf("Locate = %v which reads back as %v, Get = %v", locs, viaLocate, got)
	}
	// Limited to one location it must be where First is.
	first := x.First(data)
	one := x.Locate(data, 1)
	if len(one) != 1 || one[0].First(data) != first {
		t.Errorf("Locate(data, 1) = %v, First = %v found at $[0]", one, first)
	}
	// The same when the filter is not the last fragment.
	data2 := []any{map[string]any{"a": 1}, map[string]any{"a": 2}}
	x = jp.MustParseString("$[?(@.a > 0)].a")
	one = x.Locate(data2, 1)
	if len(one) != 1 || one[0].String() != "$[0].a" {
		t.Errorf("Locate(data, 1) = %v, First = %v found at $[0].a", one, x.First(data2))
	}
}
