// goes into jp/
package jp_test

import (
	"fmt"
	"testing"

	"github.com/ohler55/ojg/jp"
)

type defectC11Node struct {
	A    int
	Next *defectC11Node // nil: the end of the list
}

// A struct reached by reflection that has a nil pointer member: Get answers
// $..A and $.*.* but Locate and Expr.Walk, which must report the paths of what
// Get selects, panic in reflect.
func TestDefectLocateWalkNilPointerMember(t *testing.T) {
	data := &defectC11Node{A: 1}
	for _, c := range []struct {
		path   string
		expect []string // normalized paths of the values Get selects
	}{
		{path: "$..A", expect: []string{"$.A"}},
		{path: "$.*.*", expect: []string{}},
		{path: "$.Next.*", expect: []string{}},
	} {
		x := jp.MustParseString(c.path)
		got := x.Get(data)
		if len(got) != len(c.expect) {
			t.Fatalf("%s: Get returned %v, expected %d values", c.path, got, len(c.expect))
		}
		func() {
			defer func() {
				if r := recover(); r != nil {
					t.Errorf("%s: Locate panics (%v) while Get returns %v", c.path, r, got)
				}
			}()
			locs := []string{}
			for _, loc := range x.Locate(data, 0) {
				locs = append(locs, loc.String())
			}
			if fmt.Sprint(locs) != fmt.Sprint(c.expect) {
				t.Errorf("%s: Locate = %v, expected %v", c.path, locs, c.expect)
			}
		}()
		func() {
			defer func() {
				if r := recover(); r != nil {
					t.Errorf("%s: Walk panics (%v) while Get returns %v", c.path, r, got)
				}
			}()
			walked := []string{}
			x.Walk(data, func(p jp.Expr, _ []any) { walked = append(walked, "$."+p.String()) })
			if fmt.Sprint(walked) != fmt.Sprint(c.expect) {
				t.Errorf("%s: Walk = %v, expected %v", c.path, walked, c.expect)
			}
		}()
	}
}
