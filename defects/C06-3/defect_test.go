// goes into asm/
package asm_test

import (
	"strings"
	"testing"

	"github.com/ohler55/ojg/asm"
	"github.com/ohler55/ojg/sen"
)

// substr checks neither that the start argument is present nor that it lies
// inside the string. A plan with a start past the end of the string (or with
// the start missing) has to finish with a value or a proper error, not with
// an index or slice bounds fault.
func TestDefectSubstrBounds(t *testing.T) {
	for _, src := range []string{
		"[set $.asm [substr abc 5]]",   // start past the end, no length
		"[set $.asm [substr abc 5 1]]", // start past the end, with length
		"[set $.asm [substr abc]]",     // start missing: "expects two or three arguments"
	} {
		plan, ok := sen.MustParse([]byte(src)).([]any)
		if !ok {
			t.Fatalf("%s is not a list", src)
		}
		p := asm.NewPlan(plan)
		root := map[string]any{"src": map[string]any{}}
		err := p.Execute(root)
		if err != nil && strings.Contains(err.Error(), "runtime error") {
			t.Errorf("%s: Execute reported a runtime fault as its error: %s", src, err)
		}
	}
}
