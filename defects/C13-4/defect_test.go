// goes into jp/
package jp_test

import (
	"testing"

	"github.com/ohler55/ojg/gen"
	"github.com/ohler55/ojg/jp"
	"github.com/ohler55/ojg/sen"
)

// A union before the last fragment whose members name the same element
// (0 and -1 of a one element list, or a repeated key) makes Remove visit the
// parent twice: the element that moved into the freed position, which Get
// does not select, is removed as well.
func TestDefectC13UnionSameParentTwiceRemove(t *testing.T) {
	x := jp.MustParseString("$[0,-1][0]")
	data := []any{[]any{1, 2, 3}}
	for _, v := range x.Get(data) {
		if sen.String(v) != "1" {
			t.Fatalf("Get selects only $[0][0], got %v", x.Get(data))
		}
	}
	result, err := x.Remove(data)
	if err != nil {
		t.Fatal(err)
	}
	if got := sen.String(result); got != "[[2 3]]" {
		t.Errorf("$[0,-1][0] Remove [[1 2 3]]: Get selects only $[0][0], expected [[2 3]], got %s", got)
	}

	x = jp.MustParseString("$['a','a'][-1]")
	result, err = x.Remove(map[string]any{"a": []any{1, 2, 3}})
	if err != nil {
		t.Fatal(err)
	}
	if got := sen.String(result); got != "{a:[1 2]}" {
		t.Errorf("$['a','a'][-1] Remove {a:[1 2 3]}: expected {a:[1 2]}, got %s", got)
	}

	x = jp.MustParseString("$[0,-1][0]")
	result, err = x.Remove(gen.Array{gen.Array{gen.Int(1), gen.Int(2), gen.Int(3)}})
	if err != nil {
		t.Fatal(err)
	}
	if got := sen.String(result); got != "[[2 3]]" {
		t.Errorf("gen: $[0,-1][0] Remove [[1 2 3]]: expected [[2 3]], got %s", got)
	}
}
