// goes into jp/
package jp_test

import (
	"testing"

	"github.com/ohler55/ojg/gen"
	"github.com/ohler55/ojg/jp"
)

// A modifier that replaces the selected value with nil (JSON null) works on
// simple data and Set(data, nil) works on gen data, but Modify on gen data
// fails with an interface conversion error.
func TestDefectC13ModifyGenToNil(t *testing.T) {
	toNil := func(any) (any, bool) { return nil, true }

	for _, path := range []string{"$.a", "$[*]", "$['a']", "$.b[0]", "$.b[*]", "$.b[0,1]", "$.b[?(@ == 2)]"} {
		x := jp.MustParseString(path)

		simple := map[string]any{"a": 1, "b": []any{2}}
		if _, err := x.Modify(simple, toNil); err != nil {
			t.Fatalf("simple %s: %v", path, err)
		}
		for _, v := range x.Get(simple) {
			if v != nil {
				t.Fatalf("simple %s: expected nil, got %v", path, v)
			}
		}
		// the same through Set on gen data is fine
		node := gen.Object{"a": gen.Int(1), "b": gen.Array{gen.Int(2)}}
		if _, ok := x[len(x)-1].(*jp.Filter); !ok {
			if err := x.Set(node, nil); err != nil {
				t.Fatalf("gen Set %s: %v", path, err)
			}
		}
		node = gen.Object{"a": gen.Int(1), "b": gen.Array{gen.Int(2)}}
		if _, err := x.Modify(node, toNil); err != nil {
			t.Errorf("gen %s: Modify to nil works on simple data but on gen data returns: %v", path, err)
		}
	}
}
