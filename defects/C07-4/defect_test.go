// goes into oj/
package oj_test

import (
	"testing"

	"github.com/ohler55/ojg/oj"
)

// oj.JSON, oj.Write (and sen.String, sen.Bytes, sen.Write) without an options
// argument take a Writer from a sync.Pool. The pool's New copies
// oj.DefaultOptions into the Writer once; a recycled Writer keeps that copy
// for ever. So what oj.JSON(data) returns after the package defaults were
// changed depends on whether an earlier call left a Writer in the pool.
func TestDefectPooledWriterKeepsOldDefaultOptions(t *testing.T) {
	data := map[string]any{"a": 1}

	_ = oj.JSON(data) // an earlier, unrelated call: a Writer is in the pool now

	orig := oj.DefaultOptions
	defer func() { oj.DefaultOptions = orig }()
	oj.DefaultOptions.Indent = 2

	// What a fresh instance made the way the pool makes them gives.
	want := (&oj.Writer{Options: oj.DefaultOptions}).JSON(data)
	got := oj.JSON(data)
	if got != want {
		t.Errorf("oj.JSON after oj.DefaultOptions.Indent = 2: got %q from the recycled writer, a fresh one gives %q", got, want)
	}
}
