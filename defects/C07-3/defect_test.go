// goes into oj/
package oj_test

import (
	"testing"

	"github.com/ohler55/ojg/oj"
)

type defect3Int int

// Two identical struct types, so that the test does not depend on what other
// tests have put in the process-wide struct cache already.
type defect3A struct{ N defect3Int }
type defect3B struct{ N defect3Int }

type defect3Outer struct{ B defect3B }

// What a write of &T{...} gives depends on which call saw type T first: if T
// was first met as a by-value field of another struct, its cached field
// functions are the reflection based ones for good (the embedded flag of the
// first builder is frozen in the cache), and those fail for a named int.
func TestDefectStructCacheDependsOnFirstUse(t *testing.T) {
	wr := oj.Writer{Options: oj.DefaultOptions}

	// Type A: first use is at the top level.
	a := wr.JSON(&defect3A{N: 3})

	// Type B: first use is as a by-value field, then the very same call as for A.
	_ = wr.JSON(&defect3Outer{})
	b := wr.JSON(&defect3B{N: 3})

	if a != b {
		t.Errorf("same call, same options, identical types: %q when the type is first seen at the top level, %q when an earlier call saw it as a field", a, b)
	}
}
