// goes into jp/
package jp_test

import (
	"testing"

	"github.com/ohler55/ojg/jp"
)

// A typed map (any map that is not map[string]any) in the middle of a path:
// Get, First, Locate and Walk step into it, Has does not and answers false.
func TestDefectHasTypedMapMidPath(t *testing.T) {
	for _, c := range []struct {
		path string
		data any
	}{
		{path: "$.a.b", data: map[string]any{"a": map[string]int{"b": 1}}},
		{path: "$[0].b", data: []any{map[string]string{"b": "x"}}},
		{path: "$.*.b", data: map[string]any{"a": map[string]int{"b": 1}}},
		{path: "$['a'].b", data: map[string]any{"a": map[string]int{"b": 1}}},
		{path: "$[0:1].b", data: []any{map[string]int{"b": 1}}},
		{path: "$.a.b.c", data: map[string]map[string]map[string]int{"a": {"b": {"c": 1}}}},
	} {
		x := jp.MustParseString(c.path)
		got := x.Get(c.data)
		_, found := x.FirstFound(c.data)
		locs := x.Locate(c.data, 0)
		if len(got) != 1 || !found || len(locs) != 1 {
			t.Fatalf("%s: expected one match, Get = %v, FirstFound = %v, Locate = %v", c.path, got, found, locs)
		}
		if !x.Has(c.data) {
			t.Errorf("%s: Has = false although Get = %v (Locate = %v)", c.path, got, locs)
		}
	}
}
