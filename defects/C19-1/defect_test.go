// goes into alt/
package alt_test

import (
	"testing"

	"github.com/ohler55/ojg/alt"
	"github.com/ohler55/ojg/gen"
)

// A big number and a string with the same characters are different JSON
// values ({"a":123456789012345678901234567890} versus
// {"a":"123456789012345678901234567890"}), yet inside a gen container Diff,
// Compare and Match see no difference.
func TestDefectC19GenBigVersusString(t *testing.T) {
	var p gen.Parser
	a, err := p.Parse([]byte(`{"a":123456789012345678901234567890}`))
	if err != nil {
		t.Fatal(err)
	}
	b, err := p.Parse([]byte(`{"a":"123456789012345678901234567890"}`))
	if err != nil {
		t.Fatal(err)
	}
	if _, ok := a.(gen.Object)["a"].(gen.Big); !ok {
		t.Fatalf("setup: expected a gen.Big, got %T", a.(gen.Object)["a"])
	}
	if _, ok := b.(gen.Object)["a"].(gen.String); !ok {
		t.Fatalf("setup: expected a gen.String, got %T", b.(gen.Object)["a"])
	}
	// At the root the two leaves are reported as different (control).
	if d := alt.Diff(a.(gen.Object)["a"], b.(gen.Object)["a"]); len(d) == 0 {
		t.Fatalf("control: the leaves themselves should differ")
	}
	if d := alt.Diff(a, b); len(d) != 1 || len(d[0]) != 1 || d[0][0] != "a" {
		t.Errorf("Diff(number, string) = %v, expected [a]", d)
	}
	if c := alt.Compare(a, b); c == nil {
		t.Errorf("Compare(number, string) = nil, expected a")
	}
	if alt.Match(a, b) {
		t.Errorf("Match(number, string) = true, expected false")
	}
	// Same with hand built arrays.
	if d := alt.Diff(gen.Array{gen.Big("123")}, gen.Array{gen.String("123")}); len(d) == 0 {
		t.Errorf("Diff([Big 123], [String 123]) is empty")
	}
}
