// goes into jp/
package jp_test

import (
	"fmt"
	"math"
	"testing"

	"github.com/ohler55/ojg/jp"
)

// jp.ConstFloat accepts every float64. The infinities and NaN are printed as
// +Inf, -Inf and NaN, none of which the equation parser reads.
func TestDefectNonFiniteFloatRoundTrip(t *testing.T) {
	for _, f := range []float64{math.Inf(1), math.Inf(-1), math.NaN()} {
		eq := jp.Lt(jp.Get(jp.A().C("a")), jp.ConstFloat(f))
		x := jp.R().F(eq)
		text := x.String()
		y, err := jp.ParseString(text)
		if err != nil {
			t.Errorf("the printed path %s does not parse: %s", text, err)
			continue
		}
		if y.String() != text {
			t.Errorf("printed %s, parsed and printed again %s", text, y.String())
		}
		data := []any{map[string]any{"a": 1}, map[string]any{"a": "x"}}
		want := fmt.Sprintf("%v", x.Get(data))
		got := fmt.Sprintf("%v", y.Get(data))
		if want != got {
			t.Errorf("path %s selects %s, the path parsed from its text selects %s", text, want, got)
		}
	}
}
