// goes into jp/
package jp_test

import (
	"testing"

	"github.com/ohler55/ojg/jp"
)

// A parenthesised negation used as the left operand of a binary operator is
// printed without its parentheses. The printed text, read by the same parser,
// is a different script (the ! then covers the whole binary expression), so
// the script does not combine !, && and parentheses as it prints.
func TestDefectNotOperandPrintedWithoutParens(t *testing.T) {
	data := map[string]any{"a": false, "b": false}

	s := jp.MustNewScript("(!@.a) && @.b")
	printed := s.String()
	s2 := jp.MustNewScript(printed)

	// (!false) && false is false.
	if s.Match(data) {
		t.Fatalf("(!@.a) && @.b should be false on %v", data)
	}
	if s.Match(data) != s2.Match(data) {
		t.Fatalf("script %q prints as %q which reads back as %q: Match on %v is %v for the script and %v for its printed form",
			"(!@.a) && @.b", printed, s2.String(), data, s.Match(data), s2.Match(data))
	}
}

// The same with a script made by the builder functions.
func TestDefectNotOperandPrintedWithoutParensBuilder(t *testing.T) {
	data := map[string]any{"a": "y"}

	eq := jp.Eq(jp.Not(jp.Get(jp.A().C("a"))), jp.ConstString("x")) // (!@.a) == 'x', never true
	s := eq.Script()
	for _, printed := range []string{s.String(), eq.String()} {
		s2 := jp.MustNewScript(printed)
		if s.Match(data) != s2.Match(data) {
			t.Fatalf("printed form %q reads back as %q: Match on %v is %v for the script and %v for its printed form",
				printed, s2.String(), data, s.Match(data), s2.Match(data))
		}
	}
}
