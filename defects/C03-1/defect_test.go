// goes into sen/
package sen_test

import (
	"fmt"
	"reflect"
	"strings"
	"testing"

	"github.com/ohler55/ojg/oj"
	"github.com/ohler55/ojg/sen"
)

type d1Handler struct {
	oj.ZeroHandler
	ev []string
}

func (h *d1Handler) String(v string) { h.ev = append(h.ev, fmt.Sprintf("String(%q)", v)) }

// A SEN document may start with an unquoted token. When the first character
// of that token is in U+F000..U+FFFF (first UTF-8 byte 0xEF, e.g. the
// fullwidth letters) the []byte entry points mistake it for a broken BOM and
// fail, the io.Reader entry points parse it.
func TestDefectSenParseLeadingEFByteIsNotABOM(t *testing.T) {
	src := "ｈｉ" // fullwidth "hi", bytes EF BD 88 EF BD 89

	vb, eb := sen.Parse([]byte(src))
	vr, er := sen.ParseReader(strings.NewReader(src))
	if (eb == nil) != (er == nil) || !reflect.DeepEqual(vb, vr) {
		t.Errorf("sen.Parse(%q) = (%#v, %v) but sen.ParseReader = (%#v, %v)", src, vb, eb, vr, er)
	}

	hb := &d1Handler{}
	eb = sen.Tokenize([]byte(src), hb)
	hr := &d1Handler{}
	er = sen.TokenizeLoad(strings.NewReader(src), hr)
	if (eb == nil) != (er == nil) || !reflect.DeepEqual(hb.ev, hr.ev) {
		t.Errorf("sen.Tokenize(%q) = (%v, %v) but sen.TokenizeLoad = (%v, %v)", src, hb.ev, eb, hr.ev, er)
	}
}
