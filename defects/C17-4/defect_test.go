// goes into oj/
package oj_test

import (
	"fmt"
	"testing"

	"github.com/ohler55/ojg/jp"
	"github.com/ohler55/ojg/oj"
)

// The path handed to the callback is the handler's own working path: the
// library rewrites it in place while it reads on, so a path the callback kept
// no longer names the location it was reported for. (Paths of filter hits are
// fresh copies, only leaf and whole-container matches are affected.)
func TestDefectMatchPathRewrittenAfterCallback(t *testing.T) {
	var kept []jp.Expr
	var atCall []string
	err := oj.MatchString(`[1,[2],3]`, func(p jp.Expr, _ any) {
		kept = append(kept, p)
		atCall = append(atCall, p.String())
	}, jp.MustParseString("$[*]"))
	if err != nil {
		t.Fatal(err)
	}
	var after []string
	for _, p := range kept {
		after = append(after, p.String())
	}
	if fmt.Sprint(atCall) != "[$[0] $[1] $[2]]" {
		t.Fatalf("paths at call time: %v", atCall)
	}
	if fmt.Sprint(atCall) != fmt.Sprint(after) {
		t.Errorf("paths reported %v, the same Expr values after Match returned read %v", atCall, after)
	}
}
