// goes into jp/
package jp_test

import (
	"fmt"
	"regexp"
	"testing"

	"github.com/ohler55/ojg/jp"
)

// A regex constant whose source holds a control character (here a newline) is
// printed through the JSON string escaper without the backslash: /a\nb/
// (a, newline, b) is printed as /anb/, which is a different regex.
func TestDefectRegexControlCharRoundTrip(t *testing.T) {
	rx := regexp.MustCompile("a\nb") // a, a real newline, b
	eq := jp.Regex(jp.Get(jp.A().C("a")), jp.ConstRegex(rx))
	x := jp.R().F(eq)
	text := x.String()

	y, err := jp.ParseString(text)
	if err != nil {
		t.Fatalf("the printed path %q does not parse: %s", text, err)
	}
	if y.String() != text {
		t.Errorf("printed %q, parsed and printed again %q", text, y.String())
	}
	data := []any{
		map[string]any{"a": "a\nb"},
		map[string]any{"a": "anb"},
	}
	want := fmt.Sprintf("%q", x.Get(data))
	got := fmt.Sprintf("%q", y.Get(data))
	if want != got {
		t.Errorf("path %q selects %s, the path parsed from its text selects %s", text, want, got)
	}
}

// The other control characters (and U+007F, U+2028, U+2029) are printed as a
// \u escape which the regex compiler of the parser rejects.
func TestDefectRegexControlCharParse(t *testing.T) {
	rx := regexp.MustCompile("a\x01b")
	text := jp.Regex(jp.Get(jp.A().C("a")), jp.ConstRegex(rx)).Script().String()
	if _, err := jp.NewScript(text); err != nil {
		t.Errorf("the printed script %q does not parse: %s", text, err)
	}
}
