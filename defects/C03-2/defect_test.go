// goes into sen/
package sen_test

import (
	"fmt"
	"testing"

	"github.com/ohler55/ojg/oj"
	"github.com/ohler55/ojg/sen"
)

type d2Handler struct {
	oj.ZeroHandler
	ev []string
}

func (h *d2Handler) Int(v int64) { h.ev = append(h.ev, fmt.Sprintf("Int(%d)", v)) }

// sen.Parse is a one-document parse (OnlyOne). The tokenizer in the same
// configuration (OnlyOne) must accept the same single document. A // comment
// in front of the document makes the tokenizer believe a document has already
// been seen.
func TestDefectSenTokenizerOnlyOneLeadingComment(t *testing.T) {
	src := "// c\n1"

	v, err := sen.Parse([]byte(src))
	if err != nil || v != int64(1) {
		t.Fatalf("sen.Parse(%q) = (%#v, %v), expected 1", src, v, err)
	}
	h := &d2Handler{}
	tk := sen.Tokenizer{OnlyOne: true}
	err = tk.Parse([]byte(src), h)
	if err != nil || fmt.Sprint(h.ev) != "[Int(1)]" {
		t.Errorf("sen.Tokenizer{OnlyOne: true}.Parse(%q) = (%v, %v), expected [Int(1)] and no error as sen.Parse gives 1", src, h.ev, err)
	}
}
