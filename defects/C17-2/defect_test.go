// goes into oj/
package oj_test

import (
	"fmt"
	"testing"

	"github.com/ohler55/ojg/jp"
	"github.com/ohler55/ojg/oj"
)

// A repeated member name: the parsed document has one location $.a (the last
// value wins), the streaming matcher calls back once per occurrence.
func TestDefectMatchDuplicateKey(t *testing.T) {
	doc := `{"a":1,"a":2}`
	x := jp.MustParseString("$.a")
	parsed, err := oj.ParseString(doc)
	if err != nil {
		t.Fatal(err)
	}
	var want []string
	for _, loc := range x.Locate(parsed, 0) {
		want = append(want, fmt.Sprintf("%s=%v", loc, loc.First(parsed)))
	}
	var got []string
	if err = oj.MatchString(doc, func(p jp.Expr, v any) { got = append(got, fmt.Sprintf("%s=%v", p, v)) }, x); err != nil {
		t.Fatal(err)
	}
	if fmt.Sprint(want) != fmt.Sprint(got) {
		t.Errorf("parse-then-locate gives %v, Match gives %v", want, got)
	}
}
