// goes into oj/
package oj_test

import (
	"fmt"
	"testing"

	"github.com/ohler55/ojg/oj"
)

type defect2Str struct{}

func (defect2Str) String() string { return "x" }

// A struct with an embedded (exported) interface. Building the field tables
// for it panics (reflect: NumField of non-struct type), but buildStruct has
// already put the still empty sinfo in the process-wide struct cache.
type defect2Embed struct {
	fmt.Stringer
	X int
}

// The same call, with the same arguments, twice: the first one fails, the
// second one "succeeds" with {} because it finds the half-built cache entry
// the failed call left behind.
func TestDefectFailedWriteLeavesEmptyStructInfo(t *testing.T) {
	v := &defect2Embed{Stringer: defect2Str{}, X: 3}

	out1, err1 := oj.Marshal(v)
	out2, err2 := oj.Marshal(v)
	if string(out1) != string(out2) || (err1 == nil) != (err2 == nil) {
		t.Errorf("identical calls differ:\n first:  %q, %v\n second: %q, %v", out1, err1, out2, err2)
	}
	// Also on a Writer of one's own, with options that avoid the failing code
	// path altogether had they been the first to see the type.
	wr := oj.Writer{Options: oj.DefaultOptions}
	if s := wr.JSON(v); s == "{}" {
		t.Errorf("a writer used after the failed call writes %s for a struct with X=%d", s, v.X)
	}
}
