// goes into alt/
package alt_test

import (
	"testing"

	"github.com/ohler55/ojg/alt"
)

type c19Leaf struct{ A int }

// A value compared with itself has no differences. A nil pointer (as a root,
// as an element or as a member) is reported as different from the very same
// nil pointer.
func TestDefectC19NilPointerDiffersFromItself(t *testing.T) {
	var np *c19Leaf

	if d := alt.Diff(np, np); len(d) != 0 {
		t.Errorf("Diff(nil pointer, same nil pointer) = %#v, expected none", d)
	}
	a := map[string]any{"x": []any{int64(1), np}}
	b := map[string]any{"x": []any{int64(1), np}}
	if d := alt.Diff(a, b); len(d) != 0 {
		t.Errorf("Diff(a, a) = %v, expected none", d)
	}
	if c := alt.Compare(a, b); c != nil {
		t.Errorf("Compare(a, a) = %v, expected nil", c)
	}
	if !alt.Match(a, b) {
		t.Errorf("Match(a, a) = false, expected true")
	}
	// Control: non-nil pointers to equal values are equal.
	if d := alt.Diff([]any{&c19Leaf{A: 1}}, []any{&c19Leaf{A: 1}}); len(d) != 0 {
		t.Fatalf("control: %v", d)
	}
}
