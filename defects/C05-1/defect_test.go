// goes into jp/
package jp_test

import (
	"testing"

	"github.com/ohler55/ojg/jp"
	"github.com/ohler55/ojg/oj"
)

// A $ inside a filter that is itself nested in the path of another filter has
// to be the document, exactly like a $ in a first level filter.
func TestDefectNestedFilterRoot(t *testing.T) {
	doc := oj.MustParseString(`{"x":1,"list":[{"id":"first","a":[{"b":1}]},{"id":"second","x":2,"a":[{"b":2}]}]}`)

	// Only the first member of list has an element of a whose b equals the
	// x of the document (1).
	for _, src := range []string{
		`$.list[?(@.a[?(@.b == $.x)] exists true)].id`,
		`$.list[?(count(@.a[?(@.b == $.x)]) == 1)].id`,
		`$.list[?(@.a[?(@.b == $.x)].b == 1)].id`,
	} {
		got := oj.JSON(jp.MustParseString(src).Get(doc))
		if got != `["first"]` {
			t.Errorf("%s: expected [\"first\"], got %s", src, got)
		}
	}
	// The same selection with the constant written out works, so it is only
	// the binding of $ that is wrong.
	if got := oj.JSON(jp.MustParseString(`$.list[?(@.a[?(@.b == 1)] exists true)].id`).Get(doc)); got != `["first"]` {
		t.Errorf("control: expected [\"first\"], got %s", got)
	}
}
