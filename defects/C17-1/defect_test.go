// goes into oj/
package oj_test

import (
	"fmt"
	"testing"

	"github.com/ohler55/ojg/jp"
	"github.com/ohler55/ojg/oj"
)

// An integer in 9223372036854775800..9223372036854775807 (it fits an int64) is
// handed to the Match callback as an int64 while parsing the same document
// gives a json.Number.
func TestDefectMatchTopInt64(t *testing.T) {
	for _, doc := range []string{`[9223372036854775807]`, `[9223372036854775800]`, `{"a":9223372036854775807}`} {
		x := jp.MustParseString("$.*")
		parsed, err := oj.ParseString(doc)
		if err != nil {
			t.Fatal(err)
		}
		want := x.First(parsed)
		var got []any
		if err = oj.MatchString(doc, func(_ jp.Expr, v any) { got = append(got, v) }, x); err != nil {
			t.Fatal(err)
		}
		if len(got) != 1 {
			t.Fatalf("%s: %d callbacks", doc, len(got))
		}
		if fmt.Sprintf("%T %v", want, want) != fmt.Sprintf("%T %v", got[0], got[0]) {
			t.Errorf("%s: parse-then-get gives %T %v, Match gives %T %v", doc, want, want, got[0], got[0])
		}
	}
}
