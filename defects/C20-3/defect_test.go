// goes into asm/
package asm_test

import (
	"testing"

	"github.com/ohler55/ojg/asm"
	"github.com/ohler55/ojg/oj"
	"github.com/ohler55/ojg/sen"
)

// eq: "Returns true if all the argument are equal." The oj and sen parsers
// give every number of 19 or more digits (math.MaxInt64 included) as a
// json.Number. equalVals has no case for that kind and falls through with
// false, so a number is not equal to itself and neq of a value with itself is
// true.
func TestDefectEqualOfBigNumberWithItself(t *testing.T) {
	for _, src := range []string{
		`{"a":12345678901234567890}`,
		`{"a":9223372036854775807}`,
		`{"a":0.1234567890123456789}`,
	} {
		p := asm.NewPlan(sen.MustParse([]byte(`[
          [set $.asm.eq [eq $.src.a $.src.a]]
          [set $.asm.neq [neq $.src.a $.src.a]]
          [set $.asm.list [eq [list $.src.a] [list $.src.a]]]
        ]`)).([]any))
		root := map[string]any{"src": oj.MustParseString(src)}
		if err := p.Execute(root); err != nil {
			t.Fatal(err)
		}
		out := sen.String(root["asm"], &sen.Options{Sort: true})
		if out != `{eq:true list:true neq:false}` {
			t.Errorf("src %s: expected {eq:true list:true neq:false}, got %s", src, out)
		}
	}
	// the same with the number as a literal of the plan
	p := asm.NewPlan(sen.MustParse([]byte(`[[set $.asm [eq 9223372036854775807 9223372036854775807]]]`)).([]any))
	root := map[string]any{}
	if err := p.Execute(root); err != nil {
		t.Fatal(err)
	}
	if root["asm"] != true {
		t.Errorf("[eq 9223372036854775807 9223372036854775807]: expected true, got %v", root["asm"])
	}
}
