#!/bin/bash
# run.sh <Cnn> <quick|thorough|replay> [path]
# Rebuilds the checker from /repo's current working tree (hooks on) and runs one check.
set -u
cd "$(dirname "$0")"
export GOFLAGS=-mod=mod GOPROXY=off GOSUMDB=off GOTOOLCHAIN=local
export GOCACHE="${GOCACHE:-/verif/.cache/go-build}"
export VERIF_ROOT="$(pwd)"
ID="${1:?property id}"; MODE="${2:-quick}"
[ -f go.sum ] || cp /repo/go.sum go.sum 2>/dev/null || true
mkdir -p bin evidence replays
BIN="bin/vcheck.$$"
trap 'rm -f "$BIN"' EXIT
OVL="$(tools/overlay.sh "$VERIF_ROOT/.work/overlay.$$")"
trap 'rm -f "$BIN"; rm -rf "$VERIF_ROOT/.work/overlay.$$"' EXIT
MODFILE=""
if [ -n "${VERIF_REPO:-}" ] && [ "$VERIF_REPO" != "/repo" ]; then
  # developer convenience: check a scratch copy / worktree of ojg instead of /repo (never used by MANIFEST commands)
  sed "s#=> /repo#=> $VERIF_REPO#" go.mod > "$VERIF_ROOT/.work/overlay.$$/alt.mod"
  cp go.sum "$VERIF_ROOT/.work/overlay.$$/alt.sum" 2>/dev/null || true
  MODFILE="-modfile=$VERIF_ROOT/.work/overlay.$$/alt.mod"
  echo "NOTE: checking $VERIF_REPO instead of /repo" >&2
fi
if ! go build $MODFILE -tags verif -overlay "$OVL" -o "$BIN" ./cmd/vcheck 2> bin/build.$$.log; then
  cat bin/build.$$.log >&2; rm -f bin/build.$$.log
  echo "BUILD-FAILED property=$ID (the tree does not compile with -tags verif)" >&2
  exit 2
fi
rm -f bin/build.$$.log
if [ "$ID" = "C08" ]; then
  # the free-running complement of C08 needs the race detector compiled in
  export VERIF_RACE_BIN="$VERIF_ROOT/bin/racepass.$$"
  trap 'rm -f "$BIN" "$VERIF_RACE_BIN"; rm -rf "$VERIF_ROOT/.work/overlay.$$"' EXIT
  if ! go build $MODFILE -race -gcflags=all=-d=checkptr=0 -tags verif -overlay "$OVL" -o "$VERIF_RACE_BIN" ./cmd/racepass 2> bin/build.$$.log; then
    cat bin/build.$$.log >&2; rm -f bin/build.$$.log
    echo "BUILD-FAILED property=$ID (race pass binary)" >&2
    exit 2
  fi
  rm -f bin/build.$$.log
fi
case "$MODE" in
  quick|thorough) "$BIN" run "$ID" "$MODE"; exit $? ;;
  replay) "$BIN" replay "$ID" "${3:?replay path}"; exit $? ;;
  *) echo "unknown mode $MODE" >&2; exit 2 ;;
esac
