#!/bin/bash
# run.sh <Cnn> <quick|thorough|replay> [path]
# Rebuilds the checker from /repo's current working tree (hooks on) and runs one check.
set -u
cd "$(dirname "$0")"
export GOFLAGS=-mod=mod GOPROXY=off GOSUMDB=off GOTOOLCHAIN=local
export GOCACHE="${GOCACHE:-/verif/.cache/go-build}"
export VERIF_ROOT="$(pwd)"
ID="${1:?property id}"; MODE="${2:-quick}"
[ -f go.sum ] || cp /repo/go.sum go.sum 2>/dev/null || true
mkdir -p bin evidence replays
BIN="bin/vcheck.$$"
trap 'rm -f "$BIN"' EXIT
OVL="$(tools/overlay.sh "$VERIF_ROOT/.work/overlay.$$")"
trap 'rm -f "$BIN"; rm -rf "$VERIF_ROOT/.work/overlay.$$"' EXIT
if ! go build -tags verif -overlay "$OVL" -o "$BIN" ./cmd/vcheck 2> bin/build.$$.log; then
  cat bin/build.$$.log >&2; rm -f bin/build.$$.log
  echo "BUILD-FAILED property=$ID (the tree does not compile with -tags verif)" >&2
  exit 2
fi
rm -f bin/build.$$.log
if [ "$ID" = "C08" ]; then
  # the free-running complement of C08 needs the race detector compiled in
  export VERIF_RACE_BIN="$VERIF_ROOT/bin/racepass.$$"
  trap 'rm -f "$BIN" "$VERIF_RACE_BIN"; rm -rf "$VERIF_ROOT/.work/overlay.$$"' EXIT
  if ! go build -race -gcflags=all=-d=checkptr=0 -tags verif -overlay "$OVL" -o "$VERIF_RACE_BIN" ./cmd/racepass 2> bin/build.$$.log; then
    cat bin/build.$$.log >&2; rm -f bin/build.$$.log
    echo "BUILD-FAILED property=$ID (race pass binary)" >&2
    exit 2
  fi
  rm -f bin/build.$$.log
fi
case "$MODE" in
  quick|thorough) "$BIN" run "$ID" "$MODE"; exit $? ;;
  replay) "$BIN" replay "$ID" "${3:?replay path}"; exit $? ;;
  *) echo "unknown mode $MODE" >&2; exit 2 ;;
esac
