#!/bin/bash
# tools/seedfinal.sh — re-runs every collected seeded change against the check that is recorded as catching it (the first one
# listed in seeded/<id>/meta.json; the own property's check otherwise), on the current /repo and the current checks, and appends
# the verdicts to /tmp/seed-out/matrix.jsonl. Prints the ones that are not caught. With two arguments <i> <n> only every n-th change
# starting at the i-th is run (n of these can run side by side).
cd "$(dirname "$0")/.."
I="${1:-0}"; N="${2:-1}"; k=0
for m in seeded/*/meta.json; do
  k=$((k+1)); [ $((k % N)) -eq "$I" ] || continue
  id=$(python3 -c "import json;print(json.load(open('$m'))['id'])")
  prop=${id%-*}; n=${id#*-}
  ck=$(python3 -c "
import json,re
d=json.load(open('$m'))['detection']['caught_by']
m=re.match(r'(C\d\d)', d)
print(m.group(1) if m else '$prop')")
  line=$(tools/seedrecord.sh "$ck" "$prop" "$n")
  echo "$line" | grep -q '"violations":0' && echo "NOT-CAUGHT $id by $ck: $line" | cut -c1-200
done
echo SEEDFINAL-DONE
