#!/usr/bin/env python3
"""Regenerates the generated tables of DESIGN.md (§8.3 findings, §8.4 seeded changes) from known_findings.txt and seeded/*/meta.json."""
import json, collections, glob, os
ROOT = os.path.dirname(os.path.dirname(os.path.abspath(__file__)))

def findings():
    openf = collections.defaultdict(list); fixed = collections.defaultdict(list)
    for l in open(os.path.join(ROOT, 'known_findings.txt')):
        l = l.strip()
        if l.startswith('{'):
            d = json.loads(l); openf[d['property']].append(d)
        elif l.startswith('fixed:'):
            parts = l.split(' ', 3); fixed[parts[1].split('=')[1]].append((parts[2], parts[3]))
    out = ["### 8.3 Defects found on the pinned tree: repaired and open\n\n",
           "Every entry below was first seen as a `VIOLATION` of a check on the unchanged tree, reproduced against the real code with the\nwitness shown, and then either repaired (one `fix:` commit each, the 854 tests unedited and green) or listed. The\nauthoritative list with signatures is `known_findings.txt`; this table is generated from it by `tools/design_tables.py`.\n\n",
           "| property | repaired (`fix:` commit — what failed) | open (why not repaired) |\n|---|---|---|\n"]
    for p in sorted(set(list(openf) + list(fixed))):
        fx = "<br>".join("`%s` %s" % (c, w.replace('|', '\\|')[:170]) for c, w in fixed[p]) or "—"
        seen = []
        for d in openf[p]:
            w = d['what'][:200].replace('|', '\\|')
            if w not in seen:
                seen.append(w)
        out.append("| %s | %s | %s |\n" % (p, fx, "<br>".join(seen) or "—"))
    return ''.join(out)

def seeded():
    rows = []
    for m in sorted(glob.glob(os.path.join(ROOT, 'seeded', '*', 'meta.json'))):
        d = json.load(open(m))
        det = d.get('detection', {})
        rows.append("| %s | %s | %s | %s | %s |\n" % (d['id'], d['summary'][:150].replace('|', '\\|'), d['needs'][:140].replace('|', '\\|'),
                    det.get('caught_by', '—'), det.get('note', '').replace('|', '\\|')))
    metas = [json.load(open(m)) for m in sorted(glob.glob(os.path.join(ROOT, 'seeded', '*', 'meta.json')))]
    tot = len(metas)
    own = sum(1 for d in metas if d['detection'].get('caught_by', '').split(',')[0].strip() == d['property'])
    notc = sum(1 for d in metas if d['detection'].get('caught_by', '').startswith('not caught') or d['detection'].get('caught_by') == 'MISSED')
    stren = sum(1 for d in metas if 'strengthened' in d['detection'].get('note', ''))
    stats = ("The changes were collected in rounds of three per property (ids -1..-3: first round; -4..-6: second round, sub-agents told to avoid the obvious "
             "places; -7..-9: third round, sub-agents told to look for interactions; -10..-12: fourth round, sub-agents told to look at rarely used entry points and options, "
             "order / duplication / identity of results, error results, empty inputs and arithmetic on lengths; -13..-15: fifth round, sub-agents told to look at state that "
             "survives between calls, member counts and map order, numeric and Unicode boundaries, and the least used of several hand-copied variants; -16..-18: sixth round, one change of each of three kinds per property: two cooperating sites that are each harmless alone, a violation that needs a quantity to cross a fixed internal limit, and a particular sequence of calls or rare combination of options, entry point and data). Of the %d confirmed changes %d are caught by the check of their own property, "
             "%d by the check of another property (where the defect belongs, e.g. reuse defects by C07), %d are not caught (reason in the note); %d were missed on the "
             "first run and led to a general extension of a check.\n\n" % (tot, own, tot - own - notc, notc, stren))
    head = ["### 8.4 Seeded property-breaking changes and which check catches which\n\n", stats,
            "Each change was written by a fresh sub-agent that saw only the property text and a scratch worktree, never `/verif`. Each was\nconfirmed independently (`tools/seedverify.sh`: the 854 tests pass with it, its demonstration fails with it and passes without) and\nthen run against the checks (`tools/seedtest.sh`, quick tier, on a scratch worktree; `/repo` untouched). `seeded/<id>/` holds\n`patch.diff`, the demonstration and `meta.json`. \"strengthened\" means the first run missed it and the check was extended (what\nwas added is in the note); the extension is general (a new family / alphabet / audit), never a special case for the seed.\n\n",
            "| seed | change | needs | caught by (quick) | note |\n|---|---|---|---|---|\n"]
    return ''.join(head + rows)

def asbuilt():
    man = json.load(open(os.path.join(ROOT, 'MANIFEST.json')))
    rows = []
    for c in man['checks']:
        pid = c['property_id']
        ev = {}
        try:
            ev = json.load(open(os.path.join(ROOT, 'evidence', pid + '.json')))
        except Exception:
            pass
        cov = ev.get('coverage', {})
        n = cov.get('states') and ("%s states / %s transitions" % (cov.get('states'), cov.get('transitions'))) or ("%s evaluations" % cov.get('evaluations'))
        rows.append("| %s | %s | %s | %s | %s | %s s | %s |\n" % (pid, c['level_claimed']['category'], c.get('technique', '')[:110].replace('|', '\\|'),
                    str(cov.get('bound', ''))[:170].replace('|', '\\|'), n, ev.get('wall_s', '?'), cov.get('known_findings_listed', 0)))
    head = ["### 8.5 As-built summary (generated from MANIFEST.json and the committed quick-tier evidence)\n\n",
            "| id | level | deciding technique | quick bound completed | size of the quick run | wall | open findings listed |\n|---|---|---|---|---|---|---|\n"]
    return ''.join(head + rows)

def main():
    p = os.path.join(ROOT, 'DESIGN.md')
    s = open(p).read()
    marker = "## Appendix A — summary"
    for title, gen in (("### 8.3 Defects found", findings), ("### 8.4 Seeded property-breaking", seeded), ("### 8.5 As-built summary", asbuilt)):
        text = gen()
        if title in s:
            a = s.index(title)
            nxt = [s.index(t, a + 10) for t in ("### 8.", marker) if t in s[a + 10:]]
            b = min(nxt)
            s = s[:a] + text + "\n" + s[b:]
        else:
            s = s.replace(marker, text + "\n" + marker)
    open(p, 'w').write(s)
    print("DESIGN.md tables regenerated")

if __name__ == '__main__':
    main()
