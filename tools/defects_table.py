#!/usr/bin/env python3
"""Regenerates DESIGN.md section 8.7 (the defect hunt) from defects/INDEX.json."""
import json, os
from collections import Counter
ROOT = os.path.dirname(os.path.dirname(os.path.abspath(__file__)))
rows = json.load(open(os.path.join(ROOT, 'defects', 'INDEX.json')))
names = {'fixed': 'repaired', 'listed': 'listed', 'listed-family': 'same family as a listed finding',
         'reading': 'left open by the statement as DESIGN 2.5 reads it', 'outside': 'outside the statement',
         'not-reached': '**within the statement, not reached by the check**', 'unsorted': 'unsorted'}
tab = '| id | reported | verdict | why |\n|---|---|---|---|\n' + ''.join('| %s | %s | %s | %s |\n' % (k, t, names[s], w) for k, s, t, w in rows)
cnt = Counter(s for _, s, _, _ in rows)
sec = '''### 8.7 A defect hunt on the unchanged tree (what the checks do not reach)

After the sixth round the same kind of sub-agent was used the other way round: twenty fresh sub-agents, one per property,
each given the property text, a scratch worktree and the list of *listed* findings of that property, were asked for inputs
on which the library **as it is** violates the property, each with a failing test. They came back with %d reports
(`defects/<id>/defect.json` + `defect_test.go`, index in `defects/INDEX.json`). Every report was read against the
statement as DESIGN 2.5 reads it. The verdicts: %d repaired (each first made visible to a check by a general extension
of its alphabet, then repaired with its own `fix:` commit, see `known_findings.txt`), %d listed (already, or newly after
an extension made the check see them) or of the family of a listed finding, %d left open by the statement, %d outside
it, and **%d within the statement that no check reaches**. The last group is the honest measure of what bounded
enumeration over *my* alphabets misses: almost all of them need a *kind of value the alphabet does not have* (a named
basic type as a field type, an embedded non-struct type, a nil map inside a document, a nil pointer member of a struct, a
modifier that returns nil, a regex constant with a control character, a repeated member name, a `$` operand inside a
nested filter, a slice step near the int limits), not a deeper bound. They are not in `known_findings.txt`, which is
keyed by check signatures: a check that cannot produce the signature cannot list it. What was taken up in the time that
was left: an alternation among the patterns of C12 (`match` anchoring repaired), a token function that keeps its
arguments in the sen.Parser kind of C07 (repaired), proc fragments behind other fragments in C06 (`readProc` repaired), one
list appended to twice in the step sequences of C20 (`append`, and `eq` / `include` repaired), a named bool, integers
beyond 2^53 and two fields that differ in case among the named cases of C16 (one repaired, two listed), one-field types
over `map[int]int` and `map[string]string` in C15 (two repaired), and table cells that hold an object in one row and an
array in the other one level down, with a depth limit beyond the tables (the aligned-table data loss, listed for C10).
Named basic types as field types were tried in C15 and taken out again: every encoder fails on them by value, in
fourteen signatures that all end in the kind of the field, which the prefix form of a listed finding cannot name.

%s
''' % (len(rows), cnt['fixed'], cnt['listed'] + cnt['listed-family'], cnt['reading'], cnt['outside'], cnt['not-reached'], tab)
p = os.path.join(ROOT, 'DESIGN.md'); s = open(p).read()
marker = '## Appendix A — summary'
if '### 8.7 A defect hunt' in s:
    i = s.index('### 8.7 A defect hunt'); j = s.index(marker); s = s[:i] + sec + '\n' + s[j:]
else:
    s = s.replace(marker, sec + '\n' + marker, 1)
open(p, 'w').write(s)
print(dict(cnt))
