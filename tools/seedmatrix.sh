#!/bin/bash
# tools/seedmatrix.sh [ids...] — run each seeded change under /tmp/seed-out (or /verif/seeded) against the quick check of its own
# property and append one JSON line per seed to /tmp/seed-out/matrix.jsonl
OUT=/tmp/seed-out/matrix.jsonl
for ID in "$@"; do
  for p in /tmp/seed-out/$ID/patch-*.diff; do
    n=$(basename "$p" .diff | sed 's/patch-//')
    log=/tmp/seed-out/$ID/matrix-$n.log
    SEEDTEST_SHOW=3 VERIF_BUDGET_S=150 timeout 1200 "$(dirname "$0")/seedtest.sh" "$ID" "$p" quick > "$log" 2>&1
    v=$(grep -oE 'SEEDTEST violations: [0-9]+' "$log" | grep -oE '[0-9]+$'); rc=$(grep -oE 'SEEDTEST exit=[0-9]+' "$log" | grep -oE '[0-9]+$')
    sigs=$(grep "  sig=" "$log" | head -3 | sed 's/^  sig=//; s/ count=.*//' | python3 -c "import sys,json; print(json.dumps([l.strip() for l in sys.stdin]))")
    echo "{\"seed\":\"$ID-$n\",\"check\":\"$ID\",\"tier\":\"quick\",\"violations\":${v:-0},\"exit\":${rc:-2},\"sigs\":$sigs}" >> "$OUT"
  done
done
echo MATRIX-DONE >> "$OUT"
