#!/bin/bash
# tools/seedimport.sh <Cnn> — takes the second-round results of a seeding sub-agent from /tmp/seed2-out/<Cnn>/ (patch-N.diff,
# demo-N_test.go, meta-N.json, N=1..3), files them as N+3 under /tmp/seed-out/<Cnn>/, confirms each independently
# (tools/seedverify.sh, appended to verify.log) and runs the property's quick check against it (appended to matrix.jsonl).
ID="$1"; SRC=${SEED2_SRC:-/tmp/seed2-out}/$ID; DST=/tmp/seed-out/$ID; OUT=/tmp/seed-out/matrix.jsonl; OFF=${SEED_OFFSET:-3}
mkdir -p "$DST"
for n in 1 2 3; do
  [ -f "$SRC/patch-$n.diff" ] || continue
  m=$((n+OFF))
  cp "$SRC/patch-$n.diff" "$DST/patch-$m.diff"; cp "$SRC/demo-${n}_test.go" "$DST/demo-${m}_test.go"
  sed "s#/tmp/mut2-$ID/#/tmp/mut-$ID/#g" "$SRC/meta-$n.json" > "$DST/meta-$m.json"
  "$(dirname "$0")/seedverify.sh" "$ID" "$m" | tail -1 | tee -a /tmp/seed-out/verify.log
  log=$DST/matrix-$m.log
  SEEDTEST_SHOW=3 VERIF_BUDGET_S=150 timeout 1500 "$(dirname "$0")/seedtest.sh" "$ID" "$DST/patch-$m.diff" quick > "$log" 2>&1
  v=$(grep -oE 'SEEDTEST violations: [0-9]+' "$log" | grep -oE '[0-9]+$'); rc=$(grep -oE 'SEEDTEST exit=[0-9]+' "$log" | grep -oE '[0-9]+$')
  sigs=$(grep "  sig=" "$log" | head -3 | sed 's/^  sig=//; s/ count=.*//' | python3 -c "import sys,json; print(json.dumps([l.strip() for l in sys.stdin]))")
  echo "{\"seed\":\"$ID-$m\",\"check\":\"$ID\",\"tier\":\"quick\",\"violations\":${v:-0},\"exit\":${rc:-2},\"sigs\":$sigs}" | tee -a "$OUT" | cut -c1-260
done
